"""D19 (C16): the stamps of ONE client can enter the common log out of order -- `tryAcquire` reads
`time.time()` on the caller's thread, `_autoAcquireThread` reads it on its own thread, both BEFORE the
command is enqueued -- and the pinned `_ReplLockManagerImpl` then moves the time of a held lock backwards.
A holder whose replica lags (partition) still sees the later time and believes it holds the lock while
another client, whose replica has the earlier time, legitimately acquires it: two clients consider the
lock held at the same instant of the common clock, nobody released.

Two replays on the real code:
  (A) replica level: the hand-ordered log  acquire(L,a,100) prolongate(a,104) acquire(L,a,101)
      acquire(L,b,112)  with U=10 applied to two real `_ReplLockManagerImpl` instances, a's replica
      stopping after the second entry;
  (B) wrapper level: two real `ReplLockManager` objects under a virtual clock; client a calls
      `tryAcquire(L)` a second time (the usual "am I still the owner" idiom) and is pre-empted by its own
      prolongation thread right after reading the clock -- a legal interleaving of its two threads,
      produced deterministically by running one pass of the real `_autoAcquireThread` body from the clock
      hook.  The submitted order (FIFO of the node's command queue) is the log order.
On a tree with fixes/D19-lock-time-monotone.diff both replays are silent."""
import time

from harness.corr import locks_common as lc

PROPERTIES = ["C16"]
ORDER = 10

SIG = "batteries.ReplLockManager:stamp-reorder-mutex"
SIG_OTHER = "batteries.ReplLockManager:mutex-broken"       # exclusion fails on this log for another reason
U = 10


def replay_replicas(bat):
    log = [("acq", 1, 1, 100), ("pro", 1, 104), ("acq", 1, 1, 101), ("acq", 1, 2, 112)]
    ra, rb = bat._ReplLockManagerImpl(U), bat._ReplLockManagerImpl(U)
    rets = []
    for cmd in log[:2]:
        lc.apply_cmd(ra, cmd)
    back = False
    for i, cmd in enumerate(log):
        rets.append(lc.apply_cmd(rb, cmd))
        if i == 2:
            back = lc.table_of(rb) == [(1, 1, 101)]      # the lock time went back from 104 to 101
    now = 112
    a_holds = ra.isAcquired(lc.lock_name(1), lc.client_name(1), now)
    b_holds = rb.isAcquired(lc.lock_name(1), lc.client_name(2), now)
    obs = {"log": [lc.cmd_str(c) for c in log], "prefix_a": 2, "prefix_b": 4, "now": now,
           "table_a": lc.table_of(ra), "table_b": lc.table_of(rb), "returns_b": rets,
           "a_considers_held": a_holds, "b_considers_held": b_holds, "lock_time_moved_backwards": back}
    return (a_holds and b_holds), obs


def replay_wrappers(bat):
    clock = lc.VClock(100)
    trace = []
    with lc.Patched(bat, clock):
        ma, ia, sa = lc.make_manager(bat, U, 1)
        mb, ib, sb = lc.make_manager(bat, U, 2)
        log = []
        answers = {"a": [], "b": []}

        def commit(so):
            """the node's queue is FIFO; the leader appends in arrival order"""
            while so.queue:
                log.append(so.queue.pop(0) + (so.owner,))

        applied = {"a": 0, "b": 0}

        def advance(name, impl, owner, upto):
            while applied[name] < upto:
                cmd, cb, submitter = log[applied[name]]
                r = lc.apply_cmd(impl, cmd)
                applied[name] += 1
                if cb is not None and submitter == owner:     # the submitting node delivers the callback
                    cb(r, 0)

        # t=100: a acquires L1, everybody applies it, a is told True
        ma.tryAcquire(lc.lock_name(1), callback=lambda r, e: answers["a"].append((clock.now, r, e)))
        commit(sa)
        advance("a", ia, 1, len(log))
        advance("b", ib, 2, len(log))
        trace.append(("t=100 a.tryAcquire", list(answers["a"])))
        # t=101: a calls tryAcquire(L1) again; right after `attemptTime = time.time()` (=101) its
        # prolongation thread runs one pass at t=104 and enqueues prolongate(a,104) first
        clock.now = 101

        def preempt(_v):
            clock.now = 104
            lc.tick_once(bat, ma, clock)
        clock.on_time = preempt
        ma.tryAcquire(lc.lock_name(1), callback=lambda r, e: answers["a"].append((clock.now, r, e)))
        submitted = list(sa.submitted)
        commit(sa)
        # a's node has applied the log up to prolongate(a,104) and is then cut off
        advance("a", ia, 2, 2)
        advance("b", ib, 2, len(log))
        # t=112: b acquires
        clock.now = 112
        mb.tryAcquire(lc.lock_name(1), callback=lambda r, e: answers["b"].append((clock.now, r, e)))
        commit(sb)
        advance("b", ib, 2, len(log))
        a_holds = ma.isAcquired(lc.lock_name(1))
        b_holds = mb.isAcquired(lc.lock_name(1))
        ma.destroy()
        mb.destroy()
    released = [c for c in submitted if c[0] == "rel"]
    obs = {"submitted_by_a": [lc.cmd_str(c) for c in submitted], "log": [lc.cmd_str(e[0]) for e in log],
           "applied_a": applied["a"], "applied_b": applied["b"], "now": 112,
           "answers": answers, "table_a": lc.table_of(ia), "table_b": lc.table_of(ib),
           "a_considers_held": a_holds, "b_considers_held": b_holds, "a_released": bool(released)}
    told_b = any(r is True for (_, r, _) in answers["b"])
    return (a_holds and b_holds and told_b and not released), obs


def run(ctx):
    t0 = time.time()
    bat = lc.load_batteries(ctx.repo)
    viols = []
    va, oa = replay_replicas(bat)
    vb, ob = replay_wrappers(bat)
    if va:
        viols.append({"signature": SIG if oa["lock_time_moved_backwards"] else SIG_OTHER,
                      "what": "replica level: log %s, U=%d; at common time %d client 1 (replica after 2 entries, lock time 104) "
                              "and client 2 (replica after 4 entries, lock time 112) both get isAcquired=True; client 1 never released"
                              % (oa["log"], U, oa["now"]),
                      "replay": {"witness": "d19", "level": "replicas", "observed": oa}})
    if vb:
        viols.append({"signature": SIG if oa["lock_time_moved_backwards"] else SIG_OTHER,
                      "what": "wrapper level: ReplLockManager a submitted %s (stamp 104 before stamp 101); a's replica applied %d "
                              "entries, b's %d; at t=%d a.isAcquired and b.isAcquired are both True, b was told True, a never released"
                              % (ob["submitted_by_a"], ob["applied_a"], ob["applied_b"], ob["now"]),
                      "replay": {"witness": "d19", "level": "wrappers", "observed": ob}})
    # the reorder itself must have been produced by the real wrapper, else the witness is not testing D19
    res = {"name": "witness.d19_stamp_reorder", "cases": 2, "distinct": 2, "violations": viols,
           "samples": [oa, ob],
           "coverage": {"tripped": bool(viols), "wrapper_submitted_out_of_order":
                        ob["submitted_by_a"][-2:] == ["pro:1:104", "acq:1:1:101"]},
           "wall_s": round(time.time() - t0, 2)}
    if not res["coverage"]["wrapper_submitted_out_of_order"]:
        res["inconclusive"] = "the real wrapper did not produce the out-of-order submission: %s" % ob["submitted_by_a"]
    return res


def replay(ctx, violation):
    bat = lc.load_batteries(ctx.repo)
    level = (violation.get("replay") or {}).get("level", "replicas")
    v, obs = replay_replicas(bat) if level == "replicas" else replay_wrappers(bat)
    return {"violated": bool(v), "observed": obs}
