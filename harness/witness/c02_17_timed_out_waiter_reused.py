"""C02 / C19 witness for seeded change C02-17: a blocking call that reports SUCCESS returns the result of ITS OWN command.

Schedule (one single-voter node, real threads, real clock): the application thread makes a blocking call
`add(5, sync=True, timeout=0.1)` while nobody ticks - it raises 'Timeout', the command stays queued (open outcome); the same
thread then makes a second blocking call `add(100, sync=True, timeout=20)`; a second thread starts ticking: `add(5)` is
applied at one position, `add(100)` (which takes 0.2 s to execute) at the next.  The late callback of the first command
must not wake the second call: its result is what `add(100)` returns at its position (105).  A waiter object shared
between the calls of one thread (an "allocation saving") hands it the 5."""
import threading
import time

from harness.corr import queue_common as qc

PROPERTIES = ["C02", "C19"]
ORDER = 13

SIG = "sync-call:success-with-the-result-of-an-earlier-timed-out-command"


def scenario(ctx):
    so = qc.load(ctx)
    from pysyncobj import SyncObjConf
    T = qc.make_transport_class(so)
    info = {}
    with qc.real_runtime(so, seed=ctx.seed):
        class Counter(so.SyncObj):
            def __init__(self):
                super().__init__("n1:1", [], SyncObjConf(autoTick=False, appendEntriesUseBatch=True), transportClass=T)
                self.value = 0
                self.history = []

            @so.replicated
            def add(self, n):
                if n == 100:
                    time.sleep(0.2)
                self.value += n
                self.history.append(n)
                return self.value
        obj = Counter()
        try:
            obj.add(5, sync=True, timeout=0.1)
            info["first"] = "returned"
        except so.SyncObjException as e:
            info["first"] = "raised:%s" % (e.errorCode,)
        stop = threading.Event()

        def ticker():
            time.sleep(0.2)
            while not stop.is_set():
                try:
                    obj.doTick(0.0)
                except Exception as e:
                    info["tick_error"] = repr(e)[:120]
                time.sleep(0.005)
        th = threading.Thread(target=ticker)
        th.daemon = True
        th.start()
        try:
            res = obj.add(100, sync=True, timeout=20)
            info["second"] = res
        except so.SyncObjException as e:
            res = None
            info["second"] = "raised:%s" % (e.errorCode,)
        end = time.time() + 10
        while obj.history != [5, 100] and time.time() < end:
            time.sleep(0.01)
        stop.set()
        th.join(5)
        info["history"] = list(obj.history)
        qc.close_node(obj)
    viols = []
    if info["first"] == "raised:Timeout" and info["history"] == [5, 100] and not isinstance(info["second"], str) and res != 105:
        viols.append({"signature": SIG,
                      "what": "add(5, sync, timeout=0.1) raised Timeout with nobody ticking; the same thread's add(100, sync) then "
                              "reported SUCCESS with result %r, but executed at its position (applied sequence %r) it returns 105"
                              % (res, info["history"])})
    return viols, info


def run(ctx):
    t0 = time.time()
    viols, info = scenario(ctx)
    for v in viols:
        v["replay"] = {"witness": "c02_17_timed_out_waiter_reused"}
    r = {"name": "witness.c02_17_timed_out_waiter_reused", "cases": 1, "distinct": 1, "violations": viols, "samples": [info],
         "coverage": {"tripped": bool(viols)}, "disagreements": [], "wall_s": round(time.time() - t0, 2)}
    if info.get("first") != "raised:Timeout" or info.get("history") != [5, 100]:
        r["inconclusive"] = "schedule not reached: %s" % info
    return r


def replay(ctx, violation):
    viols, info = scenario(ctx)
    return {"violated": bool(viols), "violations": viols, "info": info}
