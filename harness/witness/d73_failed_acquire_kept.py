"""D73 (C16): a `tryAcquire` that is reported as FAILED although its command is still on its way is
committed later, and the client keeps the lock for ever: the committed `acquire` puts (clientID, stamp) into
the table, the client's own `_autoAcquireThread` prolongs EVERY lock of its clientID, so `isAcquired` is True
for a client that was told the acquisition failed and no other client ever gets the lock.  Property text: "a
client whose acquisition took longer than half the auto-unlock time is told it failed and does not keep the
lock".

Two replays on a real 3-node SyncObj cluster (simulated transport, virtual raft clock, virtual lock clock,
U = 10; harness/corr/locks_cluster.Cluster):
  (A) sync:  follower F calls `tryAcquire(L, sync=True, timeout=0.02)`; its node does not get to run before the
      timeout -> `SyncObjException('Timeout')`; the command is then forwarded and committed 8 later (> U/2);
  (B) async: F's `apply_command` reaches the leader, which appends and replicates it; the reply to F is lost
      (connection F-leader drops), F starts an election -> `callback(None, LEADER_CHANGED)` 6 later (> U/2);
      the entry is committed by the other two nodes and reaches F after the connection is back.
  (C) residual of the compensating-release repair (only meaningful on a tree that has it): F's `apply_command`
      is delayed in the channel to the old leader L1 across two elections; F is told LEADER_CHANGED and its
      compensating release is committed under L2; L1 catches up, becomes a candidate, receives the delayed
      command, wins and appends it: the acquire is committed AFTER the release that was meant to undo it
      (signature suffix `:compensating-release-overtaken`).
Afterwards F's prolongation pass runs every U/4 and a competitor B tries the lock after every round: on the
unrepaired code F.isAcquired stays True and B is refused every time.  With
fixes/D73-failed-acquire-compensating-release.diff the wrapper submits a compensating `release` whenever the
outcome it reports is open (Timeout / LEADER_CHANGED): the replays are silent."""
import time

from harness.corr import locks_cluster as lcl
from harness.corr import locks_common as lc

PROPERTIES = ["C16"]
ORDER = 11

SIG = "batteries.ReplLockManager.tryAcquire:failed-acquire-kept"
U = 10
NAMES = lcl.NAMES


def _aftermath(cl, F, B, obs):
    """F lives on (prolongation every U/4), B tries after every round"""
    obs["F_isAcquired_after_commit"] = cl.mgrs[F].isAcquired(lc.lock_name(1))
    obs["table_after_commit"] = lc.table_of(cl.mgrs[B]._consumer())
    cl.clock.now += 1
    cl.prolong_pass(F)
    cl.run(6)
    for _ in range(5):
        cl.clock.now += 3
        cl.prolong_pass(F)
        cl.prolong_pass(B)
        cl.run(6)
        cl.try_acquire(B, 1)
        cl.run(8)
    obs["now"] = cl.clock.now
    obs["F_isAcquired_at_end"] = cl.mgrs[F].isAcquired(lc.lock_name(1))
    obs["B_answers"] = [(a.get("ans"), a.get("err")) for a in cl.answers if a["client"] == B]
    obs["table_at_end"] = lc.table_of(cl.mgrs[B]._consumer())
    obs["applied"] = [lc.cmd_str(c) for c, _ in lcl.common_sequence(cl)][:12]
    kept = obs["F_isAcquired_at_end"] and not any(r is True for r, _ in obs["B_answers"])
    return kept


def replay_sync(repo, seed):
    cl = lcl.Cluster(repo, U, seed)
    obs = {"level": "sync-timeout", "U": U}
    try:
        import pysyncobj
        cl.run(40)
        L = cl.leader()
        if L is None:
            return None, obs
        F, B = [n for n in NAMES if n != L]
        obs["attempt_at"] = cl.clock.now
        try:
            obs["told"] = repr(cl.mgrs[F].tryAcquire(lc.lock_name(1), sync=True, timeout=0.02))
        except pysyncobj.SyncObjException as e:
            obs["told"] = "SyncObjException(%r)" % (e.errorCode,)
        cl.clock.now += 8                       # the commit happens 8 after the attempt: > U/2
        cl.run(8)
        obs["committed_at"] = cl.clock.now
        kept = _aftermath(cl, F, B, obs)
        return (kept and obs["told"].startswith("SyncObjException")), obs
    finally:
        cl.close()


def replay_async(repo, seed):
    cl = lcl.Cluster(repo, U, seed)
    obs = {"level": "async-leader-changed", "U": U}
    try:
        cl.run(40)
        L = cl.leader()
        if L is None:
            return None, obs
        F, B = [n for n in NAMES if n != L]
        obs["attempt_at"] = cl.clock.now
        cl.try_acquire(F, 1)
        cl.t += 0.0625
        cl.tick(F)                              # F forwards apply_command to the leader
        while cl.deliver_one(F, L):
            pass
        cl.t += 0.0625
        cl.tick(L)                              # the leader appends, answers F, replicates
        while cl.deliver_one(L, B):
            pass
        cl.disconnect(F, L)                     # the answer (and the append_entries) to F are lost
        cl.clock.now += 6                       # > U/2
        cl.run(60)                              # F gives up on the leader: callback(None, LEADER_CHANGED)
        cl.connect(F, L)
        cl.run(40)
        told = [(a.get("ans"), a.get("err"), a.get("at")) for a in cl.answers if a["client"] == F]
        obs["told"] = told
        obs["committed_at"] = cl.clock.now
        kept = _aftermath(cl, F, B, obs)
        return (kept and told[:1] == [(None, 5, obs["attempt_at"] + 6)]), obs
    finally:
        cl.close()


def _run_held(cl, steps, hold, only=None):
    for _ in range(steps):
        cl.t += 0.0625
        for n in NAMES:
            if n not in cl.frozen:
                cl.tick(n)
        for _ in range(20):
            moved = False
            for key in sorted(cl.q):
                if key in hold or key[1] in cl.frozen:
                    continue
                while cl.q[key]:
                    cl.deliver_one(*key)
                    moved = True
            if not moved:
                break


def replay_overtaken(repo, seed):
    cl = lcl.Cluster(repo, U, seed)
    obs = {"level": "async-leader-changed, command delayed across two elections", "U": U, "seed": seed}
    try:
        cl.run(40)
        L1 = cl.leader()
        if L1 is None:
            return None, obs
        F, L2 = [n for n in NAMES if n != L1]
        hold = {(F, L1)}
        obs["attempt_at"] = cl.clock.now
        cl.try_acquire(F, 1)
        cl.t += 0.0625
        cl.tick(F)                              # apply_command sits in the channel F -> L1
        cl.disconnect(L1, L2)
        _run_held(cl, 60, hold)                 # L2 elected by F; F told LEADER_CHANGED; F's release committed by L2+F
        obs["told"] = [(a.get("ans"), a.get("err")) for a in cl.answers if a["client"] == F]
        cl.clock.now += 6
        cl.connect(L1, L2)
        _run_held(cl, 30, hold)                 # L1 catches up
        cl.frozen.update({L2, F})
        for _ in range(80):
            _run_held(cl, 1, hold)
            if cl.objs[L1]._SyncObj__raftState == 1:
                break
        while cl.deliver_one(F, L1):            # the delayed command reaches candidate L1 and waits for a leader
            pass
        cl.frozen.discard(F)
        _run_held(cl, 40, ())                   # F votes, L1 leads and appends the stale acquire
        cl.frozen.discard(L2)
        _run_held(cl, 20, ())
        obs["committed_at"] = cl.clock.now
        seq = [c for c, _ in lcl.common_sequence(cl)]
        me = NAMES.index(F) + 1
        acq = ("acq", 1, me, obs["attempt_at"])
        obs["release_before_acquire"] = lc.release_overtaken(cl.sub_seq[F], seq, 1, me, obs["attempt_at"])
        kept = _aftermath(cl, F, L2, obs)
        return (kept and obs["told"][:1] == [(None, 5)]), obs
    finally:
        cl.close()


def run(ctx):
    t0 = time.time()
    viols, samples = [], []
    cov = {"tripped": False, "told_timeout": 0, "told_leader_changed": 0, "acquire_committed_after_failure_report": 0}
    for name, fn in (("sync", replay_sync), ("async", replay_async)):
        v, obs = fn(ctx.repo, ctx.seed)
        samples.append(obs)
        told = str(obs.get("told"))
        if "Timeout" in told:
            cov["told_timeout"] += 1
        if "5" in told and name == "async":
            cov["told_leader_changed"] += 1
        if any(x.startswith("acq:1:") for x in obs.get("applied", [])[:1]):
            cov["acquire_committed_after_failure_report"] += 1
        if v:
            viols.append({"signature": SIG,
                          "what": "%s: tryAcquire(L1) at %s was told %s; the acquire was committed by %s (U=%d, > U/2 after the attempt); "
                                  "the client's isAcquired is True after the commit and still at %s, the lock table is %s, a competitor was "
                                  "answered %s -- told failed, lock kept and prolonged for ever"
                                  % (obs["level"], obs["attempt_at"], obs["told"], obs["committed_at"], U, obs["now"],
                                     obs["table_at_end"], obs["B_answers"]),
                          "replay": {"witness": "d73", "level": name, "seed": ctx.seed, "observed": obs}})
    # (C) only when (A) and (B) are silent, i.e. on a tree with the compensating release
    if not viols:
        for seed in range(ctx.seed, ctx.seed + 8):
            v, obs = replay_overtaken(ctx.repo, seed)
            if obs.get("release_before_acquire"):
                cov["acquire_committed_after_its_compensating_release"] = cov.get("acquire_committed_after_its_compensating_release", 0) + 1
            if v:
                samples.append(obs)
                viols.append({"signature": SIG + (":compensating-release-overtaken" if obs.get("release_before_acquire") else ""),
                              "what": "%s: tryAcquire(L1) at %s was told %s; its compensating release was committed before the acquire itself "
                                      "(common applied sequence %s); the client's isAcquired is True at %s, the lock table is %s, a competitor "
                                      "was answered %s" % (obs["level"], obs["attempt_at"], obs["told"], obs["applied"], obs["now"],
                                                           obs["table_at_end"], obs["B_answers"]),
                              "replay": {"witness": "d73", "level": "overtaken", "seed": seed, "observed": obs}})
                break
    cov["tripped"] = bool(viols)
    res = {"name": "witness.d73_failed_acquire_kept", "cases": len(samples), "distinct": len(samples), "violations": viols, "samples": samples,
           "coverage": cov, "wall_s": round(time.time() - t0, 2)}
    if not (cov["told_timeout"] and cov["told_leader_changed"] and cov["acquire_committed_after_failure_report"] == 2):
        res["inconclusive"] = "the schedule did not produce the failure reports / the late commit: %s" % cov
    return res


def replay(ctx, violation):
    rp = violation.get("replay") or {}
    fn = replay_sync if rp.get("level") == "sync" else replay_overtaken if rp.get("level") == "overtaken" else replay_async
    v, obs = fn(ctx.repo, rp.get("seed", ctx.seed))
    return {"violated": bool(v), "observed": obs}
