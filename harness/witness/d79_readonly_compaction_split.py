"""D79 (C18, C09): with `logCompactionSplit=True` every node compacts in its own slice of the compaction period; the
slice is found with `allNodeIds.index(self.__selfNode.id)` over `otherNodes | {selfNode}`.  A READ-ONLY node has no
address (`__selfNode is None`): as soon as the compaction conditions are met, `__tryLogCompaction` raises
`AttributeError: 'NoneType' object has no attribute 'id'` on EVERY tick - before the poll, so the node never reads
again and stops following ("it still converges to the same object state as the voters", C18).

Schedule: 2 voters + 1 read-only node, `logCompactionSplit=True`, `logCompactionMinTime=1`; commands before and after
the first compaction period.  Monitor: no exception escapes a tick of the read-only node; it reaches the voters'
state."""
import time

from harness.sim import Sim
from harness.witness._common import result, tag

PROPERTIES = ["C18", "C09"]
ORDER = 10

SIG = "compaction-split:read-only-node-raises-on-every-tick"


def scenario(repo):
    sim = Sim(repo, ["a", "b"], observers=["o"], seed=9,
              conf={"logCompactionSplit": True, "logCompactionMinTime": 1.0, "logCompactionMinEntries": 10 ** 6})
    sim.connect_all()
    L = sim.elect(among=["a", "b"])
    assert L is not None
    for k in range(4):
        sim.submit(L, "p%d" % k)
    sim.run(40)                      # 2.5 s of virtual time: past the first compaction period
    for k in range(4):
        sim.submit(L, "q%d" % k)
    sim.run(40)
    errs = [e for e in sim.errors if e[0] == "o"]
    viols = []
    if errs:
        viols.append({"signature": SIG,
                      "what": "read-only node o with logCompactionSplit: %d ticks raised %s(%s); it applied %d of the %d commands the "
                              "voters applied" % (len(errs), errs[0][1], errs[0][2][:80], len(sim.execs["o"]), len(sim.execs[L]))})
    elif [x for (_, x) in sim.execs["o"]] != [x for (_, x) in sim.execs[L]]:
        viols.append({"signature": "compaction-split:read-only-node-behind",
                      "what": "read-only node applied %s, leader %s" % ([x for (_, x) in sim.execs["o"]], [x for (_, x) in sim.execs[L]])})
    other = [e for e in sim.errors if e[0] != "o"]
    for e in other[:1]:
        viols.append({"signature": "compaction-split:voter-raises", "what": "voter %s: %s %s" % (e[0], e[1], e[2][:100])})
    return sim, viols, {"leader": L, "observer_errors": len(errs), "observer_applied": len(sim.execs["o"]),
                        "leader_applied": len(sim.execs[L])}


def run(ctx):
    t0 = time.time()
    sim, viols, info = scenario(ctx.repo)
    return result("witness.d79_readonly_compaction_split", tag(viols[:2], "d79_readonly_compaction_split", {}), info, t0)


def replay(ctx, violation):
    sim, viols, info = scenario(ctx.repo)
    return {"violated": bool(viols), "violations": viols, "info": info}
