"""Witness D51 (C14): TCPTransport.dropNode pops the connection before disconnecting it, so _onDisconnected cannot
find the node and the disconnect is never reported: SyncObj.isNodeConnected(X) stays True after X was removed, and
after X is added again while unreachable.  Real TCPTransport/TcpConnection/TcpServer on the fake socket fabric."""
PROPERTIES = ["C14"]
ORDER = 10

from harness.corr import transport_registry as tr

SIG = "transport.dropNode:no-disconnect-notification"


def script():
    return tr.connect_pair(1, 0) + [["drop", 0, ["tcp", 1]], ["add", 0, 1], ["send", 0, ["tcp", 1], 1, False, False]]


def _run(repo):
    r = tr.Runner(repo, None, {"n": 2, "retry": 2048, "timeout": 4096}, diff=False)
    try:
        tr.run_actions(r, script())
        sim = r.sim
        connected_view = repr(["tcp", 1]) in sim.view[0]            # what isNodeConnected(node 1) answers at node 0
        can_send = sim.call(0, lambda: sim.transports[0].send(sim.node(1), {"k": 2}))[0]
        return connected_view, bool(can_send), list(r.trace)
    finally:
        r.close()


def run(ctx):
    view, can_send, trace = _run(ctx.repo)
    res = {"cases": 1, "distinct": 1, "coverage": {"isNodeConnected_after_drop_and_readd": view, "send": can_send},
           "samples": [{"actions": trace}], "disagreements": [], "violations": []}
    if view and not can_send:
        res["violations"].append({
            "signature": SIG,
            "what": "node 0: connect to 1, dropNode(1), addNode(1) with 1 unreachable: the last notification for node 1 "
                    "is still 'connected' (isNodeConnected(1) == True) while send(1, ...) returns False and no "
                    "connection exists",
            "replay": {"witness": "d51"}})
    return res


def replay(ctx, violation):
    view, can_send, trace = _run(ctx.repo)
    return {"violated": bool(view and not can_send), "isNodeConnected": view, "send": can_send, "actions": trace}
