"""D11: `__loadDumpFile` ended with `self.__onSetCodeVersion(0)`: after loading a dump taken after a version
switch getCodeVersion() returns the restored version (it travels in the pickled `__dict__`) but the name
table is the one of version 0, so calls resolve to the `_v0` implementations.

End-to-end replay on the real code (single-node cluster, real ticks, dump FILE, restart = new instance on the
same dump file): f(1); setCodeVersion(1); f(2); forced compaction; restart; f(3).
Expected by the property: f(3) runs f_v1 and getCodeVersion()==1 on the restarted node."""
import os
import time

from harness.corr import versions_lib as L
from harness.witness._common import result, tag

PROPERTIES = ["C17"]
ORDER = 10

SIG = "syncobj.loadDumpFile:call-not-newest-version-le-enabled"
SIG_LOST = "syncobj.loadDumpFile:enabled-version-not-restored"
SIG_LOST_USER = "syncobj.loadDumpFile:enabled-version-not-restored-with-user-serializer"
SPEC = {"objs": [[("f", 0, "r"), ("f", 1, "r")], [("g", 0, "r"), ("g", 1, "rs")]]}


def _ticks(b, clock, n, dt=0.5):
    for _ in range(n):
        clock.t += dt
        b.obj.doTick(0.0)


def scenario(ctx, user=False):
    ns = L.load(ctx.repo)
    import random
    pk = ns["pickle"]

    def ser(fileName, data):
        with open(fileName, "wb") as f:
            f.write(pk.dumps(data))

    def deser(fileName):
        with open(fileName, "rb") as f:
            return pk.loads(f.read())
    clock = L.Clock(ns)
    tmp = ctx.tmpdir()
    path = os.path.join(tmp, "dump.bin")
    src = L.source_of(SPEC, random.Random(1))
    seen = {}
    try:
        kw = {"fullDumpFile": path, "raftMinTimeout": 0.5, "raftMaxTimeout": 1.0}
        if user:
            kw.update({"serializer": ser, "deserializer": deser})
        b = L.build(ns, SPEC, src, kw)
        _ticks(b, clock, 8)
        assert b.obj._isLeader()
        b.obj.f(1, callback=lambda *a: None)
        b.consumers[0].g(1, callback=lambda *a: None)
        _ticks(b, clock, 2)
        b.obj.setCodeVersion(1)
        _ticks(b, clock, 2)
        b.obj.f(2, callback=lambda *a: None)
        b.consumers[0].g(2, callback=lambda *a: None)
        _ticks(b, clock, 2)
        seen["before"] = [r for r in b.rec if r[0] == "ran"]
        seen["version_before_restart"] = b.obj.getCodeVersion()
        b.obj.forceLogCompaction()
        _ticks(b, clock, 3)
        assert os.path.isfile(path), "no dump file written"
        L.destroy(b)
        # restart on the same dump file
        b2 = L.build(ns, SPEC, src, kw)
        _ticks(b2, clock, 8)
        seen["version_after_restart"] = b2.obj.getCodeVersion()
        seen["f_resolves_to"] = b2.obj._getFuncName("f")
        b2.obj.f(3, callback=lambda *a: None)
        b2.consumers[0].g(3, callback=lambda *a: None)
        _ticks(b2, clock, 4)
        seen["after"] = [r for r in b2.rec if r[0] == "ran"]
        L.destroy(b2)
    finally:
        clock.restore()
    viols = []
    want = [("ran", 0, "f", 1, 3), ("ran", 1, "g", 1, 3)]
    if seen["version_before_restart"] != 1 or seen["before"][-2:] != [("ran", 0, "f", 1, 2), ("ran", 1, "g", 1, 2)]:
        viols.append({"signature": "syncobj.doApplyCommand:call-not-newest-version-le-enabled",
                      "what": "after setCodeVersion(1) calls did not run the version-1 implementations: %r" % (seen["before"],)})
    elif seen["version_after_restart"] != 1:
        viols.append({"signature": SIG_LOST_USER if user else SIG_LOST,
                      "what": "restarted from a dump taken after the switch to version 1: getCodeVersion()=%r, f(3)/g(3) ran %r"
                              % (seen["version_after_restart"], seen["after"])})
    elif seen["after"] != want:
        viols.append({"signature": SIG,
                      "what": "restarted from a dump taken after the switch: getCodeVersion()=%r, f resolves to %r, f(3)/g(3) ran %r (expected the _v1 implementations)"
                              % (seen["version_after_restart"], seen["f_resolves_to"], seen["after"])})
    return viols, {k: [list(x) for x in v] if isinstance(v, list) else v for k, v in seen.items()}


def run(ctx):
    t0 = time.time()
    viols, sample = scenario(ctx)
    return result("D11-name-table-after-dump", tag(viols, "d11", {}), sample, t0)


def replay(ctx, violation):
    viols, sample = scenario(ctx)
    ctx.cleanup()
    return {"violated": bool(viols), "violations": viols, "observed": sample}
