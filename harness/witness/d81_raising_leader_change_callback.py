"""D81 (C02, C19): the callbacks of forwarded commands that wait for the leader's reply are answered with
LEADER_CHANGED when another leader appears.  `__onLeaderChanged` called them unprotected and cleared the waiting list
only AFTER the loop: one raising callback left the append_entries handler before the new leader was recorded - the
callbacks before it were called again with every message of the new leader, the ones behind it never, and the node
never accepted the new leader ("every submitted call triggers its callback at most once", C02; "each callback fires
once", C19).  The repair of D68 covered the apply loop and the snapshot install only.

Schedule: 3 voters; follower F forwards c1, c2, c3 to leader L (the replies are held back); c2's callback raises; L is
cut off, another voter becomes leader.  Monitor: every callback is called exactly once; F follows the new leader and
applies a later command; no exception escapes."""
import time

from harness.sim import Sim
from harness.witness._common import result, tag

PROPERTIES = ["C02", "C19"]
ORDER = 10

SIG = "leader-change:raising-callback-repeats-and-starves-the-others"


def scenario(repo):
    sim = Sim(repo, ["a", "b", "c"], seed=12)
    sim.connect_all()
    L = sim.elect()
    assert L is not None
    F, G = [v for v in sim.voters if v != L]
    sim.submit(L, "w0")
    sim.run(8)
    calls = {"c1": [], "c2": [], "c3": []}

    def mk(name, raises):
        def cb(res, err):
            calls[name].append(err)
            if raises:
                raise RuntimeError("callback of the application failed")
        return cb
    for name in ("c1", "c2", "c3"):
        sim._call(F, sim.objs[F].add, name, callback=mk(name, name == "c2"))
    sim.tick(F, 0.0)                         # forwarded to L; L never gets them: it is cut off from everybody now
    sim.chan[(F, L)].clear()
    for j in (F, G):
        sim.disconnect(L, j)
    N = None
    for _ in range(300):
        sim.run(1, among=[F, G])
        N = sim.leader([F, G])
        if N is not None:
            break
    sim.run(30, among=[F, G])
    if N is not None:
        sim.submit(N, "later")
        sim.run(20, among=[F, G])
    viols = []
    counts = dict((k, len(v)) for k, v in calls.items())
    later = [x for (_, x) in sim.execs[F]].count("later")
    known = sim.objs[F]._getLeader()
    bad = any(c != 1 for c in counts.values()) or (N is not None and N != F and (later != 1 or known is None))
    if bad or sim.errors:
        viols.append({"signature": SIG,
                      "what": "follower %s forwarded c1, c2, c3 (callback of c2 raises), then %s became leader instead of %s: callbacks "
                              "were called %s times, %d exceptions escaped, %s knows leader %s and applied the later command %d time(s)"
                              % (F, N, L, counts, len(sim.errors), F, known, later)})
    return sim, viols, {"old": L, "new": N, "calls": counts, "errors": len(sim.errors)}


def run(ctx):
    t0 = time.time()
    sim, viols, info = scenario(ctx.repo)
    r = result("witness.d81_raising_leader_change_callback", tag(viols[:1], "d81_raising_leader_change_callback", {}), info, t0)
    if info["new"] is None:
        r["inconclusive"] = "no second leader"
    return r


def replay(ctx, violation):
    sim, viols, info = scenario(ctx.repo)
    return {"violated": bool(viols), "violations": viols, "info": info}
