"""D74: `ResizableFile.__init__` creates a missing journal with `open(fileName, 'wb')` and only then writes the
40-byte default header (flushed when the `with` block closes the file).  A kill in between leaves a ZERO-LENGTH
journal file; every later `FileJournal(path)` raises `ValueError('cannot mmap an empty file')`: the node never
starts again (C06), and the journal is not "reopenable after a kill at any primitive write" (C08).
Repair: treat a zero-length file like a missing one (`if not os.path.exists(f) or os.path.getsize(f) == 0`).
Witness, on the tree under test:
  (a) a zero-length file at the path -> FileJournal(path) must open as an empty journal and accept an add that
      survives a reopen;
  (b) the constructor really killed (recorder kill plan / fs kill) between the creation and the content write,
      the directory copied, reopened with the real class;
  (c) zero-length journal next to an existing `.meta` (commit index, term + vote) -> must open and still read them.
Silent on a repaired tree."""
import os
import shutil
import time

from harness.corr import journal_lib as lib

PROPERTIES = ["C08", "C06"]
ORDER = 10

SCENARIOS = [
    ("a-zero-length-file", {"kind": "create", "start": "zero", "meta": False}),
    ("b-killed-after-create-before-header-write", {"kind": "create", "start": "missing", "meta": False, "k": 1, "t": 0}),
    ("b-killed-right-after-the-open-call", {"kind": "create", "start": "missing", "meta": False, "fs_index": 0, "when": "after"}),
    ("c-zero-length-file-with-stored-meta", {"kind": "create", "start": "zero", "meta": True}),
    ("c-killed-after-create-with-stored-meta", {"kind": "create", "start": "missing", "meta": True, "k": 1, "t": 0}),
    # controls: the other kill points of the creation must reopen as well
    ("torn-header-17-bytes", {"kind": "create", "start": "missing", "meta": False, "k": 1, "t": 17}),
    ("torn-header-37-bytes", {"kind": "create", "start": "missing", "meta": True, "k": 1, "t": 37}),
    ("killed-before-resize", {"kind": "create", "start": "missing", "meta": False, "k": 2, "t": 0}),
]


def run(ctx):
    t0 = time.time()
    jm = lib.load_journal(ctx.repo)
    tmp = ctx.tmpdir()
    viols, rows = [], []
    for name, rp in SCENARIOS:
        m, killed = lib.replay_create(jm, tmp, rp)
        rows.append({"scenario": name, "killed": killed, "result": "reopens as an empty, usable journal" if m is None else m[0]})
        if m is not None and m[0] not in [v["signature"] for v in viols]:
            viols.append({"signature": m[0], "what": "%s: %s" % (name, m[1]),
                          "replay": dict(rp, witness="d74_empty_journal_file", scenario=name)})
    return {"cases": len(SCENARIOS), "distinct": len(SCENARIOS), "violations": viols, "disagreements": [],
            "samples": rows[:3],
            "coverage": {"tripped": bool(viols), "scenarios": len(SCENARIOS),
                         "failing": [r["scenario"] for r in rows if r["result"] != "reopens as an empty, usable journal"]},
            "wall_s": round(time.time() - t0, 2)}


def replay(ctx, violation):
    jm = lib.load_journal(ctx.repo)
    rp = violation.get("replay") or {}
    tmp = ctx.tmpdir()
    try:
        m, killed = lib.replay_create(jm, tmp, rp)
    finally:
        shutil.rmtree(tmp, ignore_errors=True)      # ./check --replay does not clean up the ctx
    return {"violated": m is not None, "signature": m and m[0], "what": m and m[1], "killed": killed,
            "scenario": rp.get("scenario"), "tree": ctx.repo}
