"""D85 (repaired in /repo by d72ca52, fixes/D85-ReplSet-pop-orders-set-valued-members-by-value.diff): after D20
`ReplSet.pop()` chose `min(data, key=(type name, repr(x)))`, but repr() of a set-valued MEMBER is not a function of
its value: repr(frozenset) lists the members in the order of the frozenset's own hash table.  45 and 53 collide in an
8-slot table, every pickle round trip flips their order: a replica that received `frozenset({45, 53})` through the log
sees 'frozenset({53, 45})', a replica that got it inside a snapshot sees 'frozenset({45, 53})', and 'frozenset({50})'
sorts between the two.  So after pop() two replicas hold {frozenset({50})} and the one rebuilt from the snapshot holds
{frozenset({45, 53})}: "after replication all replicas of a battery are equal" fails inside C15's quantifier (small
value domain, replicated cluster with snapshots).

Schedule (real SyncObj nodes, simulated transport): leader + follower + straggler; the straggler is cut off; the
leader replicates add(frozenset([45, 53])), add(frozenset([50])); leader and follower compact their logs; the
straggler comes back and is brought up to date by a snapshot; pop() is replicated.  Monitor: all three replicas hold
equal contents before and after, the callback result is the member that is gone.  Also replayed without a cluster
(member through one pickle round trip = log, two = log + snapshot) and with tuple members containing such frozensets."""
import pickle
import time

from harness.corr.batteries_ops import load_batteries
from harness.witness._common import result, tag

PROPERTIES = ["C15"]
ORDER = 10

SIG = "batteries.ReplSet.pop:member-repr-layout-dependent"
FAMILIES = {
    "frozenset-45-53": [frozenset([45, 53]), frozenset([50])],
    "tuple-holding-frozenset": [(frozenset([45, 53]), 1), (frozenset([50]), 1)],
    "three-colliding": [frozenset([53, 61, 45]), frozenset([50]), frozenset([46])],
}


def pic(c):
    from harness.corr.batteries_mixed import vrepr
    return sorted(vrepr(x) for x in c)


def direct(repo, name):
    """without a cluster: replica A applied the adds from the log (arguments went through one pickle round trip),
    replica C was rebuilt from A's snapshot (a second round trip)"""
    B = load_batteries(repo)
    a = B.ReplSet()
    for m in FAMILIES[name]:
        a.add(pickle.loads(pickle.dumps(m, -1)), _doApply=True)
    c = B.ReplSet()
    c._deserialize(pickle.loads(pickle.dumps(a._serialize(), -1)))
    before = [pic(a.rawData()), pic(c.rawData())]
    pa, pc = a.pop(_doApply=True), c.pop(_doApply=True)
    after = [pic(a.rawData()), pic(c.rawData())]
    obs = {"scenario": "direct/" + name, "before": before, "popped": pic([pa]) + pic([pc]), "after": after}
    viols = []
    if before[0] == before[1] and after[0] != after[1]:
        viols.append({"signature": SIG,
                      "what": "two ReplSets with equal contents %r (one fed from the log, one rebuilt from its snapshot) execute pop(): "
                              "contents afterwards %r / %r" % (before[0], after[0], after[1])})
    return viols, obs


def cluster(repo, name, seed=1):
    from harness.corr.batteries_cluster import make_sim
    sim = make_sim(repo, 8500 + seed, 0)
    sim.connect_all()
    L = sim.elect()
    if L is None:
        return [], {"scenario": "cluster/" + name, "note": "no leader"}
    F, S = [i for i in sim.voters if i != L]
    sim.run(4)
    sim.disconnect(S, L)
    sim.disconnect(S, F)
    got = {}
    for k, m in enumerate(FAMILIES[name]):
        sim._call(L, sim.objs[L].bat["set"].add, m, callback=lambda r, e, k=k: got.setdefault(k, (r, e)))
    sim.run(8, among=[L, F])
    sim.compact(L)
    sim.compact(F)
    sim.run(4, among=[L, F])
    s_last = sim.last_index(S)
    sim.connect(S, L)
    sim.connect(S, F)
    sim.run(14)
    from_snapshot = sim.P(S, "raftLog")[0][1] > s_last
    before = dict((i, pic(sim.objs[i].bat["set"].rawData())) for i in sim.voters)
    if sim.leader() is None:
        sim.elect()
    sim._call(sim.leader() or L, sim.objs[sim.leader() or L].bat["set"].pop, callback=lambda r, e: got.setdefault("pop", (r, e)))
    sim.run(10)
    after = dict((i, pic(sim.objs[i].bat["set"].rawData())) for i in sim.voters)
    popped = got.get("pop")
    obs = {"scenario": "cluster/" + name, "straggler": S, "straggler_rebuilt_from_snapshot": from_snapshot, "before": before,
           "pop_callback": None if popped is None else [pic([popped[0]]) if not isinstance(popped[0], BaseException) else repr(popped[0]), popped[1]],
           "after": after}
    viols = []
    if len(set(map(tuple, before.values()))) == 1 and len(set(map(tuple, after.values()))) > 1:
        viols.append({"signature": SIG,
                      "what": "all replicas hold %r; %s was rebuilt from a snapshot; after the replicated pop() (callback: %r) the "
                              "replicas hold %r" % (before[L], S, obs["pop_callback"], after)})
    elif len(set(map(tuple, before.values()))) > 1:
        viols.append({"signature": "batteries.ReplSet:replicas-differ-before-pop", "what": "contents before pop(): %r" % (before,)})
    return viols, obs


def run(ctx):
    t0 = time.time()
    viols, samples = [], []
    for name in FAMILIES:
        for fn, kind in ((cluster, "cluster"), (direct, "direct")):
            v, obs = fn(ctx.repo, name)
            tag(v, "d85_setpop_frozenset_repr", {"scenario": name, "kind": kind})
            samples.append(obs)
            if v and not viols:
                viols = v
    r = result("witness.d85_setpop_frozenset_repr", viols, samples[0], t0)
    r["cases"] = r["distinct"] = len(samples)
    r["coverage"]["snapshot_rebuilds"] = sum(1 for s in samples if s.get("straggler_rebuilt_from_snapshot"))
    r["samples"] = samples[:2]
    if not viols and r["coverage"]["snapshot_rebuilds"] == 0:
        r["inconclusive"] = "no schedule rebuilt the straggler from a snapshot"
    return r


def replay(ctx, violation):
    rp = violation.get("replay", {})
    fn = cluster if rp.get("kind", "cluster") == "cluster" else direct
    viols, obs = fn(ctx.repo, rp.get("scenario", "frozenset-45-53"))
    return {"violated": any(v["signature"] == violation["signature"] for v in viols), "observed": obs, "violations": viols}
