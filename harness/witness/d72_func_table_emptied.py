"""D72: `__onSetCodeVersion` set `self.__currentVersionFuncNames = {}` and refilled it entry by entry on the tick
thread (on every version switch and at the end of every `__loadDumpFile`). A caller thread entering a replicated
method in that window got a bare `KeyError` from `_getFuncName`.
C19: a call returns its result or raises with a failure reason or 'Timeout'. C17: a call uses the newest
implementation not above the enabled version (there is always one here: `f` has a version 0).

Deterministic replay with a REAL second thread: a consumer carries a property that `__onSetCodeVersion` reads while it
scans `dir(consumer)` - i.e. after the table was emptied and before it is refilled. The first armed read hands control
to the caller thread (which calls `obj.f(x)` and `consumer.g(x)`) and waits until that thread is done: the scan is
"slowed" exactly inside the window. Both trigger sites are exercised: a VERSION entry applied by a real tick of a
single-node cluster, and `__loadDumpFile`."""
import random
import threading
import time

from harness.corr import versions_lib as L
from harness.witness._common import result, tag

PROPERTIES = ["C19", "C17"]
ORDER = 10

SIG = "syncobj.onSetCodeVersion:call-during-table-rebuild-raises-keyerror"
SIG_IMPL = "syncobj.onSetCodeVersion:call-during-table-rebuild-wrong-implementation"
SPEC = {"objs": [[("f", 0, "r"), ("f", 1, "r")], [("g", 0, "r"), ("g", 1, "r")]]}

PROBE_SRC = '''
class Probe(object):
    """shared between the generated consumer class and the witness"""
    armed = False
    go = None
    done = None
    reads = 0

def _probe_get(self):
    if Probe.armed:
        Probe.armed = False
        Probe.reads += 1
        Probe.go.set()              # let the caller thread run now ...
        Probe.done.wait(5.0)        # ... and hold the scan until it has made its calls
    return None

C1.scan_point = property(_probe_get)
'''


def _ticks(b, clock, n, dt=0.5):
    for _ in range(n):
        clock.t += dt
        b.obj.doTick(0.0)


def _window(b, trigger, label, seen):
    """Arm the probe, start the caller thread, run `trigger` on this (tick) thread; returns what the caller saw."""
    P = b.g["Probe"]
    P.go, P.done = threading.Event(), threading.Event()
    out = {"calls": [], "in_window": False}
    got = []
    so = b.obj
    so._applyCommand = lambda command, callback, commandType=None: got.append(command)

    def caller():
        if not P.go.wait(5.0):
            P.done.set()
            return
        out["in_window"] = True
        for name, fn in (("f", lambda: so.f(7, callback=lambda *a: None)),
                         ("g", lambda: b.consumers[0].g(7, callback=lambda *a: None))):
            n0 = len(got)
            try:
                fn()
                cmd = b.ns["pickle"].loads(got[n0])
                fid = cmd[0] if isinstance(cmd, tuple) else cmd
                m = so._idToMethod[fid]
                out["calls"].append([name, "ok", m.origName, m.ver])
            except Exception as e:            # what the user's thread gets
                out["calls"].append([name, "raised", type(e).__name__, getattr(e, "errorCode", None)])
        P.done.set()

    t = threading.Thread(target=caller)
    t.start()
    P.armed = True
    try:
        trigger()
    finally:
        P.armed = False
        P.go.set()
        t.join(10.0)
        del so._applyCommand
    seen[label] = out
    return out


def scenario(ctx):
    ns = L.load(ctx.repo)
    clock = L.Clock(ns)
    src = L.source_of(SPEC, random.Random(1)) + PROBE_SRC
    seen = {}
    viols = []
    try:
        b = L.build(ns, SPEC, src, {"raftMinTimeout": 0.5, "raftMaxTimeout": 1.0}, hook=lambda old, new: None)
        _ticks(b, clock, 8)
        assert b.obj._isLeader()
        b.obj.f(1, callback=lambda *a: None)
        _ticks(b, clock, 2)
        b.obj.setCodeVersion(1)
        # (1) the VERSION entry is applied by a real tick while the other thread calls
        _window(b, lambda: _ticks(b, clock, 3), "version_switch", seen)
        seen["version_after_switch"] = b.obj.getCodeVersion()
        # (2) the table is rebuilt at the end of __loadDumpFile
        b.obj.forceLogCompaction()
        _ticks(b, clock, 3)
        _window(b, lambda: b.obj._SyncObj__loadDumpFile(clearJournal=False), "dump_load", seen)
        L.destroy(b)
    finally:
        clock.restore()
    for label in ("version_switch", "dump_load"):
        w = seen[label]
        if not w["in_window"]:
            viols.append({"signature": "witness.d72:window-not-reached", "what": "%s: the scan never read the consumer's attribute" % label})
            continue
        bad = [c for c in w["calls"] if c[1] == "raised" and c[2] != "SyncObjException"]
        if bad:
            viols.append({"signature": SIG,
                          "what": "%s: a replicated call made by another thread while __onSetCodeVersion rebuilt the name table raised %s "
                                  "(calls: %r)" % (label, bad[0][2], w["calls"])})
            continue
        # atomic switch: every call resolves to the newest implementation for the old or for the new version
        ok_vers = (0, 1) if label == "version_switch" else (1,)
        wrong = [c for c in w["calls"] if c[1] == "ok" and (c[2] != c[0] or c[3] not in ok_vers)]
        if wrong:
            viols.append({"signature": SIG_IMPL, "what": "%s: calls during the rebuild went out as %r" % (label, w["calls"])})
    return viols, seen


def run(ctx):
    t0 = time.time()
    viols, sample = scenario(ctx)
    return result("D72-func-table-emptied", tag(viols, "d72", {}), sample, t0)


def replay(ctx, violation):
    viols, sample = scenario(ctx)
    ctx.cleanup()
    return {"violated": bool(viols), "violations": viols, "observed": sample}
