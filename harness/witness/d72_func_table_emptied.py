"""D72: `__onSetCodeVersion` set `self.__currentVersionFuncNames = {}` and refilled it entry by entry on the tick
thread (on every version switch and at the end of every `__loadDumpFile`). A caller thread entering a replicated
method in that window got a bare `KeyError` from `_getFuncName`.
C19: a call returns its result or raises with a failure reason or 'Timeout'. C17: a call uses the newest
implementation not above the enabled version (there is always one here: `f` has a version 0).

Deterministic replay with a REAL second thread, independent of WHERE in the function the table is incomplete:
`__onSetCodeVersion` runs on the tick thread under `sys.settrace` line tracing; before every line of it a second thread
calls `obj.f(x)` and `consumer.g(x)` and is joined. Every such call must resolve (no KeyError) with the old or the new
complete table. Both trigger sites are exercised: a VERSION entry applied by a real tick of a single-node cluster, and
`__loadDumpFile`."""
import random
import sys
import threading
import time

from harness.corr import versions_lib as L
from harness.witness._common import result, tag

PROPERTIES = ["C19", "C17"]
ORDER = 10

SIG = "syncobj.onSetCodeVersion:call-during-table-rebuild-raises-keyerror"
SIG_IMPL = "syncobj.onSetCodeVersion:call-during-table-rebuild-wrong-implementation"
SPEC = {"objs": [[("f", 0, "r"), ("f", 1, "r")], [("g", 0, "r"), ("g", 1, "r")]]}

def _ticks(b, clock, n, dt=0.5):
    for _ in range(n):
        clock.t += dt
        b.obj.doTick(0.0)


def _window(b, trigger, label, seen):
    """Run `trigger` on this (tick) thread under line tracing of `__onSetCodeVersion`: before EVERY line of that function
    a real second thread calls `obj.f(x)` and `consumer.g(x)` and is joined - wherever in the function the table is
    incomplete (emptied at the start, refilled entry by entry, cleared and updated at the end ...), some call falls into
    the window. Returns what the caller thread saw at each point."""
    out = {"points": 0, "raised": [], "resolved": []}
    got = []
    so = b.obj
    so._applyCommand = lambda command, callback, commandType=None: got.append(command)

    def caller(lineno):
        for name, fn in (("f", lambda: so.f(7, callback=lambda *a: None)),
                         ("g", lambda: b.consumers[0].g(7, callback=lambda *a: None))):
            n0 = len(got)
            try:
                fn()
                cmd = b.ns["pickle"].loads(got[n0])
                fid = cmd[0] if isinstance(cmd, tuple) else cmd
                m = so._idToMethod[fid]
                out["resolved"].append((name, m.origName, m.ver))
            except Exception as e:            # what the user's thread gets
                out["raised"].append([name, type(e).__name__, getattr(e, "errorCode", None), lineno])

    def local_trace(frame, event, arg):
        if event == "line":
            out["points"] += 1
            t = threading.Thread(target=caller, args=(frame.f_lineno,))
            t.start()
            t.join(10.0)
        return local_trace

    def global_trace(frame, event, arg):
        if event == "call" and frame.f_code.co_name == "__onSetCodeVersion":
            return local_trace
        return None

    old = sys.gettrace()
    sys.settrace(global_trace)
    try:
        trigger()
    finally:
        sys.settrace(old)
        del so._applyCommand
    seen[label] = {"points": out["points"], "raised": out["raised"][:4], "n_raised": len(out["raised"]),
                   "resolved": sorted(set(out["resolved"]))}
    return out


def scenario(ctx):
    ns = L.load(ctx.repo)
    clock = L.Clock(ns)
    src = L.source_of(SPEC, random.Random(1))
    seen = {}
    viols = []
    try:
        b = L.build(ns, SPEC, src, {"raftMinTimeout": 0.5, "raftMaxTimeout": 1.0}, hook=lambda old, new: None)
        _ticks(b, clock, 8)
        assert b.obj._isLeader()
        b.obj.f(1, callback=lambda *a: None)
        _ticks(b, clock, 2)
        b.obj.setCodeVersion(1)
        # (1) the VERSION entry is applied by a real tick while the other thread calls
        _window(b, lambda: _ticks(b, clock, 3), "version_switch", seen)
        seen["version_after_switch"] = b.obj.getCodeVersion()
        # (2) the table is rebuilt at the end of __loadDumpFile
        b.obj.forceLogCompaction()
        _ticks(b, clock, 3)
        _window(b, lambda: b.obj._SyncObj__loadDumpFile(clearJournal=False), "dump_load", seen)
        L.destroy(b)
    finally:
        clock.restore()
    for label in ("version_switch", "dump_load"):
        w = seen[label]
        if w["points"] < 10:
            viols.append({"signature": "witness.d72:window-not-reached",
                          "what": "%s: __onSetCodeVersion was traced at %d points only" % (label, w["points"])})
            continue
        bad = [c for c in w["raised"] if c[1] != "SyncObjException"]
        if bad:
            viols.append({"signature": SIG,
                          "what": "%s: a replicated call made by another thread while __onSetCodeVersion rebuilt the name table raised %s "
                                  "(%d of the calls made at %d points of the function; first: %r)"
                                  % (label, bad[0][1], w["n_raised"], w["points"], bad[0])})
            continue
        # atomic switch: every call resolves to the newest implementation for the old or for the new version
        ok_vers = (0, 1) if label == "version_switch" else (1,)
        wrong = [c for c in w["resolved"] if c[1] != c[0] or c[2] not in ok_vers]
        if wrong:
            viols.append({"signature": SIG_IMPL, "what": "%s: calls during the rebuild went out as %r" % (label, w["resolved"])})
    seen = {k: ({kk: [list(x) for x in vv] if isinstance(vv, list) else vv for kk, vv in v.items()} if isinstance(v, dict) else v)
            for k, v in seen.items()}
    return viols, seen


def run(ctx):
    t0 = time.time()
    viols, sample = scenario(ctx)
    return result("D72-func-table-emptied", tag(viols, "d72", {}), sample, t0)


def replay(ctx, violation):
    viols, sample = scenario(ctx)
    ctx.cleanup()
    return {"violated": bool(viols), "violations": viols, "observed": sample}
