"""D10: `__applyLogEntries` caught SyncObjExceptionWrongVer inside the loop and went on with the next entries of
the batch without advancing over the VERSION entry: a node that lacks the requested version applied the later
entries anyway, and - lastApplied being one short - the last one a second time on the next tick; the
subscribers popped for the VERSION entry were lost.

Replay (real classes, injected log, no sockets): old code {f_v0, g_v0}; committed log
  2: f(9001)   3: VERSION 1   4: g(9002)   5: f(9003)
with a subscriber on entry 3; `__applyLogEntries` is called twice (two ticks)."""
import time

from harness.corr import versions_lib as L
from harness.corr import versions_apply as A
from harness.witness._common import result, tag

PROPERTIES = ["C17"]
ORDER = 10

OLD = {"objs": [[("f", 0, "r"), ("g", 0, "r")]]}
LOG = [[["noop"], 1, 0], [["reg", 0, 9001], 2, 1], [["ver", 1], 3, 1], [["reg", 1, 9002], 4, 1], [["reg", 0, 9003], 5, 1]]
SCRIPT = [["node", "O", {"enabled": 0, "tableVer": 0, "lastApplied": 1, "commit": 5, "log": LOG,
                         "waiting": [[3, [[1, 77]]]]}], ["apply"], ["apply"]]


def scenario(ctx):
    ns = L.load(ctx.repo)
    clock = L.Clock(ns)
    try:
        R = A._run_script(ctx, ns, {"O": OLD}, SCRIPT, "mem", 1)
    finally:
        clock.restore()
    viols = list(R.viol)
    st = R.expect[-1][1][1]
    applied = [e[1] for _, exp, _ in R.expect if isinstance(exp, tuple) for e in exp[0] if e[0] == "ran"]
    if not [w for w in st["waiting"] if w[0] == 3] and not viols:
        viols.append({"signature": "syncobj.applyLogEntries:subscribers-of-unsupported-version-entry-lost",
                      "what": "the callback registered for the VERSION entry at 3 was dropped although the entry was not applied"})
    return viols, {"applied_entries": applied, "lastApplied": st["lastApplied"], "waiting": st["waiting"]}


def run(ctx):
    t0 = time.time()
    viols, sample = scenario(ctx)
    return result("D10-unsupported-version-batch", tag(viols, "d10", {}), sample, t0)


def replay(ctx, violation):
    viols, sample = scenario(ctx)
    ctx.cleanup()
    return {"violated": bool(viols), "violations": viols, "observed": sample}
