"""D6 (C10, recorded finding): `__doApplyCommand` re-applies a membership entry when it commits ("required only
after node restarts").  A follower that has already appended a LATER entry reversing it sees the earlier one take
effect again: leader commits+applies `add d`@i, accepts `rem d`@i+1 (gate open, legitimate); the follower receives
entry i+1 together with commit_index = i; on its next tick it applies entry i and re-adds d.  Until entry i+1 commits
its `otherNodes` contains d although the membership commands in its log say "removed".
Monitor (C10 statement): each node's member set equals the set defined by the membership commands in its log."""
import pickle
import time
from harness.sim import Sim
from harness.witness._common import result, tag

PROPERTIES = ["C10"]
ORDER = 10

SIG = "membership:reapply-at-commit-undoes-later-change"


def fold_log(sim, i, initial):
    m = set(v for v in initial if v != i)
    for (idx, term, cmd) in sim.log_of(i):
        if cmd[:1] == b"\x02":
            req = pickle.loads(cmd[1:])
            if req[0] == "add" and req[1] != i:
                m.add(req[1])
            elif req[0] == "rem":
                m.discard(req[1])
    return sorted(m)


def members(sim, i):
    return sorted(n.id for n in sim.objs[i].otherNodes)


def scenario(repo):
    sim = Sim(repo, ["a", "b", "c"], conf={"dynamicMembershipChange": True}, seed=1)
    sim.connect_all()
    L = sim.elect()
    assert L is not None
    sim.run(4)
    F = [i for i in sim.voters if i != L][0]
    res = []
    o = sim.objs[L]
    sim._call(L, o.addNodeToCluster, sim.Node("d"), callback=lambda r, e: res.append(("add d", e)))
    sim.tick(L, 0.0625)       # dispatch: append `add d`
    sim.tick(L, 0.125)        # send
    sim.deliver_all()         # followers append + acknowledge
    sim.tick(L, 0.0625)       # leader commits and applies
    sim._call(L, o.removeNodeFromCluster, sim.Node("d"), callback=lambda r, e: res.append(("rem d", e)))
    sim.tick(L, 0.0625)       # dispatch: `rem d` accepted (the previous change is applied on the leader)
    sim.tick(L, 0.125)        # send entry `rem d` with commit_index = index of `add d`
    while sim.deliver(L, F):
        pass
    before = (members(sim, F), fold_log(sim, F, sim.voters))
    sim.tick(F, 0.0625)       # follower applies `add d` again
    after = (members(sim, F), fold_log(sim, F, sim.voters))
    viols = []
    if after[0] != after[1]:
        viols.append({"signature": SIG,
                      "what": "follower %s after applying the committed `add d`: otherNodes %s but membership commands in its log give %s (before the tick: %s / %s); callbacks %s"
                              % (F, after[0], after[1], before[0], before[1], res)})
    return sim, viols, {"before": before, "after": after, "callbacks": [list(r) for r in res]}


def run(ctx):
    t0 = time.time()
    sim, viols, info = scenario(ctx.repo)
    return result("witness.d06_reapply_at_commit", tag(viols, "d06_reapply_at_commit", {}), info, t0)


def replay(ctx, violation):
    sim, viols, info = scenario(ctx.repo)
    return {"violated": bool(viols), "violations": viols, "info": info}
