"""D2: the commit-index update at the end of the append_entries handler also ran for messages that
verify nothing about the receiver's log (non-final snapshot chunk, `serialized: None`): a deposed
leader marks its own never-replicated entries committed, applies them and reports SUCCESS for a
command no other node ever applies."""
import time
from harness.sim import Sim
from harness import monitors
from harness.witness._common import result, tag

PROPERTIES = ["C01", "C02", "C04", "C05", "C09"]
ORDER = 10


def scenario(repo, seed=1, lost_n=1, new_n=5):
    sim = Sim(repo, ["a", "b", "c"], seed=seed, conf={"logCompactionBatchSize": 8})
    watch = monitors.CommitWatch(sim)
    sim.connect_all()
    L = sim.elect()
    sim.submit(L, "ok")
    sim.run(10)
    others = [i for i in sim.voters if i != L]
    for o in others:
        sim.disconnect(L, o)
    lost = sim.submit(L, "LOST")
    for k in range(lost_n - 1):
        sim.submit(L, "LOST%d" % k)
    sim.tick(L, 0.0625)
    L2 = sim.elect(among=others)
    assert L2 is not None
    for k in range(new_n):
        sim.submit(L2, "n%d" % k)
    sim.run(10, among=others)
    sim.compact(L2)
    sim.run(4, among=others)
    watch.step()
    sim.connect(L, L2)
    for s in range(40):
        sim.tick(L2, 0.0625)
        sim.tick(L, 0.0)
        sim.deliver(L2, L)
        watch.step()
        sim.tick(L, 0.0)
        watch.step()
        sim.deliver(L, L2)
        if any(c[1] == lost for c in sim.callbacks):
            break
    sim.connect(L, [o for o in others if o != L2][0])
    sim.run(30)
    watch.step()
    viols = watch.out + monitors.sm_safety(sim) + monitors.callbacks_contract(sim)
    for (n, cid, res, err) in sim.callbacks:
        if cid == lost and err == 0:
            holders = [i for i in sim.voters if any(x == "LOST" for (_, x) in sim.execs[i])]
            if len(holders) < 2:
                viols.append({"signature": "callback:success-for-command-not-committed",
                              "what": "SUCCESS reported at %s for a command executed only on %s" % (n, holders)})
    return sim, viols


def convergence(repo):
    """C05: the same history with MORE unacknowledged entries on the deposed leader than the others committed (its
    applied index would pass the snapshot position, the snapshot would then be skipped as "already applied"), then a
    quiet period with everybody connected: every replica must hold the leader's state."""
    out = []
    for (lost_n, new_n) in ((5, 4), (7, 3), (3, 3)):
        sim, viols = scenario(repo, lost_n=lost_n, new_n=new_n)
        sim.connect_all()
        sim.run(int(20 / 0.0625))
        L = sim.leader(sim.voters)
        ref = list(sim.objs[L].log) if L is not None else None      # the replicated state (survives a snapshot install)
        for n in sim.voters:
            got = list(sim.objs[n].log)
            if ref is not None and got != ref:
                out.append({"signature": "convergence:replica-state-differs-after-quiet-period",
                            "what": "deposed leader with %d unacknowledged entries, %d committed by the others, snapshot needed: after "
                                    "20 s of quiet time node %s holds %s, leader %s holds %s" % (lost_n, new_n, n, got[-8:], L, ref[-8:])})
                break
        if out:
            break
    return sim, out


def run(ctx):
    t0 = time.time()
    if ctx.pid in ("C05", "C09"):      # C09: the node that needs the snapshot must end with the state at its position
        sim, viols = convergence(ctx.repo)
        return result("witness.d02_snapshot_chunk_commit", tag(viols[:1], "d02_snapshot_chunk_commit", {"mode": "convergence"}),
                      {"schedule_events": len(sim.trace)}, t0)
    sim, viols = scenario(ctx.repo)
    return result("witness.d02_snapshot_chunk_commit", tag(viols, "d02_snapshot_chunk_commit", {}),
                  {"schedule_events": len(sim.trace)}, t0)


def replay(ctx, violation):
    if violation.get("replay", {}).get("mode") == "convergence":
        sim, viols = convergence(ctx.repo)
        return {"violated": bool(viols), "violations": viols[:2]}
    sim, viols = scenario(ctx.repo)
    return {"violated": bool(viols), "violations": viols[:5]}
