"""Witness D78 (C14): `TcpServer.__onNewConnection` calls `unbind()` when `accept()` fails with anything but EAGAIN
(ECONNABORTED: the peer reset the connection before it was accepted; EMFILE).  `TCPTransport._ready` stays True, so
nothing binds the server again: every member with a larger address can never reach this node again ("each pair
re-establishes a working connection once the network allows it").  Real classes on the fake socket fabric; the listening
socket's accept() raises ECONNABORTED once."""
PROPERTIES = ["C14"]
ORDER = 10

from harness.corr import transport_registry as tr

SIG = "tcp_server.accept:server-unbinds-for-good"


def _run(repo):
    r = tr.Runner(repo, None, {"n": 2, "retry": 512, "timeout": 4096}, diff=False)
    try:
        tr.run_actions(r, [["tick", 0, []], ["accept_err", 0, "ECONNABORTED"], ["heal"]])
        sim = r.sim
        listening = sim.fabric.listeners.get(sim.port(0)) is not None
        conn = sim.transports[1]._connections.get(sim.node(0))
        connected = conn is not None and conn.state == 2 and repr(["tcp", 0]) in sim.view[1]
        return {"listening_after_failed_accept": listening, "ready": bool(sim.transports[0].ready),
                "dialler_connected_after_fair_tail": connected,
                "signatures": sorted(set(v["signature"] for v in r.violations)), "actions": len(r.trace)}
    finally:
        r.close()


def run(ctx):
    x = _run(ctx.repo)
    out = {"cases": 1, "distinct": 1, "coverage": x, "samples": [x], "disagreements": [], "violations": []}
    if not x["listening_after_failed_accept"] or not x["dialler_connected_after_fair_tail"]:
        out["violations"].append({
            "signature": SIG,
            "what": "accept() failed once with ECONNABORTED: listening afterwards=%s, transport.ready=%s, the dialling "
                    "member is connected after a fault-free tail=%s" % (x["listening_after_failed_accept"], x["ready"],
                                                                       x["dialler_connected_after_fair_tail"]),
            "replay": {"witness": "d78"}})
    return out


def replay(ctx, violation):
    x = _run(ctx.repo)
    return {"violated": not x["listening_after_failed_accept"] or not x["dialler_connected_after_fair_tail"], "observed": x}
