"""Witness D53 (C14): TcpConnection.__processConnection decides "was I disconnected" by looking at the state after
calling out; a disconnect followed by the immediate reconnect that TCPTransport._onDisconnected performs leaves the
state CONNECTING, so the event handler carries on with the NEW socket: (a) read timeout noticed on late data ->
onNodeDisconnected, reconnect, and in the same event onNodeConnected + state CONNECTED on a socket whose SYN is still
in flight (send() returns True); (b) the send of the own address fails right after the connect -> onNodeDisconnected
and then onNodeConnected although nothing is connected."""
PROPERTIES = ["C14"]
ORDER = 10

from harness.corr import transport_registry as tr

SIG_A = "tcp_connection.processConnection:reconnect-inside-event-reported-connected"
SIG_B = "transport.onOutgoingConnected:connected-reported-after-failed-address-send"


def script_a():
    return tr.connect_pair(1, 0) + [["send", 0, ["tcp", 1], 5, False, False], ["adv", 5000], ["dlv*", 1, 0, 1, 99]]


def script_b():
    return [["tick", 0, []], ["tick", 1, []], ["syn_ok*", 1, 0], ["accept", 0], ["cev*", 1, 0, True, False]]


def _run(repo, script):
    r = tr.Runner(repo, None, {"n": 2, "retry": 2048, "timeout": 4096}, diff=False)
    try:
        tr.run_actions(r, script)
        sim = r.sim
        view = repr(["tcp", 0]) in sim.view[1]
        conn = sim.transports[1]._connections.get(sim.node(0))
        sock = conn._TcpConnection__socket
        return {"isNodeConnected": view, "state": conn.state, "socket": getattr(sock, "kind", None),
                "signatures": sorted(set(v["signature"] for v in r.violations)), "actions": list(r.trace)}
    finally:
        r.close()


def _eval(repo):
    a = _run(repo, script_a())
    b = _run(repo, script_b())
    va = a["isNodeConnected"] and a["socket"] == "connecting"
    vb = b["isNodeConnected"] and b["state"] != 2
    return a, b, va, vb


def run(ctx):
    a, b, va, vb = _eval(ctx.repo)
    res = {"cases": 2, "distinct": 2, "coverage": {"late_data": {k: a[k] for k in ("isNodeConnected", "state", "socket")},
                                                    "address_send_fails": {k: b[k] for k in ("isNodeConnected", "state")}},
           "samples": [{"actions": a["actions"]}], "disagreements": [], "violations": []}
    if va:
        res["violations"].append({"signature": SIG_A, "replay": {"witness": "d53a"},
                                  "what": "dialler notices the read timeout on a poll event: reports disconnected, "
                                          "reconnects, and in the same event reports connected again; connection state "
                                          "CONNECTED while the new socket is still connecting"})
    if vb:
        res["violations"].append({"signature": SIG_B, "replay": {"witness": "d53b"},
                                  "what": "send of the own address fails right after connect: onNodeDisconnected then "
                                          "onNodeConnected; isNodeConnected stays True with a DISCONNECTED connection"})
    return res


def replay(ctx, violation):
    a, b, va, vb = _eval(ctx.repo)
    w = (violation.get("replay") or {}).get("witness")
    return {"violated": bool(va if w == "d53a" else vb), "late_data": a, "address_send_fails": b}
