"""Deterministic simulator running REAL SyncObj instances (DESIGN.md §3.3).

* transport  : SimTransport (subclass of pysyncobj.transport.Transport) — per-connection FIFO channels,
               connection drops noticed by each endpoint separately, reconnects, observers.
* time       : every node has its own virtual clock (sim.now[i]); `monotonicTime` of the pysyncobj
               modules is patched to return the clock of the node that is currently executing.
* randomness : `random.random` as seen by pysyncobj.syncobj is patched to a seeded k/1024 stream.
* user object: the free state machine (list of applied command ids), every execution recorded
               outside the object with its log position.
No change to the repository is needed.
"""
import collections
import os
import random as _random
import sys


def load_pysyncobj(repo):
    """Import pysyncobj from `repo` (and make sure no other copy is used)."""
    repo = os.path.abspath(repo)
    if "pysyncobj" in sys.modules:
        f = os.path.abspath(sys.modules["pysyncobj"].__file__)
        if not f.startswith(repo + os.sep):
            raise RuntimeError("pysyncobj already imported from %s, wanted %s" % (f, repo))
    else:
        if sys.path[0] != repo:
            sys.path.insert(0, repo)
    import pysyncobj  # noqa
    import pysyncobj.syncobj as so
    import pysyncobj.transport as tr
    return so, tr


_ORIG = {}


class SimCustomError(Exception):
    """An application exception whose constructor takes more than a message (pickles, but
    `pickle.loads` re-creates it with one argument and fails)."""

    def __init__(self, key, op):
        Exception.__init__(self, "no such key %r for %s" % (key, op))
        self.key = key
        self.op = op


def _mk_unicode(x):
    return UnicodeDecodeError("utf-8", b"\x80abc", 0, 1, "invalid start byte (%s)" % (x,))


class SimDerivedOSError(OSError):
    pass


import dataclasses as _dc


@_dc.dataclass(frozen=True)
class SimFrozenError(Exception):
    """an exception class that refuses attribute assignment (frozen dataclass)"""
    code: str = ""


class SimReadOnlyError(Exception):
    """an exception class whose instances refuse every attribute assignment"""
    def __setattr__(self, k, v):
        raise AttributeError("read-only exception: cannot set %s" % k)


EXC_KINDS = {
    "frozen": lambda x: SimFrozenError(str(x)),
    "readonly": lambda x: SimReadOnlyError(x),
    "perm": lambda x: PermissionError(13, "account %s is frozen" % (x,)),
    "notfound": lambda x: FileNotFoundError(2, "no such file", str(x)),
    "timeout": lambda x: TimeoutError("timed out %s" % (x,)),
    "conn": lambda x: ConnectionResetError(104, "reset %s" % (x,)),
    "oserr": lambda x: OSError("plain os error %s" % (x,)),
    "oserr-sub": lambda x: SimDerivedOSError(5, "derived %s" % (x,)),
    "mem": lambda x: MemoryError("out of memory %s" % (x,)),
    "stopiter": lambda x: StopIteration(x),
    "assert": lambda x: AssertionError(x),
    "unicode": _mk_unicode,
    "recursion": lambda x: RecursionError("maximum recursion depth exceeded (%s)" % (x,)),
    "notimpl": lambda x: NotImplementedError(x),
    "zerodiv": lambda x: ZeroDivisionError("division by zero (%s)" % (x,)),
    "attr": lambda x: AttributeError("no attribute %s" % (x,)),
    "eof": lambda x: EOFError(x),
    "arith": lambda x: OverflowError(x),
    "lookup": lambda x: LookupError(x),
    "runtime": lambda x: RuntimeError(x),
    "bufferr": lambda x: BufferError(x),
    "import": lambda x: ImportError("no module %s" % (x,)),
}


def restore_runtime():
    """Undo the clock / randomness patches of the last Sim (components that need real time run after
    components that used a simulator in the same process)."""
    if not _ORIG:
        return
    so, tr = _ORIG["so"], _ORIG["tr"]
    so.monotonicTime = _ORIG["so.monotonicTime"]
    tr.monotonicTime = _ORIG["tr.monotonicTime"]
    so.random = _ORIG["so.random"]


class _RandomShim(object):
    """Stands in for the `random` module inside pysyncobj.syncobj."""

    def __init__(self, sim):
        self._sim = sim

    def random(self):
        return self._sim.next_random()

    def __getattr__(self, name):
        return getattr(_random, name)


class Sim(object):
    def __init__(self, repo, voters, observers=(), conf=None, seed=0, journal_dir=None,
                 dump=False, per_node_conf=None, start_time=1000.0):
        self.so, self.tr = load_pysyncobj(repo)
        from pysyncobj.node import Node
        self.Node = Node
        self.rng = _random.Random(seed)
        self.rand_script = collections.deque()   # explicit random draws (k/1024) take precedence
        self.cur = None                          # node currently executing
        self.start_time = start_time
        self.now = {}
        self.voters = list(voters)
        self.observers = list(observers)
        self.conf = dict(autoTick=False, raftMinTimeout=0.5, raftMaxTimeout=1.5, appendEntriesPeriod=0.125,
                         appendEntriesUseBatch=True)
        self.conf.update(conf or {})
        self.per_node_conf = per_node_conf or {}
        self.journal_dir = journal_dir
        self.dump = dump
        self.objs = {}
        self.transports = {}
        self.chan = collections.defaultdict(collections.deque)   # (src,dst) -> messages in flight
        self.alive = set()        # frozenset({a,b}) connections that still carry data
        self.up = set()           # (a,b): a believes its connection to b is up
        # observation logs (what the property monitors read)
        self.execs = collections.defaultdict(list)     # node -> [(position, cmd)]
        self.results = collections.defaultdict(dict)   # node -> position -> value returned by the execution
        self.callbacks = []                            # (node, cb_id, result, err)
        self.state_changes = []                        # (node, term_at_change, old, new)
        self.sent = []                                 # (src, dst, msg) every message handed to the transport
        self.errors = []                               # exceptions escaping entry points
        self.trace = []                                # executed events (replay)
        self.cb_seq = 0
        self.generation = collections.defaultdict(int)
        self._patch()
        self.Obj = self._make_class()
        for i in self.voters + self.observers:
            self.now[i] = start_time
        for i in self.voters:
            self._start(i)
        for i in self.observers:
            self._start(i, observer=True)

    # ------------------------------------------------------------------------------------------
    def _patch(self):
        sim = self

        def mono():
            return sim.now.get(sim.cur, sim.start_time)
        if not _ORIG:
            _ORIG.update({"so": self.so, "tr": self.tr, "so.monotonicTime": self.so.monotonicTime,
                          "tr.monotonicTime": self.tr.monotonicTime, "so.random": self.so.random})
        self.so.monotonicTime = mono
        self.tr.monotonicTime = mono
        self.so.random = _RandomShim(self)

    def next_random(self):
        if self.rand_script:
            return self.rand_script.popleft() / 1024.0
        return self.rng.randrange(1024) / 1024.0

    def _make_class(self):
        so = self.so
        sim = self

        class Obj(so.SyncObj):
            def __init__(self, nid, selfNode, others, conf, transport):
                self._nid = nid
                so.SyncObj.__init__(self, selfNode, others, conf=conf, transport=transport)
                self.log = []

            @so.replicated
            def add(self, x):
                sim.execs[self._nid].append((self.raftLastApplied + 1, x))
                self.log.append(x)
                sim.results[self._nid][self.raftLastApplied + 1] = len(self.log)
                return len(self.log)

            @so.replicated
            def boom(self, x):
                sim.execs[self._nid].append((self.raftLastApplied + 1, ("boom", x)))
                self.log.append(("boom", x))
                raise ValueError(x)

            # raising methods of other shapes: no argument, two arguments, keyword-only use, custom exception
            @so.replicated
            def boom0(self):
                sim.execs[self._nid].append((self.raftLastApplied + 1, ("boom", "b0")))
                self.log.append(("boom", "b0"))
                raise IndexError("pop from empty list")

            @so.replicated
            def boom2(self, x, y):
                sim.execs[self._nid].append((self.raftLastApplied + 1, ("boom", x)))
                self.log.append(("boom", x))
                raise KeyError((x, y))

            @so.replicated
            def boomkw(self, x=None, y=None):
                sim.execs[self._nid].append((self.raftLastApplied + 1, ("boom", x)))
                self.log.append(("boom", x))
                raise ValueError("%r %r" % (x, y))

            @so.replicated
            def boomc(self, x):
                sim.execs[self._nid].append((self.raftLastApplied + 1, ("boom", x)))
                self.log.append(("boom", x))
                raise SimCustomError(x, "rename")

            # a raising method declared with @replicated_sync (called with sync=False and a callback by the harness)
            @so.replicated_sync
            def booms(self, x):
                sim.execs[self._nid].append((self.raftLastApplied + 1, ("boom", x)))
                self.log.append(("boom", x))
                raise ValueError("insufficient funds %s" % (x,))

            # exception classes outside the usual ValueError/KeyError family (a handler that treats some of
            # them specially must still record the outcome and move on)
            @so.replicated
            def boomx(self, x, kind):
                sim.execs[self._nid].append((self.raftLastApplied + 1, ("boom", x)))
                self.log.append(("boom", x))
                raise EXC_KINDS[kind](x)
        return Obj

    def _conf(self, i):
        kw = dict(self.conf)
        kw.update(self.per_node_conf.get(i, {}))
        if self.journal_dir is not None and i in self.voters:
            kw.setdefault("journalFile", os.path.join(self.journal_dir, "%s.journal" % i))
            if self.dump:
                kw.setdefault("fullDumpFile", os.path.join(self.journal_dir, "%s.dump" % i))
        sim = self

        def on_state(old, new, i=i):
            o = sim.objs.get(i)
            sim.state_changes.append((i, o.raftCurrentTerm if o is not None else None, old, new))
        kw["onStateChanged"] = on_state
        return self.so.SyncObjConf(**kw)

    def _start(self, i, observer=False, others=None):
        Node = self.Node
        sim = self

        class SimTransport(self.tr.Transport):
            def __init__(self, nid):
                sim.tr.Transport.__init__(self, None, None, [])
                self.nid = nid
                self.nodes = set()
                sim.transports[nid] = self

            def addNode(self, n):
                self.nodes.add(n)

            def dropNode(self, n):
                self.nodes.discard(n)

            def send(self, node, message):
                return sim._send(self.nid, node.id, message)

            @property
            def ready(self):
                return True

            def destroy(self):
                pass
        t = SimTransport(i)
        prev = self.cur
        self.cur = i
        try:
            if others is None:
                others = [v for v in self.voters if v != i]
            self.objs[i] = self.Obj(i, None if observer else Node(i), [Node(o) for o in others],
                                    self._conf(i), t)
        finally:
            self.cur = prev
        self.generation[i] += 1

    # ------------------------------------------------------------------------------------------
    # network
    def _send(self, a, b, msg):
        # real time passes while a node sends: a send loop that only a wall-clock test ends (e.g. the leader
        # re-sending `serialized: None` while its serializer is busy) must not spin for ever on the frozen clock
        self._sends_in_call = getattr(self, "_sends_in_call", 0) + 1
        if self._sends_in_call % 50000 == 0 and a in self.now:
            self.now[a] += 0.0625
        if (a, b) not in self.up:
            return False
        self.sent.append((a, b, msg))
        if frozenset((a, b)) in self.alive:
            self.chan[(a, b)].append(msg)
        return True

    def _enter(self, i):
        self.cur = i

    def _call(self, i, fn, *args, **kw):
        prev = self.cur
        self.cur = i
        self._sends_in_call = 0
        try:
            return fn(*args, **kw)
        except Exception as e:  # an exception escaping an entry point is an observation
            import traceback
            self.errors.append((i, type(e).__name__, str(e)[:200], traceback.format_exc()[-1200:]))
            return None
        finally:
            self.cur = prev

    def connect(self, a, b):
        """(Re-)establish the connection a<->b; both endpoints are told (a first)."""
        self.trace.append(["connect", a, b])
        self.alive.add(frozenset((a, b)))
        for x, y in ((a, b), (b, a)):
            # an endpoint that has not noticed the loss of the old connection is the accepting side of
            # the new one: the real TCPTransport reports the replaced connection with a second
            # onNodeConnected and no disconnect callback (transport.py, _onIncomingMessageReceived)
            self.up.add((x, y))
            self._notify_up(x, y)

    def _notify_up(self, x, y):
        t = self.transports[x]
        if y in self.observers and x not in self.observers:
            self._call(x, t._onReadonlyNodeConnected, self.Node(y))
        else:
            self._call(x, t._onNodeConnected, self.Node(y))

    def _notify_down(self, x, y):
        t = self.transports[x]
        if y in self.observers and x not in self.observers:
            self._call(x, t._onReadonlyNodeDisconnected, self.Node(y))
        else:
            self._call(x, t._onNodeDisconnected, self.Node(y))

    def cut(self, a, b):
        """The connection a<->b dies: in-flight data is lost; nobody has noticed yet."""
        self.trace.append(["cut", a, b])
        self.alive.discard(frozenset((a, b)))
        self.chan[(a, b)].clear()
        self.chan[(b, a)].clear()

    def notice(self, x, y):
        """Endpoint x notices that its connection to y is gone."""
        self.trace.append(["notice", x, y])
        if frozenset((x, y)) in self.alive:
            # a disconnect noticed by one side kills the connection for both
            self.alive.discard(frozenset((x, y)))
            self.chan[(x, y)].clear()
            self.chan[(y, x)].clear()
        if (x, y) in self.up:
            self.up.discard((x, y))
            self._notify_down(x, y)

    def disconnect(self, a, b):
        self.cut(a, b)
        self.notice(a, b)
        self.notice(b, a)

    def connect_all(self):
        ids = self.voters
        for n, a in enumerate(ids):
            for b in ids[n + 1:]:
                self.connect(a, b)
        for o in self.observers:
            for v in self.voters:
                self.connect(o, v)

    # ------------------------------------------------------------------------------------------
    # events
    def tick(self, i, dt=0.0):
        self.trace.append(["tick", i, dt])
        self.now[i] += dt
        self._call(i, self.objs[i].doTick, 0.0)

    def deliver(self, a, b):
        q = self.chan[(a, b)]
        if not q:
            return None
        m = q.popleft()
        self.trace.append(["deliver", a, b])
        self._call(b, self.transports[b]._onMessageReceived, self.Node(a), m)
        return m

    def inject(self, a, b, msg):
        """Deliver `msg` to b as coming from a (used to replay a held message)."""
        self.trace.append(["inject", a, b, repr(msg)[:200]])
        self._call(b, self.transports[b]._onMessageReceived, self.Node(a), msg)

    def deliver_all(self, among=None, limit=100000):
        n = 0
        progress = True
        while progress and n < limit:
            progress = False
            for (s, d) in sorted(self.chan.keys()):
                if among is not None and (s not in among or d not in among):
                    continue
                while self.chan[(s, d)]:
                    self.deliver(s, d)
                    n += 1
                    progress = True
        return n

    def submit(self, i, x, method="add", with_cb=True):
        self.cb_seq += 1
        cid = self.cb_seq
        self.trace.append(["submit", i, x, method, cid])
        sim = self

        def cb(res, err, cid=cid, i=i):
            sim.callbacks.append((i, cid, res, err))
        kw = {"callback": cb} if with_cb else {}
        self._call(i, getattr(self.objs[i], method), x, **kw)
        return cid

    def submit_call(self, i, method, args=(), kwargs=None, tag=None):
        """Generic submission: obj.<method>(*args, **kwargs, callback=cb); `tag` is what the monitors see as
        the command value (default: first positional or keyword argument)."""
        self.cb_seq += 1
        cid = self.cb_seq
        kwargs = dict(kwargs or {})
        if tag is None:
            tag = args[0] if args else (kwargs.get("x") if "x" in kwargs else "b0")
        self.trace.append(["submit", i, tag, method, cid])
        sim = self

        def cb(res, err, cid=cid, i=i):
            sim.callbacks.append((i, cid, res, err))
        kwargs["callback"] = cb
        self._call(i, getattr(self.objs[i], method), *args, **kwargs)
        return cid

    def compact(self, i):
        self.trace.append(["compact", i])
        self.objs[i].forceLogCompaction()

    def run(self, steps, dt=0.0625, among=None):
        ids = among if among is not None else (self.voters + self.observers)
        for _ in range(steps):
            for i in ids:
                self.tick(i, dt)
            self.deliver_all(among=set(ids) if among is not None else None)

    def kill(self, i):
        """kill -9: the object is abandoned; mmap'ed pages stay in the file."""
        self.trace.append(["kill", i])
        for j in list(self.voters + self.observers):
            if j != i:
                self.chan[(i, j)].clear()
                self.chan[(j, i)].clear()
                self.alive.discard(frozenset((i, j)))
                self.up.discard((i, j))
        o = self.objs.pop(i, None)
        self.dead = getattr(self, "dead", {})
        self.dead[i] = o          # keep a reference so that no destructor closes files in a different order
        return o

    def restart(self, i):
        self.trace.append(["restart", i])
        self._start(i, observer=(i in self.observers))

    # ------------------------------------------------------------------------------------------
    # observation helpers
    def P(self, i, name):
        return getattr(self.objs[i], "_SyncObj__" + name)

    def leader(self, among=None):
        ids = among if among is not None else self.voters
        ls = [i for i in ids if i in self.objs and self.objs[i]._isLeader()]
        return ls[0] if len(ls) == 1 else None

    def log_of(self, i):
        return [(e[1], e[2], e[0]) for e in self.P(i, "raftLog")[:]]

    def last_index(self, i):
        return self.P(i, "raftLog")[-1][1]

    def elect(self, among=None, max_steps=400, dt=0.0625):
        ids = among if among is not None else self.voters
        for _ in range(max_steps):
            l = self.leader(ids)
            if l is not None:
                return l
            for i in ids:
                self.tick(i, dt)
            self.deliver_all(among=set(ids))
        return self.leader(ids)
