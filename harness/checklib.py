"""Common machinery of ./check (see DESIGN.md section 6).

Pipeline for one property id:
  1. Lean stage   : lake build of the property's theorem module + driver, forbidden-token grep,
                    `#print axioms` audit of every theorem in lean/PSO/Props/<id>.lean.
  2. Components   : every harness component registered for the property in harness/registry.py is
                    run against /repo's *current working tree* (correspondence model<->implementation,
                    witness replays, property monitors on the real code).
  3. Search       : when the Lean stage or a correspondence fails, every component's `search` hook is
                    asked for a concrete failing input on the implementation.
  4. Evidence     : evidence/<id>.json (schema-shaped), replay files under replays/.
Exit codes: 0 = held on everything explored; 1 = VIOLATION line printed; 2 = infrastructure / inconclusive.
"""
import importlib
import json
import os
import random
import re
import shutil
import subprocess
import sys
import tempfile
import time
import traceback

VERIF = os.path.dirname(os.path.dirname(os.path.abspath(__file__)))
LEAN_DIR = os.path.join(VERIF, "lean")
REPO = os.environ.get("VERIF_REPO", "/repo")
DRIVER = os.path.join(LEAN_DIR, ".lake", "build", "bin", "driver")
ALLOWED_AXIOMS = {"propext", "Classical.choice", "Quot.sound"}
FORBIDDEN = [r"\bsorry\b", r"\badmit\b", r"^\s*axiom\s", r"\bnative_decide\b", r"\bbv_decide\b",
             r"\bimplemented_by\b", r"\bunsafe\s", r"maxHeartbeats\s+0\b", r"\bextern\b"]
GUARD = "BAKWC_PYSYNCOBJ_VERIF"


# ----------------------------------------------------------------------------------------------
# context handed to components
# ----------------------------------------------------------------------------------------------
class Ctx:
    def __init__(self, pid, tier, seed):
        self.pid = pid
        self.tier = tier
        self.seed = seed
        self.repo = REPO
        self.verif = VERIF
        self.t0 = time.time()
        self._tmp = []
        # soft time budget (seconds) a single component should stay under
        self.budget_s = 25 if tier == "quick" else 420
        self.jobs = 4 if tier == "quick" else 16

    def rng(self, salt=""):
        """Deterministic PRNG derived from VERIF_SEED and a salt (component name etc.)."""
        return random.Random("%d/%s" % (self.seed, salt))

    def scale(self, quick, thorough):
        return quick if self.tier == "quick" else thorough

    def tmpdir(self):
        d = tempfile.mkdtemp(prefix="pso-verif-")
        self._tmp.append(d)
        return d

    def cleanup(self):
        for d in self._tmp:
            shutil.rmtree(d, ignore_errors=True)
        self._tmp = []

    def driver(self, component, lines, timeout=600):
        """Run the compiled Lean driver for `component` on the given input lines; returns output lines."""
        return run_driver(component, lines, timeout=timeout)


class DriverError(Exception):
    pass


def _wait_driver(max_wait=40.0):
    """The binary is briefly absent while a concurrent `lake build` relinks it."""
    t0 = time.time()
    while not os.path.exists(DRIVER) and time.time() - t0 < max_wait:
        time.sleep(0.5)
    return os.path.exists(DRIVER)


def run_driver(component, lines, timeout=600):
    if not _wait_driver():
        raise DriverError("driver binary missing (lake build failed?)")
    data = "\n".join(lines) + "\n"
    p = subprocess.run([DRIVER, component], input=data.encode(), stdout=subprocess.PIPE,
                       stderr=subprocess.PIPE, timeout=timeout)
    if p.returncode != 0:
        raise DriverError("driver %s exit %d: %s" % (component, p.returncode, p.stderr.decode()[-2000:]))
    out = p.stdout.decode().split("\n")
    if out and out[-1] == "":
        out.pop()
    return out


class DriverProc:
    """Long-lived driver process for interactive (request/response) protocols."""

    def __init__(self, component):
        if not _wait_driver():
            raise DriverError("driver binary missing (lake build failed?)")
        self.p = subprocess.Popen([DRIVER, component], stdin=subprocess.PIPE, stdout=subprocess.PIPE,
                                  stderr=subprocess.PIPE, bufsize=0)

    def ask(self, line):
        self.p.stdin.write((line + "\n").encode())
        self.p.stdin.flush()
        r = self.p.stdout.readline()
        if not r:
            raise DriverError("driver died: " + self.p.stderr.read().decode()[-2000:])
        return r.decode().rstrip("\n")

    def close(self):
        try:
            self.p.stdin.close()
            self.p.wait(timeout=10)
        except Exception:
            self.p.kill()


# ----------------------------------------------------------------------------------------------
# Lean stage
# ----------------------------------------------------------------------------------------------
def strip_lean_comments(src):
    out = []
    i, n, depth = 0, len(src), 0
    while i < n:
        if src.startswith("/-", i):
            depth += 1
            i += 2
        elif depth and src.startswith("-/", i):
            depth -= 1
            i += 2
        elif depth:
            if src[i] == "\n":
                out.append("\n")
            i += 1
        elif src.startswith("--", i):
            while i < n and src[i] != "\n":
                i += 1
        elif src[i] == '"':
            j = i + 1
            while j < n and src[j] != '"':
                j += 2 if src[j] == "\\" else 1
            out.append('""')
            i = j + 1
        else:
            out.append(src[i])
            i += 1
    return "".join(out)


def lean_files():
    res = []
    for root in ("PSO", "Driver"):
        for dp, _, fns in os.walk(os.path.join(LEAN_DIR, root)):
            for fn in fns:
                if fn.endswith(".lean"):
                    res.append(os.path.join(dp, fn))
    return sorted(res)


def forbidden_scan():
    hits = []
    for f in lean_files():
        src = strip_lean_comments(open(f, encoding="utf-8").read())
        for ln, line in enumerate(src.split("\n"), 1):
            for pat in FORBIDDEN:
                if re.search(pat, line):
                    hits.append("%s:%d: %s" % (os.path.relpath(f, VERIF), ln, line.strip()[:120]))
    return hits


def prop_theorems(pid):
    """Names of all theorems declared in lean/PSO/Props/<pid>.lean (fully qualified)."""
    path = os.path.join(LEAN_DIR, "PSO", "Props", pid + ".lean")
    if not os.path.exists(path):
        return []
    src = strip_lean_comments(open(path, encoding="utf-8").read())
    names = []
    ns = []
    for line in src.split("\n"):
        m = re.match(r"\s*namespace\s+(\S+)", line)
        if m:
            ns.append(m.group(1))
            continue
        m = re.match(r"\s*end\s+(\S+)", line)
        if m and ns and ns[-1] == m.group(1):
            ns.pop()
            continue
        m = re.match(r"\s*(?:@\[[^\]]*\]\s*)?(?:private\s+|protected\s+)?theorem\s+(\S+)", line)
        if m:
            names.append(".".join(ns + [m.group(1)]))
    return names


def lean_stage(pid, tier):
    """Returns dict(ok, obligations, discharged, theorems=[{name, axioms, ok}], errors=[...], wall_s)."""
    t0 = time.time()
    res = {"ok": False, "obligations": 0, "discharged": 0, "theorems": [], "errors": [], "build_s": 0.0}
    mod = "PSO.Props." + pid
    env = dict(os.environ)
    p = subprocess.run(["lake", "build", mod, "driver"], cwd=LEAN_DIR, stdout=subprocess.PIPE,
                       stderr=subprocess.STDOUT, env=env)
    res["build_s"] = round(time.time() - t0, 2)
    out = p.stdout.decode(errors="replace")
    if p.returncode != 0:
        res["errors"].append("lake build failed:\n" + out[-4000:])
        return res
    if re.search(r"declaration uses 'sorry'", out):
        res["errors"].append("build output mentions sorry:\n" + out[-2000:])
    hits = forbidden_scan()
    if hits:
        res["errors"].append("forbidden tokens: " + "; ".join(hits[:10]))
    names = prop_theorems(pid)
    res["obligations"] = len(names)
    if not names:
        res["errors"].append("no theorems found in Props/%s.lean" % pid)
        return res
    audit = "import %s\n" % mod + "".join("#print axioms %s\n" % n for n in names)
    fd, tmp = tempfile.mkstemp(suffix=".lean", prefix="Audit_", dir=LEAN_DIR)
    try:
        with os.fdopen(fd, "w") as f:
            f.write(audit)
        p = subprocess.run(["lake", "env", "lean", tmp], cwd=LEAN_DIR, stdout=subprocess.PIPE,
                           stderr=subprocess.STDOUT)
        aout = p.stdout.decode(errors="replace")
    finally:
        os.unlink(tmp)
    # parse: "'name' depends on axioms: [a, b]"  /  "'name' does not depend on any axioms"
    flat = re.sub(r"\s+", " ", aout)
    for n in names:
        m = re.search(r"'%s' depends on axioms: \[([^\]]*)\]" % re.escape(n), flat)
        if m:
            ax = [a.strip() for a in m.group(1).split(",") if a.strip()]
        elif re.search(r"'%s' does not depend on any axioms" % re.escape(n), flat):
            ax = []
        else:
            ax = None
        ok = ax is not None and set(ax) <= ALLOWED_AXIOMS
        res["theorems"].append({"name": n, "axioms": ax, "ok": ok})
        if ok:
            res["discharged"] += 1
        else:
            res["errors"].append("theorem %s: axioms %s" % (n, ax if ax is not None else "NOT FOUND: " + aout[-500:]))
    if tier == "thorough" and not res["errors"]:
        p = subprocess.run(["lake", "env", "leanchecker", mod], cwd=LEAN_DIR, stdout=subprocess.PIPE,
                           stderr=subprocess.STDOUT)
        res["leanchecker"] = "ok" if p.returncode == 0 else p.stdout.decode(errors="replace")[-1500:]
        if p.returncode != 0:
            res["errors"].append("leanchecker failed: " + res["leanchecker"])
    res["ok"] = not res["errors"]
    res["wall_s"] = round(time.time() - t0, 2)
    return res


# ----------------------------------------------------------------------------------------------
# findings
# ----------------------------------------------------------------------------------------------
def load_findings():
    path = os.path.join(VERIF, "known_findings.json")
    if not os.path.exists(path):
        return {"findings": [], "fixed": []}
    return json.load(open(path))


def match_finding(findings, pid, violation):
    sig = violation.get("signature", "")
    for f in findings.get("findings", []):
        if pid in f.get("properties", [f.get("property")]) and re.fullmatch(f["signature"], sig):
            return f
    return None


# ----------------------------------------------------------------------------------------------
# main
# ----------------------------------------------------------------------------------------------
def import_component(name):
    return importlib.import_module("harness." + name)


def write_json(path, obj):
    os.makedirs(os.path.dirname(path), exist_ok=True)
    tmp = path + ".tmp"
    with open(tmp, "w") as f:
        json.dump(obj, f, indent=1, sort_keys=True, default=str)
        f.write("\n")
    os.replace(tmp, path)


def main(argv):
    import argparse
    from harness import registry
    ap = argparse.ArgumentParser()
    ap.add_argument("pid")
    ap.add_argument("--tier", default=os.environ.get("VERIF_TIER", "quick"), choices=["quick", "thorough"])
    ap.add_argument("--replay", default=None)
    ap.add_argument("--only", default=None, help="run only this component (debugging)")
    ap.add_argument("--skip-lean", action="store_true")
    a = ap.parse_args(argv)
    pid = a.pid
    seed = int(os.environ.get("VERIF_SEED", "1"))
    if pid not in registry.PROPS:
        print("unknown property", pid)
        return 2
    spec = registry.PROPS[pid]
    os.environ[GUARD] = "1"
    os.environ.setdefault("PYTHONHASHSEED", "0")
    ctx = Ctx(pid, a.tier, seed)
    if a.replay:
        return replay(ctx, spec, a.replay)
    t0 = time.time()
    findings = load_findings()
    violations = []      # true violations of the property on the implementation
    unproved = []        # theorem / correspondence no longer checks
    known_lines = []
    comp_results = []
    inconclusive = []

    # 1. Lean
    if a.skip_lean:
        lean = {"ok": True, "obligations": 0, "discharged": 0, "theorems": [], "errors": [], "skipped": True}
    else:
        lean = lean_stage(pid, a.tier)
    if not lean["ok"]:
        unproved.append({"kind": "lean", "what": lean["errors"]})

    # 2. components
    names = spec["components"] if not a.only else [a.only]
    for cname in names:
        try:
            mod = import_component(cname)
            r = mod.run(ctx)
            if isinstance(r, dict) and r.get("inconclusive") and not r.get("violations") and not r.get("disagreements"):
                # a coverage floor missed on a slow / loaded machine: one more try with three times the budget
                first = r["inconclusive"]
                ctx.budget_s *= 3
                try:
                    r2 = mod.run(ctx)
                finally:
                    ctx.budget_s /= 3
                r2.setdefault("notes", "first attempt inconclusive (%s); this is the second attempt" % str(first)[:200])
                r = r2
        except Exception:
            r = {"name": cname, "error": traceback.format_exc()[-3000:]}
        finally:
            simmod = sys.modules.get("harness.sim")
            if simmod is not None:
                simmod.restore_runtime()      # no component inherits a simulator's virtual clock
        r.setdefault("name", cname)
        comp_results.append(r)
        if r.get("error"):
            # a crashing component = broken correspondence (e.g. injector no longer fits the code)
            unproved.append({"kind": "correspondence", "component": cname, "what": r["error"]})
        for d in r.get("disagreements", []):
            unproved.append({"kind": "correspondence", "component": cname, "what": d})
        for v in r.get("violations", []):
            v.setdefault("component", cname)
            violations.append(v)
        if r.get("inconclusive"):
            inconclusive.append("%s: %s" % (cname, r["inconclusive"]))

    # 3. search for a failing input when something no longer checks and no violation is at hand
    searched = []
    if unproved and not [v for v in violations if not match_finding(findings, pid, v)]:
        for cname in names:
            try:
                mod = import_component(cname)
                if hasattr(mod, "search"):
                    rs = mod.search(ctx, unproved) or []
                    searched.append({"component": cname, "found": len(rs)})
                    for v in rs:
                        v.setdefault("component", cname)
                        violations.append(v)
            except Exception:
                searched.append({"component": cname, "error": traceback.format_exc()[-1500:]})

    # 4. classify
    new_viol = []
    for v in violations:
        f = match_finding(findings, pid, v)
        if f is not None:
            line = "KNOWN-FINDING: property=%s %s" % (pid, f["what"])
            if line not in known_lines:
                known_lines.append(line)
        else:
            new_viol.append(v)
    for line in known_lines:
        print(line)

    rc = 0
    os.makedirs(os.path.join(VERIF, "replays"), exist_ok=True)
    if new_viol:
        v = new_viol[0]
        path = os.path.join("replays", "%s-%d.json" % (pid, seed))
        write_json(os.path.join(VERIF, path), {"property": pid, "seed": seed, "tier": a.tier, "violation": v,
                                               "all_violations": new_viol[:20], "unproved": unproved[:5]})
        print("VIOLATION property=%s replay=%s" % (pid, path))
        print("  what: %s" % str(v.get("what"))[:600])
        rc = 1
    elif unproved:
        path = os.path.join("replays", "%s-%d-unproved.json" % (pid, seed))
        write_json(os.path.join(VERIF, path), {"property": pid, "seed": seed, "tier": a.tier,
                                               "no_longer_checks": unproved[:20], "search": searched})
        print("VIOLATION property=%s replay=%s no-failing-input-found" % (pid, path))
        print("  what: %s" % json.dumps(unproved[0], default=str)[:800])
        rc = 1
    elif inconclusive:
        print("INCONCLUSIVE property=%s %s" % (pid, "; ".join(inconclusive)[:500]))
        rc = 2

    # 5. evidence
    wall = round(time.time() - t0, 2)
    samples = []
    for t in lean["theorems"][:40]:
        samples.append({"theorem": t["name"], "axioms": t["axioms"]})
    comp_cov = {}
    total_cases = 0
    total_distinct = 0
    for r in comp_results:
        comp_cov[r["name"]] = {k: r.get(k) for k in ("cases", "distinct", "coverage", "wall_s", "notes") if k in r}
        total_cases += int(r.get("cases", 0) or 0)
        total_distinct += int(r.get("distinct", 0) or 0)
        for s in (r.get("samples") or [])[:3]:
            samples.append({"component": r["name"], "case": s})
    ev = {
        "property_id": pid,
        "tier": a.tier,
        "seed": seed,
        "level": "proof",
        "wall_s": wall,
        "violations": len(new_viol) + (1 if (unproved and not new_viol) else 0),
        "coverage": {
            "obligations": max(lean["obligations"], 1) if not lean.get("skipped") else 1,
            "discharged": lean["discharged"],
            "checker_cmd": "cd lean && lake build PSO.Props.%s && lake env lean <generated `#print axioms` file for every theorem of PSO/Props/%s.lean>%s"
                           % (pid, pid, " && lake env leanchecker PSO.Props.%s" % pid if a.tier == "thorough" else ""),
            "trusted_base": spec.get("trusted_base", []) + [
                "Lean 4.33.0 kernel; axioms allowed: propext, Classical.choice, Quot.sound (audited per theorem this run)",
                "hand-written Lean model tied to /repo by the correspondence components listed under coverage.components (differential, seeded)",
                "harness (simulator, injector, canonicaliser) under /verif/harness",
            ],
            "theorems": lean["theorems"],
            "lean_errors": lean["errors"][:5],
            "lean_build_s": lean.get("build_s"),
            "evaluations": total_cases,
            "distinct_nontrivial": total_distinct,
            "rule": "correspondence / witness / monitor cases run against the real code this run; distinct counted per component by canonical input hash (see components)",
            "components": comp_cov,
            "samples": samples[:60],
            "known_findings_printed": known_lines,
            "search": searched,
            "explanation": spec.get("scope", ""),
        },
        "assumptions": spec.get("assumptions", []),
    }
    if not (a.skip_lean or a.only):      # debugging modes do not touch the evidence file
        write_json(os.path.join(VERIF, "evidence", pid + ".json"), ev)
    ctx.cleanup()
    print("check %s tier=%s seed=%d: theorems %d/%d, components %d, cases %d, rc=%d, %.1fs"
          % (pid, a.tier, seed, lean["discharged"], lean["obligations"], len(comp_results), total_cases, rc, wall))
    return rc


def replay(ctx, spec, path):
    data = json.load(open(path))
    v = data.get("violation")
    if not v:
        print("replay file names what no longer checks (no failing input):")
        print(json.dumps(data.get("no_longer_checks"), indent=1, default=str)[:4000])
        return 0
    mod = import_component(v["component"])
    if not hasattr(mod, "replay"):
        print("component %s has no replay hook; violation record:" % v["component"])
        print(json.dumps(v, indent=1, default=str)[:4000])
        return 0
    r = mod.replay(ctx, v)
    print(json.dumps(r, indent=1, default=str)[:6000])
    return 1 if r.get("violated") else 0
