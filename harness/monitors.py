"""Property monitors evaluated on the REAL implementation running under harness/sim.py.

Each monitor is written against the property statement (observations named in the property's
`observe_at`), never against the Lean model.  A monitor returns a list of violation dicts
{"signature", "what"}; signatures are structural so that known_findings.json can match them.
"""
import collections


def sm_safety(sim):
    """C01: no two nodes execute different commands at one position; per node positions are
    consecutive (forward jumps only through snapshot install); object state == executed prefix."""
    out = []
    at = {}
    for n, ex in sim.execs.items():
        prev = None
        for (pos, cmd) in ex:
            if pos in at and at[pos][1] != cmd:
                out.append({"signature": "sm-safety:different-command-at-position",
                            "what": "position %d: node %s executed %r, node %s executed %r" % (pos, at[pos][0], at[pos][1], n, cmd)})
            at.setdefault(pos, (n, cmd))
            if prev is not None and pos <= prev and sim.generation.get(n, 1) == 1:
                out.append({"signature": "sm-safety:position-repeated-or-reordered",
                            "what": "node %s executed position %d after position %d" % (n, pos, prev)})
            prev = pos
    return out


def sm_state(sim):
    """C01: a node's object state equals the execution of the common prefix up to raftLastApplied."""
    out = []
    common = {}
    for n, ex in sim.execs.items():
        for (pos, cmd) in ex:
            common.setdefault(pos, cmd)
    for n, o in sim.objs.items():
        la = o.raftLastApplied
        expect = [common[p] for p in sorted(common) if p <= la]
        have = list(o.log)
        # positions <= la that nobody executed (snapshot installed before anyone in this run recorded them) cannot occur:
        # every command is executed first by some node that applied it from its log.
        if have != expect:
            out.append({"signature": "sm-safety:state-not-fold-of-prefix",
                        "what": "node %s lastApplied %d state %r expected %r" % (n, la, have[-6:], expect[-6:])})
    return out


# FAIL_REASON codes after which the command must never be applied on any node (C02)
DEFINITE_FAILURES = {1: "QUEUE_FULL", 2: "MISSING_LEADER", 3: "DISCARDED", 4: "NOT_LEADER", 6: "REQUEST_DENIED"}


def _success_result(sim, n, x, res, p, all_pos):
    """C02: the result handed to a SUCCESS callback is what the method returns when executed at the
    command's position p of the common sequence.  For the free state machine of sim.Obj (`add` returns the
    number of commands executed so far) that is the rank of p among the executed positions; it must
    also be what every node that executed p got."""
    out = []
    got = sorted(set(r[p] for r in getattr(sim, "results", {}).values() if p in r))
    rank = len([q for q in all_pos if q <= p])
    if got and (len(got) > 1 or got[0] != rank):
        out.append({"signature": "callback:execution-result-differs-between-nodes",
                    "what": "cmd %r at position %d returned %s on the nodes that executed it (rank of the position: %d)" % (x, p, got, rank)})
    if res != rank:
        out.append({"signature": "callback:success-result-not-position-result",
                    "what": "cmd %r reported SUCCESS with result %r at node %s; executing it at its position %d returns %r"
                            % (x, res, n, p, rank)})
    return out


def callbacks_contract(sim, final=False):
    """C02: at most one callback per submission; SUCCESS(r) => executed exactly once at a position whose
    result is r; definite failures => never executed anywhere."""
    out = []
    seen = collections.Counter()
    for (n, cid, res, err) in sim.callbacks:
        seen[cid] += 1
    for cid, k in seen.items():
        if k > 1:
            out.append({"signature": "callback:fired-twice", "what": "callback %d fired %d times" % (cid, k)})
    subs = {}
    for ev in sim.trace:
        if ev[0] == "submit":
            subs[ev[4]] = (ev[1], ev[2], ev[3])
    # positions at which each command value was executed (commands are unique per submission)
    pos_of = collections.defaultdict(set)
    all_pos = set()
    for n, ex in sim.execs.items():
        for (pos, cmd) in ex:
            key = cmd[1] if isinstance(cmd, tuple) and cmd and cmd[0] == "boom" else cmd
            pos_of[key].add(pos)
            all_pos.add(pos)
    for (n, cid, res, err) in sim.callbacks:
        if cid not in subs:
            continue
        _, x, method = subs[cid]
        if err == 0:  # SUCCESS
            ps = pos_of.get(x, set())
            if len(ps) != 1:
                out.append({"signature": "callback:success-not-exactly-one-position",
                            "what": "cmd %r reported SUCCESS at node %s but executed at positions %s" % (x, n, sorted(ps))})
            elif method == "add":
                out.extend(_success_result(sim, n, x, res, next(iter(ps)), all_pos))
        elif err in DEFINITE_FAILURES:
            ps = pos_of.get(x, set())
            if ps:
                out.append({"signature": "callback:definite-failure-but-applied:%s" % DEFINITE_FAILURES[err],
                            "what": "cmd %r was reported %s at node %s but is executed at positions %s"
                                    % (x, DEFINITE_FAILURES[err], n, sorted(ps))})
    for x, ps in pos_of.items():
        if len(ps) > 1:
            out.append({"signature": "callback:command-applied-at-two-positions",
                        "what": "cmd %r executed at positions %s" % (x, sorted(ps))})
    return out


def leaders_per_term(sim):
    """C03: no two nodes ever became leader in one term."""
    out = []
    by_term = collections.defaultdict(set)
    for (n, term, old, new) in sim.state_changes:
        if new == 2:  # LEADER
            by_term[term].add(n)
    for t, ns in by_term.items():
        if len(ns) > 1:
            out.append({"signature": "election:two-leaders-in-term", "what": "term %s leaders %s" % (t, sorted(ns))})
    return out


def errors(sim):
    out = []
    for (n, cls, msg, tb) in sim.errors:
        out.append({"signature": "exception-escaped:%s" % cls, "what": "node %s: %s: %s" % (n, cls, msg)})
    return out


class CommitWatch(object):
    """C04: commit / applied never move backwards while a node runs; at the step where a commit index
    rises the committed prefix is held by a majority of the voters; committed entries never change."""

    def __init__(self, sim):
        self.sim = sim
        self.last = {}
        self.committed = {}      # index -> (term, command) first reported committed
        self.out = []

    def step(self):
        sim = self.sim
        for n, o in sim.objs.items():
            gen = sim.generation[n]
            c, a = o.raftCommitIndex, o.raftLastApplied
            pc, pa, pg = self.last.get(n, (0, 0, gen))
            if pg == gen:
                if c < pc:
                    self.out.append({"signature": "commit:index-moved-backwards", "what": "node %s commit %d -> %d" % (n, pc, c)})
                if a < pa:
                    self.out.append({"signature": "commit:applied-moved-backwards", "what": "node %s applied %d -> %d" % (n, pa, a)})
            if c > pc or pg != gen:
                self._check_majority(n, c)
            self.last[n] = (c, a, gen)
        return self.out

    def _check_majority(self, n, c):
        sim = self.sim
        if n not in sim.voters and n not in sim.observers:
            return
        mylog = {i: (t, cmd) for (i, t, cmd) in sim.log_of(n)}
        base = min(mylog) if mylog else 0
        holders = 0
        voters = [v for v in sim.voters]
        # the entry at c as this node holds it, or (when it has compacted it away) as it was first reported committed
        ref = mylog.get(c, self.committed.get(c))
        for v in voters:
            if v not in sim.objs:
                continue
            lg = {i: (t, cmd) for (i, t, cmd) in sim.log_of(v)}
            vb = min(lg) if lg else 0
            if c in lg:
                # (a restarted node holds the entry in its journal although it has not re-applied it yet)
                ok = ref is None or lg[c] == ref
            else:
                ok = c < vb and sim.objs[v].raftLastApplied >= c       # compacted away = held in the snapshot
            if ok:
                holders += 1
        if 2 * holders <= len(voters):
            self.out.append({"signature": "commit:not-majority-backed",
                             "what": "node %s reports commit %d but only %d of %d voters hold that entry" % (n, c, holders, len(voters))})
        # permanence
        for i, (t, cmd) in mylog.items():
            if i <= c:
                if i in self.committed and self.committed[i] != (t, cmd):
                    self.out.append({"signature": "commit:committed-entry-changed",
                                     "what": "index %d was committed as %r, node %s now has %r" % (i, self.committed[i][:1], n, (t,))})
                self.committed.setdefault(i, (t, cmd))


def all_basic(sim):
    return sm_safety(sim) + sm_state(sim) + leaders_per_term(sim) + callbacks_contract(sim)


class StepMonitors(object):
    """Incremental form of sm_safety + sm_state + leaders_per_term + callbacks_contract for callers that
    evaluate after EVERY simulator event (same statements, same signatures; only what changed since the
    previous step is looked at, so a trace costs O(events) instead of O(events^2))."""

    def __init__(self, sim):
        self.sim = sim
        self.n_exec = collections.Counter()      # node -> processed length of sim.execs[node]
        self.prev_pos = {}
        self.at = {}                             # position -> (node, cmd) first seen
        self.all_pos = set()
        self.pos_of = collections.defaultdict(set)
        self.n_cb = 0
        self.n_trace = 0
        self.n_state = 0
        self.subs = {}
        self.fired = collections.Counter()
        self.success = collections.defaultdict(list)    # cmd -> [(node, result, method)]
        self.failed = {}                                 # cmd -> (node, reason)
        self.leaders = collections.defaultdict(set)
        self.state_key = {}

    @staticmethod
    def _key(cmd):
        return cmd[1] if isinstance(cmd, tuple) and cmd and cmd[0] == "boom" else cmd

    def step(self):
        sim = self.sim
        out = []
        touched = set()
        # executions --------------------------------------------------------------------------------
        for n, ex in list(sim.execs.items()):
            k = self.n_exec[n]
            for (pos, cmd) in ex[k:]:
                if pos in self.at and self.at[pos][1] != cmd:
                    out.append({"signature": "sm-safety:different-command-at-position",
                                "what": "position %d: node %s executed %r, node %s executed %r"
                                        % (pos, self.at[pos][0], self.at[pos][1], n, cmd)})
                self.at.setdefault(pos, (n, cmd))
                prev = self.prev_pos.get(n)
                if prev is not None and pos <= prev and sim.generation.get(n, 1) == 1:
                    out.append({"signature": "sm-safety:position-repeated-or-reordered",
                                "what": "node %s executed position %d after position %d" % (n, pos, prev)})
                self.prev_pos[n] = pos
                key = self._key(cmd)
                self.pos_of[key].add(pos)
                self.all_pos.add(pos)
                touched.add(key)
                if len(self.pos_of[key]) > 1:
                    out.append({"signature": "callback:command-applied-at-two-positions",
                                "what": "cmd %r executed at positions %s" % (key, sorted(self.pos_of[key]))})
            self.n_exec[n] = len(ex)
        # object state = fold of the common prefix ------------------------------------------------------
        for n, o in sim.objs.items():
            la = o.raftLastApplied
            key = (la, len(o.log), self.n_exec[n])
            if self.state_key.get(n) == key:
                continue
            self.state_key[n] = key
            expect = [self.at[p][1] for p in sorted(self.all_pos) if p <= la]
            have = list(o.log)
            if have != expect:
                out.append({"signature": "sm-safety:state-not-fold-of-prefix",
                            "what": "node %s lastApplied %d state %r expected %r" % (n, la, have[-6:], expect[-6:])})
        # leaders -------------------------------------------------------------------------------------
        for (n, term, old, new) in sim.state_changes[self.n_state:]:
            if new == 2:
                self.leaders[term].add(n)
                if len(self.leaders[term]) > 1:
                    out.append({"signature": "election:two-leaders-in-term",
                                "what": "term %s leaders %s" % (term, sorted(self.leaders[term]))})
        self.n_state = len(sim.state_changes)
        # callbacks -----------------------------------------------------------------------------------
        for ev in sim.trace[self.n_trace:]:
            if ev[0] == "submit":
                self.subs[ev[4]] = (ev[1], ev[2], ev[3])
        self.n_trace = len(sim.trace)
        for (n, cid, res, err) in sim.callbacks[self.n_cb:]:
            self.fired[cid] += 1
            if self.fired[cid] > 1:
                out.append({"signature": "callback:fired-twice", "what": "callback %d fired %d times" % (cid, self.fired[cid])})
            if cid not in self.subs:
                continue
            _, x, method = self.subs[cid]
            if err == 0:
                self.success[x].append((n, res, method))
                touched.add(x)
            elif err in DEFINITE_FAILURES:
                self.failed[x] = (n, DEFINITE_FAILURES[err])
                touched.add(x)
        self.n_cb = len(sim.callbacks)
        for x in touched:
            ps = self.pos_of.get(x, set())
            for (n, res, method) in self.success.get(x, []):
                if len(ps) != 1:
                    out.append({"signature": "callback:success-not-exactly-one-position",
                                "what": "cmd %r reported SUCCESS at node %s but executed at positions %s" % (x, n, sorted(ps))})
                elif method == "add":
                    out.extend(_success_result(sim, n, x, res, next(iter(ps)), self.all_pos))
            if x in self.failed and ps:
                n, why = self.failed[x]
                out.append({"signature": "callback:definite-failure-but-applied:%s" % why,
                            "what": "cmd %r was reported %s at node %s but is executed at positions %s" % (x, why, n, sorted(ps))})
        return out
