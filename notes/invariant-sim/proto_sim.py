"""Design-phase sanity check of the invariant scheme of DESIGN.md section 4 (NOT the proof, NOT
part of the machinery): a random simulation of the abstract protocol `Proto` with the ghost
history (voted, termLog, voters, acked) that asserts the invariant conjuncts after every step.
Purpose: find mis-stated invariants before investing in the Lean proof.
usage: python3 proto_sim.py [seed] [steps] [N] [variant]   variant in {fixed, trunc_always, ack_no_term, snap_ack_end, snap_always}
"""
import random, sys
from collections import defaultdict

seed = int(sys.argv[1]) if len(sys.argv) > 1 else 1
STEPS = int(sys.argv[2]) if len(sys.argv) > 2 else 20000
N = int(sys.argv[3]) if len(sys.argv) > 3 else 3
VAR = sys.argv[4] if len(sys.argv) > 4 else 'fixed'
rng = random.Random(seed)
MAXTERM = 6
F, C, L = 0, 1, 2
BASE = (0, 'init')            # entry at index 1 on every node (term 0)

class Node:
    def __init__(s, i):
        s.i = i; s.term = 0; s.voted = None; s.role = F; s.log = [BASE]; s.commit = 1
        s.votes = 0; s.voters = set(); s.match = {}
nodes = [Node(i) for i in range(N)]
msgs = []                      # multiset of in-flight messages
voted = defaultdict(dict)      # ghost: term -> node -> cand
termLog = {0: [BASE]}          # ghost
voters = {}                    # ghost: term -> set
acked = defaultdict(lambda: defaultdict(int))   # ghost: term -> node -> idx
leadersEver = defaultdict(set)
cmdctr = [0]
def maj(k): return 2 * k > N
def last(n): return (n.log[-1][0], len(n.log))
def pre(X, i): return X[:i] if len(X) >= i else None   # None = "does not have i entries"

def timeout(n):
    if n.role == L or n.term >= MAXTERM: return
    n.term += 1; n.role = C; n.voted = n.i; voted[n.term][n.i] = n.i; n.votes = 1; n.voters = {n.i}
    lt, li = last(n)
    for m in nodes:
        if m is not n: msgs.append(('RV', n.term, n.i, m.i, li, lt))
    if maj(n.votes): become_leader(n)
def become_leader(n):
    n.role = L; t = n.term
    assert not leadersEver[t] or leadersEver[t] == {n.i}, 'E2 two leaders in term %d' % t
    leadersEver[t].add(n.i)
    voters[t] = set(n.voters)
    n.log = n.log + [(t, 'noop%d' % t)]
    termLog[t] = list(n.log); acked[t][n.i] = len(n.log)
    n.match = {m.i: 0 for m in nodes if m is not n}
def recv(msg):
    k = msg[0]
    if k == 'RV':
        _, t, c, to, li, lt = msg; n = nodes[to]
        if t > n.term: n.term = t; n.voted = None; n.role = F
        if n.role in (F, C) and t >= n.term:
            mt, ml = last(n)
            if lt < mt or (lt == mt and li < ml) or n.voted is not None: return
            n.voted = c; voted[t][n.i] = c
            msgs.append(('VOTE', t, n.i, c))
    elif k == 'VOTE':
        _, t, frm, c = msg; n = nodes[c]
        if n.role == C and t == n.term:
            n.votes += 1; n.voters.add(frm)
            if maj(n.votes): become_leader(n)
    elif k == 'AE':
        _, t, l, to, prev, pt, es, lc = msg; n = nodes[to]
        if t < n.term: return
        if t > n.term: n.term = t; n.voted = None
        n.role = F
        if prev > len(n.log) or n.log[prev - 1][0] != pt: return      # nack (no state change)
        if VAR == 'trunc_always':
            n.log = n.log[:prev] + list(es)
            m = prev + len(es)
            if lc > n.commit: n.commit = min(lc, len(n.log))
        else:
            j = 0
            while j < len(es) and prev + j < len(n.log) and n.log[prev + j][0] == es[j][0]: j += 1
            if j < len(es): n.log = n.log[:prev + j] + list(es[j:])
            m = prev + len(es)
            n.commit = max(n.commit, min(lc, m))
        acked[t][n.i] = max(acked[t][n.i], m)
        msgs.append(('ACK', t, n.i, l, m))
    elif k == 'ACK':
        _, t, frm, l, m = msg; n = nodes[l]
        if n.role == L and (t == n.term or VAR == 'ack_no_term'):
            n.match[frm] = max(n.match.get(frm, 0), m)
    elif k == 'SNAP':
        _, t, l, to, k_, prefix, lc = msg; n = nodes[to]
        if t < n.term: return
        if t > n.term: n.term = t; n.voted = None
        n.role = F
        has = len(n.log) >= k_ and n.log[k_ - 1] == prefix[k_ - 1]
        if has and VAR != 'snap_always':
            m = len(n.log) if VAR == 'snap_ack_end' else k_
        else:
            n.log = list(prefix); m = k_
        n.commit = max(n.commit, min(lc, k_))
        acked[t][n.i] = max(acked[t][n.i], m)
        msgs.append(('ACK', t, n.i, l, m))
def client(n):
    if n.role != L or len(n.log) > 9: return
    cmdctr[0] += 1; n.log.append((n.term, 'c%d' % cmdctr[0])); termLog[n.term] = list(n.log); acked[n.term][n.i] = len(n.log)
def send_ae(n):
    if n.role != L: return
    to = rng.choice([m.i for m in nodes if m is not n])
    prev = rng.randint(1, len(n.log)); cnt = rng.randint(0, len(n.log) - prev)
    msgs.append(('AE', n.term, n.i, to, prev, n.log[prev - 1][0], tuple(n.log[prev:prev + cnt]), n.commit))
def send_snap(n):
    if n.role != L: return
    to = rng.choice([m.i for m in nodes if m is not n]); k_ = rng.randint(1, n.commit)
    msgs.append(('SNAP', n.term, n.i, to, k_, tuple(n.log[:k_]), n.commit))
def advance(n):
    if n.role != L: return
    ci = n.commit; nxt = n.commit
    while ci < len(n.log):
        ci += 1
        cnt = 1 + sum(1 for m, v in n.match.items() if v >= ci)
        if not maj(cnt): break
        if n.log[ci - 1][0] != n.term: continue
        nxt = ci
    n.commit = nxt

# ---------------- invariants
def blocked(t, i):
    return maj(sum(1 for b in nodes if b.term > t and acked[t][b.i] < i))
def chosen(t, i):
    TL = termLog.get(t)
    return TL is not None and len(TL) >= i and TL[i - 1][0] == t and maj(sum(1 for q in nodes if acked[t][q.i] >= i))
def check(step, what):
    def fail(s): raise AssertionError('step %d after %s: %s' % (step, what, s))
    # L2 on node logs, termLogs, messages
    objs = [('log%d' % n.i, n.log) for n in nodes] + [('termLog%d' % t, TL) for t, TL in termLog.items()]
    for m in msgs:
        if m[0] == 'AE':
            _, t, l, to, prev, pt, es, lc = m
            TL = termLog[t]
            if TL[prev - 1][0] != pt or tuple(TL[prev:prev + len(es)]) != tuple(es): fail('L3 ' + repr(m))
        if m[0] == 'SNAP': objs.append(('snap', list(m[5])))
    for name, X in objs:
        for j, (s, _) in enumerate(X, 1):
            TL = termLog.get(s)
            if TL is None or pre(TL, j) != X[:j]: fail('L2 %s entry (%d,%d)' % (name, j, s))
    # E1
    for n in nodes:
        if n.role == L and n.log != termLog[n.term]: fail('E1 leader log != termLog')
        if n.role == L:
            for f, v in n.match.items():
                if v > acked[n.term][f]: fail('A match > acked')
    for m in msgs:
        if m[0] == 'ACK' and m[4] > acked[m[1]][m[2]]: fail('A ack msg > acked')
    # Y, Z, V
    for t, TL in termLog.items():
        for i in range(1, len(TL) + 1):
            if TL[i - 1][0] != t: continue
            B = blocked(t, i)
            if chosen(t, i) and B: fail('Chosen and Blocked (%d,%d)' % (t, i))
            if B: continue
            for t2, TL2 in termLog.items():
                if t2 > t and pre(TL2, i) != TL[:i]: fail('Y t=%d i=%d t2=%d' % (t, i, t2))
            for n in nodes:
                if acked[t][n.i] >= i and pre(n.log, i) != TL[:i]: fail('Z node %d t=%d i=%d' % (n.i, t, i))
            for t2 in voted:
                if t2 <= t: continue
                for v, c in voted[t2].items():
                    cn = nodes[c]
                    if acked[t][v] >= i and ((cn.role == C and cn.term == t2) or t2 in termLog):
                        X = termLog[t2] if t2 in termLog else cn.log
                        if t2 in termLog and leadersEver[t2] != {c}: continue
                        if pre(X, i) != TL[:i]: fail('V voter %d cand %d t=%d i=%d t2=%d' % (v, c, t, i, t2))
    # C1 + state machine safety
    for n in nodes:
        if n.commit > len(n.log): fail('commit > len')
        ok = any(chosen(t, i) and termLog[t][:n.commit] == n.log[:n.commit]
                 for t in termLog for i in range(n.commit, len(termLog[t]) + 1)) or n.commit == 1
        if not ok: fail('C1 node %d commit %d' % (n.i, n.commit))
    for a in nodes:
        for b in nodes:
            k_ = min(a.commit, b.commit)
            if a.log[:k_] != b.log[:k_]: fail('SMS nodes %d %d' % (a.i, b.i))

acts = ['timeout', 'deliver', 'deliver', 'deliver', 'drop', 'client', 'sendae', 'sendae', 'advance', 'snap']
for step in range(STEPS):
    a = rng.choice(acts); n = rng.choice(nodes)
    if a == 'timeout' and rng.random() < 0.15: timeout(n)
    elif a == 'deliver' and msgs: recv(msgs.pop(rng.randrange(len(msgs))))
    elif a == 'drop' and msgs and rng.random() < 0.3: msgs.pop(rng.randrange(len(msgs)))
    elif a == 'client': client(n)
    elif a == 'sendae': send_ae(n)
    elif a == 'advance': advance(n)
    elif a == 'snap': send_snap(n)
    else: continue
    if len(msgs) > 40: msgs.pop(rng.randrange(len(msgs)))
    check(step, a)
print('ok seed', seed, 'steps', STEPS, 'N', N, 'variant', VAR, 'max term', max(n.term for n in nodes), 'commits', [n.commit for n in nodes], 'terms with leader', sorted(termLog))
