from simlib import *
# ---- C10: overlapping membership changes
class Obj(SyncObj):
    def __init__(self, me, others, **kw):
        conf = SyncObjConf(autoTick=False, raftMinTimeout=0.5, raftMaxTimeout=1.5, appendEntriesPeriod=0.125, dynamicMembershipChange=True, **kw)
        super().__init__(Node(me), [Node(o) for o in others], conf=conf, transportClass=SimTransport)
ids=['a','b','c']
objs=[Obj(i,[j for j in ids if j!=i]) for i in ids]
for i in ids:
    for j in ids:
        if i<j: net.connect(i,j)
run(objs,40)
L=leader(objs); print('leader',L.selfNode.id, 'applied', L.raftLastApplied)
# cut the leader off so nothing commits, then ask two changes
for j in ids:
    if j!=L.selfNode.id: net.disconnect(L.selfNode.id,j)
res=[]
L.addNodeToCluster(Node('d'), callback=lambda r,e: res.append(('add d',e)))
L.addNodeToCluster(Node('e'), callback=lambda r,e: res.append(('add e',e)))
clock.t+=0.0625; L.doTick(0.0)
print('callbacks so far', res, 'leader members', sorted(n.id for n in L.otherNodes), 'commit', L.raftCommitIndex, 'loglen', L._getRaftLogSize())
