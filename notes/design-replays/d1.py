import sys, os, struct
sys.path.insert(0,'/repo')
from pysyncobj.batteries import ReplList, ReplQueue
l = ReplList()
l.append(1, _doApply=True)
try:
    print('pop', l.pop(_doApply=True))
except Exception as e: print('ReplList.pop() ->', type(e).__name__, e)
q = ReplQueue()
print('ReplQueue(maxsize=0).full() on empty =', q.full())
from pysyncobj.journal import FileJournal
p='/tmp/pso-design-replay/j1.bin'
for f in (p,p+'.meta'):
    if os.path.exists(f): os.remove(f)
j = FileJournal(p)
j.add(b'x'*10, 1, 0)
try:
    j.add(b'y'*5000, 2, 0)
    print('big add ok')
except Exception as e: print('FileJournal.add(5000B) ->', type(e).__name__, e, 'len(in-memory)=', len(j))
j._destroy()
j2 = FileJournal(p); print('after reopen len=', len(j2)); j2._destroy()
