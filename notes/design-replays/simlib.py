import sys, random, collections
sys.path.insert(0, '/repo')
import pysyncobj.syncobj as so
from pysyncobj import SyncObj, SyncObjConf, replicated, SyncObjConsumer
from pysyncobj.transport import Transport
from pysyncobj.node import Node
import pysyncobj.transport as tr

class Clock: t = 1000.0
clock = Clock()
so.monotonicTime = lambda: clock.t
tr.monotonicTime = lambda: clock.t
rng = random.Random(1)
so.random.random = lambda: rng.randrange(1024)/1024.0

class Net:
    def __init__(self):
        self.tr = {}; self.q = collections.defaultdict(collections.deque); self.up=set(); self.objs={}
    def connect(self,i,j):
        for a,b in ((i,j),(j,i)):
            if (a,b) not in self.up:
                self.up.add((a,b)); self.tr[a]._onNodeConnected(Node(b))
    def disconnect(self,i,j):
        for a,b in ((i,j),(j,i)):
            if (a,b) in self.up:
                self.up.discard((a,b)); self.q[(a,b)].clear(); self.tr[a]._onNodeDisconnected(Node(b))
    def deliver_all(self):
        n=0
        for (s,d),q in list(self.q.items()):
            while q:
                m=q.popleft(); n+=1
                self.tr[d]._onMessageReceived(Node(s), m)
        return n
    def deliver_one(self,s,d):
        q=self.q[(s,d)]
        if q:
            m=q.popleft(); self.tr[d]._onMessageReceived(Node(s), m); return m
net = Net()

class SimTransport(Transport):
    def __init__(self, syncObj, selfNode, otherNodes):
        super().__init__(syncObj, selfNode, otherNodes)
        self.me = selfNode; net.tr[selfNode.id] = self; self.nodes=set(otherNodes)
    def addNode(self, n): self.nodes.add(n)
    def dropNode(self, n): self.nodes.discard(n)
    def send(self, node, message):
        if (self.me.id, node.id) not in net.up: return False
        net.q[(self.me.id, node.id)].append(message); return True

def run(objs, steps, dt=0.0625, hook=None):
    for s in range(steps):
        clock.t += dt
        for o in objs: o.doTick(0.0)
        net.deliver_all()
        if hook: hook(s)
def leader(objs):
    ls=[o for o in objs if o._isLeader()]
    return ls[0] if len(ls)==1 else None
