import sys, struct, zlib, pickle
sys.path.insert(0,'/repo')
from pysyncobj.tcp_connection import TcpConnection, CONNECTION_STATE
from pysyncobj.poller import POLL_EVENT_TYPE
class FakePoller:
    def subscribe(self,*a): pass
    def unsubscribe(self,*a): pass
class FakeSock:
    def __init__(self, chunks): self.chunks=list(chunks)
    def fileno(self): return 7
    def setsockopt(self,*a): pass
    def getsockopt(self,*a): return 0
    def recv(self,n):
        if self.chunks: return self.chunks.pop(0)
        import socket; e=socket.error(); e.errno=socket.errno.EAGAIN; raise e
    def send(self,b): return len(b)
    def close(self): pass
payload = zlib.compress(pickle.dumps({'hello':1},2),3)
buf = struct.pack('i', -5) + payload + b'Z'
got=[]; disc=[]
c = TcpConnection(FakePoller(), socket=FakeSock([buf]), onMessageReceived=got.append, onDisconnected=lambda: disc.append(1), timeout=1e9)
c._TcpConnection__processConnection(7, POLL_EVENT_TYPE.READ)
print('negative length frame: delivered', got, 'disconnected', bool(disc), 'state', c.state, 'leftover', c._TcpConnection__readBuffer)
