from simlib import *
class Obj(SyncObj):
    def __init__(self, me, others, **kw):
        conf = SyncObjConf(autoTick=False, raftMinTimeout=0.5, raftMaxTimeout=1.5, appendEntriesPeriod=0.125, **kw)
        super().__init__(Node(me), [Node(o) for o in others], conf=conf, transportClass=SimTransport)
        self.log = []
    @replicated
    def add(self, x):
        if x == 'boom': raise ValueError('boom')
        self.log.append(x); return len(self.log)
ids=['a','b','c']
objs=[Obj(i,[j for j in ids if j!=i]) for i in ids]
for i in ids:
    for j in ids:
        if i<j: net.connect(i,j)
run(objs,40)
L=leader(objs); print('leader', L.selfNode.id)
res=[]
L.add(1, callback=lambda r,e: res.append(('1',r,e)))
run(objs,10)
L.add('boom', callback=lambda r,e: res.append(('boom',r,e)))
errs=0
for s in range(30):
    clock.t+=0.0625
    for o in objs:
        try: o.doTick(0.0)
        except Exception as e: errs+=1
    try: net.deliver_all()
    except Exception as e: errs+=1
L.add(2, callback=lambda r,e: res.append(('2',r,e)))
for s in range(60):
    clock.t+=0.0625
    for o in objs:
        try: o.doTick(0.0)
        except Exception as e: errs+=1
    try: net.deliver_all()
    except Exception as e: errs+=1
print('callbacks', res, 'exceptions escaping doTick:', errs)
print([(o.selfNode.id, o._isLeader(), o.raftCommitIndex, o.raftLastApplied, o.log) for o in objs])
