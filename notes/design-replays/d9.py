from simlib import *
import os, glob
for f in glob.glob('/tmp/pso-design-replay/c06_*'): os.remove(f)
class Obj(SyncObj):
    def __init__(self, me, others, tag, **kw):
        conf = SyncObjConf(autoTick=False, raftMinTimeout=0.5, raftMaxTimeout=1.5, appendEntriesPeriod=0.125,
                           journalFile='/tmp/pso-design-replay/c06_%s.jrn'%tag, fullDumpFile='/tmp/pso-design-replay/c06_%s.dump'%tag, useFork=False, **kw)
        super().__init__(Node(me), [Node(o) for o in others], conf=conf, transportClass=SimTransport)
        self.log = []
    @replicated
    def add(self, x):
        self.log.append(x); return len(self.log)
a=Obj('a',['b'],'a'); b=Obj('b',['a'],'b'); objs=[a,b]
net.connect('a','b'); run(objs,40)
L=leader(objs); F=[o for o in objs if o is not L][0]
res=[]
for k in range(6): L.add(k, callback=lambda r,e,k=k: res.append((k,e)))
run(objs,10)
print('acked SUCCESS', res, 'F log idx range', F._SyncObj__raftLog[0][1], F._SyncObj__raftLog[-1][1], 'F applied', F.raftLastApplied)
# F takes a snapshot at applied index 5 only: emulate "dump written, journal not yet trimmed, then more entries, then kill"
F.forceLogCompaction()
clock.t+=0.0625; F.doTick(0.0)      # serialize(): dump written (tmp+rename); trim happens on NEXT tick
for k in range(6,9): L.add(k, callback=lambda r,e,k=k: res.append((k,e)))
for _ in range(4):
    clock.t+=0.0625; L.doTick(0.0)
net.deliver_one(L.selfNode.id, F.selfNode.id)  # F journals entries (acks), no tick on F => journal untrimmed
while net.deliver_one(L.selfNode.id, F.selfNode.id): pass
print('F journal before kill: idx', F._SyncObj__raftLog[0][1], '..', F._SyncObj__raftLog[-1][1], 'dump exists', os.path.exists('/tmp/pso-design-replay/c06_%s.dump'% F.selfNode.id))
fid=F.selfNode.id
# kill -9 F: just drop the object without destroy (mmap shared pages persist); restart
F._SyncObj__raftLog._FileJournal__journalFile._ResizableFile__mm.flush()
net.disconnect('a','b')
F2=Obj(fid,[L.selfNode.id],fid)
print('after restart, before first tick: journal idx', F2._SyncObj__raftLog[0][1], '..', F2._SyncObj__raftLog[-1][1])
clock.t+=0.0625; F2.doTick(0.0)
print('after first tick (dump loaded): journal idx', F2._SyncObj__raftLog[0][1], '..', F2._SyncObj__raftLog[-1][1], 'applied', F2.raftLastApplied, 'state', F2.log)
