from simlib import *
class Obj(SyncObj):
    def __init__(self, me, others, **kw):
        conf = SyncObjConf(autoTick=False, raftMinTimeout=0.5, raftMaxTimeout=1.5, appendEntriesPeriod=0.125, **kw)
        super().__init__(Node(me), [Node(o) for o in others], conf=conf, transportClass=SimTransport)
        self.log = []; self.execs=[]
    @replicated
    def add(self, x):
        self.execs.append((self.raftLastApplied+1, x)); self.log.append(x); return len(self.log)
ids=['a','b','c']
objs=[Obj(i,[j for j in ids if j!=i]) for i in ids]
O={o.selfNode.id:o for o in objs}
for i,j in (('a','b'),('a','c'),('b','c')): net.connect(i,j)
run(objs,40)
L=leader(objs); lid=L.selfNode.id; F,P=[o for o in objs if o is not L]; fid=F.selfNode.id; pid=P.selfNode.id
net.disconnect(lid,fid); net.disconnect(pid,fid)
for k in range(6): L.add('x%d'%k)
run([L,P],10)
print('L end',L._SyncObj__raftLog[-1][1],'F end',F._SyncObj__raftLog[-1][1])
# leader change: old leader cut off, P (up to date) + F (lagging) form the majority
net.disconnect(lid,pid)
net.connect(pid,fid)
for s_ in range(80):
    clock.t+=0.0625; P.doTick(0.0)
    # deliver only votes traffic until P leads
    m=net.deliver_one(pid,fid)
    while m is not None and m['type']!='append_entries': m=net.deliver_one(pid,fid)
    while net.deliver_one(fid,pid): pass
    if P._isLeader(): break
print('P leader', P._isLeader(), 'term', P.raftCurrentTerm, 'next[F]', P._SyncObj__raftNextIndex[Node(fid)])
L=P; lid=pid
net.q[(lid,fid)].clear()
clock.t+=0.25; L.doTick(0.0); clock.t+=0.25; L.doTick(0.0)
print('queued to F', [(m.get('prevLogIdx'), len(m.get('entries',[]))) for m in net.q[(lid,fid)]])
while net.deliver_one(lid,fid): pass
replies=list(net.q[(fid,lid)]); net.q[(fid,lid)].clear()
print('F replies', [(m['next_node_idx'],m['reset'],m['success']) for m in replies])
# first reset -> leader resends everything; F catches up
net.tr[lid]._onMessageReceived(Node(fid), replies[0])
for s in range(6):
    clock.t+=0.0625; L.doTick(0.0); F.doTick(0.0)
    net.deliver_all()
print('F applied',F.raftLastApplied,'end',F._SyncObj__raftLog[-1][1])
L.forceLogCompaction()
for s in range(3):
    clock.t+=0.0625; L.doTick(0.0); net.deliver_all()
for k in range(6,9): L.add('x%d'%k)
for s in range(8):
    clock.t+=0.0625
    for o in (L,F): o.doTick(0.0)
    net.deliver_all()
print('L base',L._SyncObj__raftLog[0][1],'F applied',F.raftLastApplied,'F end',F._SyncObj__raftLog[-1][1], 'match F', L._SyncObj__raftMatchIndex[Node(fid)])
# now the second (stale) reset reply arrives
net.tr[lid]._onMessageReceived(Node(fid), replies[1])
clock.t+=0.25; L.doTick(0.0)
while net.deliver_one(lid,fid): pass
print('after stale reset: F applied',F.raftLastApplied,'F log',[e[1] for e in F._SyncObj__raftLog[:]], 'L commit', L.raftCommitIndex, 'match F', L._SyncObj__raftMatchIndex[Node(fid)])
run([L,F],10)
from collections import Counter
print('positions executed more than once on F:', [p for p,c in Counter(p for p,_ in F.execs).items() if c>1])
