from simlib import *
import os,glob
for f in glob.glob('/tmp/pso-design-replay/c07_*'): os.remove(f)
class Obj(SyncObj):
    def __init__(self, me, others, **kw):
        conf = SyncObjConf(autoTick=False, raftMinTimeout=0.5, raftMaxTimeout=1.5, appendEntriesPeriod=0.125, journalFile='/tmp/pso-design-replay/c07_v.jrn', **kw)
        super().__init__(Node(me), [Node(o) for o in others], conf=conf, transportClass=SimTransport)
v=Obj('v',['a','b'])
net.up |= {('v','a'),('v','b')}
rv=lambda t:{'type':'request_vote','term':t,'last_log_index':1,'last_log_term':0}
v._SyncObj__onMessageReceived(Node('a'), rv(1))
print('votes sent before restart:', [(d,m['type'],m['term']) for (s,d),q in net.q.items() for m in q])
v2=Obj('v',['a','b'])   # restart on the same journal
print('term after restart', v2.raftCurrentTerm)
v2._SyncObj__onMessageReceived(Node('b'), rv(1))
print('votes sent in total:', [(d,m['type'],m['term']) for (s,d),q in net.q.items() for m in q])
