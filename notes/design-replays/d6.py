from simlib import *
class Obj(SyncObj):
    def __init__(self, me, others, **kw):
        conf = SyncObjConf(autoTick=False, raftMinTimeout=0.5, raftMaxTimeout=1.5, appendEntriesPeriod=0.125, **kw)
        super().__init__(Node(me), [Node(o) for o in others], conf=conf, transportClass=SimTransport)
        self.log = []
    @replicated
    def add(self, x):
        self.log.append(x); return len(self.log)
ids=['a','b','c']
objs=[Obj(i,[j for j in ids if j!=i]) for i in ids]
O={o.selfNode.id:o for o in objs}
for i,j in (('a','b'),('a','c'),('b','c')): net.connect(i,j)
run(objs,40)
L=leader(objs); lid=L.selfNode.id; print('leader', lid, 'term', L.raftCurrentTerm)
L.add('ok'); run(objs,10)
others=[o for o in objs if o is not L]
for o in others: net.disconnect(lid,o.selfNode.id)
res=[]
L.add('LOST', callback=lambda r,e: res.append(('LOST',r,e)))
clock.t+=0.0625; L.doTick(0.0)
print('old leader log end', L._SyncObj__getCurrentLogIndex() if hasattr(L,'_SyncObj__getCurrentLogIndex') else None)
# others elect
run(others,60)
L2=leader(others); print('new leader', L2.selfNode.id, 'term', L2.raftCurrentTerm)
for k in range(5): L2.add('n%d'%k)
run(others,10)
L2.forceLogCompaction(); run(others,4)
print('L2 log first idx', L2._SyncObj__raftLog[0][1], 'old leader end', L._SyncObj__raftLog[-1][1], 'old is leader?', L._isLeader())
# heal only L<->L2
net.connect(lid, L2.selfNode.id)
for s in range(40):
    clock.t+=0.0625
    for o in (L2, L):
        o.doTick(0.0)
    # deliver one message per direction per step, ticking in between
    m=net.deliver_one(L2.selfNode.id, lid)
    L.doTick(0.0)
    net.deliver_one(lid, L2.selfNode.id)
    if res: print('step',s,'callback fired:',res, 'old leader log:', L.log, 'applied', L.raftLastApplied); break
run(objs,30)
print('final', [(o.selfNode.id,o.log,o.raftLastApplied) for o in objs], res)
