from simlib import *
# ---- C17: unsupported version continue + name table after snapshot
class OldObj(SyncObj):
    def __init__(self, me, others, **kw):
        conf = SyncObjConf(autoTick=False, raftMinTimeout=0.5, raftMaxTimeout=1.5, appendEntriesPeriod=0.125, **kw)
        super().__init__(Node(me), [Node(o) for o in others], conf=conf, transportClass=SimTransport)
        self.calls=[]
    @replicated
    def f(self, x): self.calls.append(('v0',x))
class NewObj(SyncObj):
    def __init__(self, me, others, **kw):
        conf = SyncObjConf(autoTick=False, raftMinTimeout=0.5, raftMaxTimeout=1.5, appendEntriesPeriod=0.125, **kw)
        super().__init__(Node(me), [Node(o) for o in others], conf=conf, transportClass=SimTransport)
        self.calls=[]
    @replicated(ver=0)
    def f(self, x): self.calls.append(('v0',x))
    @replicated(ver=1)
    def f(self, x): self.calls.append(('v1',x))
a=NewObj('a',['b','c']); b=NewObj('b',['a','c']); c=OldObj('c',['a','b'])
objs=[a,b,c]
for i,j in (('a','b'),('a','c'),('b','c')): net.connect(i,j)
run(objs,40)
L=leader(objs); print('leader', L.selfNode.id)
if L is c:
    print('old node is leader; rerun w/ other seed'); 
N = a if L is not a else b
L.f(1)
run(objs,10)
N.setCodeVersion(1)
N.f(2); N.f(3)
errs=0
for s in range(20):
    clock.t+=0.0625
    for o in objs:
        try:o.doTick(0.0)
        except Exception as e: errs+=1; print('EXC', type(e).__name__, e)
    net.deliver_all()
print('old node c: applied', c.raftLastApplied, 'commit', c.raftCommitIndex, 'calls', c.calls)
print('new node a: applied', a.raftLastApplied, 'calls', a.calls, 'ver', a.getCodeVersion())
# snapshot + name table
a.forceLogCompaction()
run(objs,4)
a._SyncObj__loadDumpFile(clearJournal=False)
print('after reload: getCodeVersion', a.getCodeVersion(), 'resolves f ->', a._getFuncName('f'))
