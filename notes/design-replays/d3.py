from simlib import *
import pickle
# ---- C11 chunk finish
class Obj(SyncObj):
    def __init__(self, me, others, **kw):
        conf = SyncObjConf(autoTick=False, raftMinTimeout=0.5, raftMaxTimeout=1.5, appendEntriesPeriod=0.125, **kw)
        super().__init__(Node(me), [Node(o) for o in others], conf=conf, transportClass=SimTransport)
        self.log = []
    @replicated
    def add(self, x):
        self.log.append(x); return len(self.log)
ids=['a','b']
objs=[Obj(i,[j for j in ids if j!=i], appendEntriesBatchSizeBytes=1000) for i in ids]
net.connect('a','b')
run(objs,40)
L=leader(objs)
bad=[]
for n in range(1900, 2010):
    errs=[]
    L.add('x'*n)
    for s in range(6):
        clock.t+=0.0625
        for o in objs:
            try: o.doTick(0.0)
            except Exception as e: errs.append(type(e).__name__)
        try: net.deliver_all()
        except Exception as e: errs.append(type(e).__name__+':'+str(e)[:40])
    if errs: bad.append((n,errs[:2]))
print('sizes with exceptions (batch=1000):', [b[0] for b in bad][:40], bad[:2])
print([len(o.log) for o in objs], [o.raftLastApplied for o in objs])
