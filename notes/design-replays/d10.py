from simlib import *
class Obj(SyncObj):
    def __init__(self, me, others, **kw):
        conf = SyncObjConf(autoTick=False, raftMinTimeout=0.5, raftMaxTimeout=1.5, appendEntriesPeriod=0.125, **kw)
        super().__init__(Node(me), [Node(o) for o in others], conf=conf, transportClass=SimTransport)
        self.log = []
    @replicated
    def add(self, x):
        self.log.append(x); return len(self.log)
ids=['a','b','c','d','e']
objs=[Obj(i,[j for j in ids if j!=i]) for i in ids]
O={o.selfNode.id:o for o in objs}
import itertools
for i,j in itertools.combinations(ids,2): net.connect(i,j)
run(objs,40)
L=leader(objs); lid=L.selfNode.id
rest=[i for i in ids if i!=lid]; fid,pid,qid,rid=rest
F,P,Q,R=[O[i] for i in rest]
print('L',lid,'term',L.raftCurrentTerm,'end',L._SyncObj__raftLog[-1][1])
def tick(os_, dt=0.0625):
    clock.t+=dt
    for o in os_: o.doTick(0.0)
def deliver_between(group):
    n=0
    for (s,d),q in list(net.q.items()):
        if s in group and d in group:
            while q:
                m=q.popleft(); n+=1; net.tr[d]._onMessageReceived(Node(s), m)
    return n
# 1. isolate {L,F} from {P,Q,R}
for x in (lid,fid):
    for y in (pid,qid,rid): net.disconnect(x,y)
for k in range(3): L.add('old%d'%k)
tick([L]); tick([L],0.25)
# deliver L->F only; hold F->L
while net.deliver_one(lid,fid): pass
print('held acks F->L:', [(m['next_node_idx'],m['success']) for m in net.q[(fid,lid)] if m['type']=='next_node_idx'])
held=list(net.q[(fid,lid)]); net.q[(fid,lid)].clear()
# 3. P,Q,R elect
for s in range(80):
    tick([P,Q,R]); deliver_between({pid,qid,rid})
    if leader([P,Q,R]): break
N=leader([P,Q,R]); nid=N.selfNode.id; print('new leader',nid,'term',N.raftCurrentTerm)
for s in range(6): tick([P,Q,R]); deliver_between({pid,qid,rid})
# 4. connect N<->L ; L steps down, gets overwritten
net.connect(nid,lid)
for s in range(8):
    tick([P,Q,R]); deliver_between({pid,qid,rid,lid})
print('L role leader?',L._isLeader(),'term',L.raftCurrentTerm,'log',[(e[1],e[2]) for e in L._SyncObj__raftLog[:]])
# 5. L becomes leader again with votes of the other two of PQR: connect L to them, stop N ticking
others2=[x for x in (pid,qid,rid)]
for x in others2: net.connect(lid,x)
for s in range(60):
    tick([L])
    # deliver everything except F->L
    deliver_between({pid,qid,rid,lid})
    if L._isLeader(): break
print('L leader again?',L._isLeader(),'term',L.raftCurrentTerm,'end',L._SyncObj__raftLog[-1][1], 'match F', L._SyncObj__raftMatchIndex.get(Node(fid)))
# 6. deliver stale acks from F
for m in held: net.tr[lid]._onMessageReceived(Node(fid), m)
print('after stale acks: match F =', L._SyncObj__raftMatchIndex.get(Node(fid)))
# 7. L appends; only one other node (say pid if != nid else qid) acks
res=[]
L.add('NEW', callback=lambda r,e: res.append((r,e)))
helper=[x for x in others2][0]
for x in others2:
    if x!=helper: net.disconnect(lid,x)
for s in range(6):
    tick([L, O[helper]]); deliver_between({lid,helper})
print('L commit',L.raftCommitIndex,'end',L._SyncObj__raftLog[-1][1],'callback',res)
print('holders of last entry:', [i for i in ids if O[i]._SyncObj__raftLog[-1][1]>=L._SyncObj__raftLog[-1][1] and O[i]._SyncObj__raftLog[-1][2]==L.raftCurrentTerm])
