from simlib import *
class Obj(SyncObj):
    def __init__(self, me, others, **kw):
        conf = SyncObjConf(autoTick=False, raftMinTimeout=0.5, raftMaxTimeout=1.5, appendEntriesPeriod=0.125, **kw)
        super().__init__(Node(me), [Node(o) for o in others], conf=conf, transportClass=SimTransport)
        self.log = []
    @replicated
    def add(self, x):
        self.log.append(x); return len(self.log)
ids=['a','b','c']
objs=[Obj(i,[j for j in ids if j!=i], appendEntriesBatchSizeBytes=250) for i in ids]
for i,j in (('a','b'),('a','c'),('b','c')): net.connect(i,j)
run(objs,40)
L=leader(objs); lid=L.selfNode.id
F,P=[o for o in objs if o is not L]; fid=F.selfNode.id; pid=P.selfNode.id
print('L',lid,'F',fid,'P',pid,'term',L.raftCurrentTerm, 'end', L._SyncObj__raftLog[-1][1])
net.disconnect(lid,pid); net.disconnect(fid,pid)
res=[]
for k in range(9): L.add('c%d'%k + 'x'*90, callback=lambda r,e,k=k: res.append((k,r,e)))
clock.t+=0.0625; L.doTick(0.0)   # appended; sent on next tick (batch mode)
clock.t+=0.125; L.doTick(0.0)
print('L->F queued', [ (m.get('prevLogIdx'), [e[1] for e in m.get('entries',[])]) for m in net.q[(lid,fid)]])
# F processes all
while net.deliver_one(lid,fid): pass
print('F end', F._SyncObj__raftLog[-1][1], 'F->L replies', [(m['next_node_idx'],m['success']) for m in net.q[(fid,lid)]])
# deliver only first reply, then L ticks (resends from regressed nextIndex)
net.deliver_one(fid,lid)
clock.t+=0.25; L.doTick(0.0)
print('L->F resent', [ (m.get('prevLogIdx'), [e[1] for e in m.get('entries',[])]) for m in net.q[(lid,fid)]])
# rest of replies -> L commits everything
while net.deliver_one(fid,lid): pass
clock.t+=0.0625; L.doTick(0.0)
print('L commit', L.raftCommitIndex, 'applied', L.raftLastApplied, 'callbacks', res)
# F gets only the first resent AE, then the connection drops
net.deliver_one(lid,fid)
print('F end after stale AE', F._SyncObj__raftLog[-1][1])
net.disconnect(lid,fid)
net.connect(fid,pid)
run([F,P],80)
N=leader([F,P]); print('new leader', N and N.selfNode.id, 'term', N and N.raftCurrentTerm)
N.add('NEW'); run([F,P],10)
print('F log', [x[:3] for x in F.log]); print('L log', [x[:3] for x in L.log]); print('P log', [x[:3] for x in P.log])
