import Lean.Data.Json
import PSO.Model.Batteries
/-!
Line-protocol driver for component `batteries`.

request  (one JSON object per line):
  {"cls": "counter"|"list"|"dict"|"set"|"queue"|"pq"|"heap", "side": "battery"|"ref",
   "maxsize": null | n, "ops": [[name, arg...], ...]}
    arguments: ints, booleans, lists of ints, lists of [k,v] pairs; an omitted optional argument is
    simply absent; `reset` takes a tagged value (null | int | {"l":[..]} | {"d":[[k,v]..]} | {"s":[..]});
    set `pop` on side "ref" carries the element that was removed from the real mimic set (the choice
    oracle of the `set` abstraction); on side "battery" the model chooses by the implemented rule;
    `["snapshot"]` = deserialize(serialize(state)) into a freshly constructed battery.
response: {"res": [value | {"e": "IndexError"}, ...], "state": value, "maxsize": n}
also:     {"cls":"members","enum":[m,...]} with m = int | {"a":[type name, repr]} | {"t":[m,...]} | {"f":[m,...]}
          -> {"idx": i}: which member of the enumeration `ReplSet.pop` removes (PSO.Py.PySet.chooseIdx, D85)
-/
namespace Driver.Batteries
open Lean PSO.Py PSO.Batteries

def valToJson : Val → Json
  | .none => Json.null
  | .int i => Json.num (JsonNumber.fromInt i)
  | .bool b => Json.bool b
  | .list l => Json.mkObj [("l", Json.arr (l.map (fun i => Json.num (JsonNumber.fromInt i))).toArray)]
  | .dict d => Json.mkObj [("d", Json.arr (d.map (fun (k, v) =>
      Json.arr #[Json.num (JsonNumber.fromInt k), Json.num (JsonNumber.fromInt v)])).toArray)]
  | .set s => Json.mkObj [("s", Json.arr (s.map (fun i => Json.num (JsonNumber.fromInt i))).toArray)]

def errName : Err → String
  | .IndexError => "IndexError" | .ValueError => "ValueError" | .KeyError => "KeyError"
  | .TypeError => "TypeError" | .AssertionError => "AssertionError" | .Full => "Full" | .Empty => "Empty"

def resToJson : Res → Json
  | .ok v => valToJson v
  | .err e => Json.mkObj [("e", Json.str (errName e))]

def getInts (j : Json) : Except String (List Int) := do
  let a ← j.getArr?
  a.toList.mapM (fun x => x.getInt?)

def getPairs (j : Json) : Except String (List (Int × Int)) := do
  let a ← j.getArr?
  a.toList.mapM (fun x => do
    let p ← x.getArr?
    if p.size ≠ 2 then throw "pair expected"
    let k ← p[0]!.getInt?
    let v ← p[1]!.getInt?
    pure (k, v))

def getVal (j : Json) : Except String Val :=
  match j with
  | .null => pure .none
  | .bool b => pure (.bool b)
  | .num _ => do pure (.int (← j.getInt?))
  | .obj _ =>
    match j.getObjVal? "l", j.getObjVal? "d", j.getObjVal? "s" with
    | .ok l, _, _ => do pure (.list (← getInts l))
    | _, .ok d, _ => do pure (.dict (← getPairs d))
    | _, _, .ok s => do pure (.set (← getInts s))
    | _, _, _ => throw "bad tagged value"
  | _ => throw "bad value"

def optInt (a : Array Json) (i : Nat) : Except String (Option Int) :=
  if h : i < a.size then
    match a[i] with
    | .null => pure .none
    | j => do pure (some (← j.getInt?))
  else pure .none

def optBool (a : Array Json) (i : Nat) : Except String (Option Bool) :=
  if h : i < a.size then do pure (some (← a[i].getBool?)) else pure .none

def argInt (a : Array Json) (i : Nat) : Except String Int :=
  if h : i < a.size then a[i].getInt? else throw s!"missing argument {i}"

def argJson (a : Array Json) (i : Nat) : Except String Json :=
  if h : i < a.size then pure a[i] else throw s!"missing argument {i}"

def parseCounterOp (n : String) (a : Array Json) : Except String CounterOp :=
  match n with
  | "set" => do pure (.set (← argInt a 1))
  | "add" => do pure (.add (← argInt a 1))
  | "sub" => do pure (.sub (← argInt a 1))
  | "inc" => pure .inc
  | "get" => pure .get
  | _ => throw s!"counter op {n}"

def parseListOp (n : String) (a : Array Json) : Except String ListOp :=
  match n with
  | "reset" => do pure (.reset (← getVal (← argJson a 1)))
  | "set" => do pure (.set (← argInt a 1) (← argInt a 2))
  | "append" => do pure (.append (← argInt a 1))
  | "extend" => do pure (.extend (← getInts (← argJson a 1)))
  | "insert" => do pure (.insert (← argInt a 1) (← argInt a 2))
  | "remove" => do pure (.remove (← argInt a 1))
  | "pop" => do pure (.pop (← optInt a 1))
  | "sort" => do pure (.sort (← optBool a 1))
  | "index" => do pure (.index (← argInt a 1))
  | "count" => do pure (.count (← argInt a 1))
  | "get" => do pure (.get (← argInt a 1))
  | "__getitem__" => do pure (.getitem (← argInt a 1))
  | "__setitem__" => do pure (.setitem (← argInt a 1) (← argInt a 2))
  | "__len__" => pure .len
  | "rawData" => pure .rawData
  | _ => throw s!"list op {n}"

def parseDictOp (n : String) (a : Array Json) : Except String DictOp :=
  match n with
  | "reset" => do pure (.reset (← getVal (← argJson a 1)))
  | "__setitem__" => do pure (.setitem (← argInt a 1) (← argInt a 2))
  | "set" => do pure (.set (← argInt a 1) (← argInt a 2))
  | "setdefault" => do pure (.setdefault (← argInt a 1) (← argInt a 2))
  | "update" => do pure (.update (← getPairs (← argJson a 1)))
  | "pop" => do pure (.pop (← argInt a 1) (← optInt a 2))
  | "clear" => pure .clear
  | "__getitem__" => do pure (.getitem (← argInt a 1))
  | "get" => do pure (.get (← argInt a 1) (← optInt a 2))
  | "__len__" => pure .len
  | "__contains__" => do pure (.contains (← argInt a 1))
  | "keys" => pure .keys
  | "values" => pure .values
  | "items" => pure .items
  | "rawData" => pure .rawData
  | _ => throw s!"dict op {n}"

/-- set ops; `pop` also yields the oracle -/
def parseSetOp (n : String) (a : Array Json) : Except String (SetOp × Option Int) :=
  match n with
  | "reset" => do pure (.reset (← getVal (← argJson a 1)), .none)
  | "add" => do pure (.add (← argInt a 1), .none)
  | "remove" => do pure (.remove (← argInt a 1), .none)
  | "discard" => do pure (.discard (← argInt a 1), .none)
  | "pop" => do pure (.pop, ← optInt a 1)
  | "clear" => pure (.clear, .none)
  | "update" => do pure (.update (← getInts (← argJson a 1)), .none)
  | "rawData" => pure (.rawData, .none)
  | "__len__" => pure (.len, .none)
  | "__contains__" => do pure (.contains (← argInt a 1), .none)
  | _ => throw s!"set op {n}"

def parseQueueOp (n : String) (a : Array Json) : Except String QueueOp :=
  match n with
  | "qsize" => pure .qsize
  | "empty" => pure .empty
  | "__len__" => pure .len
  | "full" => pure .full
  | "put" => do pure (.put (← argInt a 1))
  | "get" => do pure (.get (← optInt a 1))
  | _ => throw s!"queue op {n}"

/-- the states of all twelve interpreters (+ raw heapq list) -/
inductive St
  | bCounter (s : ReplCounter.State) | rCounter (c : Int)
  | bList (s : ReplList.State) | rList (l : List Int)
  | bDict (s : ReplDict.State) | rDict (d : PyDict.D)
  | bSet (s : ReplSet.State) | rSet (s : PySet.S)
  | bQueue (s : ReplQueue.State) | rQueue (q : PyQueue.Q)
  | bPQ (s : ReplPriorityQueue.State) | rPQ (q : PyQueue.Q)
  | heap (h : List Int)

def initSt (cls side : String) (maxsize : Option Nat) : Except String St :=
  match cls, side with
  | "counter", "battery" => pure (.bCounter ReplCounter.init)
  | "counter", "ref" => pure (.rCounter 0)
  | "list", "battery" => pure (.bList ReplList.init)
  | "list", "ref" => pure (.rList [])
  | "dict", "battery" => pure (.bDict ReplDict.init)
  | "dict", "ref" => pure (.rDict [])
  | "set", "battery" => pure (.bSet ReplSet.init)
  | "set", "ref" => pure (.rSet [])
  | "queue", "battery" => pure (.bQueue (ReplQueue.init maxsize))
  | "queue", "ref" => pure (.rQueue ⟨maxsize.getD 0, []⟩)
  | "pq", "battery" => pure (.bPQ (ReplPriorityQueue.init maxsize))
  | "pq", "ref" => pure (.rPQ ⟨maxsize.getD 0, []⟩)
  | "heap", _ => pure (.heap [])
  | _, _ => throw s!"unknown cls/side {cls}/{side}"

/-- `_deserialize(pickle.loads(pickle.dumps(_serialize())))` into a freshly constructed battery
(constructed with the default arguments: the attribute dictionary overrides everything). -/
def snapshot : St → St
  | .bCounter s => .bCounter (ReplCounter.deserialize (ReplCounter.serialize s) ReplCounter.init)
  | .bList s => .bList (ReplList.deserialize (ReplList.serialize s) ReplList.init)
  | .bDict s => .bDict (ReplDict.deserialize (ReplDict.serialize s) ReplDict.init)
  | .bSet s => .bSet (ReplSet.deserialize (ReplSet.serialize s) ReplSet.init)
  | .bQueue s => .bQueue (ReplQueue.deserialize (ReplQueue.serialize s) (ReplQueue.init .none))
  | .bPQ s => .bPQ (ReplPriorityQueue.deserialize (ReplPriorityQueue.serialize s) (ReplPriorityQueue.init .none))
  | s => s

def stepSt (st : St) (n : String) (a : Array Json) : Except String (St × Res) :=
  if n = "snapshot" then pure (snapshot st, .ok .none) else
  match st with
  | .bCounter s => do let (s', r) := ReplCounter.step s (← parseCounterOp n a); pure (.bCounter s', r)
  | .rCounter s => do let (s', r) := RefCounter.step s (← parseCounterOp n a); pure (.rCounter s', r)
  | .bList s => do let (s', r) := ReplList.step s (← parseListOp n a); pure (.bList s', r)
  | .rList s => do let (s', r) := RefList.step s (← parseListOp n a); pure (.rList s', r)
  | .bDict s => do let (s', r) := ReplDict.step s (← parseDictOp n a); pure (.bDict s', r)
  | .rDict s => do let (s', r) := RefDict.step s (← parseDictOp n a); pure (.rDict s', r)
  | .bSet s => do
    let (op, _) ← parseSetOp n a           -- the battery chooses by its own rule; no oracle
    let (s', r) := ReplSet.step s op; pure (.bSet s', r)
  | .rSet s => do
    let (op, oracle) ← parseSetOp n a
    let choose : PySet.S → Int := fun cur => oracle.getD (cur.headD 0)
    let (s', r) := RefSet.step choose s op; pure (.rSet s', r)
  | .bQueue s => do let (s', r) := ReplQueue.step s (← parseQueueOp n a); pure (.bQueue s', r)
  | .rQueue s => do let (s', r) := RefQueue.step s (← parseQueueOp n a); pure (.rQueue s', r)
  | .bPQ s => do let (s', r) := ReplPriorityQueue.step s (← parseQueueOp n a); pure (.bPQ s', r)
  | .rPQ s => do let (s', r) := RefPQ.step s (← parseQueueOp n a); pure (.rPQ s', r)
  | .heap h =>
    match n with
    | "push" => do pure (.heap (PyHeap.heappush h (← argInt a 1)), .ok .none)
    | "pop" =>
      match PyHeap.heappop h with
      | .ok (x, h') => pure (.heap h', .ok (.int x))
      | .error e => pure (.heap h, .err e)
    | _ => throw s!"heap op {n}"

def stContents : St → Val × Nat
  | .bCounter s => (ReplCounter.contents s, 0) | .rCounter c => (.int c, 0)
  | .bList s => (ReplList.contents s, 0) | .rList l => (.list l, 0)
  | .bDict s => (ReplDict.contents s, 0) | .rDict d => (.dict d, 0)
  | .bSet s => (ReplSet.contents s, 0) | .rSet s => (.set s, 0)
  | .bQueue s => (ReplQueue.contents s, s.maxsize) | .rQueue q => (.list q.data, q.maxsize)
  | .bPQ s => (ReplPriorityQueue.contents s, s.maxsize) | .rPQ q => (.list q.data, q.maxsize)
  | .heap h => (.list h, 0)

/-- set member: number | {"a":[type name, repr]} | {"t":[members]} | {"f":[members in iteration order]} -/
partial def getMember (j : Json) : Except String PySet.Member :=
  match j with
  | .num _ => do pure (.int (← j.getInt?))
  | .obj _ =>
    match j.getObjVal? "a", j.getObjVal? "t", j.getObjVal? "f" with
    | .ok a, _, _ => do
      let p ← a.getArr?
      if p.size ≠ 2 then throw "atom: [type, repr] expected"
      pure (.atom (PySet.codes (← p[0]!.getStr?)) (PySet.codes (← p[1]!.getStr?)))
    | _, .ok t, _ => do pure (.tup (← (← t.getArr?).toList.mapM getMember))
    | _, _, .ok f => do pure (.fset (← (← f.getArr?).toList.mapM getMember))
    | _, _, _ => throw "bad member"
  | _ => throw "bad member"

/-- {"cls":"members","enum":[member, ...]} -> {"idx": position of the member ReplSet.pop removes} -/
def handleMembers (j : Json) : Except String String := do
  let ms ← (← (← j.getObjVal? "enum").getArr?).toList.mapM getMember
  match PySet.chooseIdx ms with
  | some i => pure (Json.mkObj [("idx", Json.num (JsonNumber.fromNat i))]).compress
  | .none => pure (Json.mkObj [("idx", Json.null)]).compress

def handle (line : String) : Except String String := do
  let j ← Json.parse line
  let cls ← (← j.getObjVal? "cls").getStr?
  if cls = "members" then return (← handleMembers j)
  let side ← (← j.getObjVal? "side").getStr?
  let maxsize : Option Nat ← match j.getObjVal? "maxsize" with
    | .ok .null => pure .none
    | .ok m => do pure (some (← m.getNat?))
    | .error _ => pure .none
  let ops ← (← j.getObjVal? "ops").getArr?
  let mut st ← initSt cls side maxsize
  let mut out : Array Json := #[]
  for o in ops do
    let a ← o.getArr?
    if a.size = 0 then throw "empty op"
    let n ← a[0]!.getStr?
    let (st', r) ← stepSt st n a
    st := st'
    out := out.push (resToJson r)
  let (c, m) := stContents st
  pure (Json.mkObj [("res", Json.arr out), ("state", valToJson c), ("maxsize", Json.num (JsonNumber.fromNat m))]).compress

partial def loop (stdin stdout : IO.FS.Stream) : IO UInt32 := do
  let line ← stdin.getLine
  if line.isEmpty then return 0
  let l := line.trimAscii.toString
  if l.isEmpty then loop stdin stdout else
  match handle l with
  | .ok s => do stdout.putStrLn s; stdout.flush; loop stdin stdout
  | .error e => do
    stdout.putStrLn (Json.mkObj [("error", Json.str e)]).compress
    stdout.flush
    loop stdin stdout

def run : IO UInt32 := do
  let stdin ← IO.getStdin
  let stdout ← IO.getStdout
  let rc ← loop stdin stdout
  stdout.flush
  return rc

end Driver.Batteries
