/-! Line-protocol driver for component `Batteries` (stub; the component owner replaces `run`). -/
namespace Driver.Batteries

def run : IO UInt32 := do
  IO.eprintln "driver component Batteries: not implemented"
  return 3

end Driver.Batteries
