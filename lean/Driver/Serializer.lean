import Lean.Data.Json
import PSO.Model.Serializer

/-! Line-protocol driver for component `serializer` (model `PSO.Serializer`, property C09).

One JSON object per input line = one case, one JSON object per output line.

**Link case** (`serializer.chunks`): two `Serializer` objects, one connection.
```
{"k":"link","sm":"memory"|"file","rm":..,"sf":bool,"rf":bool,"sb":n,"rb":n,"evs":[Ev...]}
Ev = {"e":"send"} | {"e":"burst","b":n} | {"e":"sendOther","n":k} | {"e":"deliver"} | {"e":"reconnect","c":bool}
   | {"e":"cancel"}  ({"e":"deliver","fin":true|false|null}: what `__loadDumpFile` does after a completed transfer)
   | {"e":"serialize","id":n,"p":["hex",..],"fail":bool} | {"e":"check","ck":null|"success"|..}
   | {"e":"childStep"} | {"e":"childRun"} (all remaining child operations) | {"e":"sndInstall","d":"hex"}
   | {"e":"rcvSerialize",..} | {"e":"rcvCheck",..} | {"e":"rcvChildStep"} | {"e":"rcvChildRun"} | {"e":"rcvRestart","c":bool}
```
Output `{"steps":[{"out":..,"snd":S,"rcv":S,"chan":n}, ...],"held":[hex..],"completed":[hex..]}`, one step per
event; `out` = chunks produced (`[hex,isFirst,isLast]` or null) / return value of the delivery / status and id.
`S = {"pid":"idle|doneOk|doneFail|child","id":n,"dump":hex|null,"tmp":..,"tmp1":..,"inc":bool,"trans":[[node,off,hex]..]}`

**Crash case** (`storage.dump`): primitive operations of one dump write or one incoming transfer and the file
system after every prefix of them.
```
{"k":"crash","fs":{"dump":hex|null,"tmp":..,"tmp1":..},"inc":bool,"what":"serialize","p":[hex..],"fail":bool}
{"k":"crash","fs":{...},"inc":bool,"what":"receive","chunks":[[hex,isFirst,isLast]|null, ...],"fin":true|false|null,
 "own_at":n,"own_p":[hex..]}   (own_at: the node's own inline dump + checkSerializing after n of the messages)
```
Output `{"ops":["openW tmp","write tmp <hex>","close tmp","rename tmp dump",..],"images":[FS0,..,FSn],"rets":[..]}`.
-/
namespace Driver.Serializer
open Lean PSO PSO.Serializer

def hexVal (c : Char) : Nat :=
  if '0' ≤ c ∧ c ≤ '9' then c.toNat - '0'.toNat
  else if 'a' ≤ c ∧ c ≤ 'f' then c.toNat - 'a'.toNat + 10
  else if 'A' ≤ c ∧ c ≤ 'F' then c.toNat - 'A'.toNat + 10 else 0

partial def unhexGo : List Char → List UInt8 → List UInt8
  | a :: b :: rest, acc => unhexGo rest (UInt8.ofNat (16 * hexVal a + hexVal b) :: acc)
  | _, acc => acc.reverse

def unhex (s : String) : Bytes := unhexGo s.toList []

def hexDigit (n : Nat) : Char := if n < 10 then Char.ofNat (48 + n) else Char.ofNat (87 + n)

def hex (b : Bytes) : String :=
  String.ofList (b.foldr (fun x acc => hexDigit (x.toNat / 16) :: hexDigit (x.toNat % 16) :: acc) [])

def getD (j : Json) (k : String) : Json := (j.getObjVal? k).toOption.getD Json.null
def getNat (j : Json) (k : String) : Nat := ((getD j k).getNat?).toOption.getD 0
def getBool (j : Json) (k : String) : Bool := ((getD j k).getBool?).toOption.getD false
def getStr (j : Json) (k : String) : String := ((getD j k).getStr?).toOption.getD ""
def getArr (j : Json) (k : String) : Array Json := ((getD j k).getArr?).toOption.getD #[]

def optHex (j : Json) : Option Bytes :=
  match j with
  | .str s => some (unhex s)
  | _ => none

def jOptHex : Option Bytes → Json
  | some b => Json.str (hex b)
  | none => Json.null

def parseMode (s : String) : Mode := if s == "file" then .file else .memory

def parseStatus (j : Json) : Option Status :=
  match j with
  | .str "notSerializing" => some .notSerializing
  | .str "serializing" => some .serializing
  | .str "success" => some .success
  | .str "failed" => some .failed
  | _ => none

def statusStr : Status → String
  | .notSerializing => "notSerializing" | .serializing => "serializing"
  | .success => "success" | .failed => "failed"

def pidStr : Pid → String
  | .idle => "idle" | .doneOk => "doneOk" | .doneFail => "doneFail" | .child => "child"

def parsePieces (j : Json) (k : String) : List Bytes :=
  (getArr j k).toList.map (fun x => (optHex x).getD [])

def parseChunk (j : Json) : Option Chunk :=
  match j with
  | .arr a =>
    some ⟨(a[0]?.bind optHex).getD [], (a[1]?.bind (·.getBool?.toOption)).getD false,
          (a[2]?.bind (·.getBool?.toOption)).getD false⟩
  | _ => none

def jChunk : Option Chunk → Json
  | some c => Json.arr #[Json.str (hex c.data), Json.bool c.isFirst, Json.bool c.isLast]
  | none => Json.null

def jFS (fs : FS) : Json :=
  Json.mkObj [("dump", jOptHex fs.dump), ("tmp", jOptHex fs.tmp), ("tmp1", jOptHex fs.tmp1), ("snap", jOptHex fs.snap)]

def parseFS (j : Json) : FS :=
  { dump := optHex (getD j "dump"), tmp := optHex (getD j "tmp"), tmp1 := optHex (getD j "tmp1"),
    snap := optHex (getD j "snap") }

def insertSorted (p : Nat × Trans) : List (Nat × Trans) → List (Nat × Trans)
  | [] => [p]
  | q :: r => if p.1 ≤ q.1 then p :: q :: r else q :: insertSorted p r

def jSer (s : Ser) : Json :=
  let tr := s.trans.foldr insertSorted []
  Json.mkObj [("pid", Json.str (pidStr s.pid)), ("id", Json.num s.curId),
    ("dump", jOptHex s.fs.dump), ("tmp", jOptHex s.fs.tmp), ("tmp1", jOptHex s.fs.tmp1),
    ("snap", jOptHex s.fs.snap), ("snapset", Json.bool s.incSnap), ("inc", Json.bool s.incOpen),
    ("trans", Json.arr (tr.map (fun p => Json.arr #[Json.num p.1, Json.num p.2.off, Json.str (hex p.2.data)])).toArray)]

def nameStr : FName → String
  | .dump => "dump" | .tmp => "tmp" | .tmp1 => "tmp1" | .snap => "snap"

def opStr : FsOp → String
  | .openW f => s!"openW {nameStr f}"
  | .write f b => s!"write {nameStr f} {hex b}"
  | .close f => s!"close {nameStr f}"
  | .rename s d => s!"rename {nameStr s} {nameStr d}"
  | .remove f => s!"remove {nameStr f}"

/-- one protocol event → model events (`childRun` expands to as many `childStep`s as the child has left) -/
def parseEv (l : Link) (j : Json) : List Ev :=
  match getStr j "e" with
  | "send" => [.send]
  | "burst" => [.burst (getNat j "b")]
  | "sendOther" => [.sendOther (getNat j "n")]
  | "deliver" => [.deliver (match getD j "fin" with | .bool b => some b | _ => none)]
  | "reconnect" => [.reconnect (getBool j "c")]
  | "cancel" => [.cancel]
  | "serialize" => [.serialize (getNat j "id") (parsePieces j "p") (getBool j "fail")]
  | "check" => [.check (parseStatus (getD j "ck"))]
  | "childStep" => [.childStep]
  | "childRun" => match l.snd.child with
    | some ⟨ops, _⟩ => ops.map (fun _ => Ev.childStep)
    | none => []
  | "sndInstall" => [.sndInstall ((optHex (getD j "d")).getD [])]
  | "rcvSerialize" => [.rcvSerialize (getNat j "id") (parsePieces j "p") (getBool j "fail")]
  | "rcvCheck" => [.rcvCheck (parseStatus (getD j "ck"))]
  | "rcvChildStep" => [.rcvChildStep]
  | "rcvChildRun" => match l.rcv.child with
    | some ⟨ops, _⟩ => ops.map (fun _ => Ev.rcvChildStep)
    | none => []
  | "rcvRestart" => [.rcvRestart (getBool j "c")]
  | _ => []

/-- the observable result of one event (computed with the same model functions `Link.step` uses) -/
def evOut (l : Link) : Ev → Json
  | .send => jChunk (l.snd.getTransmissionData peer).2
  | .burst b => Json.arr ((l.snd.burst peer b).2.map jChunk).toArray
  | .sendOther n => jChunk (l.snd.getTransmissionData (n + 1)).2
  | .deliver fin => match l.chan with
    | [] => Json.null
    | c :: _ =>
      let r := l.rcv.setTransmissionData c
      -- [return value of setTransmissionData, return value of finishIncoming when it is called]
      Json.arr #[Json.bool r.2, match fin with
        | some a => if r.2 then Json.bool (r.1.finishIncoming a).2 else Json.null
        | none => Json.null]
  | .serialize id p f => Json.bool (l.snd.serialize id p f).2
  | .rcvSerialize id p f => Json.bool (l.rcv.serialize id p f).2
  | .check ck =>
    let r := l.snd.checkSerializing ck
    Json.arr #[Json.str (statusStr r.2.1), match r.2.2 with | some i => Json.num i | none => Json.null]
  | .rcvCheck ck =>
    let r := l.rcv.checkSerializing ck
    Json.arr #[Json.str (statusStr r.2.1), match r.2.2 with | some i => Json.num i | none => Json.null]
  | .sndInstall d =>
    let r := l.snd.feed [some ⟨d, true, false⟩, some ⟨[], false, true⟩]
    Json.arr ((r.2 ++ [(r.1.finishIncoming true).2]).map Json.bool).toArray
  | _ => Json.null

def runLink (j : Json) : Json := Id.run do
  let mut l := Link.init (parseMode (getStr j "sm")) (parseMode (getStr j "rm")) (getBool j "sf") (getBool j "rf")
    (getNat j "sb") (getNat j "rb")
  let mut steps : Array Json := #[]
  for ej in getArr j "evs" do
    let evs := parseEv l ej
    let mut out := Json.null
    for e in evs do
      out := evOut l e
      l := l.step e
    steps := steps.push (Json.mkObj [("out", out), ("snd", jSer l.snd), ("rcv", jSer l.rcv),
      ("chan", Json.num l.chan.length)])
  return Json.mkObj [("steps", Json.arr steps), ("held", Json.arr (l.held.map (fun b => Json.str (hex b))).toArray),
    ("completed", Json.arr (l.completed.map (fun b => Json.str (hex b))).toArray)]

def runCrash (j : Json) : Json :=
  let fs := parseFS (getD j "fs")
  let s0 : Ser := { mode := .file, batch := 1, fs := fs, incOpen := getBool j "inc" }
  let (ops, rets) : List FsOp × List Json :=
    if getStr j "what" == "serialize" then
      (serializeOps (parsePieces j "p") (getBool j "fail"),
       [Json.str (pidStr (s0.serialize 0 (parsePieces j "p") (getBool j "fail")).1.pid)])
    else
      let chunks := (getArr j "chunks").toList.map parseChunk
      -- optional: the node's OWN inline dump (`serialize` + `checkSerializing`) after `own_at` of the messages
      let (pre, post) := match (getD j "own_at").getNat?.toOption with
        | some n => (chunks.take n, chunks.drop n)
        | none => (chunks, [])
      let r1 := s0.feed pre
      let (ownOps, r2, ownRets) : List FsOp × Ser × List Json :=
        match (getD j "own_at").getNat?.toOption with
        | some _ =>
          let sr := r1.1.serialize 5 (parsePieces j "own_p") false
          let ck := sr.1.checkSerializing none
          (serializeOps (parsePieces j "own_p") false, ck.1, [Json.str (statusStr ck.2.1)])
        | none => ([], r1.1, [])
      let r := r2.feed post
      let ops := s0.feedOps pre ++ ownOps ++ r2.feedOps post
      let rets := r1.2.map Json.bool ++ ownRets ++ r.2.map Json.bool
      match getD j "fin" with
      | .bool a => (ops ++ r.1.finishOps a, rets ++ [Json.bool (r.1.finishIncoming a).2])
      | _ => (ops, rets)
  let images := (List.range (ops.length + 1)).map (fun k => jFS (fs.crashAt ops k))
  -- fork mode: status `checkSerializing` reports when the child is killed after k of its operations
  let killed : List Json :=
    if getBool j "fork" && getStr j "what" == "serialize" then
      let sf : Ser := { s0 with fork := true }
      let s1 := (sf.serialize 0 (parsePieces j "p") (getBool j "fail")).1
      (List.range ops.length).map (fun k =>
        -- operation 0 (`remove tmp`) is the caller's; the child has performed k-1 of its own when it is killed
        let sk := (List.range (k - 1)).foldl (fun acc _ => acc.childStep) s1
        Json.str (statusStr (sk.childKill.checkSerializing none).2.1))
    else []
  Json.mkObj [("ops", Json.arr (ops.map (fun o => Json.str (opStr o))).toArray),
    ("images", Json.arr images.toArray), ("rets", Json.arr rets.toArray), ("killed", Json.arr killed.toArray)]

def handle (line : String) : String :=
  match Json.parse line with
  | .error e => (Json.mkObj [("error", Json.str e)]).compress
  | .ok j =>
    match getStr j "k" with
    | "link" => (runLink j).compress
    | "crash" => (runCrash j).compress
    | k => (Json.mkObj [("error", Json.str s!"unknown case kind {k}")]).compress

partial def loop (stdin stdout : IO.FS.Stream) : IO Unit := do
  let line ← stdin.getLine
  if line.isEmpty then return
  let t := line.trimAscii.toString
  if !t.isEmpty then
    stdout.putStrLn (handle t)
    stdout.flush
  loop stdin stdout

def run : IO UInt32 := do
  loop (← IO.getStdin) (← IO.getStdout)
  return 0

end Driver.Serializer
