/-! Line-protocol driver for component `Serializer` (stub; the component owner replaces `run`). -/
namespace Driver.Serializer

def run : IO UInt32 := do
  IO.eprintln "driver component Serializer: not implemented"
  return 3

end Driver.Serializer
