/-! Line-protocol driver for component `Queue` (stub; the component owner replaces `run`). -/
namespace Driver.Queue

def run : IO UInt32 := do
  IO.eprintln "driver component Queue: not implemented"
  return 3

end Driver.Queue
