import Lean.Data.Json
import PSO.Model.Queue

/-! Line-protocol driver for component `queue` (model `PSO.Queue`).  One JSON object per line.

Python values: `null`, `true/false`, integers, strings, `{"t":[…]}` tuple, `{"d":[[k,v],…]}` dict.

```
{"op":"fq","max":m,"ops":[["put",n] | ["get"] …]}
     -> {"res":["ok"|"full"|"empty"|n …],"items":[…]}
{"op":"plan","dec":"r"|"s","dt":V,"f":n,"args":[V…],"kw":[[k,V]…]}
     -> {"plan":"local","args":[…],"kw":[…]}
      | {"plan":"rep","cmd":V,"mode":"nocb"|"user"|"sync","timeout":V,"recv":null|{"f":V,"args":[…],"kw":[…]}}
{"op":"unpack","cmd":V}          -> {"recv":null|{…}}
{"op":"outcome","flag":b,"res":n|null,"err":code}   (what the sync wrapper does after the wait)
     -> {"outcome":["value",r]|["raised",code]|["timeout"]}
{"op":"sys","max":m,"counter0":n,"progs":[[spec…]…],"labels":[L…],"skip":bool}   (counter0: start of commandsLocalCounter, default 0)
     spec = {"dec","dt","f","args","kw"} as in "plan"
     L = ["call",t] | ["timeout",t] | ["tick",hasLeader,isLeader,waitLeader,denied,idx,term] (0/1)
       | ["answer",j,code] | ["rput",k] | ["rput",k,node,req]
     -> {"ok":[bool…] (per label: was it enabled; without "skip" the run stops at the first false),
         "hist":[…oldest first…],"queue":[[cmd,cb]…],"pend":[[key,cmd,cb]…],"counter":n,
         "threads":[[next,phase]…]}
```
{"op":"wake","max":m,"cap":c,"chunk":n,"steps":[["put",v] | ["notify",k] | ["notifyBits","1011…"] | ["process",k] | ["poll"] …]}
     (chunk 0 = the pipe is read until empty; notifyBits: one notify per character, '0' = the kernel refuses the byte unless the pipe is empty)
     -> {"steps":[{"pipe":n,"qlen":n,"raised":b,"full":b,"sleeps":b} …]}   (PSO.Queue.Wake, the wake-up pipe)
`resultOf (call ⟨t,k⟩) = 1000*t + k`, `resultOf (foreign k) = 900000 + k`.
-/
namespace Driver.Queue
open Lean PSO.Queue

def jn (n : Nat) : Json := toJson n

partial def valOfJson (j : Json) : Except String Val :=
  match j with
  | .null => pure .none
  | .bool b => pure (.bool b)
  | .num _ => do let i ← j.getInt?; pure (.int i)
  | .str s => pure (.str s)
  | .arr _ => throw "bare array is not a value"
  | .obj _ =>
    match j.getObjVal? "t" with
    | .ok a => do
        let xs ← a.getArr?
        let vs ← xs.toList.mapM valOfJson
        pure (.tup vs)
    | .error _ => do
        let a ← j.getObjVal? "d"
        let xs ← a.getArr?
        let kvs ← xs.toList.mapM fun p => do
          let pa ← p.getArr?
          if h : pa.size = 2 then
            let k ← pa[0].getStr?
            let v ← valOfJson pa[1]
            pure (k, v)
          else throw "pair expected"
        pure (.dict kvs)

mutual
partial def jsonOfVal : Val → Json
  | .none => .null
  | .bool b => .bool b
  | .int n => toJson n
  | .str s => .str s
  | .tup xs => Json.mkObj [("t", .arr (xs.map jsonOfVal).toArray)]
  | .dict kvs => Json.mkObj [("d", jsonOfKw kvs)]
partial def jsonOfKw (kw : Kw) : Json :=
  .arr (kw.map fun (k, v) => Json.arr #[.str k, jsonOfVal v]).toArray
end

def kwOfJson (j : Json) : Except String Kw := do
  match ← valOfJson (Json.mkObj [("d", j)]) with
  | .dict kvs => pure kvs
  | _ => throw "kw"

def specOfJson (j : Json) : Except String CallSpec := do
  let dec ← (← j.getObjVal? "dec").getStr?
  let dt ← match j.getObjVal? "dt" with
    | .ok v => valOfJson v
    | .error _ => pure Val.none
  let f ← (← j.getObjVal? "f").getNat?
  let args ← (← (← j.getObjVal? "args").getArr?).toList.mapM valOfJson
  let kw ← kwOfJson (← j.getObjVal? "kw")
  let d : Dec := if dec == "s" then .replicatedSync dt else .replicated
  pure ⟨d, f, args, kw⟩

def recvJson (cmd : Val) : Json :=
  match received cmd with
  | none => .null
  | some (f, a, k) =>
      Json.mkObj [("f", jsonOfVal f), ("args", .arr (a.map jsonOfVal).toArray), ("kw", jsonOfKw k)]

def planJson (p : Plan) : Json :=
  match p with
  | .localRun a k =>
      Json.mkObj [("plan", "local"), ("args", .arr (a.map jsonOfVal).toArray), ("kw", jsonOfKw k)]
  | .replicate cmd mode =>
      let (m, t) : String × Val := match mode with
        | .nocb => ("nocb", .none)
        | .user => ("user", .none)
        | .sync t => ("sync", t)
      Json.mkObj [("plan", "rep"), ("cmd", jsonOfVal cmd.toVal), ("mode", m), ("timeout", jsonOfVal t),
                  ("recv", recvJson cmd.toVal)]

def cmdJson : CmdRef → Json
  | .call c => .arr #[jn c.t, jn c.k]
  | .foreign k => .arr #["f", jn k]

def cbJson : CbRef → Json
  | .none => .null
  | .user c => .arr #["user", jn c.t, jn c.k]
  | .ares c => .arr #["ares", jn c.t, jn c.k]
  | .remote n r => .arr #["remote", jn n, jn r]

def optNat : Option Nat → Json
  | none => .null
  | some n => jn n

def outcomeJson : Outcome → Json
  | .value r => .arr #["value", optNat r]
  | .raised e => .arr #["raised", jn e.code]
  | .timeout => .arr #["timeout"]

def respJson : Resp → Json
  | .ok i t => .arr #["ok", jn i, jn t]
  | .err e => .arr #["err", jn e.code]

def evJson : Ev → Json
  | .localRun c => .arr #["localRun", jn c.t, jn c.k]
  | .enq c => .arr #["enq", jn c.t, jn c.k]
  | .full c => .arr #["full", jn c.t, jn c.k]
  | .renq k => .arr #["renq", jn k]
  | .rfull k => .arr #["rfull", jn k]
  | .deq m => .arr #["deq", cmdJson m]
  | .appended m i t => .arr #["appended", cmdJson m, jn i, jn t]
  | .forwarded m r => .arr #["forwarded", cmdJson m, optNat r]
  | .dropped m w => .arr #["dropped", cmdJson m, jn w.code]
  | .sent n r b => .arr #["sent", jn n, jn r, respJson b]
  | .fired c res e => .arr #["fired", jn c.t, jn c.k, optNat res, jn e.code]
  | .ret c o => .arr #["ret", jn c.t, jn c.k, outcomeJson o]

def failOfCode : Nat → Except String Fail
  | 0 => pure .success | 1 => pure .queueFull | 2 => pure .missingLeader | 3 => pure .discarded
  | 4 => pure .notLeader | 5 => pure .leaderChanged | 6 => pure .requestDenied
  | _ => throw "bad fail code"

def labelOfJson (j : Json) : Except String Label := do
  let a ← j.getArr?
  if a.size = 0 then throw "empty label"
  let op ← a[0]!.getStr?
  let nat (i : Nat) : Except String Nat := do
    if i < a.size then a[i]!.getNat? else throw "label arity"
  match op with
  | "call" => pure (.call (← nat 1))
  | "timeout" => pure (.timeout (← nat 1))
  | "tick" =>
      pure (.tick ⟨(← nat 1) != 0, (← nat 2) != 0, (← nat 3) != 0, (← nat 4) != 0, ← nat 5, ← nat 6⟩)
  | "answer" => pure (.answer (← nat 1) (← failOfCode (← nat 2)))
  | "rput" =>
      if a.size = 2 then pure (.remotePut (← nat 1) none)
      else pure (.remotePut (← nat 1) (some (← nat 2, ← nat 3)))
  | _ => throw s!"unknown label {op}"

def resultOfStd : CmdRef → Nat
  | .call c => 1000 * c.t + c.k
  | .foreign k => 900000 + k

/-- run, stopping at the first disabled label unless `skip` -/
def runLabels (skip : Bool) : Sys → List Label → Sys × List Bool
  | s, [] => (s, [])
  | s, l :: ls =>
    match s.step l with
    | some s' => let (r, bs) := runLabels skip s' ls; (r, true :: bs)
    | none => if skip then let (r, bs) := runLabels skip s ls; (r, false :: bs) else (s, [false])

def phaseStr : Phase → String
  | .start => "start" | .built => "built" | .waiting => "waiting"

def keyJson : PendKey → Json
  | .commit i t => .arr #["commit", jn i, jn t]
  | .reply r => .arr #["reply", jn r]

def handle (j : Json) : Except String Json := do
  let op ← (← j.getObjVal? "op").getStr?
  match op with
  | "fq" =>
      let m ← (← j.getObjVal? "max").getNat?
      let ops ← (← j.getObjVal? "ops").getArr?
      let mut q : FastQueue Nat := ⟨[], m⟩
      let mut res : Array Json := #[]
      for o in ops do
        let a ← o.getArr?
        if a.size = 2 then
          let v ← a[1]!.getNat?
          match q.putNowait v with
          | some q' => q := q'; res := res.push "ok"
          | none => res := res.push "full"
        else
          match q.getNowait with
          | some (v, q') => q := q'; res := res.push (jn v)
          | none => res := res.push "empty"
      pure (Json.mkObj [("res", .arr res), ("items", .arr (q.items.map jn).toArray)])
  | "plan" =>
      let sp ← specOfJson j
      pure (planJson (planOf sp))
  | "unpack" =>
      let v ← valOfJson (← j.getObjVal? "cmd")
      pure (Json.mkObj [("recv", recvJson v)])
  | "outcome" =>
      let flag ← (← j.getObjVal? "flag").getBool?
      if !flag then pure (Json.mkObj [("outcome", outcomeJson .timeout)])
      else
        let res : Option Nat := match j.getObjVal? "res" with
          | .ok v => match v.getNat? with | .ok n => some n | .error _ => none
          | .error _ => none
        let e ← failOfCode (← (← j.getObjVal? "err").getNat?)
        pure (Json.mkObj [("outcome", outcomeJson (outcomeOf res e))])
  | "sys" =>
      let m ← (← j.getObjVal? "max").getNat?
      let progsJ ← (← j.getObjVal? "progs").getArr?
      let progs ← progsJ.toList.mapM fun p => do
        let a ← p.getArr?
        a.toList.mapM specOfJson
      let labels ← (← (← j.getObjVal? "labels").getArr?).toList.mapM labelOfJson
      let skip := match j.getObjVal? "skip" with
        | .ok (.bool b) => b
        | _ => false
      let c0 := match j.getObjVal? "counter0" with
        | .ok v => (v.getNat?).toOption.getD 0
        | .error _ => 0
      let s0 := Sys.init m progs resultOfStd c0
      let (s, oks) := runLabels skip s0 labels
      let threads := (List.range progs.length).map fun i =>
        Json.arr #[jn (s.thr i).next, .str (phaseStr (s.thr i).phase)]
      pure (Json.mkObj [
        ("ok", .arr (oks.map Json.bool).toArray),
        ("hist", .arr (s.hist.reverse.map evJson).toArray),
        ("queue", .arr (s.q.items.map fun e => Json.arr #[cmdJson e.cmd, cbJson e.cb]).toArray),
        ("pend", .arr (s.pend.map fun p => Json.arr #[keyJson p.key, cmdJson p.e.cmd, cbJson p.e.cb]).toArray),
        ("counter", jn s.counter),
        ("threads", .arr threads.toArray)])
  | "wake" =>
      let m ← (← j.getObjVal? "max").getNat?
      let cap ← (← j.getObjVal? "cap").getNat?
      let ro : Nat := match j.getObjVal? "chunk" with
        | .ok v => (v.getNat?).toOption.getD 0
        | .error _ => 0
      let steps ← (← j.getObjVal? "steps").getArr?
      let mut w := Wake.init m cap ro
      let mut outs : Array Json := #[]
      for st in steps do
        let a ← st.getArr?
        if a.size = 0 then throw "empty step"
        let opn ← a[0]!.getStr?
        let arg : Nat := if a.size > 1 then (a[1]!.getNat?).toOption.getD 0 else 0
        let ls : List WLabel ← match opn with
          | "put" => pure [WLabel.put arg]
          | "notify" => pure (List.replicate (max arg 1) (WLabel.notify true))
          | "notifyBits" =>
              let bits ← if a.size > 1 then a[1]!.getStr? else pure ""
              pure (bits.toList.map fun c => WLabel.notify (c == '1'))
          | "process" => pure [WLabel.process arg]
          | "poll" => pure [WLabel.poll]
          | _ => throw s!"unknown wake step {opn}"
        let r := w.run ls
        w := r.1
        let bad := r.2.any (· == WOut.error)
        let full := r.2.any (· == WOut.queueFull)
        outs := outs.push (Json.mkObj [("pipe", jn w.pipe), ("qlen", jn w.queue.items.length),
          ("raised", .bool bad), ("full", .bool full), ("sleeps", .bool w.sleeps)])
      pure (Json.mkObj [("steps", .arr outs)])
  | _ => throw s!"unknown op {op}"

partial def loop (stdin stdout : IO.FS.Stream) : IO Unit := do
  let line ← stdin.getLine
  if line.isEmpty then return
  let t := line.trimAscii.toString
  if t.isEmpty then
    loop stdin stdout
  else
    let out := match Json.parse t >>= handle with
      | .ok j => j.compress
      | .error e => (Json.mkObj [("error", e)]).compress
    stdout.putStrLn out
    stdout.flush
    loop stdin stdout

def run : IO UInt32 := do
  loop (← IO.getStdin) (← IO.getStdout)
  return 0

end Driver.Queue
