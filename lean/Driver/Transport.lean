/-! Line-protocol driver for component `Transport` (stub; the component owner replaces `run`). -/
namespace Driver.Transport

def run : IO UInt32 := do
  IO.eprintln "driver component Transport: not implemented"
  return 3

end Driver.Transport
