import PSO.Model.Transport

/-! Line-protocol driver for component `transport` (model `PSO.Transport`, property C14).

One request per line (blank-separated tokens), one JSON reply per line.  `I` = instance number (one model
instance per real `TCPTransport` of the harness world).

```
init I self retry timeout now n a1 … an     TCPTransport(selfNode, otherNodes); self = -1: read-only self
adv I dt                                    virtual clock += dt
tick I n f1 … fn                            _onTick; connect() to addresses f1…fn fails immediately
accept I                                    TcpServer accepted a socket
pollok I c sf f                             READ/WRITE poll event, no error, no data; sf: the send() of the own
                                            address fails; f: a connect() made inside fails immediately
connerr I c f                               ERROR event / SO_ERROR / EOF / recv error
recv I c f n m1 … mn                        READ event with n complete messages; m = A<a> | R | U<known><replyFail>
                                            | H<k> | X<k>
add I a                                     addNode
drop I T a | drop I R k                     dropNode
send I T a sf f | send I R k sf f           send
```
Reply: `{"out":[…outputs of this event…],"st":{…registry…}}`; lists are in model order, the harness sorts.
-/
namespace Driver.Transport
open PSO.Transport

def b01 (b : Bool) : String := if b then "1" else "0"

def nodeJ : NodeId → String
  | .tcp a => s!"[\"tcp\",{a}]"
  | .ro k => s!"[\"ro\",{k}]"

def msgJ : Msg → String
  | .addr a => s!"[\"addr\",{a}]"
  | .readonly => "[\"readonly\"]"
  | .util k _ => s!"[\"util\",{b01 k}]"
  | .hashable k => s!"[\"hash\",{k}]"
  | .unhashable k => s!"[\"unhash\",{k}]"

def outJ : Out → String
  | .nodeConn (some n) => s!"[\"nodeConn\",{nodeJ n}]"
  | .nodeConn none => "[\"nodeConn\",null]"
  | .nodeDisc n => s!"[\"nodeDisc\",{nodeJ n}]"
  | .roConn n => s!"[\"roConn\",{nodeJ n}]"
  | .roDisc n => s!"[\"roDisc\",{nodeJ n}]"
  | .deliver n m => s!"[\"deliver\",{nodeJ n},{msgJ m}]"
  | .utility => "[\"utility\"]"
  | .raised => "[\"raised\"]"
  | .sendResult b => s!"[\"sendResult\",{b01 b}]"

def listJ (l : List String) : String := "[" ++ ",".intercalate l ++ "]"

def stateCode : CState → Nat
  | .disconnected => 0
  | .connecting => 1
  | .connected => 2

def cbJ : MsgCb → String
  | .handshake => "null"
  | .deliver n => nodeJ n

def connsJ (l : List Conn) : String :=
  let rec go (i : Nat) : List Conn → List String
    | [] => []
    | k :: r => s!"[{i},{stateCode k.state},{k.lastRead},{b01 k.dialled},{cbJ k.cb}]" :: go (i + 1) r
  listJ (go 0 l)

def stJ (s : St) : String :=
  "{" ++ ",".intercalate [
    s!"\"nodes\":{listJ (s.nodes.map toString)}",
    s!"\"ro\":{listJ (s.roNodes.map toString)}",
    s!"\"roCounter\":{s.roCounter}",
    s!"\"reg\":{listJ (s.reg.map fun (n, c) => s!"[{nodeJ n},{c}]")}",
    s!"\"unknown\":{listJ (s.unknown.map toString)}",
    s!"\"last\":{listJ (s.lastAttempt.map fun (a, t) => s!"[{a},{t}]")}",
    s!"\"conns\":{connsJ s.conns}",
    s!"\"view\":{listJ (s.view.map nodeJ)}",
    s!"\"now\":{s.now}"] ++ "}"

def parseMsg (t : String) : Option Msg :=
  match t.toList with
  | 'A' :: r => (String.ofList r).toNat?.map Msg.addr
  | ['R'] => some .readonly
  | ['U', k, f] => some (.util (k == '1') (f == '1'))
  | 'H' :: r => (String.ofList r).toNat?.map Msg.hashable
  | 'X' :: r => (String.ofList r).toNat?.map Msg.unhashable
  | _ => none

def parseNode : String → Nat → Option NodeId
  | "T", a => some (.tcp a)
  | "R", k => some (.ro k)
  | _, _ => none

/-- Parse an event from the tokens after the instance number. -/
def parseEvent (op : String) (args : List String) : Option Event := do
  match op, args with
  | "adv", [dt] => pure (.advance (← dt.toNat?))
  | "tick", n :: fs =>
    let n ← n.toNat?
    if fs.length ≠ n then none else
    pure (.tick (← fs.mapM String.toNat?))
  | "accept", [] => pure .accept
  | "pollok", [c, sf, f] => pure (.pollOk (← c.toNat?) (sf == "1") (f == "1"))
  | "connerr", [c, f] => pure (.connErr (← c.toNat?) (f == "1"))
  | "recv", c :: f :: n :: ms =>
    let n ← n.toNat?
    if ms.length ≠ n then none else
    pure (.recv (← c.toNat?) (← ms.mapM parseMsg) (f == "1"))
  | "add", [a] => pure (.addNode (← a.toNat?))
  | "drop", [k, a] => pure (.dropNode (← parseNode k (← a.toNat?)))
  | "send", [k, a, sf, f] => pure (.send (← parseNode k (← a.toNat?)) (sf == "1") (f == "1"))
  | _, _ => none

abbrev World := List (Nat × St)

def getInst (w : World) (i : Nat) : Option St := (w.find? (·.1 == i)).map (·.2)
def setInst (w : World) (i : Nat) (s : St) : World := (i, s) :: w.filter (·.1 != i)

def handle (w : World) (line : String) : World × String :=
  let ws := (line.splitOn " ").filter (· ≠ "")
  match ws with
  | "init" :: i :: self :: retry :: timeout :: now :: n :: others =>
    match i.toNat?, retry.toNat?, timeout.toNat?, now.toNat?, n.toNat?, others.mapM String.toNat? with
    | some i, some r, some t, some nw, some n, some os =>
      if os.length ≠ n then (w, "{\"error\":\"init arity\"}") else
      let s := init (if self == "-1" then none else self.toNat?) r t nw os
      (setInst w i s, "{\"out\":[],\"st\":" ++ stJ s ++ "}")
    | _, _, _, _, _, _ => (w, "{\"error\":\"init parse\"}")
  | op :: i :: args =>
    match i.toNat? with
    | none => (w, "{\"error\":\"instance\"}")
    | some i =>
      match getInst w i, parseEvent op args with
      | some s, some e =>
        let s' := step s e
        let outs := (s'.log.drop s.log.length).map outJ
        -- the log is only needed as a delta here; keep it short so long runs stay linear
        let s'' := { s' with log := [] }
        (setInst w i s'', "{\"out\":" ++ listJ outs ++ ",\"st\":" ++ stJ s'' ++ "}")
      | none, _ => (w, "{\"error\":\"no such instance\"}")
      | _, none => (w, "{\"error\":\"parse: " ++ op ++ "\"}")
  | _ => (w, "{\"error\":\"empty\"}")

partial def loop (h : IO.FS.Stream) (out : IO.FS.Stream) (w : World) : IO Unit := do
  let line ← h.getLine
  if line.isEmpty then return ()
  let l := line.trimAscii.toString
  if l.isEmpty then
    loop h out w
  else
    let (w', r) := handle w l
    out.putStrLn r
    out.flush
    loop h out w'

def run : IO UInt32 := do
  loop (← IO.getStdin) (← IO.getStdout) []
  return 0

end Driver.Transport
