/-! Line-protocol driver for component `NodeSend` (stub; the component owner replaces `run`). -/
namespace Driver.NodeSend

def run : IO UInt32 := do
  IO.eprintln "driver component NodeSend: not implemented"
  return 3

end Driver.NodeSend
