import Lean.Data.Json
import PSO.Model.NodeSend

/-! Line-protocol driver for component `nodesend` (C11, node-local parts of C02 and C10).

One JSON object per input line, one JSON object per output line; every case is self-contained.

CMD   = `[kind, node, id, size, ovh]`, kind ∈ "noop" "reg" "ver" "add" "rem" "memother"
ENTRY = `[CMD, idx, term]`;  PREV = `null | [idx, term]`;  CB = `null | ["loc", id] | ["rem", node, req]`
CONF  = `{"batch","useBatch","dyn","waitLeader","queueMax"}`
STATE = `{"self","role","term","leader","log","commit","lastApplied","members","readonly","connected",
          "next","match","queue","waitCommit","waitReply","counter","noop","change","buf"}`
          (`buf` = `null | [[ENTRY,pos,len]…]`: slices of pickled entries)
MSG   = `{"t":"append",…} | {"t":"chunk",…} | {"t":"snap",…} | {"t":"apply_command",…} | {"t":"response",…} | {"t":"next",…}`
OUT   = `["send",dst,MSG] | ["cb",id,code] | ["addNode",n] | ["dropNode",n]`

ops: `send` (one destination), `sendall`, `check`, `submit`, `recv_apply`, `recv_response`,
`leader_changed`, `fappend`, `restore`, `restartnode`, `reapply`, `chunks`, `fold`, `admin_remove`, `rounds`, `journalfold`, `capture`, `frun` (a list of `fappend` messages delivered in order), `appendmsg` (the whole `append_entries` handler: `extra`, `from`, `term`, `commit`,
`kind` = `{"regular":{prev,entries|chunk}}` | `{"snap": null | "notlast" | "broken" | {prevE,lastE,cluster}}`)
(`send` takes `"match": null | n` = the destination's matchIndex, repair D62).
-/
namespace Driver.NodeSend
open Lean PSO.NodeSend

def jNat (j : Json) : Except String Nat := j.getNat?
def jArr (j : Json) : Except String (Array Json) := j.getArr?
def jBool (j : Json) : Except String Bool := j.getBool?

def fld (j : Json) (k : String) : Except String Json := j.getObjVal? k

def fldD (j : Json) (k : String) : Json :=
  match j.getObjVal? k with
  | .ok v => v
  | .error _ => Json.null

def jOptNat (j : Json) : Except String (Option Nat) :=
  if j.isNull then pure none else return some (← jNat j)

def jNats (j : Json) : Except String (List Nat) := do (← jArr j).toList.mapM jNat

def jCmd (j : Json) : Except String Cmd := do
  let a ← jArr j
  if a.size != 5 then throw "cmd: need 5 fields"
  let k ← a[0]!.getStr?
  let n ← jNat a[1]!
  let kind ← match k with
    | "noop" => pure Kind.noop
    | "reg" => pure Kind.regular
    | "ver" => pure Kind.version
    | "add" => pure (Kind.add n)
    | "rem" => pure (Kind.rem n)
    | "memother" => pure Kind.memOther
    | _ => throw s!"cmd: bad kind {k}"
  return ⟨kind, ← jNat a[2]!, ← jNat a[3]!, ← jNat a[4]!⟩

def jEntry (j : Json) : Except String Entry := do
  let a ← jArr j
  if a.size != 3 then throw "entry: need 3 fields"
  return ⟨← jCmd a[0]!, ← jNat a[1]!, ← jNat a[2]!⟩

def jEntries (j : Json) : Except String (List Entry) := do (← jArr j).toList.mapM jEntry

def jPrev (j : Json) : Except String (Option (Nat × Nat)) := do
  if j.isNull then return none
  let a ← jArr j
  if a.size != 2 then throw "prev: need 2 fields"
  return some (← jNat a[0]!, ← jNat a[1]!)

def jCb (j : Json) : Except String Cb := do
  if j.isNull then return Cb.none
  let a ← jArr j
  match (← a[0]!.getStr?), a.size with
  | "loc", 2 => return Cb.loc (← jNat a[1]!)
  | "rem", 3 => return Cb.remote (← jNat a[1]!) (← jNat a[2]!)
  | _, _ => throw "cb: bad"

def jMap (j : Json) : Except String Map := do
  (← jArr j).toList.mapM fun p => do
    let a ← jArr p
    if a.size != 2 then throw "map: need pairs"
    return (← jNat a[0]!, ← jNat a[1]!)

def jOptBools (j : Json) : Except String (List (Option Bool)) := do
  (← jArr j).toList.mapM fun b => do
    if b.isNull then return none else return some (← jBool b)

def jSpans (j : Json) : Except String (List PByte) := do
  let parts ← (← jArr j).toList.mapM fun p => do
    let a ← jArr p
    if a.size != 3 then throw "span: need 3 fields"
    let e ← jEntry a[0]!
    return slice (pickleEntry e) (← jNat a[1]!) (← jNat a[2]!)
  return parts.flatten

def jLabel (j : Json) : Except String Label := do
  match (← j.getStr?) with
  | "start" => return .start
  | "process" => return .process
  | "finish" => return .finish
  | s => throw s!"label: {s}"

def jRole (j : Json) : Except String Role := do
  match (← jNat j) with
  | 0 => return .follower
  | 1 => return .candidate
  | 2 => return .leader
  | _ => throw "role"

def jConf (j : Json) : Except String Conf := do
  return { batch := ← jNat (← fld j "batch"), useBatch := ← jBool (← fld j "useBatch"),
           dynMember := ← jBool (← fld j "dyn"), waitLeader := ← jBool (← fld j "waitLeader"),
           queueMax := ← jNat (← fld j "queueMax") }

def jState (j : Json) : Except String Node := do
  let queue ← (← jArr (← fld j "queue")).toList.mapM fun p => do
    let a ← jArr p
    if a.size != 2 then throw "queue: need pairs"
    return (← jCmd a[0]!, ← jCb a[1]!)
  let wc ← (← jArr (← fld j "waitCommit")).toList.mapM fun p => do
    let a ← jArr p
    if a.size != 3 then throw "waitCommit: need triples"
    return (← jNat a[0]!, ← jNat a[1]!, ← jNat a[2]!)
  let bufJ := fldD j "buf"
  let buf ← if bufJ.isNull then pure none else (do return some (← jSpans bufJ))
  return { self := ← jOptNat (← fld j "self"), role := ← jRole (← fld j "role"),
           term := ← jNat (← fld j "term"), leader := ← jOptNat (← fld j "leader"),
           log := ← jEntries (← fld j "log"), commit := ← jNat (← fld j "commit"),
           lastApplied := ← jNat (← fld j "lastApplied"), members := ← jNats (← fld j "members"),
           readonly := ← jNats (← fld j "readonly"), connected := ← jNats (← fld j "connected"),
           nextIndex := ← jMap (← fld j "next"), matchIndex := ← jMap (← fld j "match"),
           queue := queue, waitCommit := wc, waitReply := ← jMap (← fld j "waitReply"),
           localCounter := ← jNat (← fld j "counter"), noopIdx := ← jOptNat (← fld j "noop"),
           changeIdx := ← jOptNat (← fld j "change"), recvBuf := buf }

/-! ### output -/

def nat (n : Nat) : Json := Json.num (JsonNumber.fromNat n)
def optNat : Option Nat → Json
  | none => Json.null
  | some n => nat n
def nats (l : List Nat) : Json := Json.arr (l.map nat).toArray

def kindStr : Kind → String × Nat
  | .noop => ("noop", 0) | .regular => ("reg", 0) | .version => ("ver", 0)
  | .add n => ("add", n) | .rem n => ("rem", n) | .memOther => ("memother", 0)

def cmdJ (c : Cmd) : Json :=
  let (k, n) := kindStr c.kind
  Json.arr #[Json.str k, nat n, nat c.id, nat c.size, nat c.ovh]

def entryJ (e : Entry) : Json := Json.arr #[cmdJ e.cmd, nat e.idx, nat e.term]

def prevJ : Option (Nat × Nat) → Json
  | none => Json.null
  | some (i, t) => Json.arr #[nat i, nat t]

def labelStr : Label → String
  | .start => "start" | .process => "process" | .finish => "finish"

def errStr : Err → String
  | .indexError => "IndexError" | .keyError => "KeyError" | .typeError => "TypeError"
  | .assertionError => "AssertionError" | .unpickle => "Unpickle"

def msgJ : Msg → Json
  | .append t c p es => Json.mkObj [("t", "append"), ("term", nat t), ("commit", nat c), ("prev", prevJ p),
      ("entries", Json.arr (es.map entryJ).toArray)]
  | .chunk l pos len e t c p => Json.mkObj [("t", "chunk"), ("label", labelStr l), ("pos", nat pos), ("len", nat len),
      ("idx", nat e.idx), ("term", nat t), ("commit", nat c), ("prev", prevJ p)]
  | .snap t c d => Json.mkObj [("t", "snap"), ("term", nat t), ("commit", nat c),
      ("data", match d with | none => Json.null | some b => Json.bool b)]
  | .applyCommand c r => Json.mkObj [("t", "apply_command"), ("cmd", cmdJ c), ("req", optNat r)]
  | .response r (.error f) => Json.mkObj [("t", "response"), ("req", nat r), ("err", nat f.code)]
  | .response r (.ok (i, t)) => Json.mkObj [("t", "response"), ("req", nat r), ("err", Json.null), ("idx", nat i), ("lterm", nat t)]
  | .nextNodeIdx n r s t => Json.mkObj [("t", "next"), ("next", nat n), ("reset", Json.bool r), ("success", Json.bool s), ("term", nat t)]

def outJ : Out → Json
  | .send d m => Json.arr #[Json.str "send", nat d, msgJ m]
  | .callback cb r => Json.arr #[Json.str "cb", nat cb, nat r.code]
  | .addNode n => Json.arr #[Json.str "addNode", nat n]
  | .dropNode n => Json.arr #[Json.str "dropNode", nat n]

def outsJ (o : List Out) : Json := Json.arr (o.map outJ).toArray

def cbJ : Cb → Json
  | .none => Json.null
  | .loc id => Json.arr #[Json.str "loc", nat id]
  | .remote n r => Json.arr #[Json.str "rem", nat n, nat r]

def mapJ (m : Map) : Json := Json.arr ((sortByKey m).map fun p => Json.arr #[nat p.1, nat p.2]).toArray

/-- run-length compression of the abstract receive buffer: `[ENTRY, pos, len]` -/
def spansOf : List PByte → List (Entry × Nat × Nat)
  | [] => []
  | (e, i) :: rest =>
    match spansOf rest with
    | (e', p, n) :: more => if e' = e ∧ p = i + 1 then (e, i, n + 1) :: more else (e, i, 1) :: (e', p, n) :: more
    | [] => [(e, i, 1)]

def roleNat : Role → Nat
  | .follower => 0 | .candidate => 1 | .leader => 2

def insertNat (n : Nat) : List Nat → List Nat
  | [] => [n]
  | m :: rest => if n ≤ m then n :: m :: rest else m :: insertNat n rest

def sortNats (l : List Nat) : List Nat := l.foldr insertNat []

def insertWC (p : Nat × Nat × Nat) : List (Nat × Nat × Nat) → List (Nat × Nat × Nat)
  | [] => [p]
  | q :: rest => if p.1 < q.1 then p :: q :: rest else q :: insertWC p rest

/-- stable sort by index (insertion from the left keeps the order inside one index) -/
def sortWC (l : List (Nat × Nat × Nat)) : List (Nat × Nat × Nat) := l.foldl (fun acc p => insertWC p acc) []

def stateJ (s : Node) : Json :=
  Json.mkObj [("self", optNat s.self), ("role", nat (roleNat s.role)), ("term", nat s.term), ("leader", optNat s.leader),
    ("log", Json.arr (s.log.map entryJ).toArray), ("commit", nat s.commit), ("lastApplied", nat s.lastApplied),
    ("members", nats (sortNats s.members)), ("readonly", nats (sortNats s.readonly)), ("connected", nats (sortNats s.connected)),
    ("next", mapJ s.nextIndex), ("match", mapJ s.matchIndex),
    ("queue", Json.arr (s.queue.map fun p => Json.arr #[cmdJ p.1, cbJ p.2]).toArray),
    ("waitCommit", Json.arr ((sortWC s.waitCommit).map fun p => Json.arr #[nat p.1, nat p.2.1, nat p.2.2]).toArray),
    ("waitReply", mapJ s.waitReply), ("counter", nat s.localCounter), ("noop", optNat s.noopIdx),
    ("change", optNat s.changeIdx),
    ("buf", match s.recvBuf with
      | none => Json.null
      | some b => Json.arr ((spansOf b).map fun p => Json.arr #[entryJ p.1, nat p.2.1, nat p.2.2]).toArray)]

def branchStr : Branch → String
  | .appendLocal => "appendLocal" | .appendRemote => "appendRemote" | .denied => "denied"
  | .forward => "forward" | .notLeader => "notLeader" | .missingLeader => "missingLeader"

def batchStr : Batch → String
  | .regular _ es => if es.isEmpty then "heartbeat" else "regular"
  | .chunked _ _ => "chunked"
  | .snapshot _ => "snapshot"

def errJ (e : Err) : Json := Json.mkObj [("err", errStr e)]

/-! ### dispatch -/

def handle (j : Json) : Except String Json := do
  let op ← (← fld j "op").getStr?
  match op with
  | "send" =>
    let c : SendCfg := ⟨← jNat (← fld j "B"), ← jNat (← fld j "term"), ← jNat (← fld j "commit"), ← jOptNat (fldD j "drop"),
      ← jOptNat (fldD j "match")⟩
    let log ← jEntries (← fld j "log")
    let snap ← jOptBools (← fld j "snap")
    match sendOne c log (← jNat (← fld j "next")) snap (← jOptNat (fldD j "budget")) with
    | .error e => return errJ e
    | .ok r => return Json.mkObj [("msgs", Json.arr (r.msgs.map msgJ).toArray), ("next", nat r.next), ("spin", Json.bool r.spin),
        ("batches", Json.arr (r.batches.map fun b => Json.str (batchStr b)).toArray), ("budget", optNat r.budget)]
  | "sendall" =>
    let cfg ← jConf (← fld j "conf")
    let s ← jState (← fld j "state")
    match sendAll cfg (fun _ => []) s (← jOptNat (fldD j "budget")) with
    | .error e => return errJ e
    | .ok (s', o) => return Json.mkObj [("out", outsJ o), ("state", stateJ s')]
  | "check" =>
    let cfg ← jConf (← fld j "conf")
    let s ← jState (← fld j "state")
    match checkCommands cfg (← jOptNat (fldD j "budget")) s with
    | .error e => return errJ e
    | .ok (s', o, brs) => return Json.mkObj [("out", outsJ o), ("state", stateJ s'),
        ("branches", Json.arr (brs.map fun b => Json.str (branchStr b)).toArray)]
  | "submit" =>
    let cfg ← jConf (← fld j "conf")
    let s ← jState (← fld j "state")
    let (s', o) := submit cfg s (← jCmd (← fld j "cmd")) (← jCb (fldD j "cb"))
    return Json.mkObj [("out", outsJ o), ("state", stateJ s')]
  | "recv_apply" =>
    let cfg ← jConf (← fld j "conf")
    let s ← jState (← fld j "state")
    let (s', o) := recvApplyCommand cfg s (← jNat (← fld j "from")) (← jCmd (← fld j "cmd")) (← jOptNat (fldD j "req"))
    return Json.mkObj [("out", outsJ o), ("state", stateJ s')]
  | "recv_response" =>
    let s ← jState (← fld j "state")
    let errJs := fldD j "err"
    let res : Except FailReason (Nat × Nat) ← if errJs.isNull then
        (do return Except.ok (← jNat (← fld j "idx"), ← jNat (← fld j "lterm")))
      else (do
        let c ← jNat errJs
        let f ← match c with
          | 1 => pure FailReason.queueFull | 2 => pure FailReason.missingLeader | 4 => pure FailReason.notLeader
          | 5 => pure FailReason.leaderChanged | 6 => pure FailReason.requestDenied
          | _ => throw "bad fail reason"
        return Except.error f)
    match recvResponse s (← jNat (← fld j "req")) res with
    | .error e => return errJ e
    | .ok (s', o) => return Json.mkObj [("out", outsJ o), ("state", stateJ s')]
  | "leader_changed" =>
    let s ← jState (← fld j "state")
    let (s', o) := onLeaderChanged s
    return Json.mkObj [("out", outsJ o), ("state", stateJ s')]
  | "fappend" =>
    let cfg ← jConf (← fld j "conf")
    let s ← jState (← fld j "state")
    let chunkJ := fldD j "chunk"
    let chunk ← if chunkJ.isNull then pure none else (do
      let a ← jArr chunkJ
      if a.size != 2 then throw "chunk: need 2 fields"
      return some (← jLabel a[0]!, ← jSpans a[1]!))
    let entJ := fldD j "entries"
    let es ← if entJ.isNull then pure [] else jEntries entJ
    let m : AppendMsg := { prev := ← jPrev (fldD j "prev"), entries := es, chunk := chunk }
    match followerAppend cfg s (← jNat (← fld j "from")) m with
    | (s', .error e) => return Json.mkObj [("err", errStr e), ("state", stateJ s')]
    | (s', .ok o) => return Json.mkObj [("out", outsJ o), ("state", stateJ s')]
  | "restore" =>
    let s ← jState (← fld j "state")
    match restoreSnapshot s (← jEntry (← fld j "prevE")) (← jEntry (← fld j "lastE")) (← jNats (← fld j "cluster")) (← jBool (← fld j "dyn")) with
    | .error e => return errJ e
    | .ok (s', o) => return Json.mkObj [("out", outsJ o), ("state", stateJ s')]
  | "reapply" =>
    let s ← jState (← fld j "state")
    match reapplyAtCommit s (← jEntry (← fld j "entry")) with
    | .error e => return errJ e
    | .ok (s', o) => return Json.mkObj [("out", outsJ o), ("state", stateJ s')]
  | "journalfold" =>
    let s ← jState (← fld j "state")
    match journalFold (← jBool (← fld j "dyn")) s with
    | .error e => return errJ e
    | .ok (s', o) => return Json.mkObj [("out", outsJ o), ("state", stateJ s')]
  | "capture" =>
    let s ← jState (← fld j "state")
    match clusterAt s.self s.members s.log s.lastApplied with
    | none => return errJ .indexError
    | some c => return Json.mkObj [("cluster", nats (sortNats c))]
  | "frun" =>
    let cfg ← jConf (← fld j "conf")
    let s ← jState (← fld j "state")
    let msgs ← (← jArr (← fld j "msgs")).toList.mapM fun mj => do
      let chunkJ := fldD mj "chunk"
      let chunk ← if chunkJ.isNull then pure none else (do
        let a ← jArr chunkJ
        if a.size != 2 then throw "chunk: need 2 fields"
        return some (← jLabel a[0]!, ← jSpans a[1]!))
      let entJ := fldD mj "entries"
      let es ← if entJ.isNull then pure [] else jEntries entJ
      return ({ prev := ← jPrev (fldD mj "prev"), entries := es, chunk := chunk } : AppendMsg)
    -- deliver in order; stop at the first exception (state as the failing handler left it)
    let src ← jNat (← fld j "from")
    let rec go2 (s : Node) (acc : List Out) : List AppendMsg → Node × List Out × Option Err
      | [] => (s, acc, none)
      | m :: rest =>
        match followerAppend cfg s src m with
        | (s1, .error e) => (s1, acc, some e)
        | (s1, .ok o) => go2 s1 (acc ++ o) rest
    let (s', o, e) := go2 s [] msgs
    match e with
    | some e => return Json.mkObj [("err", errStr e), ("out", outsJ o), ("state", stateJ s')]
    | none => return Json.mkObj [("out", outsJ o), ("state", stateJ s')]
  | "appendmsg" =>
    let cfg ← jConf (← fld j "conf")
    let s ← jState (← fld j "state")
    let xj ← fld j "extra"
    let x : Extra := ⟨← jOptNat (fldD xj "votedFor"), ← jNat (← fld xj "votes")⟩
    let kj ← fld j "kind"
    let kind ← (do
      let regJ := fldD kj "regular"
      if !regJ.isNull then
        let chunkJ := fldD regJ "chunk"
        let chunk ← if chunkJ.isNull then pure none else (do
          let a ← jArr chunkJ
          if a.size != 2 then throw "chunk: need 2 fields"
          return some (← jLabel a[0]!, ← jSpans a[1]!))
        let entJ := fldD regJ "entries"
        let es ← if entJ.isNull then pure [] else jEntries entJ
        return EnvMsg.regular { prev := ← jPrev (fldD regJ "prev"), entries := es, chunk := chunk }
      else
        let sj := fldD kj "snap"
        if sj.isNull then return EnvMsg.snapshot .none
        match sj.getStr? with
        | .ok "notlast" => return EnvMsg.snapshot .notLast
        | .ok "broken" => return EnvMsg.snapshot .broken
        | _ =>
          let pE ← jEntry (← fld sj "prevE")
          let lE ← jEntry (← fld sj "lastE")
          let cl ← jNats (← fld sj "cluster")
          let fails := (fldD sj "storeFails").getBool?.toOption.getD false
          if fails then
            return EnvMsg.snapshot (snapStoreFails (envState s (← jNat (← fld j "from")) (← jNat (← fld j "term"))) pE lE cl)
          else return EnvMsg.snapshot (.complete pE lE cl))
    let (x', s', r, obs) := appendMsgEnv cfg x s (← jNat (← fld j "from")) (← jNat (← fld j "term")) (← jNat (← fld j "commit")) kind
    let obsJ := Json.mkObj [("deadline", Json.bool obs.deadlineReset),
      ("termVote", match obs.storedTermVote with | none => Json.null | some (t, v) => Json.arr #[nat t, optNat v]),
      ("commit", optNat obs.storedCommit)]
    let xJ := Json.mkObj [("votedFor", optNat x'.votedFor), ("votes", nat x'.votes)]
    match r with
    | .error e => return Json.mkObj [("err", errStr e), ("state", stateJ s'), ("extra", xJ), ("obs", obsJ)]
    | .ok o => return Json.mkObj [("out", outsJ o), ("state", stateJ s'), ("extra", xJ), ("obs", obsJ)]
  | "rounds" =>
    let cfg ← jConf (← fld j "conf")
    let s ← jState (← fld j "state")
    let c : SendCfg := ⟨← jNat (← fld j "B"), ← jNat (← fld j "term"), ← jNat (← fld j "commit"), none, none⟩
    match deliverRounds cfg (← jNat (← fld j "from")) c (← jEntries (← fld j "log")) (← jNat (← fld j "k"))
        (← jNat (← fld j "next")) (← jNat (← fld j "match")) s with
    | .error e => return errJ e
    | .ok (s', nx, m, bs) => return Json.mkObj [("state", stateJ s'), ("next", nat nx), ("match", nat m),
        ("batches", Json.arr (bs.map fun b => Json.arr ((b.entries.map fun e => nat e.idx).toArray)).toArray)]
  | "chunks" =>
    let B ← jNat (← fld j "B")
    let E ← jNat (← fld j "E")
    let ruleJ := fldD j "rule"
    let spans := if ruleJ.isNull then chunkSpans B E else chunkSpansWith ((jNat ruleJ).toOption.getD E) B E
    return Json.mkObj [("spans", Json.arr (spans.map fun c => Json.arr #[Json.str (labelStr c.1), nat c.2.1, nat c.2.2]).toArray)]
  | "fold" =>
    let m := foldConfig (← jOptNat (fldD j "self")) (← jNats (← fld j "base")) (← jEntries (← fld j "log"))
    return Json.mkObj [("members", nats (sortNats m))]
  | "restartnode" =>
    -- kill + start of a journaled node: `state` = the node before the kill (journal + meta), `extra` = votedFor/votes,
    -- `storedCommit` = commit index of the journal's meta, `dump` = null | {prevE, lastE}
    let s ← jState (← fld j "state")
    let xj ← fld j "extra"
    let x : Extra := ⟨← jOptNat (fldD xj "votedFor"), ← jNat (← fld xj "votes")⟩
    let dj := fldD j "dump"
    let dump : Option (Entry × Entry) ← (do
      if dj.isNull then return none
      else return some (← jEntry (← fld dj "prevE"), ← jEntry (← fld dj "lastE")))
    let s' := restartNode s (← jNat (← fld j "storedCommit")) dump
    let x' := restartExtra x
    return Json.mkObj [("state", stateJ s'), ("extra", Json.mkObj [("votedFor", optNat x'.votedFor), ("votes", nat x'.votes)])]
  | "admin_remove" =>
    let s ← jState (← fld j "state")
    return Json.mkObj [("denied", Json.bool (adminRemoveDenied s (← jNat (← fld j "node"))))]
  | _ => throw s!"unknown op {op}"

partial def loop (stdin stdout : IO.FS.Stream) : IO Unit := do
  let line ← stdin.getLine
  if line.isEmpty then return
  let t := line.trimAscii.toString
  if t.isEmpty then
    loop stdin stdout
  else
    let res := match Json.parse t with
      | .error e => Json.mkObj [("error", Json.str s!"parse: {e}")]
      | .ok j => match handle j with
        | .ok r => r
        | .error e => Json.mkObj [("error", Json.str e)]
    stdout.putStrLn res.compress
    stdout.flush
    loop stdin stdout

def run : IO UInt32 := do
  loop (← IO.getStdin) (← IO.getStdout)
  return 0

end Driver.NodeSend
