/-! Line-protocol driver for component `Journal` (stub; the component owner replaces `run`). -/
namespace Driver.Journal

def run : IO UInt32 := do
  IO.eprintln "driver component Journal: not implemented"
  return 3

end Driver.Journal
