import PSO.Model.Journal
/-!
Line-protocol driver for component `journal` (model `PSO.Journal`).

One command per line, tokens separated by single spaces, bytes as lower-case hex (`-` = empty).

  new <verhex>                      fresh journal (file missing or zero-length), APP_VERSION bytes given
                                    -> `ok <summary> P FC,FW40:<adler>,R1024`
  crashnew <verhex> <k> <t>         crash image of that creation (k prims done + t bytes of the next) and
                                    what the next constructor makes of it:
                                    `ok np=3 <disk> | len= cur= ci= fsize= fsum= P <prims of the reopen>`
  load <filehex> <meta|none> [<jthex>]   open an arbitrary disk image (optional left-over `<journal>.tmp`;
                                    the APP_VERSION of the last `new` is kept)
  add <idx> <term> <cmdhex> | clear | delfrom <n> | delto <n> | setci <v> | timer | reopen | settv
                                    (`settv` = `setTermAndVote(term, vote)`; the values are not modelled)
                                    -> `ok <summary> P <prims>`  or  `err <kind>` (state unchanged)
  img                               -> hex of the journal file
  ents                              -> `idx:term:len:adler,...` of the cached entry list
  crash <k> <t> <op ...>            -> crash image of <op> at the current state (state unchanged):
                                       `ok np=<#prims> <disk> | <open summary>`
  crashimg <k> <t> <op ...>         -> hex of the journal file of that crash image
  crashjt <k> <t> <op ...>          -> hex of `<journal>.tmp` in that crash image, or `absent`
  jt                                -> hex of the current `<journal>.tmp`, or `absent`

summary = `len= cur= ci= saved= fsize= fsum= meta= tmp= jt=<absent|len:adler>`; prims = `R<n>`,
`S<off>:<len>:<adler>`, `TC`, `TW<v|none>`, `TM`, and on `<journal>.tmp`: `JR` (remove), `JC` (create empty),
`JW<len>:<adler>` (header written), `JZ<n>` (resize), `JS<off>:<len>:<adler>` (store), `JM` (rename onto the
journal), creation of the journal file: `FC` (created empty), `FW<len>:<adler>` (default content written, tearable);
comma separated (`-` = none). Torn `JW`/`JS` (>4 bytes) = prefix; `JS` of the header word is atomic.
-/
namespace Driver.Journal
open PSO PSO.Journal

def hexDigit (n : Nat) : Char :=
  if n < 10 then Char.ofNat (48 + n) else Char.ofNat (87 + n)

def toHex (bs : Bytes) : String :=
  if bs.isEmpty then "-" else
  bs.foldl (fun s b => (s.push (hexDigit (b.toNat / 16))).push (hexDigit (b.toNat % 16))) ""

def hexVal (c : Char) : Nat :=
  let n := c.toNat
  if n ≥ 48 && n ≤ 57 then n - 48 else if n ≥ 97 && n ≤ 102 then n - 87 else 0

def fromHexAux : List Char → Array UInt8 → Array UInt8
  | a :: b :: rest, acc => fromHexAux rest (acc.push (UInt8.ofNat (hexVal a * 16 + hexVal b)))
  | _, acc => acc

def fromHex (s : String) : Bytes :=
  if s == "-" then [] else (fromHexAux s.toList #[]).toList

def adler (bs : Bytes) : Nat :=
  let (a, b) := bs.foldl (fun (p : Nat × Nat) x =>
    let a := (p.1 + x.toNat) % 65521
    (a, (p.2 + a) % 65521)) (1, 0)
  b * 65536 + a

def optStr : Option Nat → String
  | none => "none"
  | some v => toString v

def tmpStr : Tmp → String
  | .absent => "absent"
  | .torn => "torn"
  | .full v => "full:" ++ optStr v

def primStr : Prim → String
  | .resize n => s!"R{n}"
  | .store off bs => s!"S{off}:{bs.length}:{adler bs}"
  | .tmpCreate => "TC"
  | .tmpWrite v => "TW" ++ optStr v
  | .tmpMove => "TM"
  | .jtRemove => "JR"
  | .jtCreate => "JC"
  | .jtWrite bs => s!"JW{bs.length}:{adler bs}"
  | .jtResize n => s!"JZ{n}"
  | .jtStore off bs => s!"JS{off}:{bs.length}:{adler bs}"
  | .jtRename => "JM"
  | .fCreate => "FC"
  | .fWrite bs => s!"FW{bs.length}:{adler bs}"

def primsStr (ps : List Prim) : String :=
  if ps.isEmpty then "-" else ",".intercalate (ps.map primStr)

def jtStr : Option Bytes → String
  | none => "absent"
  | some f => s!"{f.length}:{adler f}"

def diskStr (d : Disk) : String :=
  s!"fsize={d.file.length} fsum={adler d.file} meta={optStr d.metaFile} tmp={tmpStr d.tmp} jt={jtStr d.jtmp}"

def summary (j : FJ) : String :=
  s!"len={j.entries.length} cur={j.cur} ci={j.commitIndex} saved={if j.metaSaved then 1 else 0} " ++ diskStr j.disk

def entStr (e : Entry) : String := s!"{e.idx}:{e.term}:{e.cmd.length}:{adler e.cmd}"

def entsStr (es : List Entry) : String :=
  if es.isEmpty then "-" else ",".intercalate (es.map entStr)

def errStr : Err → String
  | .structError => "structError"
  | .emptyFile => "emptyFile"

def parseOp : List String → Option Op
  | ["add", i, t, c] => do
    let i ← i.toNat?
    let t ← t.toNat?
    pure (.add ⟨fromHex c, i, t⟩)
  | ["clear"] => some .clear
  | ["delfrom", n] => n.toNat?.map .delFrom
  | ["delto", n] => n.toNat?.map .delTo
  | ["setci", v] => v.toNat?.map .setCommit
  | ["timer"] => some .timer
  | ["reopen"] => some .reopen
  | ["settv"] => some .setTermVote
  | _ => none

def opPrims (j : FJ) (op : Op) : List Prim :=
  match j.step op with
  | .ok (_, ps) => ps
  | .error _ => []

def handle (j : FJ) (line : String) : FJ × String :=
  let toks := line.splitOn " "
  match toks with
  | ["new", v] =>
    match openDisk (fromHex v) { file := [] } with
    | .ok (j', ps) => (j', "ok " ++ summary j' ++ " P " ++ primsStr ps)
    | .error e => (j, "err " ++ errStr e)
  | ["crashnew", v, k, t] =>
    match k.toNat?, t.toNat? with
    | some k, some t =>
      let ver := fromHex v
      let ps := createPrims ver ++ [Prim.resize INITIAL_SIZE]
      let d := crashDisk { file := [] } ps k t
      let o := match openDisk ver d with
        | .ok (j', ps') => s!"len={j'.entries.length} cur={j'.cur} ci={j'.commitIndex} fsize={j'.disk.file.length} fsum={adler j'.disk.file} P {primsStr ps'}"
        | .error e => "err " ++ errStr e
      (j, s!"ok np={ps.length} {diskStr d} | {o}")
    | _, _ => (j, "bad")
  | "load" :: f :: m :: rest =>
    let jt : Option Bytes := match rest with
      | [x] => some (fromHex x)
      | _ => none
    let d : Disk := { file := fromHex f, metaFile := m.toNat?, jtmp := jt }
    match openDisk j.ver d with
    | .ok (j', ps) => (j', "ok " ++ summary j' ++ " P " ++ primsStr ps)
    | .error e => (j, "err " ++ errStr e)
  | ["img"] => (j, toHex j.disk.file)
  | ["ents"] => (j, entsStr j.entries)
  | "crash" :: k :: t :: rest =>
    match k.toNat?, t.toNat?, parseOp rest with
    | some k, some t, some op =>
      let ps := opPrims j op
      let d := crashDisk j.disk ps k t
      let o := match openDisk j.ver d with
        | .ok (j', _) => s!"len={j'.entries.length} cur={j'.cur} ci={j'.commitIndex} ents={entsStr j'.entries}"
        | .error e => "err " ++ errStr e
      (j, s!"ok np={ps.length} {diskStr d} | {o}")
    | _, _, _ => (j, "bad")
  | "crashimg" :: k :: t :: rest =>
    match k.toNat?, t.toNat?, parseOp rest with
    | some k, some t, some op => (j, toHex (crashDisk j.disk (opPrims j op) k t).file)
    | _, _, _ => (j, "bad")
  | "crashjt" :: k :: t :: rest =>
    match k.toNat?, t.toNat?, parseOp rest with
    | some k, some t, some op =>
      (j, match (crashDisk j.disk (opPrims j op) k t).jtmp with
          | none => "absent"
          | some f => toHex f)
    | _, _, _ => (j, "bad")
  | ["jt"] => (j, match j.disk.jtmp with
                  | none => "absent"
                  | some f => toHex f)
  | _ =>
    match parseOp toks with
    | some op =>
      match j.step op with
      | .ok (j', ps) => (j', "ok " ++ summary j' ++ " P " ++ primsStr ps)
      | .error e => (j, "err " ++ errStr e)
    | none => (j, "bad")

partial def loop (h : IO.FS.Stream) (out : IO.FS.Stream) (j : FJ) : IO Unit := do
  let line ← h.getLine
  if line.isEmpty then return ()
  let line := (line.trimAscii).toString
  if line.isEmpty then loop h out j
  else
    let (j', r) := handle j line
    out.putStrLn r
    out.flush
    loop h out j'

def run : IO UInt32 := do
  let stdin ← IO.getStdin
  let stdout ← IO.getStdout
  loop stdin stdout (create [])
  return 0

end Driver.Journal
