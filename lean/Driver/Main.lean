import Driver.Framing
import Driver.Journal
import Driver.Batteries
import Driver.Locks
import Driver.Versions
import Driver.Transport
import Driver.Serializer
import Driver.Queue
import Driver.Core
import Driver.NodeTick
import Driver.NodeSend

/-- `driver <component>`: reads the component's line protocol on stdin, writes results on stdout. -/
def main (args : List String) : IO UInt32 := do
  match args with
  | ["framing"]    => Driver.Framing.run
  | ["journal"]    => Driver.Journal.run
  | ["batteries"]  => Driver.Batteries.run
  | ["locks"]      => Driver.Locks.run
  | ["versions"]   => Driver.Versions.run
  | ["transport"]  => Driver.Transport.run
  | ["serializer"] => Driver.Serializer.run
  | ["queue"]      => Driver.Queue.run
  | ["core"]       => Driver.Core.run
  | ["nodetick"]   => Driver.NodeTick.run
  | ["nodesend"]   => Driver.NodeSend.run
  | _ => do
    IO.eprintln s!"usage: driver <component>; got {args}"
    return 2
