import Lean.Data.Json
import PSO.Model.NodeTick

/-! Line-protocol driver for component `nodetick` (C20, C12, C18, C04-local).

One JSON object per input line, one per output line:

`{"c":CONF,"s":STATE,"es":[EVENT…]}` → `{"s":STATE',"o":[OUTPUT…],"hq":bool,"cta":bool,"nc":n}`

(`PSO.NodeTick.run` over the events; `hq` = `hasQuorum`, `cta` = `connectedToAnyone`, `nc` = `nextCommit`
of the post-state.)

CONF   = `{"T":n,"min":n,"max":n,"batch":bool,"selfVer":n}`
STATE  = `{"self":n|null,"role":0|1|2,"term":n,"votedFor":n|null,"votes":n,"leader":n|null,"deadline":n,
           "others":[n…],"readonly":[n…],"connected":[n…],"log":[ENTRY…],"commit":n,"applied":n,
           "match":[[k,v]…],"next":[[k,v]…],"resp":[[k,v]…],"waiting":[[idx,[[term,cb]…]]…],
           "wreply":[[id,cb]…],"sm":[n…],"enabled":n,"lcommit":n|null,"ready":bool,"nat":n,"noop":n|null}`
ENTRY  = `[CMD,idx,term]`, CMD = `["n"] | ["r",id,raises01] | ["m",add01,node] | ["v",ver]`
EVENT  = `["tick",now,rand] | ["rv",from,term,lastIdx,lastTerm,now,rand] | ["vote",from,term,now]
          | ["nni",from,term|null,reset01,next,success01,now] | ["conn",n] | ["disc",n] | ["roconn",n] | ["rodisc",n]`
OUTPUT = `["rv",dst,term,li,lt] | ["resp",dst,term] | ["sc",old,new] | ["cb",idx,cb,RES,err] | ["exec",pos,id]
          | ["ver",old,new] | ["add",n] | ["drop",n] | ["send"] | ["ready"] | ["keyError"]`
RES    = `null | ["ok",n] | ["raised",id] | ["lowerver",v]`; err = FAIL_REASON number (0 SUCCESS, 3 DISCARDED, 5 LEADER_CHANGED).
Sets and dicts of the post-state are printed sorted by key.
-/
namespace Driver.NodeTick
open Lean PSO.NodeTick
open PSO.Raft (Role)

def jNat (j : Json) : Except String Nat := j.getNat?
def jArr (j : Json) : Except String (Array Json) := j.getArr?
def jBool01 (j : Json) : Except String Bool := do return (← jNat j) != 0
def jOptNat (j : Json) : Except String (Option Nat) :=
  if j.isNull then return none else return some (← jNat j)
def jNats (j : Json) : Except String (List Nat) := do (← jArr j).toList.mapM jNat
def jPairs (j : Json) : Except String (List (Nat × Nat)) := do
  (← jArr j).toList.mapM fun p => do
    let a ← jArr p
    if a.size != 2 then throw "pair: need 2 fields"
    return (← jNat a[0]!, ← jNat a[1]!)

def jRole (j : Json) : Except String Role := do
  match ← jNat j with
  | 0 => return .follower
  | 1 => return .candidate
  | 2 => return .leader
  | n => throw s!"role {n}"

def jCmd (j : Json) : Except String Cmd := do
  let a ← jArr j
  if a.size == 0 then throw "cmd: empty"
  let k ← a[0]!.getStr?
  match k, a.size with
  | "n", 1 => return .noop
  | "r", 3 => return .regular (← jNat a[1]!) (← jBool01 a[2]!)
  | "m", 3 => return .membership (← jBool01 a[1]!) (← jNat a[2]!)
  | "v", 2 => return .version (← jNat a[1]!)
  | _, _ => throw s!"cmd: bad {k}"

def jEntry (j : Json) : Except String Entry := do
  let a ← jArr j
  if a.size != 3 then throw "entry: need 3 fields"
  return ⟨← jCmd a[0]!, ← jNat a[1]!, ← jNat a[2]!⟩

def jWaiting (j : Json) : Except String (List (Nat × List (Nat × Nat))) := do
  (← jArr j).toList.mapM fun p => do
    let a ← jArr p
    if a.size != 2 then throw "waiting: need 2 fields"
    return (← jNat a[0]!, ← jPairs a[1]!)

def jConf (j : Json) : Except String Config := do
  return { fallbackT := ← jNat (← j.getObjVal? "T"), minT := ← jNat (← j.getObjVal? "min"),
           maxT := ← jNat (← j.getObjVal? "max"), useBatch := ← (← j.getObjVal? "batch").getBool?,
           selfVer := ← jNat (← j.getObjVal? "selfVer") }

def jState (j : Json) : Except String NodeState := do
  let f (k : String) := j.getObjVal? k
  return {
    self := ← jOptNat (← f "self"), role := ← jRole (← f "role"), term := ← jNat (← f "term"),
    votedFor := ← jOptNat (← f "votedFor"), votes := ← jNat (← f "votes"), leader := ← jOptNat (← f "leader"),
    electionDeadline := ← jNat (← f "deadline"), others := ← jNats (← f "others"),
    readonly := ← jNats (← f "readonly"), connected := ← jNats (← f "connected"),
    log := ← (← jArr (← f "log")).toList.mapM jEntry, commit := ← jNat (← f "commit"),
    lastApplied := ← jNat (← f "applied"), matchIndex := ← jPairs (← f "match"),
    nextIndex := ← jPairs (← f "next"), lastResponse := ← jPairs (← f "resp"),
    waiting := ← jWaiting (← f "waiting"), waitingReply := ← jPairs (← f "wreply"),
    sm := ← jNats (← f "sm"), enabledVer := ← jNat (← f "enabled"), leaderCommit := ← jOptNat (← f "lcommit"),
    readyCalled := ← (← f "ready").getBool?, newAppendTime := ← jNat (← f "nat"),
    noopIdx := ← jOptNat (← f "noop") }

def jEvent (j : Json) : Except String Event := do
  let a ← jArr j
  if a.size == 0 then throw "event: empty"
  let k ← a[0]!.getStr?
  match k, a.size with
  | "tick", 3 => return .tick (← jNat a[1]!) (← jNat a[2]!)
  | "rv", 7 => return .deliver (← jNat a[1]!) (.requestVote (← jNat a[2]!) (← jNat a[3]!) (← jNat a[4]!))
                  (← jNat a[5]!) (← jNat a[6]!)
  | "vote", 4 => return .deliver (← jNat a[1]!) (.responseVote (← jNat a[2]!)) (← jNat a[3]!) 0
  | "nni", 7 => return .deliver (← jNat a[1]!)
                  (.nextNodeIdx (← jOptNat a[2]!) (← jBool01 a[3]!) (← jNat a[4]!) (← jBool01 a[5]!)) (← jNat a[6]!) 0
  | "conn", 2 => return .connected (← jNat a[1]!)
  | "disc", 2 => return .disconnected (← jNat a[1]!)
  | "roconn", 2 => return .roConnected (← jNat a[1]!)
  | "rodisc", 2 => return .roDisconnected (← jNat a[1]!)
  | _, _ => throw s!"event: bad {k}"

def nat (n : Nat) : Json := Json.num (JsonNumber.fromNat n)
def optNat : Option Nat → Json
  | none => Json.null
  | some n => nat n
def str (s : String) : Json := Json.str s
def role : Role → Json
  | .follower => nat 0
  | .candidate => nat 1
  | .leader => nat 2
def b01 (b : Bool) : Json := nat (if b then 1 else 0)

def cmd : Cmd → Json
  | .noop => Json.arr #[str "n"]
  | .regular i r => Json.arr #[str "r", nat i, b01 r]
  | .membership a n => Json.arr #[str "m", b01 a, nat n]
  | .version v => Json.arr #[str "v", nat v]

def entry (e : Entry) : Json := Json.arr #[cmd e.cmd, nat e.idx, nat e.term]

def res : Res → Json
  | .none => Json.null
  | .ok n => Json.arr #[str "ok", nat n]
  | .raised i => Json.arr #[str "raised", nat i]
  | .lowerVersion v => Json.arr #[str "lowerver", nat v]

def fail : Fail → Json
  | .success => nat 0
  | .discarded => nat 3
  | .leaderChanged => nat 5

def output : Output → Json
  | .requestVote d t li lt => Json.arr #[str "rv", nat d, nat t, nat li, nat lt]
  | .responseVote d t => Json.arr #[str "resp", nat d, nat t]
  | .stateChange o n => Json.arr #[str "sc", role o, role n]
  | .callback i cb r e => Json.arr #[str "cb", nat i, nat cb, res r, fail e]
  | .exec p i => Json.arr #[str "exec", nat p, nat i]
  | .versionChanged o n => Json.arr #[str "ver", nat o, nat n]
  | .addNode n => Json.arr #[str "add", nat n]
  | .dropNode n => Json.arr #[str "drop", nat n]
  | .sendAppend => Json.arr #[str "send"]
  | .ready => Json.arr #[str "ready"]
  | .keyError => Json.arr #[str "keyError"]

def sortNats (l : List Nat) : List Nat := l.mergeSort (fun a b => a ≤ b)
def sortPairs (l : List (Nat × Nat)) : List (Nat × Nat) := l.mergeSort (fun a b => a.1 ≤ b.1)
def nats (l : List Nat) : Json := Json.arr ((sortNats l).map nat).toArray
def pairs (l : List (Nat × Nat)) : Json :=
  Json.arr ((sortPairs l).map fun p => Json.arr #[nat p.1, nat p.2]).toArray
def rawPairs (l : List (Nat × Nat)) : Json :=
  Json.arr (l.map fun p => Json.arr #[nat p.1, nat p.2]).toArray

def state (s : NodeState) : Json :=
  Json.mkObj [
    ("self", optNat s.self), ("role", role s.role), ("term", nat s.term), ("votedFor", optNat s.votedFor),
    ("votes", nat s.votes), ("leader", optNat s.leader), ("deadline", nat s.electionDeadline),
    ("others", nats s.others), ("readonly", nats s.readonly), ("connected", nats s.connected),
    ("log", Json.arr (s.log.map entry).toArray), ("commit", nat s.commit), ("applied", nat s.lastApplied),
    ("match", pairs s.matchIndex), ("next", pairs s.nextIndex), ("resp", pairs s.lastResponse),
    ("waiting", Json.arr ((s.waiting.mergeSort (fun a b => a.1 ≤ b.1)).map fun p =>
        Json.arr #[nat p.1, rawPairs p.2]).toArray),
    ("wreply", rawPairs s.waitingReply), ("sm", Json.arr (s.sm.map nat).toArray),
    ("enabled", nat s.enabledVer), ("lcommit", optNat s.leaderCommit), ("ready", Json.bool s.readyCalled),
    ("nat", nat s.newAppendTime), ("noop", optNat s.noopIdx)]

def handle (line : String) : Except String Json := do
  let j ← Json.parse line
  let c ← jConf (← j.getObjVal? "c")
  let s ← jState (← j.getObjVal? "s")
  let es ← (← jArr (← j.getObjVal? "es")).toList.mapM jEvent
  let r := run c s es
  return Json.mkObj [("s", state r.1), ("o", Json.arr (r.2.map output).toArray),
    ("hq", Json.bool (hasQuorum r.1)), ("cta", Json.bool (connectedToAnyone r.1)), ("nc", nat (nextCommit r.1))]

partial def loop (hin hout : IO.FS.Stream) : IO Unit := do
  let line ← hin.getLine
  if line.isEmpty then return
  let l := line.trimAscii.toString
  if l.isEmpty then loop hin hout
  else
    match handle l with
    | .ok j => hout.putStrLn j.compress
    | .error e => hout.putStrLn (Json.mkObj [("error", Json.str e)]).compress
    loop hin hout

def run : IO UInt32 := do
  let hin ← IO.getStdin
  let hout ← IO.getStdout
  loop hin hout
  hout.flush
  return 0

end Driver.NodeTick
