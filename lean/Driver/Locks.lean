/-! Line-protocol driver for component `Locks` (stub; the component owner replaces `run`). -/
namespace Driver.Locks

def run : IO UInt32 := do
  IO.eprintln "driver component Locks: not implemented"
  return 3

end Driver.Locks
