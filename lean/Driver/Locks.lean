import PSO.Model.Locks

/-! Line-protocol driver for component `locks` (model `PSO.Locks`).

One request per line, blank-separated tokens, one reply line per request:

```
conf U mono [comp]     reset everything; autoUnlockTime U, mono 1 = D19 repair present / 0 = pinned code,
                       comp 1 (default) = D73 repair present / 0 = code before it                      -> ok
acq l c t              _ReplLockManagerImpl.acquire        -> 1|0 <table>
pro c t                _ReplLockManagerImpl.prolongate     -> - <table>
rel l c                _ReplLockManagerImpl.release        -> - <table>
isacq l c now          _ReplLockManagerImpl.isAcquired     -> 1|0
dump                                                       -> <table>
rebuild u              the replica is rebuilt from its own snapshot: `_serialize()` -> `_deserialize()` into a
                       fresh instance created with autoUnlockTime u that already holds lock 99 of client 99
                                                           -> <autoUnlockTime afterwards> <table>
cnew self last         new wrapper state                   -> ok
ctry l att             first half of tryAcquire            -> <cmds>
cfin l att acq T|F|N|O second half of tryAcquire (O = failed with an open outcome: Timeout / LEADER_CHANGED)
                                                           -> T|F|N <cmds>
ctick obj leader n1 n2 n3   one pass of _autoAcquireThread -> <lastProlongateTime> <cmds>
crel l                 ReplLockManager.release             -> <cmds>
cisacq l now           ReplLockManager.isAcquired on the current table -> 1|0
```
`<table>` = `l:c:t,l:c:t,...` sorted by lock id, `-` when empty; `<cmds>` = `acq:l:c:t` / `pro:c:t` /
`rel:l:c` joined by `,`, `-` when empty.
-/
namespace Driver.Locks
open PSO.Locks

structure St where
  cfg : Cfg := { U := 0, mono := true }
  tbl : Table := Table.empty
  keys : List Nat := []       -- lock ids ever acquired (the table has finite support inside them)
  cl : Client := { self := 0 }
  comp : Bool := true         -- D73 repair present (third argument of `conf`, default 1)

def insertKey (ks : List Nat) (k : Nat) : List Nat :=
  match ks with
  | [] => [k]
  | x :: xs => if k < x then k :: x :: xs else if k = x then x :: xs else x :: insertKey xs k

def dump (st : St) : String :=
  let parts := st.keys.filterMap fun l =>
    match st.tbl l with
    | some (c, t) => some s!"{l}:{c}:{t}"
    | none => none
  if parts.isEmpty then "-" else ",".intercalate parts

def cmdStr : Cmd → String
  | .acquire l c t => s!"acq:{l}:{c}:{t}"
  | .prolongate c t => s!"pro:{c}:{t}"
  | .release l c => s!"rel:{l}:{c}"

def cmdsStr (cs : List Cmd) : String :=
  if cs.isEmpty then "-" else ",".intercalate (cs.map cmdStr)

def b01 (b : Bool) : String := if b then "1" else "0"

def resStr : Option Bool → String
  | some true => "T"
  | some false => "F"
  | none => "N"

/-- `T` / `F` / `N` (None with an error after which the command cannot be committed) / `O` (None, outcome
open: Timeout or LEADER_CHANGED); second component = outcomeOpen -/
def parseRes : String → Option (Option Bool × Bool)
  | "T" => some (some true, false)
  | "F" => some (some false, false)
  | "N" => some (none, false)
  | "O" => some (none, true)
  | _ => none

def nats (ws : List String) : Option (List Nat) := ws.mapM String.toNat?

def step (st : St) (line : String) : St × String :=
  let ws := (line.splitOn " ").filter (· ≠ "")
  match ws with
  | [] => (st, "")
  | op :: args =>
    match op, nats args with
    | "conf", some [u, m] => ({ cfg := { U := u, mono := m ≠ 0 } }, "ok")
    | "conf", some [u, m, cp] => ({ cfg := { U := u, mono := m ≠ 0 }, comp := cp ≠ 0 }, "ok")
    | "acq", some [l, c, t] =>
      let r := applyRes st.cfg st.tbl (.acquire l c t)
      let st' := { st with tbl := r.1, keys := insertKey st.keys l }
      (st', s!"{match r.2 with | some b => b01 b | none => "-"} {dump st'}")
    | "pro", some [c, t] =>
      let st' := { st with tbl := apply st.cfg st.tbl (.prolongate c t) }
      (st', s!"- {dump st'}")
    | "rel", some [l, c] =>
      let st' := { st with tbl := apply st.cfg st.tbl (.release l c) }
      (st', s!"- {dump st'}")
    | "isacq", some [l, c, now] => (st, b01 (isAcquired st.cfg st.tbl l c now))
    | "dump", some [] => (st, dump st)
    | "rebuild", some [u] =>
      let cfg' : Cfg := { U := u, mono := st.cfg.mono }
      let junk := (acquire cfg' Table.empty 99 99 0).1
      let r := rebuild st.cfg st.tbl cfg' junk
      let st' := { st with cfg := r.1, tbl := r.2, keys := insertKey st.keys 99 }
      (st', s!"{st'.cfg.U} {dump st'}")
    | "cnew", some [self, last] => ({ st with cl := { self := self, lastProlong := last } }, "ok")
    | "ctry", some [l, att] => (st, cmdsStr [st.cl.tryAcquireCmd l att])
    | "ctick", some [o, ld, n1, n2, n3] =>
      let r := st.cl.tick st.cfg (o ≠ 0) (ld ≠ 0) n1 n2 n3
      ({ st with cl := r.1 }, s!"{r.1.lastProlong} {cmdsStr r.2}")
    | "crel", some [l] => (st, cmdsStr [st.cl.releaseCmd l])
    | "cisacq", some [l, now] => (st, b01 (st.cl.isAcquired st.cfg st.tbl l now))
    | "cfin", _ =>
      match args with
      | [l, att, acq, r] =>
        match nats [l, att, acq], parseRes r with
        | some [l, att, acq], some res =>
          let out := st.cl.tryAcquireFinish st.cfg l att acq res.1 res.2 st.comp
          (st, s!"{resStr out.1} {cmdsStr out.2}")
        | _, _ => (st, "error bad cfin")
      | _ => (st, "error bad cfin")
    | _, _ => (st, s!"error bad request: {line}")

partial def loop (h : IO.FS.Stream) (out : IO.FS.Stream) (st : St) : IO Unit := do
  let line ← h.getLine
  if line.isEmpty then
    return
  let l := line.trimAscii.toString
  if l.isEmpty then
    loop h out st
  else
    let (st', reply) := step st l
    out.putStrLn reply
    out.flush
    loop h out st'

def run : IO UInt32 := do
  let stdin ← IO.getStdin
  let stdout ← IO.getStdout
  loop stdin stdout {}
  return 0

end Driver.Locks
