import Lean.Data.Json
import PSO.Model.Raft

/-! Line-protocol driver for component `core`: executes `PSO.Raft.step` (the transition function the
safety theorems of `PSO/Proofs/Raft*.lean` quantify over) on actions that `harness/corr/core_trace.py`
derives from what REAL `SyncObj` clusters just did.

One JSON object per line, one JSON reply per line.

```
{"N":3}  |  {"N":3,"M":5}                 start a new trace with N voters and M-N observers (ids N..M-1; M defaults to N;
                                          state := PSO.Raft.init)                                   -> {"ok":true}
{"a":"timeout","n":i,"dsts":[j…]}
{"a":"recvReqVote","n":i,"m":M}           M = {"k":"reqVote","t","cand","dst","li","lt"}
{"a":"recvVote","n":i,"m":M}              M = {"k":"vote","t","voter","cand"}
{"a":"clientAppend","n":i,"cmd":c}
{"a":"sendAppend","n":i,"dst":j,"prev":p,"k":cnt,"c":commitPos}   (c: the commit value written into the message)
{"a":"recvAppend","n":i,"m":M}            M = {"k":"append","t","ldr","dst","prev","prevTerm","es":[[term,cmd]…],"commit"}
{"a":"recvAck","n":i,"m":M}               M = {"k":"ack","t","flw","ldr","idx"}
{"a":"advanceCommit","n":i,"i":pos}
{"a":"stepDown","n":i}   {"a":"apply","n":i}   {"a":"observeTerm","n":i,"t":t}
{"a":"sendSnapshot","n":i,"dst":j,"k":pos,"c":commitPos}
{"a":"recvSnapshot","n":i,"m":M}          M = {"k":"snapshot","t","ldr","dst","pos","posTerm","commit"[,"pfx":[[term,cmd]…]]}
{"a":"lose","m":M}
{"a":"restart","n":i,"c":commitPos,"ap":appliedPos}
      -> {"ok":true}   |   {"ok":false,"why":"guard"}  (step = none; state unchanged)   |   {"ok":false,"why":"parse: …"}
{"q":"state"}  -> {"nodes":[{"term","voted":j|null,"role":0|1|2,"votes","log":[[term,cmd]…],"commit","applied","match":[…M…]}…M…],"nmsgs":k}
{"q":"msgs"}   -> {"msgs":[M…]}           (snapshot messages are printed with "pfxlen" instead of "pfx")
```
The harness does not know the ghost field `pfx` of a snapshot message: without `"pfx"` the driver takes
the first message of `msgs` that agrees on all other fields.  Positions are the model's (real index − 1).

State is held as functions `Nat → NodeSt`; after every step the node table and every `matchIdx` are
re-materialised from arrays over `0..M-1` so that closure chains do not grow with the trace.  This is the
identity on every state the driver can reach: the parser rejects node numbers `≥ M`, every message in
`msgs` was created by an action with such numbers, so `step` never writes a node or a `matchIdx j`
with an index `≥ M`.
-/
namespace Driver.Core
open Lean PSO.Raft

structure DS where
  N : Nat := 0
  M : Nat := 0          -- voters + observers
  s : State := init

def materialise (M : Nat) (s : State) : State :=
  let arr : Array NodeSt := (Array.range M).map fun i =>
    let ns := s.nodes i
    let m : Array Nat := (Array.range M).map ns.matchIdx
    { ns with matchIdx := fun j => m.getD j 0 }
  { s with nodes := fun i => arr.getD i {} }

/-! ### parsing -/

def natField (j : Json) (k : String) : Except String Nat := do
  (← j.getObjVal? k).getNat?

/-- a node number; must be `< N` -/
def nodeField (N : Nat) (j : Json) (k : String) : Except String Nat := do
  let n ← natField j k
  if n < N then pure n else throw s!"node {n} out of range in field {k}"

def parseEntry (j : Json) : Except String Entry := do
  let a ← j.getArr?
  if h : a.size = 2 then
    pure ⟨← a[0].getNat?, ← a[1].getNat?⟩
  else throw "entry must be [term,cmd]"

def parseEntries (j : Json) : Except String (List Entry) := do
  (← j.getArr?).toList.mapM parseEntry

def findSnapshot (msgs : List Msg) (t ldr dst k kTerm c : Nat) : Option Msg :=
  msgs.find? fun m =>
    match m with
    | .snapshot t' l' d' k' kt' c' _ => t' == t && l' == ldr && d' == dst && k' == k && kt' == kTerm && c' == c
    | _ => false

def parseMsg (N : Nat) (s : State) (j : Json) : Except String Msg := do
  let kind ← (← j.getObjVal? "k").getStr?
  match kind with
  | "reqVote" =>
    pure (.reqVote (← natField j "t") (← nodeField N j "cand") (← nodeField N j "dst")
                   (← natField j "li") (← natField j "lt"))
  | "vote" => pure (.vote (← natField j "t") (← nodeField N j "voter") (← nodeField N j "cand"))
  | "append" =>
    pure (.append (← natField j "t") (← nodeField N j "ldr") (← nodeField N j "dst") (← natField j "prev")
                  (← natField j "prevTerm") (← parseEntries (← j.getObjVal? "es")) (← natField j "commit"))
  | "ack" => pure (.ack (← natField j "t") (← nodeField N j "flw") (← nodeField N j "ldr") (← natField j "idx"))
  | "snapshot" =>
    let t ← natField j "t"
    let ldr ← nodeField N j "ldr"
    let dst ← nodeField N j "dst"
    let k ← natField j "pos"
    let kt ← natField j "posTerm"
    let c ← natField j "commit"
    match j.getObjVal? "pfx" with
    | .ok p => pure (.snapshot t ldr dst k kt c (← parseEntries p))
    | .error _ =>
      match findSnapshot s.msgs t ldr dst k kt c with
      | some m => pure m
      | none => pure (.snapshot t ldr dst k kt c [])     -- not in `msgs`: the guard of the action fails
  | _ => throw s!"unknown message kind {kind}"

def parseAction (N : Nat) (s : State) (j : Json) : Except String Action := do
  let a ← (← j.getObjVal? "a").getStr?
  match a with
  | "timeout" =>
    let ds ← (← (← j.getObjVal? "dsts").getArr?).toList.mapM fun d => do
      let n ← d.getNat?
      if n < N then pure n else throw "dst out of range"
    pure (.timeout (← nodeField N j "n") ds)
  | "recvReqVote" => pure (.recvReqVote (← nodeField N j "n") (← parseMsg N s (← j.getObjVal? "m")))
  | "recvVote" => pure (.recvVote (← nodeField N j "n") (← parseMsg N s (← j.getObjVal? "m")))
  | "clientAppend" => pure (.clientAppend (← nodeField N j "n") (← natField j "cmd"))
  | "sendAppend" =>
    pure (.sendAppend (← nodeField N j "n") (← nodeField N j "dst") (← natField j "prev") (← natField j "k") (← natField j "c"))
  | "recvAppend" => pure (.recvAppend (← nodeField N j "n") (← parseMsg N s (← j.getObjVal? "m")))
  | "recvAck" => pure (.recvAck (← nodeField N j "n") (← parseMsg N s (← j.getObjVal? "m")))
  | "advanceCommit" => pure (.advanceCommit (← nodeField N j "n") (← natField j "i"))
  | "stepDown" => pure (.stepDown (← nodeField N j "n"))
  | "apply" => pure (.apply (← nodeField N j "n"))
  | "observeTerm" => pure (.observeTerm (← nodeField N j "n") (← natField j "t"))
  | "sendSnapshot" => pure (.sendSnapshot (← nodeField N j "n") (← nodeField N j "dst") (← natField j "k") (← natField j "c"))
  | "recvSnapshot" => pure (.recvSnapshot (← nodeField N j "n") (← parseMsg N s (← j.getObjVal? "m")))
  | "lose" => pure (.lose (← parseMsg N s (← j.getObjVal? "m")))
  | "restart" => pure (.restart (← nodeField N j "n") (← natField j "c") (← natField j "ap"))
  | _ => throw s!"unknown action {a}"

/-! ### printing (hand-built strings: the state is printed after every real event) -/

def listJ (l : List String) : String := "[" ++ ",".intercalate l ++ "]"

def entryJ (e : Entry) : String := s!"[{e.term},{e.cmd}]"

def entriesJ (l : List Entry) : String := listJ (l.map entryJ)

def roleCode : Role → Nat
  | .follower => 0
  | .candidate => 1
  | .leader => 2

def optNatJ : Option Nat → String
  | none => "null"
  | some n => toString n

def nodeJ (N : Nat) (ns : NodeSt) : String :=
  "{\"term\":" ++ toString ns.term ++ ",\"voted\":" ++ optNatJ ns.votedFor ++
  ",\"role\":" ++ toString (roleCode ns.role) ++ ",\"votes\":" ++ toString ns.votes ++
  ",\"log\":" ++ entriesJ ns.log ++ ",\"commit\":" ++ toString ns.commit ++
  ",\"applied\":" ++ toString ns.applied ++
  ",\"match\":" ++ listJ ((List.range N).map fun j => toString (ns.matchIdx j)) ++ "}"

def stateJ (d : DS) : String :=
  "{\"nodes\":" ++ listJ ((List.range d.M).map fun i => nodeJ d.M (d.s.nodes i)) ++
  ",\"nmsgs\":" ++ toString d.s.msgs.length ++ "}"

def msgJ : Msg → String
  | .reqVote t c d li lt => s!"\{\"k\":\"reqVote\",\"t\":{t},\"cand\":{c},\"dst\":{d},\"li\":{li},\"lt\":{lt}}"
  | .vote t v c => s!"\{\"k\":\"vote\",\"t\":{t},\"voter\":{v},\"cand\":{c}}"
  | .append t l d p pt es c =>
    s!"\{\"k\":\"append\",\"t\":{t},\"ldr\":{l},\"dst\":{d},\"prev\":{p},\"prevTerm\":{pt},\"es\":{entriesJ es},\"commit\":{c}}"
  | .ack t f l i => s!"\{\"k\":\"ack\",\"t\":{t},\"flw\":{f},\"ldr\":{l},\"idx\":{i}}"
  | .snapshot t l d k kt c pfx =>
    s!"\{\"k\":\"snapshot\",\"t\":{t},\"ldr\":{l},\"dst\":{d},\"pos\":{k},\"posTerm\":{kt},\"commit\":{c},\"pfxlen\":{pfx.length}}"

def okJ : String := "{\"ok\":true}"

def failJ (why : String) : String := (Json.mkObj [("ok", false), ("why", why)]).compress

def handle (d : DS) (j : Json) : DS × String :=
  match j.getObjVal? "N" with
  | .ok n =>
    match n.getNat? with
    | .ok N =>
      let M := match j.getObjVal? "M" with
        | .ok m => max N (m.getNat?.toOption.getD N)
        | .error _ => N
      ({ N := N, M := M, s := init }, okJ)
    | .error e => (d, failJ ("parse: " ++ e))
  | .error _ =>
    match j.getObjVal? "q" with
    | .ok q =>
      match q.getStr? with
      | .ok "state" => (d, stateJ d)
      | .ok "msgs" => (d, "{\"msgs\":" ++ listJ (d.s.msgs.map msgJ) ++ "}")
      | _ => (d, failJ "parse: unknown query")
    | .error _ =>
      match parseAction d.M d.s j with
      | .error e => (d, failJ ("parse: " ++ e))
      | .ok a =>
        match step d.N d.s a with
        | none => (d, failJ "guard")
        | some s' => ({ d with s := materialise d.M s' }, okJ)

partial def loop (stdin stdout : IO.FS.Stream) (d : DS) : IO Unit := do
  let line ← stdin.getLine
  if line.isEmpty then return
  let t := line.trimAscii.toString
  if t.isEmpty then
    loop stdin stdout d
  else
    match Json.parse t with
    | .error e =>
      stdout.putStrLn (failJ ("parse: " ++ e))
      stdout.flush
      loop stdin stdout d
    | .ok j =>
      let (d', out) := handle d j
      stdout.putStrLn out
      stdout.flush
      loop stdin stdout d'

def run : IO UInt32 := do
  loop (← IO.getStdin) (← IO.getStdout) {}
  return 0

end Driver.Core
