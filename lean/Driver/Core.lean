/-! Line-protocol driver for component `Core` (stub; the component owner replaces `run`). -/
namespace Driver.Core

def run : IO UInt32 := do
  IO.eprintln "driver component Core: not implemented"
  return 3

end Driver.Core
