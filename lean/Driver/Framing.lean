/-! Line-protocol driver for component `Framing` (stub; the component owner replaces `run`). -/
namespace Driver.Framing

def run : IO UInt32 := do
  IO.eprintln "driver component Framing: not implemented"
  return 3

end Driver.Framing
