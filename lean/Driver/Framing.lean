import Lean.Data.Json
import PSO.Model.Framing

/-! Line-protocol driver for component `framing` (model `PSO.Framing`, property C13).

One JSON object per input line = one case:

```
{"timeout":T, "enc":[[id,"hex"],...], "dec":[["hex",id],...], "none":[ids] (pinned mode only), "cbdisc":[ids],
 "pinned":false, "init":{"sock":true,"now":0},
 "ondisc": null | {"ok":b,"msgs":[ids]}   (onDisconnected callback: connect(), then send each message; `stepCb`),
 "evs":[{"k":"send","m":id,"now":n,"s":[SendRes...]},
        {"k":"poll","d":true,"rd":b,"wr":b,"er":b,"now":n,"so":b,"oc":b,"s":[SendRes...],"r":[RecvRes...]},
        {"k":"disc"}, {"k":"conn","ok":b,"now":n}]}
SendRes = integer k | "a" (EAGAIN) | "e" (hard error);  RecvRes = ["hex", soErr] | "a" | "e"
```

One JSON object per output line:
`{"steps":[[state,rlen,radler,wlen,wadler,wirelen,wireadler,ndelivered,ndisc,mask,lastRead],...],
  "delivered":[ids], "undec":["hex",...]}` — one step record after every event (state 0/1/2 as in
`CONNECTION_STATE`, mask -1 = unsubscribed); `undec` = payloads the parse loop found undecodable with the
given table (diagnostic: the harness asks the real zlib/pickle about them and re-submits the case with a
larger table when one of them does decode).

`"pinned":true` runs the reader with `parseOnePinned` (the unrepaired `__processParseMessage`) instead —
used only by the D13 witness to show that the model of the pinned code reproduces the pinned behaviour. -/
namespace Driver.Framing
open Lean PSO PSO.Framing

def hexVal (c : Char) : Nat :=
  if '0' ≤ c ∧ c ≤ '9' then c.toNat - '0'.toNat
  else if 'a' ≤ c ∧ c ≤ 'f' then c.toNat - 'a'.toNat + 10
  else if 'A' ≤ c ∧ c ≤ 'F' then c.toNat - 'A'.toNat + 10 else 0

partial def unhexGo : List Char → List UInt8 → List UInt8
  | a :: b :: rest, acc => unhexGo rest (UInt8.ofNat (16 * hexVal a + hexVal b) :: acc)
  | _, acc => acc.reverse

def unhex (s : String) : Bytes := unhexGo s.toList []

def hexDigit (n : Nat) : Char := if n < 10 then Char.ofNat (48 + n) else Char.ofNat (87 + n)

def hex (b : Bytes) : String :=
  String.ofList (b.foldr (fun x acc => hexDigit (x.toNat / 16) :: hexDigit (x.toNat % 16) :: acc) [])

/-- zlib's adler32 (so that Python can use `zlib.adler32`) -/
def adler32 (b : Bytes) : Nat :=
  let (a, s) := b.foldl (fun (p : Nat × Nat) x =>
    let a := (p.1 + x.toNat) % 65521
    (a, (p.2 + a) % 65521)) (1, 0)
  s * 65536 + a

def stateNum : CState → Nat
  | .disconnected => 0 | .connecting => 1 | .connected => 2

def getD (j : Json) (k : String) : Json := (j.getObjVal? k).toOption.getD Json.null
def getNat (j : Json) (k : String) : Nat := ((getD j k).getNat?).toOption.getD 0
def getBool (j : Json) (k : String) : Bool := ((getD j k).getBool?).toOption.getD false
def getArr (j : Json) (k : String) : Array Json := ((getD j k).getArr?).toOption.getD #[]

def parseSend (j : Json) : SendRes :=
  match j with
  | .str "a" => .again
  | .str _ => .err
  | _ => match j.getInt? with
    | .ok k => .ret k
    | .error _ => .err

def parseRecv (j : Json) : RecvRes :=
  match j with
  | .str "a" => .again
  | .arr a =>
    let h := (a[0]?.bind (·.getStr?.toOption)).getD ""
    let so := (a[1]?.bind (·.getBool?.toOption)).getD false
    .data (unhex h) so
  | _ => .err

def parseEv (j : Json) : Ev Nat :=
  match (getD j "k").getStr?.toOption.getD "" with
  | "send" => .send (getNat j "m") (getNat j "now") ((getArr j "s").toList.map parseSend)
  | "poll" => .poll { descrOk := getBool j "d", rd := getBool j "rd", wr := getBool j "wr", er := getBool j "er",
                      now := getNat j "now", soErr := getBool j "so", onConnDisc := getBool j "oc",
                      sends := (getArr j "s").toList.map parseSend,
                      recvs := (getArr j "r").toList.map parseRecv }
  | "conn" => .connect (getBool j "ok") (getNat j "now")
  | _ => .disconnect

/-! The pinned reader: same loop and same READ branch, `parseOnePinned` in place of `parseOne`
(witness only; fuel = buffer length + 1 because the pinned function need not shrink the buffer). -/
def parseLoopPinned (cfg : Cfg Nat) (nones : List Nat) : Nat → Conn Nat → Conn Nat
  | 0, c => c
  | fuel + 1, c =>
    match parseOnePinned cfg.dec c.rbuf with
    | .wait => c
    | .bad => disconnect c
    | .msg m rest =>
      if nones.contains m then { c with rbuf := rest }      -- pinned loop: `if message is None: break` (before D75)
      else
        let c' := { c with rbuf := rest, delivered := c.delivered ++ [m] }
        if cfg.cbDisc m then disconnect c' else parseLoopPinned cfg nones fuel c'

def pollPinned (cfg : Cfg Nat) (nones : List Nat) (c : Conn Nat) (e : PollEv) : Conn Nat :=
  -- only used for plain READ events (the witness)
  if c.state != .connected then c else
  let c := recvLoop c e.recvs
  let c := { c with lastRead := e.now }
  if c.state = .disconnected then c else parseLoopPinned cfg nones (c.rbuf.length + 1) c

/-- diagnostic: payloads (complete, non-negative length) on which `dec` fails while parsing `rb` -/
partial def undecodable (cfg : Cfg Nat) (rb : Bytes) : List Bytes :=
  match parseOne cfg.dec rb with
  | .wait => []
  | .msg m rest => if cfg.cbDisc m then [] else undecodable cfg rest
  | .bad =>
    if rb.length ≥ 4 ∧ leInt32 rb ≥ 0 then [(rb.drop 4).take (leInt32 rb).toNat] else []

def stepRecord (c : Conn Nat) : Json :=
  Json.arr #[stateNum c.state, c.rbuf.length, adler32 c.rbuf, c.wbuf.length, adler32 c.wbuf,
             c.wire.length, adler32 c.wire, c.delivered.length, c.nDisc,
             (match c.pollMask with | some m => Json.num (m : Int) | none => Json.num (-1 : Int)),
             c.lastRead]

def runCase (j : Json) : Json :=
  let encT : List (Nat × Bytes) := (getArr j "enc").toList.map fun p =>
    (((p.getArrVal? 0).toOption.bind (·.getNat?.toOption)).getD 0,
     unhex (((p.getArrVal? 1).toOption.bind (·.getStr?.toOption)).getD ""))
  let decT : List (Bytes × Nat) := (getArr j "dec").toList.map fun p =>
    (unhex (((p.getArrVal? 0).toOption.bind (·.getStr?.toOption)).getD ""),
     ((p.getArrVal? 1).toOption.bind (·.getNat?.toOption)).getD 0)
  let nones : List Nat := (getArr j "none").toList.map fun x => x.getNat?.toOption.getD 0
  let cbd : List Nat := (getArr j "cbdisc").toList.map fun x => x.getNat?.toOption.getD 0
  let cfg : Cfg Nat :=
    { enc := fun m => ((encT.find? (·.1 == m)).map (·.2)).getD []
      dec := fun p => (decT.find? (fun e => e.1.length == p.length && e.1 == p)).map (·.2)
      cbDisc := fun m => cbd.contains m
      timeout := getNat j "timeout" }
  let pinned := getBool j "pinned"
  let ini := getD j "init"
  let c0 : Conn Nat := Conn.init (getBool ini "sock") (getNat ini "now")
  let evs := (getArr j "evs").toList.map parseEv
  let cb : Option (DiscCb Nat) := match j.getObjVal? "ondisc" with
    | .ok o => if o.isNull then none else
        some { ok := getBool o "ok", msgs := (getArr o "msgs").toList.map fun x => x.getNat?.toOption.getD 0 }
    | .error _ => none
  let (cN, steps, undec, _) := evs.foldl (fun (acc : Conn Nat × Array Json × List Bytes × Nat) ev =>
      let (c, steps, undec, clock) := acc
      let c' := match pinned, ev with
        | true, .poll e => pollPinned cfg nones c e
        | _, _ => stepCb cfg cb clock c ev
      let ud := match ev with
        | .poll e => if e.rd && c'.nDisc > c.nDisc then undecodable cfg (recvLoop c e.recvs).rbuf else []
        | _ => []
      (c', steps.push (stepRecord c'), undec ++ ud, evTime clock ev)) (c0, #[], [], getNat ini "now")
  Json.mkObj [("steps", Json.arr steps),
              ("delivered", Json.arr (cN.delivered.toArray.map fun (n : Nat) => (n : Json))),
              ("undec", Json.arr (undec.toArray.map fun b => Json.str (hex b)))]

partial def loop (hin hout : IO.FS.Stream) : IO Unit := do
  let line ← hin.getLine
  if line.isEmpty then return
  let t := line.trimAscii.toString
  if t.isEmpty then loop hin hout else
  match Json.parse t with
  | .error e => hout.putStrLn (Json.mkObj [("error", Json.str e)]).compress
  | .ok j => hout.putStrLn (runCase j).compress
  hout.flush
  loop hin hout

def run : IO UInt32 := do
  loop (← IO.getStdin) (← IO.getStdout)
  return 0

end Driver.Framing
