/-! Line-protocol driver for component `Versions` (stub; the component owner replaces `run`). -/
namespace Driver.Versions

def run : IO UInt32 := do
  IO.eprintln "driver component Versions: not implemented"
  return 3

end Driver.Versions
