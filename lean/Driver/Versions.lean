import Lean.Data.Json
import PSO.Model.Versions

/-! Line-protocol driver for component `versions` (C17).

One JSON object per input line, one JSON object per output line.

Stateless ops
* `{"op":"ids","cls":CLS}` → `{"ids":[[ver,obj,NAME]…],"selfVer":n}`
* `{"op":"idsx","cls":CLS,"aliases":[[obj,ATTR,ver]…]}` → `{"ids":[…]}` (class with aliases / private methods, finding D86)
* `{"op":"table","cls":CLS,"enabled":e}` → `{"table":[[obj,ORIG,NAME,id|null]…]}` (in `keys` order)

Node ops (one current node)
* `{"op":"node","cls":CLS,"enabled":e,"tableVer":t,"lastApplied":a,"commit":c,"log":[ENTRY…],"waiting":[[idx,[[term,cb]…]]…]}`
* `{"op":"init","cls":CLS}`
* `{"op":"setCommit","v":n}`, `{"op":"append","entries":[ENTRY…]}`, `{"op":"subscribe","idx":i,"term":t,"cb":c}`
* `{"op":"apply"}` → `{"ev":[…],"state":STATE}`
* `{"op":"setver","v":n}` → `{"setver":["tooHigh",self,req] | ["tooLow",enabled,req] | ["queued",v]}`
* `{"op":"dump"}` → `{"dump":null | {"enabled":e|null,"prev":ENTRY,"last":ENTRY}}` (remembered)
* `{"op":"load","clear":bool}` → `{"ev":[…],"state":STATE}` (loads the remembered dump into the current node)
* `{"op":"compact"}` → `{"state":STATE}` (second phase of the compaction for the remembered dump)
* `{"op":"restart","cls":CLS,"keepLog":bool}` → fresh node on code CLS (log and commit kept when `keepLog`)
* `{"op":"state"}` → `{"state":STATE}`

CLS = `[[obj,ORIG,ver]…]`, NAME/ORIG = list of code points, ENTRY = `[CMD,idx,term]`,
CMD = `["noop"] | ["mem"] | ["ver",v] | ["reg",id,arg] | ["other",t]`.
-/
namespace Driver.Versions
open Lean PSO.Versions

def jNat (j : Json) : Except String Nat := j.getNat?
def jArr (j : Json) : Except String (Array Json) := j.getArr?

def jName (j : Json) : Except String PSO.Versions.Name := do
  let a ← jArr j
  a.toList.mapM jNat

def jDecl (j : Json) : Except String Decl := do
  let a ← jArr j
  if a.size != 3 then throw "decl: need 3 fields"
  return ⟨← jNat a[0]!, ← jName a[1]!, ← jNat a[2]!⟩

def jCls (j : Json) : Except String ClassDef := do
  let a ← jArr j
  a.toList.mapM jDecl

def jCmd (j : Json) : Except String Cmd := do
  let a ← jArr j
  if a.size == 0 then throw "cmd: empty"
  let k ← a[0]!.getStr?
  match k, a.size with
  | "noop", 1 => return .noop
  | "mem", 1 => return .membership
  | "ver", 2 => return .version (← jNat a[1]!)
  | "reg", 3 => return .regular (← jNat a[1]!) (← jNat a[2]!)
  | "other", 2 => return .other (← jNat a[1]!)
  | _, _ => throw s!"cmd: bad {k}"

def jEntry (j : Json) : Except String Entry := do
  let a ← jArr j
  if a.size != 3 then throw "entry: need 3 fields"
  return ⟨← jCmd a[0]!, ← jNat a[1]!, ← jNat a[2]!⟩

def jEntries (j : Json) : Except String (List Entry) := do
  (← jArr j).toList.mapM jEntry

def jWaiting (j : Json) : Except String (List (Nat × List (Nat × Nat))) := do
  (← jArr j).toList.mapM fun p => do
    let a ← jArr p
    if a.size != 2 then throw "waiting: need 2 fields"
    let subs ← (← jArr a[1]!).toList.mapM fun s => do
      let b ← jArr s
      if b.size != 2 then throw "sub: need 2 fields"
      return (← jNat b[0]!, ← jNat b[1]!)
    return (← jNat a[0]!, subs)

def nat (n : Nat) : Json := Json.num (JsonNumber.fromNat n)
def name (n : PSO.Versions.Name) : Json := Json.arr (n.map nat).toArray
def desc (d : Desc) : Json := Json.arr #[nat d.ver, nat d.obj, name d.name]
def optNat : Option Nat → Json
  | none => Json.null
  | some n => nat n

def cmd : Cmd → Json
  | .noop => Json.arr #[Json.str "noop"]
  | .membership => Json.arr #[Json.str "mem"]
  | .version v => Json.arr #[Json.str "ver", nat v]
  | .regular f a => Json.arr #[Json.str "reg", nat f, nat a]
  | .other t => Json.arr #[Json.str "other", nat t]

def entry (e : Entry) : Json := Json.arr #[cmd e.cmd, nat e.idx, nat e.term]

def res : Res → Json
  | .none => Json.null
  | .value d a => Json.arr #[desc d, nat a]
  | .keyError f => Json.arr #[Json.str "keyError", nat f]
  | .lowerVersion e r => Json.arr #[Json.str "lowerVersion", nat e, nat r]

def tableJson (cls : ClassDef) (e : Nat) : Json :=
  Json.arr ((keys cls).filterMap fun k =>
    (funcName cls e k).map fun nm =>
      Json.arr #[nat k.obj, name k.orig, name nm, optNat (callId cls e k)]).toArray

def ev (cls : ClassDef) : Ev → Json
  | .ran i d a => Json.arr #[Json.str "ran", nat i, desc d, nat a]
  | .callback cb r ok => Json.arr #[Json.str "cb", nat cb, res r, Json.bool ok]
  | .versionChanged o n he ht => Json.arr #[Json.str "verChanged", nat o, nat n, nat he, tableJson cls ht]
  | .wrongVer s r => Json.arr #[Json.str "wrongVer", nat s, nat r]
  | .unknownId i f => Json.arr #[Json.str "unknownId", nat i, nat f]
  | .blocked e s => Json.arr #[Json.str "blocked", nat e, nat s]
  | .callbackOpen cb he ht => Json.arr #[Json.str "cbOpen", nat cb, nat he, tableJson cls ht]

def state (n : Node) : Json :=
  Json.mkObj [
    ("enabled", nat n.enabled), ("tableVer", nat n.tableVer), ("lastApplied", nat n.lastApplied),
    ("commit", nat n.commit), ("selfVer", nat (selfCodeVersion n.cls)),
    ("log", Json.arr (n.log.map entry).toArray),
    ("waiting", Json.arr (n.waiting.map fun p =>
        Json.arr #[nat p.1, Json.arr (p.2.map fun s => Json.arr #[nat s.1, nat s.2]).toArray]).toArray),
    ("table", tableJson n.cls n.tableVer)]

structure St where
  node : Node := initNode []
  dump : Option Dump := none

def field (j : Json) (k : String) : Except String Json := j.getObjVal? k

def step (st : St) (j : Json) : Except String (St × Json) := do
  let op ← (← field j "op").getStr?
  match op with
  | "idsx" =>
    -- class with aliases / private methods: {"op":"idsx","cls":CLS,"aliases":[[obj,ATTR,ver]…]} → {"ids":[…]}
    let cls ← jCls (← field j "cls")
    let al ← (← jArr (← field j "aliases")).toList.mapM fun a => do
      let x ← jArr a
      if x.size != 3 then throw "alias: need 3 fields"
      return (⟨← jNat x[0]!, ← jName x[1]!, ← jNat x[2]!⟩ : Alias)
    return (st, Json.mkObj [("ids", Json.arr ((idToMethodX ⟨cls, al⟩).map desc).toArray)])
  | "ids" =>
    let cls ← jCls (← field j "cls")
    return (st, Json.mkObj [("ids", Json.arr ((idToMethod cls).map desc).toArray),
                            ("selfVer", nat (selfCodeVersion cls))])
  | "table" =>
    let cls ← jCls (← field j "cls")
    let e ← jNat (← field j "enabled")
    return (st, Json.mkObj [("table", tableJson cls e)])
  | "node" =>
    let n : Node := {
      cls := ← jCls (← field j "cls"), enabled := ← jNat (← field j "enabled"),
      tableVer := ← jNat (← field j "tableVer"), lastApplied := ← jNat (← field j "lastApplied"),
      commit := ← jNat (← field j "commit"), log := ← jEntries (← field j "log"),
      waiting := ← jWaiting (← field j "waiting") }
    return ({ st with node := n }, Json.mkObj [("state", state n)])
  | "init" =>
    let n := initNode (← jCls (← field j "cls"))
    return ({ st with node := n }, Json.mkObj [("state", state n)])
  | "setCommit" =>
    let (n, _) := PSO.Versions.step st.node (.setCommit (← jNat (← field j "v")))
    return ({ st with node := n }, Json.mkObj [("ok", Json.bool true)])
  | "append" =>
    let (n, _) := PSO.Versions.step st.node (.append (← jEntries (← field j "entries")))
    return ({ st with node := n }, Json.mkObj [("ok", Json.bool true)])
  | "subscribe" =>
    let (n, _) := PSO.Versions.step st.node
      (.subscribe (← jNat (← field j "idx")) (← jNat (← field j "term")) (← jNat (← field j "cb")))
    return ({ st with node := n }, Json.mkObj [("ok", Json.bool true)])
  | "apply" =>
    let (n, evs) := PSO.Versions.step st.node .tick
    return ({ st with node := n }, Json.mkObj [("ev", Json.arr (evs.map (ev n.cls)).toArray), ("state", state n)])
  | "setver" =>
    let r := match setCodeVersion st.node (← jNat (← field j "v")) with
      | .tooHigh s q => Json.arr #[Json.str "tooHigh", nat s, nat q]
      | .tooLow e q => Json.arr #[Json.str "tooLow", nat e, nat q]
      | .queued v => Json.arr #[Json.str "queued", nat v]
    return (st, Json.mkObj [("setver", r)])
  | "dump" =>
    let d := takeDump st.node
    let dj := match d with
      | none => Json.null
      | some d => Json.mkObj [("enabled", optNat d.enabled), ("prev", entry d.prev), ("last", entry d.last)]
    return ({ st with dump := d }, Json.mkObj [("dump", dj)])
  | "load" =>
    let clear ← (← field j "clear").getBool?
    match st.dump with
    | none => throw "load: no dump"
    | some d =>
      let n := loadDump st.node d clear
      let evs := loadDumpEvents st.node d clear
      return ({ st with node := n }, Json.mkObj [("ev", Json.arr (evs.map (ev n.cls)).toArray), ("state", state n)])
  | "compact" =>
    match st.dump with
    | none => throw "compact: no dump"
    | some d =>
      let n := finishCompaction st.node d
      return ({ st with node := n }, Json.mkObj [("state", state n)])
  | "restart" =>
    let cls ← jCls (← field j "cls")
    let keep ← (← field j "keepLog").getBool?
    let n0 := initNode cls
    let n := if keep then { n0 with log := st.node.log, commit := st.node.commit } else n0
    return ({ st with node := n }, Json.mkObj [("state", state n)])
  | "state" => return (st, Json.mkObj [("state", state st.node)])
  | _ => throw s!"unknown op {op}"

partial def loop (h : IO.FS.Stream) (out : IO.FS.Stream) (st : St) : IO Unit := do
  let line ← h.getLine
  if line.isEmpty then return
  let l := line.trimAscii.toString
  if l.isEmpty then
    loop h out st
  else
    match Json.parse l >>= step st with
    | .ok (st', r) =>
      out.putStrLn r.compress
      out.flush
      loop h out st'
    | .error e =>
      out.putStrLn (Json.mkObj [("error", Json.str e)]).compress
      out.flush
      loop h out st

def run : IO UInt32 := do
  loop (← IO.getStdin) (← IO.getStdout) {}
  return 0

end Driver.Versions
