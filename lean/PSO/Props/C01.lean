import PSO.Proofs.RaftDemo

/-!
# C01 — replicas apply one common command sequence (state-machine safety)

The applied sequence of node `n` in state `s` is `appliedSeq s n`: the entries at positions
`0..applied` of its (ghost-complete) log; the object state is by definition the fold of the user's
methods over it (that the real object equals this fold is what the correspondence components
`corr.core_trace` / `corr.nodetick_handlers` check, and `PSO.C12.replicas_equal` for raising commands).
Quantifier: every reachable state of `PSO.Raft.step`, every cluster size, every interleaving of
timeouts, deliveries in any order, losses, client appends, arbitrary append/snapshot segments.
-/
namespace PSO.C01
open PSO.Raft

/-- The sequence of entries a node has applied. -/
def appliedSeq (s : State) (n : Nat) : List Entry := (s.nodes n).log.take ((s.nodes n).applied + 1)

/-- No two nodes ever apply different commands at the same position — in one state or at different
times of one execution. -/
theorem same_command_at_same_position {N : Nat} {s1 s2 : State} {as : List Action} (h1 : Reachable N s1)
    (hr : run N s1 as = some s2) (a b p : Nat)
    (hpa : p ≤ (s1.nodes a).applied) (hpb : p ≤ (s2.nodes b).applied) :
    (appliedSeq s1 a)[p]? = (appliedSeq s2 b)[p]? := by
  have i1 := inv_reachable h1
  have i2 := inv_run i1 hr
  have := committed_agree h1 hr a b p (Nat.le_trans hpa (i1.a a)) (Nat.le_trans hpb (i2.a b))
  unfold appliedSeq
  rw [List.getElem?_take, List.getElem?_take]
  simp [Nat.lt_succ_of_le hpa, Nat.lt_succ_of_le hpb, this]

/-- The applied sequences of any two nodes are prefixes of one common sequence: one of them is a
prefix of the other. -/
theorem applied_sequences_comparable {N : Nat} {s : State} (h : Reachable N s) (a b : Nat) :
    appliedSeq s a <+: appliedSeq s b ∨ appliedSeq s b <+: appliedSeq s a := by
  have i := inv_reachable h
  have key : ∀ x y, (s.nodes x).applied ≤ (s.nodes y).applied → appliedSeq s x <+: appliedSeq s y := by
    intro x y hxy
    have hx := i.s.cm_lt x; have hax := i.a x
    have hy := i.s.cm_lt y; have hay := i.a y
    unfold appliedSeq
    have heq : (s.nodes x).log.take ((s.nodes x).applied + 1) = (s.nodes y).log.take ((s.nodes x).applied + 1) := by
      apply List.ext_getElem?
      intro p
      by_cases hp : p ≤ (s.nodes x).applied
      · have := committed_agree (as := []) h rfl x y p (Nat.le_trans hp hax) (Nat.le_trans (Nat.le_trans hp hxy) hay)
        rw [List.getElem?_take, List.getElem?_take]; simp [Nat.lt_succ_of_le hp, this]
      · rw [List.getElem?_take, List.getElem?_take]
        simp [show ¬ p < (s.nodes x).applied + 1 by omega]
    rw [heq]
    exact List.take_prefix_take_left (by omega)
  rcases Nat.le_total (s.nodes a).applied (s.nodes b).applied with hle | hle
  · exact Or.inl (key a b hle)
  · exact Or.inr (key b a hle)

/-- A node applies positions one by one, without gap or repetition: in one step its applied index
stays, or grows by exactly one (`apply`), or jumps forward when it installs a snapshot (the fourth case
is a restart, excluded by C01's "no node loses its memory"). -/
theorem positions_consecutive {N : Nat} {s s' : State} {a : Action} (hs : step N s a = some s') (n : Nat) :
    (s'.nodes n).applied = (s.nodes n).applied ∨
    (a = .apply n ∧ (s'.nodes n).applied = (s.nodes n).applied + 1) ∨
    (∃ m, a = .recvSnapshot n m ∧ (s.nodes n).applied < (s'.nodes n).applied) ∨
    (∃ c a', a = .restart n c a') :=
  applied_step hs n

/-- What a node has applied stays applied: the applied sequence only grows (also across snapshot
installation, which replaces the log by a committed prefix). -/
theorem applied_sequence_only_grows {N : Nat} {s1 s2 : State} {as : List Action} (h1 : Reachable N s1)
    (hr : run N s1 as = some s2) (hnr : NoRestart as) (n : Nat) : appliedSeq s1 n <+: appliedSeq s2 n := by
  have i1 := inv_reachable h1
  have i2 := inv_run i1 hr
  have hm := (run_mono i1 hr hnr).applied n
  unfold appliedSeq
  have hlen1 := i1.s.cm_lt n; have ha1 := i1.a n
  have hlen2 := i2.s.cm_lt n; have ha2 := i2.a n
  have heq : (s1.nodes n).log.take ((s1.nodes n).applied + 1) = (s2.nodes n).log.take ((s1.nodes n).applied + 1) := by
    apply List.ext_getElem?
    intro p
    by_cases hp : p ≤ (s1.nodes n).applied
    · have := committed_agree h1 hr n n p (Nat.le_trans hp ha1) (Nat.le_trans (Nat.le_trans hp hm) ha2)
      rw [List.getElem?_take, List.getElem?_take]; simp [Nat.lt_succ_of_le hp, this]
    · rw [List.getElem?_take, List.getElem?_take]
      simp [show ¬ p < (s1.nodes n).applied + 1 by omega]
  rw [heq]
  exact List.take_prefix_take_left (by omega)

/-- Everything applied is committed, and everything committed is in the log. -/
theorem applied_le_commit {N : Nat} {s : State} (h : Reachable N s) (n : Nat) :
    (s.nodes n).applied ≤ (s.nodes n).commit ∧ (s.nodes n).commit < (s.nodes n).log.length :=
  ⟨(inv_reachable h).a n, (inv_reachable h).s.cm_lt n⟩

/-- Non-vacuity: in the demo run nodes 0 and 1 have both applied positions 0..2 (no-op, no-op of term 1,
command 7), node 2 only the initial entry. -/
example : ∃ s, Reachable 3 s ∧ (s.nodes 0).applied = 2 ∧ (s.nodes 1).applied = 2 ∧ (s.nodes 2).applied = 0 := by
  obtain ⟨s, _, hr, hs⟩ := demo_reachable
  refine ⟨s, hr, ?_⟩
  simp [demoSummary] at hs
  obtain ⟨⟨_, _, _, h3, _⟩, ⟨_, _, _, h4, _⟩, ⟨_, _, _, h5, _⟩⟩ := hs
  exact ⟨h3, h4, h5⟩

end PSO.C01
