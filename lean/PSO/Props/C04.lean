import PSO.Proofs.RaftDemo
import PSO.Proofs.NodeTickMonotone
import PSO.Proofs.NodeTickBridge
import PSO.Proofs.BridgeTheorems

/-!
# C04 — committed positions are majority-backed and never change; indices only advance

Positions are 0-based model positions (real index − 1).  All theorems quantify over every reachable
state of `PSO.Raft.step` for every cluster size `N`.
-/
namespace PSO.C04
open PSO.Raft

/-- In every reachable state — in particular in the state of the very step that raised the commit
index — the committed prefix of any node is held, entry for entry, by a majority of the nodes. -/
theorem commit_is_majority_backed {N : Nat} {s : State} (h : Reachable N s) (hN : 0 < N) (n : Nat) :
    ∃ Q, IsQuorum N Q ∧
      ∀ q ∈ Q, (s.nodes q).log.take ((s.nodes n).commit + 1) = (s.nodes n).log.take ((s.nodes n).commit + 1) :=
  commit_majority h hN n

/-- … and no later leader can lack it (see `PSO.C03.leader_holds_committed_prefixes`). -/
theorem later_leader_holds_it {N : Nat} {s1 s2 : State} {as : List Action} (h1 : Reachable N s1)
    (hr : run N s1 as = some s2) {n l : Nat} (hl : (s2.nodes l).role = .leader)
    (ht : (s1.nodes n).term ≤ (s2.nodes l).term) :
    (s1.nodes n).log.take ((s1.nodes n).commit + 1) <+: (s2.nodes l).log := by
  have i1 := inv_reachable h1
  exact leader_holds_committed (reachable_of_run h1 hr) hl (cmt_later (run_ghost_mono i1 hr) (i1.s.C1 n)) ht

/-- Once any node has reported a position as committed, the entry at that position never differs on
any node that also reports it committed — at the same time or at any later time. -/
theorem committed_entry_never_differs {N : Nat} {s1 s2 : State} {as : List Action} (h1 : Reachable N s1)
    (hr : run N s1 as = some s2) (a b p : Nat)
    (hpa : p ≤ (s1.nodes a).commit) (hpb : p ≤ (s2.nodes b).commit) :
    (s1.nodes a).log[p]? = (s2.nodes b).log[p]? :=
  committed_agree h1 hr a b p hpa hpb

/-- While nodes run (no restart among the actions), commit index and applied index of every node never
move backwards. -/
theorem indices_monotone {N : Nat} {s1 s2 : State} {as : List Action} (h1 : Reachable N s1)
    (hr : run N s1 as = some s2) (hnr : NoRestart as) (n : Nat) :
    (s1.nodes n).commit ≤ (s2.nodes n).commit ∧ (s1.nodes n).applied ≤ (s2.nodes n).applied :=
  ⟨(run_mono (inv_reachable h1) hr hnr).commit n, (run_mono (inv_reachable h1) hr hnr).applied n⟩

/-- `applied ≤ commit < length of the log`, always. -/
theorem index_bounds {N : Nat} {s : State} (h : Reachable N s) (n : Nat) :
    (s.nodes n).applied ≤ (s.nodes n).commit ∧ (s.nodes n).commit < (s.nodes n).log.length :=
  ⟨(inv_reachable h).a n, (inv_reachable h).s.cm_lt n⟩

/-- Log matching: two nodes whose logs hold an entry with the same position and term hold identical
logs up to that position. -/
theorem log_matching {N : Nat} {s : State} (h : Reachable N s) (a b p : Nat)
    (hpa : p < (s.nodes a).log.length) (hpb : p < (s.nodes b).log.length)
    (ht : termAt (s.nodes a).log p = termAt (s.nodes b).log p) :
    (s.nodes a).log.take (p + 1) = (s.nodes b).log.take (p + 1) :=
  PSO.Raft.log_matching (inv_reachable h).l a b p hpa hpb ht

/-- A leader advances its commit index only to a position of its own term that a majority has
acknowledged in that term (the guard of `advanceCommit`, restated). -/
theorem leader_commit_guard {N : Nat} {s s' : State} {n i : Nat} (hs : step N s (.advanceCommit n i) = some s') :
    (s.nodes n).role = .leader ∧ termAt (s.nodes n).log i = (s.nodes n).term ∧
    N < 2 * matchCount N n (s.nodes n).matchIdx i := by
  simp only [step] at hs
  split at hs
  · rename_i hg
    exact ⟨hg.2.1, hg.2.2.2.2.1, isMajority_iff.mp hg.2.2.2.2.2⟩
  · cases hs

/-! ## Node level (`PSO.NodeTick`, the handler-level mirror of `_onTick` and the vote / ack handlers) -/

/-- Every modelled handler of the real node (tick, `request_vote`, `response_vote`, `next_node_idx`,
connection callbacks) keeps the commit index from moving backwards … -/
theorem handler_commit_monotone (c : PSO.NodeTick.Config) (s : PSO.NodeTick.NodeState) (e : PSO.NodeTick.Event) :
    s.commit ≤ (PSO.NodeTick.step c s e).1.commit :=
  PSO.NodeTick.step_commit_monotone c s e

/-- … and the applied index. -/
theorem handler_applied_monotone (c : PSO.NodeTick.Config) (s : PSO.NodeTick.NodeState) (e : PSO.NodeTick.Event) :
    s.lastApplied ≤ (PSO.NodeTick.step c s e).1.lastApplied :=
  PSO.NodeTick.step_applied_monotone c s e

/-- The commit loop of the leader's tick advances only to an index of the current term that a majority
of the voters has acknowledged — i.e. it satisfies the guard of the cluster model's `advanceCommit`. -/
theorem tick_commit_advance_is_guarded (s : PSO.NodeTick.NodeState)
    (h : PSO.NodeTick.nextCommit s ≠ s.commit) :
    isMajority (s.others.length + 1) (PSO.NodeTick.commitCount s.others s.matchIndex (PSO.NodeTick.nextCommit s)) = true ∧
    PSO.NodeTick.termAt s.log (PSO.NodeTick.nextCommit s) = some s.term ∧ s.commit < PSO.NodeTick.nextCommit s :=
  let r := PSO.NodeTick.nextCommit_spec s h
  ⟨r.1, r.2.1, r.2.2.1⟩

/-! ## The handler-level models refine the cluster model (statements: notes/bridge.md) -/

/-- Leader commit loop of `_onTick` ⊑ `advanceCommit` (guard holds, same new commit position). -/
theorem tick_commit_refines : type_of% @PSO.Bridge.tick_commit_refines := @PSO.Bridge.tick_commit_refines

/-- `next_node_idx` handler ⊑ `recvAck` (a success reply of the current term raises the match position). -/
theorem ack_handler_refines : type_of% @PSO.Bridge.onNextNodeIdx_refines := @PSO.Bridge.onNextNodeIdx_refines

/-- A reply of another term is ignored by handler and model alike. -/
theorem ack_of_other_term_ignored : type_of% @PSO.Bridge.onNextNodeIdx_other_term :=
  @PSO.Bridge.onNextNodeIdx_other_term

/-- The whole tick (election, commit, fallback, applies) is a run of model actions. -/
theorem tick_refines : type_of% @PSO.Bridge.tick_refines := @PSO.Bridge.tick_refines

/-- Every batch / chunk burst of the send loop is an enabled `sendAppend` producing exactly that message
(also for any wall-clock cut-off and any disconnect point). -/
theorem send_loop_refines : type_of% @PSO.Bridge.sendRun_refines := @PSO.Bridge.sendRun_refines
theorem send_loop_cut_refines : type_of% @PSO.Bridge.sendRun_cut_refines := @PSO.Bridge.sendRun_cut_refines
theorem send_loop_probe_refines : type_of% @PSO.Bridge.sendRun_probe_refines := @PSO.Bridge.sendRun_probe_refines

/-- A queue item accepted by a leader (`leaderDispatch`, batched or unbatched mode) is the model's `clientAppend`
of that command; a refused item or a non-leader leaves the abstract node unchanged. -/
theorem leader_dispatch_refines : type_of% @PSO.Bridge.leaderDispatch_refines := @PSO.Bridge.leaderDispatch_refines
theorem dispatch_idle_unchanged : type_of% @PSO.Bridge.dispatch_idle_abs := @PSO.Bridge.dispatch_idle_abs

/-- The follower side of `append_entries` (regular message, chunk burst) is the model's `recvAppend`; a reply
`next_node_idx` with success is the model's `ack`, reset replies are no model message. -/
theorem follower_append_refines : type_of% @PSO.Bridge.appendEntries_refines := @PSO.Bridge.appendEntries_refines
theorem follower_chunk_refines : type_of% @PSO.Bridge.appendEntries_chunk_refines := @PSO.Bridge.appendEntries_chunk_refines
theorem follower_finish_refines : type_of% @PSO.Bridge.appendEntries_finish_refines := @PSO.Bridge.appendEntries_finish_refines

/-- A complete snapshot message (`serialized` branch of the `append_entries` handler, `__loadDumpFile(clearJournal=True)`
with the keep-log guard) is the model's `recvSnapshot`; partial chunks only adopt the term (`observeTerm`).  The
abstraction of the commit index is `max(commit, lastApplied) − 1` (what `corr.core_trace` compares); `…_S` is the same
statement for `commit − 1` when `lastApplied ≤ commit`. -/
theorem snapshot_install_refines : type_of% @PSO.Bridge.snapshot_refines := @PSO.Bridge.snapshot_refines
theorem snapshot_partial_refines : type_of% @PSO.Bridge.snapshot_partial_refines := @PSO.Bridge.snapshot_partial_refines
theorem snapshot_install_refines_S : type_of% @PSO.Bridge.snapshot_refines_S := @PSO.Bridge.snapshot_refines_S

/-- Non-vacuity: in the demo run nodes 0 and 1 report positions 0..2 committed, node 2 nothing. -/
example : ∃ s, Reachable 3 s ∧ (s.nodes 0).commit = 2 ∧ (s.nodes 1).commit = 2 ∧ (s.nodes 2).commit = 0 := by
  obtain ⟨s, _, hr, hs⟩ := demo_reachable
  refine ⟨s, hr, ?_⟩
  simp [demoSummary] at hs
  obtain ⟨⟨_, _, h3, _⟩, ⟨_, _, h4, _⟩, ⟨_, _, h5, _⟩⟩ := hs
  exact ⟨h3, h4, h5⟩

end PSO.C04
