import PSO.Proofs.NodeTickObserver
import PSO.Proofs.RaftObservers
import PSO.Proofs.RaftDemo

/-!
# C18 — read-only nodes never vote, never lead, are never counted (node-local part)

Statements about `PSO.NodeTick.step` / `run` and the majority computations of `tick`, the functions
`driver nodetick` executes against the real handlers.  A read-only node is one started without an own address
(`self = none`).  Handler list covered by `never_votes_never_leads`: `_onTick`, `__onMessageReceived` for
`request_vote` / `response_vote` / `next_node_idx`, `__onNodeConnected/Disconnected`,
`__onReadonlyNodeConnected/Disconnected` (the `append_entries` handler only ever sets FOLLOWER; it belongs to
the trace-validated protocol model, as do convergence and command forwarding of observers).

Counting is by voter set: `others` never contains an observer (observers live in `readonly`), and every
majority computation iterates `others` only — that is what `not_counted_*` say, for an arbitrary `readonly`
set (any number of observers) and arbitrary table entries of non-voters.  Note the code counts a
`response_vote` by message, not by sender: that no observer ever sends one is `never_votes_never_leads`.
-/
namespace PSO.C18
open PSO.NodeTick
open PSO.Raft (Role isMajority)

def exConf : Config := { fallbackT := 2048, minT := 512, maxT := 1536, useBatch := true, selfVer := 0 }

/-- a read-only node whose election deadline has long passed and which is connected to a voter -/
def exObserver : NodeState :=
  { self := none, role := .follower, term := 3, votedFor := none, votes := 0, leader := some 1,
    electionDeadline := 5, others := [1, 2, 3], readonly := [], connected := [1],
    log := [⟨.noop, 1, 0⟩, ⟨.regular 9 false, 2, 3⟩], commit := 2, lastApplied := 1,
    matchIndex := [], nextIndex := [], lastResponse := [], waiting := [], waitingReply := [], sm := [], enabledVer := 0,
    leaderCommit := some 2, readyCalled := false, newAppendTime := 0, noopIdx := none }

/-- a leader of a 3-voter cluster with two observers that hold everything and answered just now -/
def exLeader : NodeState :=
  { self := some 0, role := .leader, term := 2, votedFor := some 0, votes := 2, leader := some 0,
    electionDeadline := 0, others := [1, 2], readonly := [5, 6], connected := [5, 6],
    log := [⟨.noop, 1, 0⟩, ⟨.noop, 2, 2⟩, ⟨.regular 7 false, 3, 2⟩], commit := 2, lastApplied := 2,
    matchIndex := [(1, 2), (2, 2), (5, 3), (6, 3)], nextIndex := [(1, 4), (2, 4), (5, 4), (6, 4)],
    lastResponse := [(1, 7000), (2, 7000), (5, 10000), (6, 10000)],
    waiting := [], waitingReply := [], sm := [], enabledVer := 0, leaderCommit := some 2,
    readyCalled := true, newAppendTime := 0, noopIdx := some 2 }

/-- **never_votes_never_leads.** For a read-only follower every modelled handler keeps `role = follower`
(and `self = none`) and emits no `request_vote` and no `response_vote` — along any event sequence, whatever
the clock, the messages and the connection events are. -/
theorem never_votes_never_leads (c : Config) (s : NodeState) (evs : List Event)
    (hself : s.self = none) (hrole : s.role = .follower) :
    (run c s evs).1.role = .follower ∧ (run c s evs).1.self = none ∧
    ∀ o ∈ (run c s evs).2, isVoteMsg o = false := by
  obtain ⟨⟨h1, h2⟩, h3⟩ := run_observer c evs s ⟨hself, hrole⟩
  exact ⟨h2, h1, h3⟩

/-- single-handler form -/
theorem never_votes_never_leads_step (c : Config) (s : NodeState) (e : Event)
    (hself : s.self = none) (hrole : s.role = .follower) :
    (step c s e).1.role = .follower ∧ (step c s e).1.self = none ∧ ∀ o ∈ (step c s e).2, isVoteMsg o = false := by
  obtain ⟨⟨h1, h2⟩, h3⟩ := step_observer c s e ⟨hself, hrole⟩
  exact ⟨h2, h1, h3⟩

example : exObserver.self = none ∧ exObserver.role = .follower ∧ exObserver.electionDeadline < 1000 ∧
    connectedToAnyone exObserver = true := by decide

/-- the same state as a voter would start an election at that tick — the guard that matters is `self` -/
example : (tick exConf { exObserver with self := some 0 } 1000 0).1.role = .candidate ∧
    (tick exConf exObserver 1000 0).1.role = .follower ∧ (tick exConf exObserver 1000 0).1.lastApplied = 2 := by decide

/-- **not_counted (commit).** The commit index the leader branch computes is independent of the read-only
set and of the match-index entries of every non-voter. -/
theorem not_counted_commit (s : NodeState) (r : List Nat) (m' : AMap)
    (h : ∀ n ∈ s.others, mgetD m' n = mgetD s.matchIndex n) :
    nextCommit { s with readonly := r, matchIndex := m' } = nextCommit s :=
  nextCommit_observers s r m' h

/-- **not_counted (fallback).** The fallback count is independent of the read-only set and of the response
times of every non-voter. -/
theorem not_counted_fallback (c : Config) (s : NodeState) (now : Nat) (r : List Nat) (m' : AMap)
    (h : ∀ n ∈ s.others, mgetD m' n = mgetD s.lastResponse n) :
    CutOff c { s with readonly := r, lastResponse := m' } now ↔ CutOff c s now :=
  cutOff_observers c s now r m' h

/-- **not_counted (leader branch of the tick).** New commit index, role and leader after the leader branch are
the same with any read-only set and any table entries of non-voters. -/
theorem not_counted_leader_branch (c : Config) (s : NodeState) (now : Nat) (r : List Nat) (mi lr : AMap)
    (h1 : ∀ n ∈ s.others, mgetD mi n = mgetD s.matchIndex n)
    (h2 : ∀ n ∈ s.others, mgetD lr n = mgetD s.lastResponse n) :
    (leaderPhase c { s with readonly := r, matchIndex := mi, lastResponse := lr } now).1.commit = (leaderPhase c s now).1.commit ∧
    (leaderPhase c { s with readonly := r, matchIndex := mi, lastResponse := lr } now).1.role = (leaderPhase c s now).1.role ∧
    (leaderPhase c { s with readonly := r, matchIndex := mi, lastResponse := lr } now).1.leader = (leaderPhase c s now).1.leader :=
  leaderPhase_observers c s now r mi lr h1 h2

/-- observers that hold the whole log and answered a moment ago change nothing: no commit, step-down -/
example : nextCommit exLeader = 2 ∧ (tick exConf exLeader 10000 0).1.role = .follower ∧
    (tick exConf exLeader 10000 0).1.commit = 2 ∧
    (∀ n ∈ exLeader.others, mgetD [(1, 2), (2, 2)] n = mgetD exLeader.matchIndex n) := by decide

/-- **not_counted (hasQuorum).** `hasQuorum` is independent of the read-only set and of which non-voters are
connected. -/
theorem not_counted_hasQuorum (s : NodeState) (r conn' : List Nat)
    (h : ∀ n ∈ s.others, (n ∈ conn' ↔ n ∈ s.connected)) :
    hasQuorum { s with readonly := r, connected := conn' } = hasQuorum s :=
  hasQuorum_observers s r conn' h

example : hasQuorum exLeader = false ∧ (∀ n ∈ exLeader.others, (n ∈ ([] : List Nat) ↔ n ∈ exLeader.connected)) := by decide

/-- **not_counted (election).** Winning an election compares the vote counter with the number of voters;
neither the read-only set nor any table or connection of an observer enters. -/
theorem not_counted_election (s : NodeState) (r : List Nat) (mi lr ni : AMap) (cn : List Nat) :
    isMajority (({ s with readonly := r, matchIndex := mi, lastResponse := lr, nextIndex := ni, connected := cn } : NodeState).others.length + 1)
      ({ s with readonly := r, matchIndex := mi, lastResponse := lr, nextIndex := ni, connected := cn } : NodeState).votes =
    isMajority (s.others.length + 1) s.votes := rfl

/-- **Any number of observers joining and leaving.** A read-only (dis)connect of a node outside the voter set
leaves the voter set, every voter's match index, the response table and hence the next commit index as they
were. -/
theorem observers_join_leave (s : NodeState) (n : Nat) (hn : n ∉ s.others) :
    (onReadonlyConnected s n).others = s.others ∧ (onReadonlyDisconnected s n).others = s.others ∧
    (∀ k ∈ s.others, mgetD (onReadonlyConnected s n).matchIndex k = mgetD s.matchIndex k) ∧
    (∀ k ∈ s.others, mgetD (onReadonlyDisconnected s n).matchIndex k = mgetD s.matchIndex k) ∧
    (onReadonlyConnected s n).lastResponse = s.lastResponse ∧ (onReadonlyDisconnected s n).lastResponse = s.lastResponse ∧
    nextCommit (onReadonlyConnected s n) = nextCommit s ∧ nextCommit (onReadonlyDisconnected s n) = nextCommit s :=
  roEvents_keep_voters s n hn

example : (7 : Nat) ∉ exLeader.others := by decide

/-! ## Cluster level (`PSO.Raft.step`, node ids `≥ N` are the read-only nodes) -/

/-- In every reachable state of the cluster model — any number of observers joining and leaving,
any schedule, restarts included — a read-only node is a follower that never voted. -/
theorem cluster_observer_is_passive {N : Nat} {s : PSO.Raft.State} (h : PSO.Raft.Reachable N s) {n : Nat}
    (hn : N ≤ n) :
    (s.nodes n).role = .follower ∧ (s.nodes n).votedFor = none ∧ ∀ t, s.g.voted t n = none :=
  PSO.Raft.observer_is_passive h hn

/-- Election and commit quorums never contain a read-only node … -/
theorem cluster_observer_in_no_quorum {N : Nat} {Q : List Nat} (hQ : PSO.Raft.IsQuorum N Q) {n : Nat}
    (hn : N ≤ n) : n ∉ Q :=
  PSO.Raft.observer_in_no_quorum hQ hn

/-- … and the leader's commit rule is independent of what observers acknowledged. -/
theorem cluster_commit_rule_ignores_observers (N n : Nat) (mi mi' : Nat → Nat) (i : Nat)
    (hsame : ∀ k, k < N → mi k = mi' k) :
    PSO.Raft.matchCount N n mi i = PSO.Raft.matchCount N n mi' i :=
  PSO.Raft.matchCount_ignores_observers N n mi mi' i hsame

/-- An observer converges to the same state as the voters as far as safety goes: what it has applied
is, position by position, what every other node (voter or observer) has applied. -/
theorem cluster_observer_applies_common_sequence {N : Nat} {s1 s2 : PSO.Raft.State}
    {as : List PSO.Raft.Action} (h1 : PSO.Raft.Reachable N s1) (hr : PSO.Raft.run N s1 as = some s2)
    (o v p : Nat) (hpo : p ≤ (s1.nodes o).applied) (hpv : p ≤ (s2.nodes v).applied) :
    (s1.nodes o).log[p]? = (s2.nodes v).log[p]? := by
  have i1 := PSO.Raft.inv_reachable h1
  have i2 := PSO.Raft.inv_run i1 hr
  exact PSO.Raft.committed_agree h1 hr o v p (Nat.le_trans hpo (i1.a o)) (Nat.le_trans hpv (i2.a v))

/-- Non-vacuity: an observer (node 3 of a 3-voter cluster) that received the leader's entries. -/
example : ∃ s, PSO.Raft.Reachable 3 s ∧ (s.nodes 3).log.length = 3 ∧ (s.nodes 3).role = .follower := by
  have h : ((PSO.Raft.run 3 PSO.Raft.init (PSO.Raft.demoActs ++
      [.sendAppend 0 3 0 2 2, .recvAppend 3 (.append 1 0 3 0 0 [⟨1, 0⟩, ⟨1, 7⟩] 2)])).map
      (fun s => ((s.nodes 3).log.length, decide ((s.nodes 3).role = .follower)))) = some (3, true) := by
    decide +kernel
  cases hr : PSO.Raft.run 3 PSO.Raft.init (PSO.Raft.demoActs ++
      [.sendAppend 0 3 0 2 2, .recvAppend 3 (.append 1 0 3 0 0 [⟨1, 0⟩, ⟨1, 7⟩] 2)]) with
  | none => rw [hr] at h; cases h
  | some s =>
    rw [hr] at h; simp at h
    exact ⟨s, PSO.Raft.reachable_iff_run.mpr ⟨_, hr⟩, h.1, h.2⟩

end PSO.C18
