import PSO.Proofs.NodeSendIntact

/-! # C11 — arguments of any size arrive intact on every replica (node-local send / receive path)

Statements about the functions of `PSO/Model/NodeSend.lean` that `driver nodesend` executes and that
`harness/corr/nodesend_handlers.py` diffs against the real `__sendAppendEntries` / `append_entries`
handler.  `B` = `appendEntriesBatchSizeBytes` (≥ 1 by `SyncObjConf.validate`), command size and pickle
overhead δ = `cmd.ovh ≥ 1` are arbitrary.
-/
namespace PSO.C11
open PSO.NodeSend

/-- node-local well-formedness the send path relies on: a non-empty log with contiguous indices starting at
`first`, a destination whose `nextIndex = first + p` lies in the regular region `first < next ≤ last + 1`,
a positive batch size, positive pickle overheads -/
structure WF (first : Nat) (log : List Entry) (p B : Nat) : Prop where
  ne : log ≠ []
  idx : IdxOK first log
  p1 : 1 ≤ p
  p2 : p ≤ log.length
  batch : 1 ≤ B
  ovh : ∀ e ∈ log, 1 ≤ e.cmd.ovh

/-- **Chunks reassemble (repaired rule, D7).**  For every byte string longer than one batch — in particular the
pickled form of any entry whose command is at least a batch long, for every overhead δ ≥ 1 — the receiver fed
with all chunks in order (from any buffer content) completes exactly that string, exactly once, and ends with the
empty buffer. -/
theorem chunks_reassemble {α : Type} (B : Nat) (data : List α) (hB : 1 ≤ B) (hE : B < data.length)
    (buf : Option (List α)) : recvAll buf (chunksOf B data) = .ok (none, [data]) :=
  recvAll_chunksOf B data hB hE buf

/-- … and the labels: the k-th chunk is `start` iff it is the first, `finish` iff it is the last. -/
theorem chunk_labels (B E k : Nat) (hB : 1 ≤ B) (hE : B < E) (hk : k < (chunkSpans B E).length) :
    ∃ pos len, (chunkSpans B E)[k]? = some (labelAt E B (k * B), pos, len) ∧ pos = k * B ∧
      (labelAt E B (k * B) = .start ↔ k = 0) ∧
      (labelAt E B (k * B) = .finish ↔ k + 1 = (chunkSpans B E).length) := by
  rw [chunkSpans_length] at hk ⊢
  exact ⟨_, _, chunkSpans_getElem? hk, rfl, labelAt_start_iff hB, labelAt_finish_iff hB hE hk⟩

example : recvAll (none : Option (List Nat)) (chunksOf 3 [1, 2, 3, 4, 5, 6, 7]) = .ok (none, [[1, 2, 3, 4, 5, 6, 7]]) := by rfl

/-- the entry form: command at least a batch long, any δ ≥ 1 -/
theorem chunks_reassemble_entry (B : Nat) (e : Entry) (hB : 1 ≤ B) (hsz : B ≤ e.cmd.size) (hovh : 1 ≤ e.cmd.ovh)
    (buf : Option (List PByte)) :
    recvAll buf (chunksOf B (pickleEntry e)) = .ok (none, [pickleEntry e]) ∧
    unpickleEntry (pickleEntry e) = some e := by
  have hlen : (pickleEntry e).length = e.plen := by simp [pickleEntry]
  have : B < e.plen := by unfold Entry.plen; omega
  exact ⟨recvAll_chunksOf B _ hB (by omega) buf, unpickle_pickle e (by omega)⟩

/-- **The pinned rule mislabels (D7).**  Command of 1960 bytes, batch 1000, δ = 54 (pickled entry 2014 bytes):
comparing with the command length labels the SECOND of three chunks `finish`, the repaired rule labels it
`process`.  Same shape in small (command 19, batch 10, δ = 5, pickled 24 bytes): the receiver completes a
truncated string of 20 bytes at the second chunk, and the third chunk, `finish` again, hits the empty buffer
(`'' + bytes`: TypeError). -/
theorem chunk_rule_counterexample :
    chunkSpansWith 1960 1000 2014 = [(.start, 0, 1000), (.finish, 1000, 1000), (.finish, 2000, 14)] ∧
    chunkSpans 1000 2014 = [(.start, 0, 1000), (.process, 1000, 1000), (.finish, 2000, 14)] ∧
    recvAll (none : Option (List Nat))
      ((chunkSpansWith 19 10 24).map fun c => (c.1, slice (List.range 24) c.2.1 c.2.2)) = .error .typeError ∧
    recvAll (none : Option (List Nat))
      (((chunkSpansWith 19 10 24).take 2).map fun c => (c.1, slice (List.range 24) c.2.1 c.2.2)) = .ok (none, [List.range 20]) := by
  refine ⟨by decide, by decide, by rfl, by rfl⟩

/-- **Batches partition the log (pipelined run).**  One full send run (no wall-clock cut-off, no disconnect) from
`nextIndex = first + p` to a destination that has confirmed the entry before it (`matchIndex ≥ first + p - 1`,
repair D62) terminates by itself, the entries carried by its batches are exactly `log[p..]` in order, each once;
the wire messages are the renderings of the batches in order; every batch's prevLogIdx / prevLogTerm are those of
the log entry before its first entry; `nextIndex` ends at `last + 1`; a batch is chunked only if its single command
is at least a batch long. -/
theorem batches_partition_log {first : Nat} {log : List Entry} {p B : Nat} (wf : WF first log p B)
    (term commit : Nat) (snap : List (Option Bool)) (m : Nat) (hm : first + p - 1 ≤ m) :
    ∃ r, sendOne ⟨B, term, commit, none, some m⟩ log (first + p) snap none = .ok r ∧ r.spin = false ∧
      r.next = first + log.length ∧
      r.batches.flatMap Batch.entries = log.drop p ∧
      r.msgs = r.batches.flatMap (render B term commit) ∧
      PrevOK log first p r.batches ∧ ChunkOK B r.batches ∧ r.batches ≠ [] := by
  unfold sendOne sendFuel
  obtain ⟨r, hr, h1, h2, h3, h4, _, h6, _, h8, h9⟩ :=
    sendLoop_partition wf.ne wf.idx ⟨B, term, commit, none, some m⟩ rfl snap
      (log.length + snap.length + 2 + 0 + 0) p true 0 false wf.p1 wf.p2 (by simp; omega) (Or.inr ⟨m, rfl, hm⟩)
  exact ⟨r, hr, h1, h2, h3, h4, h6, h8, h9 rfl⟩

/-- **A probing run carries exactly the first batch (repair D62).**  To a destination that has NOT confirmed the
entry before `nextIndex` (`matchIndex < first + p - 1`) one run sends exactly one batch — the entries
`log[p .. p+|b|)` chosen by the byte budget (a single heartbeat when the destination is up to date) — rendered
as before, with the right prev, and leaves `nextIndex` right after it. -/
theorem probing_run_first_batch {first : Nat} {log : List Entry} {p B : Nat} (wf : WF first log p B)
    (term commit : Nat) (snap : List (Option Bool)) (m : Nat) (hm : m < first + p - 1) :
    ∃ r b, sendOne ⟨B, term, commit, none, some m⟩ log (first + p) snap none = .ok r ∧ r.spin = false ∧
      r.batches = [b] ∧ b.entries = takeBytes B 0 (log.drop p) ∧ (∃ rest, log.drop p = b.entries ++ rest) ∧
      r.next = first + p + b.entries.length ∧ r.msgs = render B term commit b ∧
      PrevOK log first p [b] ∧ ChunkOK B [b] := by
  unfold sendOne sendFuel
  obtain ⟨r, b, hr, h1, h2, h3, h4, h5, h6, h7, h8⟩ :=
    sendLoop_probe wf.ne wf.idx ⟨B, term, commit, none, some m⟩ rfl snap (m := m) rfl
      (log.length + snap.length + 1) p 0 none wf.p1 wf.p2 hm
  exact ⟨r, b, hr, h1, h2, h3, h8, h4, h5, h6, h7⟩

example : WF 1 [⟨⟨.noop, 0, 1, 54⟩, 1, 0⟩, ⟨⟨.regular, 1, 40, 54⟩, 2, 1⟩, ⟨⟨.regular, 2, 250, 54⟩, 3, 1⟩] 1 100 :=
  ⟨by simp, by
    intro i e he
    match i, he with
    | 0, he => cases he; rfl
    | 1, he => cases he; rfl
    | 2, he => cases he; rfl
    | n + 3, he => simp at he, by omega, by simp, by omega, by
    intro e he; simp at he; rcases he with h | h | h <;> subst h <;> simp⟩

/-- **One run, whatever the destination's `matchIndex`, delivered intact.**  A follower that holds the leader's
log up to `nextIndex - 1` and consumes the messages of one full run in order (regular batches and
`start/process/finish` bursts) raises nothing and ends up with the leader's log up to the run's new `nextIndex - 1`
(`p ≤ p'`, with progress when there was something to send; all of it, `p' = length`, when the destination had
confirmed the preceding entry); the entries of the run's batches are exactly `log[p..p')`; its last
acknowledgement is a success with `next_node_idx` = the leader's new `nextIndex`. -/
theorem entry_intact_one_run {first : Nat} {log : List Entry} {p B : Nat} (wf : WF first log p B)
    (cfg : Conf) (src term commit : Nat) (snap : List (Option Bool)) (m : Nat) (s : Node) (hs : s.log = log.take p) :
    ∃ r s' o p', sendOne ⟨B, term, commit, none, some m⟩ log (first + p) snap none = .ok r ∧
      followerRun cfg src s r.msgs = .ok (s', o) ∧ p ≤ p' ∧ p' ≤ log.length ∧ (p < log.length → p < p') ∧
      r.next = first + p' ∧ s'.log = log.take p' ∧
      r.batches.flatMap Batch.entries ++ log.drop p' = log.drop p ∧
      ackNext o = some (first + p') ∧ (first + p - 1 ≤ m → p' = log.length) := by
  have hp2 := wf.p2
  by_cases hm : first + p - 1 ≤ m
  · obtain ⟨r, hr, _, hnext, hents, hmsgs, hprev, hck, hnn⟩ := batches_partition_log wf term commit snap m hm
    obtain ⟨s', o, hrun, hlog, _, hack⟩ :=
      followerRunA_batches cfg src wf.ne wf.idx B term commit wf.batch wf.ovh r.batches p s [] wf.p1 wf.p2 hs hprev hck
        (by simp [hents])
    have hlen : p + (r.batches.flatMap Batch.entries).length = log.length := by rw [hents]; simp; omega
    refine ⟨r, s', o, log.length, hr, ?_, hp2, Nat.le_refl _, fun h => h, hnext, ?_, ?_, ?_, fun _ => rfl⟩
    · unfold followerRun; rw [hmsgs]; exact hrun
    · rw [hlog, hlen]
    · rw [hents]; simp
    · have := hack hnn
      rw [this]; congr 1; omega
  · obtain ⟨r, b, hr, _, hbs, hbe, ⟨rest, hrest⟩, hnext, hmsgs, hprev, hck⟩ :=
      probing_run_first_batch wf term commit snap m (by omega)
    obtain ⟨s', o, hrun, hlog, _, hack⟩ :=
      followerRunA_batches cfg src wf.ne wf.idx B term commit wf.batch wf.ovh [b] p s rest wf.p1 wf.p2 hs hprev hck
        (by simpa using hrest)
    have hle : p + b.entries.length ≤ log.length := by
      have := congrArg List.length hrest
      simp at this; omega
    have hdrop : log.drop (p + b.entries.length) = rest := by
      have h1 : List.drop b.entries.length (b.entries ++ rest) = rest := List.drop_left
      rw [← hrest, List.drop_drop] at h1
      exact h1
    refine ⟨r, s', o, p + b.entries.length, hr, ?_, by omega, hle, ?_, by rw [hnext]; omega, ?_, ?_, ?_, fun h => absurd h hm⟩
    · unfold followerRun
      rw [hmsgs]
      simpa using hrun
    · intro hlt
      have hne : takeBytes B 0 (log.drop p) ≠ [] := by
        apply takeBytes_ne_nil
        intro hd
        have := congrArg List.length hd
        simp at this; omega
      rw [← hbe] at hne
      have : 1 ≤ b.entries.length := List.length_pos_iff.mpr hne
      omega
    · simpa using hlog
    · rw [hbs, hdrop]; simpa using hrest.symm
    · have := hack (List.cons_ne_nil _ _)
      rw [this]; simp; omega

/-- **Entry intact (pipelined run).**  When the destination has confirmed the entry before `nextIndex`, the
follower ends up with exactly the leader's log after ONE run: every entry, whatever its size, arrives once and
unchanged. -/
theorem entry_intact {first : Nat} {log : List Entry} {p B : Nat} (wf : WF first log p B)
    (cfg : Conf) (src term commit : Nat) (snap : List (Option Bool)) (m : Nat) (hm : first + p - 1 ≤ m)
    (s : Node) (hs : s.log = log.take p) :
    ∃ r s' o, sendOne ⟨B, term, commit, none, some m⟩ log (first + p) snap none = .ok r ∧
      followerRun cfg src s r.msgs = .ok (s', o) ∧ s'.log = log := by
  obtain ⟨r, s', o, p', hr, hrun, _, _, _, _, hlog, _, _, hfull⟩ := entry_intact_one_run wf cfg src term commit snap m s hs
  refine ⟨r, s', o, hr, hrun, ?_⟩
  rw [hlog, hfull hm, List.take_length]

/-- … once the destination is confirmed, any number `k ≥ 1` of further rounds delivers everything (the first of
them) and then only heart-beats. -/
theorem rounds_confirmed {first : Nat} {log : List Entry} {B : Nat} (cfg : Conf) (src term commit : Nat) :
    ∀ (k p m : Nat) (s : Node), WF first log p B → first + p - 1 ≤ m → s.log = log.take p →
      ∃ s' m' bs, deliverRounds cfg src ⟨B, term, commit, none, none⟩ log (k + 1) (first + p) m s =
          .ok (s', first + log.length, m', bs) ∧
        s'.log = log ∧ bs.flatMap Batch.entries = log.drop p ∧ first + log.length - 1 ≤ m' := by
  intro k
  induction k with
  | zero =>
    intro p m s wf hm hs
    obtain ⟨r, s', o, p', hr, hrun, _, _, _, hnext, hlog, hents, hack, hfull⟩ :=
      entry_intact_one_run wf cfg src term commit [] m s hs
    have hp' := hfull hm
    subst hp'
    have hon : ∃ m1, onAck r.next m (some (first + log.length)) = (first + log.length, m1) ∧ first + log.length - 1 ≤ m1 := by
      unfold onAck
      simp only [hnext]
      split
      · exact ⟨_, rfl, Nat.le_refl _⟩
      · exact ⟨m, rfl, by omega⟩
    obtain ⟨m1, hon1, hm1⟩ := hon
    rw [deliverRounds]
    simp only [hr, hrun, hack, hon1, deliverRounds]
    exact ⟨s', m1, r.batches ++ [], rfl, by rw [hlog, List.take_length], by simpa using hents, hm1⟩
  | succ k ih =>
    intro p m s wf hm hs
    obtain ⟨r, s', o, p', hr, hrun, _, _, _, hnext, hlog, hents, hack, hfull⟩ :=
      entry_intact_one_run wf cfg src term commit [] m s hs
    have hp' := hfull hm
    subst hp'
    have hlen : 1 ≤ log.length := List.length_pos_iff.mpr wf.ne
    have wf' : WF first log log.length B := ⟨wf.ne, wf.idx, hlen, Nat.le_refl _, wf.batch, wf.ovh⟩
    have hon : ∃ m1, onAck r.next m (some (first + log.length)) = (first + log.length, m1) ∧ first + log.length - 1 ≤ m1 := by
      unfold onAck
      simp only [hnext]
      split
      · exact ⟨_, rfl, Nat.le_refl _⟩
      · exact ⟨m, rfl, by omega⟩
    obtain ⟨m1, hon1, hm1⟩ := hon
    obtain ⟨s2, m2, bs, hrec, hlog2, hents2, hm2⟩ := ih log.length m1 s' wf' hm1 hlog
    rw [deliverRounds]
    simp only [hr, hrun, hack, hon1, hrec]
    refine ⟨s2, m2, r.batches ++ bs, rfl, hlog2, ?_, hm2⟩
    rw [List.flatMap_append, hents2]
    exact hents

/-- **Repeated runs deliver the whole suffix, in order, each entry once (repair D62: probe, then pipeline).**
Whatever `matchIndex` the leader holds for the destination, `k ≥ 2` rounds of "one send run – the follower consumes
it – the leader processes the acknowledgement" leave the follower with exactly the leader's log, `nextIndex` at
`last + 1`, and the entries carried by all batches of all rounds, concatenated, are exactly `log[p..]`: in order,
each once, none twice.  (So every replica still receives, hence executes, each command exactly once with equal
arguments.) -/
theorem rounds_deliver_all {first : Nat} {log : List Entry} {p B : Nat} (wf : WF first log p B)
    (cfg : Conf) (src term commit : Nat) (k m : Nat) (s : Node) (hs : s.log = log.take p) :
    ∃ s' m' bs, deliverRounds cfg src ⟨B, term, commit, none, none⟩ log (k + 2) (first + p) m s =
        .ok (s', first + log.length, m', bs) ∧
      s'.log = log ∧ bs.flatMap Batch.entries = log.drop p := by
  obtain ⟨r, s1, o, p', hr, hrun, hpp, hp'n, _, hnext, hlog, hents, hack, _⟩ :=
    entry_intact_one_run wf cfg src term commit [] m s hs
  have wf' : WF first log p' B := ⟨wf.ne, wf.idx, by have := wf.p1; omega, hp'n, wf.batch, wf.ovh⟩
  have hon : ∃ m1, onAck r.next m (some (first + p')) = (first + p', m1) ∧ first + p' - 1 ≤ m1 := by
    unfold onAck
    simp only [hnext]
    split
    · exact ⟨_, rfl, Nat.le_refl _⟩
    · exact ⟨m, rfl, by omega⟩
  obtain ⟨m1, hon1, hm1⟩ := hon
  obtain ⟨s2, m2, bs, hrec, hlog2, hents2, _⟩ := rounds_confirmed cfg src term commit k p' m1 s1 wf' hm1 hlog
  rw [deliverRounds]
  simp only [hr, hrun, hack, hon1, hrec]
  refine ⟨s2, m2, r.batches ++ bs, rfl, hlog2, ?_⟩
  rw [List.flatMap_append, hents2]
  exact hents

/-- non-vacuity of the multi-round statement: a destination whose `matchIndex` is 0 (nothing confirmed) gets the
three entries after the initial one in two rounds — one probing batch, then the pipelined rest -/
example :
    let log : List Entry := [⟨⟨.noop, 0, 1, 54⟩, 1, 0⟩, ⟨⟨.regular, 1, 40, 54⟩, 2, 1⟩, ⟨⟨.regular, 2, 70, 54⟩, 3, 1⟩,
      ⟨⟨.regular, 3, 20, 54⟩, 4, 1⟩]
    ∃ s' m' bs, deliverRounds {} 0 ⟨100, 1, 1, none, none⟩ log 2 (1 + 1) 0 { log := log.take 1 } = .ok (s', 5, m', bs) ∧
      s'.log = log ∧ bs.map (fun b => b.entries.map (·.idx)) = [[2, 3], [4]] := ⟨_, _, _, rfl, rfl, rfl⟩

/-- **No exception (send / receive path).**  Under `WF` a full send run returns a value (no `IndexError`,
`KeyError`, …) for every `matchIndex` of the destination, and so does the follower consuming it; holds in batched
and unbatched mode alike (the unbatched mode only calls the same loop after each append). -/
theorem no_exception {first : Nat} {log : List Entry} {p B : Nat} (wf : WF first log p B)
    (cfg : Conf) (src term commit : Nat) (snap : List (Option Bool)) (m : Nat) (s : Node) (hs : s.log = log.take p) :
    (∃ r, sendOne ⟨B, term, commit, none, some m⟩ log (first + p) snap none = .ok r) ∧
    (∀ r, sendOne ⟨B, term, commit, none, some m⟩ log (first + p) snap none = .ok r →
      ∃ res, followerRun cfg src s r.msgs = .ok res) := by
  obtain ⟨r, s', o, _, hr, hrun, _⟩ := entry_intact_one_run wf cfg src term commit snap m s hs
  refine ⟨⟨r, hr⟩, ?_⟩
  intro r' hr'
  rw [hr] at hr'
  cases hr'
  exact ⟨_, hrun⟩

/-- **No exception with any wall-clock cut-off, any disconnect point, any `matchIndex`.**  In the regular region
the send run returns a value whatever iteration budget the clock leaves, whichever `transport.send` call drops the
node and whether the run probes or pipelines. -/
theorem no_exception_any_cutoff {first : Nat} {log : List Entry} {p B : Nat} (wf : WF first log p B)
    (term commit : Nat) (snap : List (Option Bool)) (budget dropAfter : Option Nat) (m : Nat) :
    ∃ r, sendOne ⟨B, term, commit, dropAfter, some m⟩ log (first + p) snap budget = .ok r := by
  unfold sendOne
  exact sendLoop_ok wf.ne wf.idx _ snap _ p true budget 0 false wf.p1 wf.p2 (Or.inr rfl)

end PSO.C11
