import PSO.Proofs.NodeSendIntact

/-! # C11 — arguments of any size arrive intact on every replica (node-local send / receive path)

Statements about the functions of `PSO/Model/NodeSend.lean` that `driver nodesend` executes and that
`harness/corr/nodesend_handlers.py` diffs against the real `__sendAppendEntries` / `append_entries`
handler.  `B` = `appendEntriesBatchSizeBytes` (≥ 1 by `SyncObjConf.validate`), command size and pickle
overhead δ = `cmd.ovh ≥ 1` are arbitrary.
-/
namespace PSO.C11
open PSO.NodeSend

/-- node-local well-formedness the send path relies on: a non-empty log with contiguous indices starting at
`first`, a destination whose `nextIndex = first + p` lies in the regular region `first < next ≤ last + 1`,
a positive batch size, positive pickle overheads -/
structure WF (first : Nat) (log : List Entry) (p B : Nat) : Prop where
  ne : log ≠ []
  idx : IdxOK first log
  p1 : 1 ≤ p
  p2 : p ≤ log.length
  batch : 1 ≤ B
  ovh : ∀ e ∈ log, 1 ≤ e.cmd.ovh

/-- **Chunks reassemble (repaired rule, D7).**  For every byte string longer than one batch — in particular the
pickled form of any entry whose command is at least a batch long, for every overhead δ ≥ 1 — the receiver fed
with all chunks in order (from any buffer content) completes exactly that string, exactly once, and ends with the
empty buffer. -/
theorem chunks_reassemble {α : Type} (B : Nat) (data : List α) (hB : 1 ≤ B) (hE : B < data.length)
    (buf : Option (List α)) : recvAll buf (chunksOf B data) = .ok (none, [data]) :=
  recvAll_chunksOf B data hB hE buf

/-- … and the labels: the k-th chunk is `start` iff it is the first, `finish` iff it is the last. -/
theorem chunk_labels (B E k : Nat) (hB : 1 ≤ B) (hE : B < E) (hk : k < (chunkSpans B E).length) :
    ∃ pos len, (chunkSpans B E)[k]? = some (labelAt E B (k * B), pos, len) ∧ pos = k * B ∧
      (labelAt E B (k * B) = .start ↔ k = 0) ∧
      (labelAt E B (k * B) = .finish ↔ k + 1 = (chunkSpans B E).length) := by
  rw [chunkSpans_length] at hk ⊢
  exact ⟨_, _, chunkSpans_getElem? hk, rfl, labelAt_start_iff hB, labelAt_finish_iff hB hE hk⟩

example : recvAll (none : Option (List Nat)) (chunksOf 3 [1, 2, 3, 4, 5, 6, 7]) = .ok (none, [[1, 2, 3, 4, 5, 6, 7]]) := by rfl

/-- the entry form: command at least a batch long, any δ ≥ 1 -/
theorem chunks_reassemble_entry (B : Nat) (e : Entry) (hB : 1 ≤ B) (hsz : B ≤ e.cmd.size) (hovh : 1 ≤ e.cmd.ovh)
    (buf : Option (List PByte)) :
    recvAll buf (chunksOf B (pickleEntry e)) = .ok (none, [pickleEntry e]) ∧
    unpickleEntry (pickleEntry e) = some e := by
  have hlen : (pickleEntry e).length = e.plen := by simp [pickleEntry]
  have : B < e.plen := by unfold Entry.plen; omega
  exact ⟨recvAll_chunksOf B _ hB (by omega) buf, unpickle_pickle e (by omega)⟩

/-- **The pinned rule mislabels (D7).**  Command of 1960 bytes, batch 1000, δ = 54 (pickled entry 2014 bytes):
comparing with the command length labels the SECOND of three chunks `finish`, the repaired rule labels it
`process`.  Same shape in small (command 19, batch 10, δ = 5, pickled 24 bytes): the receiver completes a
truncated string of 20 bytes at the second chunk, and the third chunk, `finish` again, hits the empty buffer
(`'' + bytes`: TypeError). -/
theorem chunk_rule_counterexample :
    chunkSpansWith 1960 1000 2014 = [(.start, 0, 1000), (.finish, 1000, 1000), (.finish, 2000, 14)] ∧
    chunkSpans 1000 2014 = [(.start, 0, 1000), (.process, 1000, 1000), (.finish, 2000, 14)] ∧
    recvAll (none : Option (List Nat))
      ((chunkSpansWith 19 10 24).map fun c => (c.1, slice (List.range 24) c.2.1 c.2.2)) = .error .typeError ∧
    recvAll (none : Option (List Nat))
      (((chunkSpansWith 19 10 24).take 2).map fun c => (c.1, slice (List.range 24) c.2.1 c.2.2)) = .ok (none, [List.range 20]) := by
  refine ⟨by decide, by decide, by rfl, by rfl⟩

/-- **Batches partition the log.**  One full send run (no wall-clock cut-off, no disconnect) from
`nextIndex = first + p` terminates by itself, the entries carried by its batches are exactly
`log[p..]` in order, each once; the wire messages are the renderings of the batches in order; every batch's
prevLogIdx / prevLogTerm are those of the log entry before its first entry; `nextIndex` ends at `last + 1`;
a batch is chunked only if its single command is at least a batch long. -/
theorem batches_partition_log {first : Nat} {log : List Entry} {p B : Nat} (wf : WF first log p B)
    (term commit : Nat) (snap : List (Option Bool)) :
    ∃ r, sendOne ⟨B, term, commit, none⟩ log (first + p) snap none = .ok r ∧ r.spin = false ∧
      r.next = first + log.length ∧
      r.batches.flatMap Batch.entries = log.drop p ∧
      r.msgs = r.batches.flatMap (render B term commit) ∧
      PrevOK log first p r.batches ∧ ChunkOK B r.batches := by
  unfold sendOne sendFuel
  obtain ⟨r, hr, h1, h2, h3, h4, _, h6, _, h8⟩ :=
    sendLoop_partition wf.ne wf.idx ⟨B, term, commit, none⟩ rfl snap
      (log.length + snap.length + 2 + 0 + 0) p true 0 wf.p1 wf.p2 (by simp; omega)
  exact ⟨r, hr, h1, h2, h3, h4, h6, h8⟩

example : WF 1 [⟨⟨.noop, 0, 1, 54⟩, 1, 0⟩, ⟨⟨.regular, 1, 40, 54⟩, 2, 1⟩, ⟨⟨.regular, 2, 250, 54⟩, 3, 1⟩] 1 100 :=
  ⟨by simp, by
    intro i e he
    match i, he with
    | 0, he => cases he; rfl
    | 1, he => cases he; rfl
    | 2, he => cases he; rfl
    | n + 3, he => simp at he, by omega, by simp, by omega, by
    intro e he; simp at he; rcases he with h | h | h <;> subst h <;> simp⟩

/-- **Entry intact.**  A follower that holds the leader's log up to `nextIndex - 1` and consumes the messages of
that run in order (regular batches and `start/process/finish` bursts) raises nothing and ends up with exactly the
leader's log: every entry, whatever its size, arrives once and unchanged. -/
theorem entry_intact {first : Nat} {log : List Entry} {p B : Nat} (wf : WF first log p B)
    (cfg : Conf) (src term commit : Nat) (snap : List (Option Bool)) (s : Node) (hs : s.log = log.take p) :
    ∃ r s' o, sendOne ⟨B, term, commit, none⟩ log (first + p) snap none = .ok r ∧
      followerRun cfg src s r.msgs = .ok (s', o) ∧ s'.log = log := by
  obtain ⟨r, hr, _, _, hents, hmsgs, hprev, hck⟩ := batches_partition_log wf term commit snap
  obtain ⟨s', o, hrun, hlog⟩ :=
    followerRunA_batches cfg src wf.ne wf.idx B term commit wf.batch wf.ovh r.batches p s [] wf.p1 wf.p2 hs hprev hck
      (by simp [hents])
  refine ⟨r, s', o, hr, ?_, ?_⟩
  · unfold followerRun; rw [hmsgs]; exact hrun
  · rw [hlog, hents]
    have : p + (log.drop p).length = log.length := by simp; have := wf.p2; omega
    rw [this, List.take_length]

/-- **No exception (send / receive path).**  Under `WF` the full send run returns a value (no `IndexError`,
`KeyError`, …) and so does the follower consuming it; holds in batched and unbatched mode alike (the
unbatched mode only calls the same loop after each append). -/
theorem no_exception {first : Nat} {log : List Entry} {p B : Nat} (wf : WF first log p B)
    (cfg : Conf) (src term commit : Nat) (snap : List (Option Bool)) (s : Node) (hs : s.log = log.take p) :
    (∃ r, sendOne ⟨B, term, commit, none⟩ log (first + p) snap none = .ok r) ∧
    (∀ r, sendOne ⟨B, term, commit, none⟩ log (first + p) snap none = .ok r →
      ∃ res, followerRun cfg src s r.msgs = .ok res) := by
  obtain ⟨r, s', o, hr, hrun, _⟩ := entry_intact wf cfg src term commit snap s hs
  refine ⟨⟨r, hr⟩, ?_⟩
  intro r' hr'
  rw [hr] at hr'
  cases hr'
  exact ⟨_, hrun⟩

/-- **No exception with any wall-clock cut-off and any disconnect point.**  In the regular region the send run
returns a value whatever iteration budget the clock leaves and whichever `transport.send` call drops the node. -/
theorem no_exception_any_cutoff {first : Nat} {log : List Entry} {p B : Nat} (wf : WF first log p B)
    (term commit : Nat) (snap : List (Option Bool)) (budget dropAfter : Option Nat) :
    ∃ r, sendOne ⟨B, term, commit, dropAfter⟩ log (first + p) snap budget = .ok r := by
  unfold sendOne
  exact sendLoop_ok wf.ne wf.idx _ snap _ p true budget 0 wf.p1 wf.p2

end PSO.C11
