import PSO.Proofs.RaftDemo
import PSO.Proofs.BridgeRestart

/-!
# C07 — votes and terms survive restarts (one leader per term across crashes)

`Action.restart n c a` is the kill + restart of a journaled node: term, vote and log survive (the vote
and the term are stored synchronously since repair D16, see known_findings.json), role / vote count /
leader bookkeeping are lost, the commit index falls back to a stored earlier value, the applied index
to the dump's position or 0.  All theorems quantify over every reachable state of `PSO.Raft.step`
INCLUDING any number of restarts of any nodes at any point (between granting a vote and the end of
that election, all nodes at once, …).
-/
namespace PSO.C07
open PSO.Raft

/-- A voter's vote in a term, once cast, is never replaced — also not after kills and restarts. -/
theorem vote_is_permanent {N : Nat} {s1 s2 : State} {as : List Action} (h1 : Reachable N s1)
    (hr : run N s1 as = some s2) {t v c : Nat} (hv : s1.g.voted t v = some c) : s2.g.voted t v = some c :=
  (run_ghost_mono (inv_reachable h1) hr).voted t v c hv

/-- A node never grants its vote to two different candidates in the same term: two `response_vote`
messages of one voter for one term, in flight at any two moments of an execution (restarts in
between allowed), name the same candidate. -/
theorem vote_once_across_restarts {N : Nat} {s1 s2 : State} {as : List Action} (h1 : Reachable N s1)
    (hr : run N s1 as = some s2) {t v c1 c2 : Nat}
    (hm1 : Msg.vote t v c1 ∈ s1.msgs) (hm2 : Msg.vote t v c2 ∈ s2.msgs) : c1 = c2 := by
  have i1 := inv_reachable h1
  have i2 := inv_run i1 hr
  have v1 := vote_is_permanent h1 hr (i1.e.vote_msg _ _ _ hm1).1
  have v2 := (i2.e.vote_msg _ _ _ hm2).1
  rw [v1] at v2; injection v2

/-- The current term of a node never decreases, restarts included … -/
theorem term_never_decreases {N : Nat} {s1 s2 : State} {as : List Action} (h1 : Reachable N s1)
    (hr : run N s1 as = some s2) (n : Nat) : (s1.nodes n).term ≤ (s2.nodes n).term :=
  (run_ghost_mono (inv_reachable h1) hr).term n

/-- … and a node does not follow a leader of an older term: an `append_entries` of a term below the
node's own leaves the node unchanged. -/
theorem older_term_append_ignored {N : Nat} {s s' : State} {n t ldr prev pt c : Nat} {es : List Entry}
    (hs : step N s (.recvAppend n (.append t ldr n prev pt es c)) = some s')
    (hlt : t < (s.nodes n).term) : s'.nodes = s.nodes ∧ s'.g = s.g := by
  simp only [step] at hs
  split at hs
  · first
    | (injection hs with hs; subst hs; exact ⟨rfl, rfl⟩)
    | (rw [if_pos hlt] at hs; injection hs with hs; subst hs; exact ⟨rfl, rfl⟩)
  · cases hs

/-- … nor votes for a candidate of an older term. -/
theorem older_term_vote_request_not_granted {N : Nat} {s s' : State} {n t cand li lt : Nat}
    (hs : step N s (.recvReqVote n (.reqVote t cand n li lt)) = some s')
    (hlt : t < (s.nodes n).term) : s'.g.voted = s.g.voted ∧ Msg.vote t n cand ∉ s'.msgs ∨ Msg.vote t n cand ∈ s.msgs := by
  by_cases hin : Msg.vote t n cand ∈ s.msgs
  · exact Or.inr hin
  · left
    simp only [step] at hs
    split at hs
    · have hb : bumpTerm (s.nodes n) t = s.nodes n := by unfold bumpTerm; rw [if_neg (by omega)]
      rw [hb] at hs
      rw [if_neg (by intro hc; omega)] at hs
      injection hs with hs; subst hs
      exact ⟨rfl, fun hmem => hin (List.mem_of_mem_erase hmem)⟩
    · cases hs

/-- One leader per term, across restarts: the C03 guarantee for executions with kills and restarts. -/
theorem one_leader_per_term_with_restarts {N : Nat} {s1 s2 : State} {as : List Action} (h1 : Reachable N s1)
    (hr : run N s1 as = some s2) {a b : Nat} (ha : (s1.nodes a).role = .leader)
    (hb : (s2.nodes b).role = .leader) (ht : (s1.nodes a).term = (s2.nodes b).term) : a = b :=
  leader_unique_ever h1 hr ha hb ht

/-- What a restart keeps. -/
theorem restart_keeps_term_vote_log {N : Nat} {s s' : State} {n c a : Nat}
    (hs : step N s (.restart n c a) = some s') :
    (s'.nodes n).term = (s.nodes n).term ∧ (s'.nodes n).votedFor = (s.nodes n).votedFor ∧
    (s'.nodes n).log = (s.nodes n).log ∧ (s'.nodes n).role = .follower := by
  simp only [step] at hs
  split at hs
  · injection hs with hs; subst hs; simp
  · cases hs

/-- Non-vacuity: the demo run continued by a restart of the voter (node 1) and of the leader (node 0)
is an execution, and the leader of term 1 recorded in the history is still node 0. -/
example : ∃ s, Reachable 3 s ∧ s.g.leaderOf 1 = some 0 ∧ (s.nodes 0).role = .follower ∧ (s.nodes 1).term = 1 := by
  have h : ((run 3 init (demoActs ++ [.restart 1 0 0, .restart 0 2 0])).map
      (fun s => (s.g.leaderOf 1, decide ((s.nodes 0).role = .follower), (s.nodes 1).term))) = some (some 0, true, 1) := by
    decide +kernel
  cases hr : run 3 init (demoActs ++ [.restart 1 0 0, .restart 0 2 0]) with
  | none => rw [hr] at h; cases h
  | some s =>
    rw [hr] at h; simp at h
    exact ⟨s, reachable_iff_run.mpr ⟨_, hr⟩, h.1, h.2.1, h.2.2⟩

/-- **What the implementation's kill + start keeps** (handler level, proved; `PSO/Proofs/BridgeRestart.lean`):
`restartNode` / `restartExtra` (= `SyncObj.__init__` on the journal file + first tick, tested on the real class by
op `restartnode`) return the journal's term and vote unchanged (repair D16), the journal afterwards is a suffix of the
journal before the kill that still starts with the dump's two entries (nothing at or after the dump is dropped, nothing
at all without a dump file), and the ghost-complete log is the same. -/
theorem restart_handler_keeps_term_vote_log (x : PSO.NodeSend.Extra) (s : PSO.NodeSend.Node) (sc : Nat)
    (dump : Option (PSO.NodeSend.Entry × PSO.NodeSend.Entry)) (ghost : List Entry)
    (hheld : ∀ p l, dump = some (p, l) → PSO.Bridge.DumpHeld s.log p l) :
    (PSO.NodeSend.restartNode s sc dump).term = s.term ∧ (PSO.NodeSend.restartExtra x).votedFor = x.votedFor ∧
    (∃ k, (PSO.NodeSend.restartNode s sc dump).log = s.log.drop k ∧ (dump = none → k = 0) ∧
      (∀ p l, dump = some (p, l) → ∃ rest, s.log.drop k = p :: l :: rest)) ∧
    PSO.Bridge.restartGhost ghost s dump ++ PSO.Bridge.absLogS (PSO.NodeSend.restartNode s sc dump).log =
      ghost ++ PSO.Bridge.absLogS s.log := by
  exact PSO.Bridge.restart_keeps_journal x s sc dump ghost hheld

/-- Non-vacuity: a candidate-turned-leader that voted for itself in term 1 comes back with term 1, vote 0, entries 2, 3. -/
example : (PSO.NodeSend.restartNode PSO.Bridge.exLeaderR 2 (some (PSO.Bridge.exLogS[1]!, PSO.Bridge.exLogS[2]!))).term = 1 ∧
    (PSO.NodeSend.restartExtra PSO.Bridge.exExtraR).votedFor = some 0 ∧
    PSO.Bridge.DumpHeld PSO.Bridge.exLeaderR.log PSO.Bridge.exLogS[1]! PSO.Bridge.exLogS[2]! := by
  refine ⟨by decide, by decide, ?_⟩
  unfold PSO.Bridge.DumpHeld
  decide

end PSO.C07
