import PSO.Proofs.JournalCreate
/-!
C08 — "File journal equals an in-memory list for any operations, and is kill-safe".

All statements are about the functions the `journal` driver executes (`PSO.Journal.create`,
`FJ.step`, `run`, `openDisk`, `crashDisk`, `rfWrite`), for the code with
`fixes/D08-journal-grow-until-fits.diff` and
`fixes/D15-journal-head-drop-by-atomic-replace.diff` applied.

Vocabulary (defined in `PSO.Model.Journal`): `OkFrom l ops` = the exact condition under which no
operation hits a `struct.error` (every appended index/term is a `u64`, the end offset stays a
`u32`); `WithinLimits ops` = the simple sufficient condition "40 + all bytes ever appended < 2^32";
`CrashSpec old op r` = what the property demands of the entries `r` found after a kill inside `op`;
`crashDisk d ps k t` = the first `k` primitive writes of `ps` happened and `t` bytes of the next
(record stores are byte-torn; the aligned 4-byte header store, resize, tmp create, moves/renames are atomic).

Defect D15 (`deleteEntriesTo` = `clear()` + re-`add` in place) is repaired in the code
(`fixes/D15-journal-head-drop-by-atomic-replace.diff`: kept entries are written to `<journal>.tmp`, which
replaces the journal by one atomic rename); the model follows the repaired code, and `crash_contiguous` is
the FULL statement for all operations. `old_headdrop_counterexample` documents the old sequence
(`FJ.delToOld`, not executed by `FJ.step`).
-/
namespace PSO.C08
open PSO PSO.Journal

/-- D8 repaired: `ResizableFile.write` never stores outside the mapping, for every file, offset and
size (no `IndexError`, hence no divergence of list and file). -/
theorem write_fits (f : Bytes) (off : Nat) (vs : Bytes) (o : Nat) (bs : Bytes)
    (h : Prim.store o bs ∈ (rfWrite f off vs).2) : o + bs.length ≤ (rfWrite f off vs).1.length :=
  rfWrite_fits f off vs _ h o bs rfl

/-- For ALL operation sequences (appends of any size from 0 up, tail drops, head drops, clears,
commit-index updates, timer ticks, reopens anywhere) within the format's limits, the file journal
holds exactly the entries of the in-memory list, and closing + reopening its file yields the same
entries, the same end offset and an unchanged file. -/
theorem refines_list (ver : Bytes) (hver : ver.length ≤ 8) (ops : List Op) (hok : OkFrom [] ops) :
    ∃ j, run (create ver) ops = .ok j ∧ j.entries = runList [] ops ∧
      ∃ j', openDisk ver j.disk = .ok (j', []) ∧ j'.entries = runList [] ops ∧ j'.disk = j.disk ∧
        j'.cur = j.cur := by
  obtain ⟨j, h1, h2⟩ := run_reach (create_reach ver hver) ops hok
  have hjv : j.ver = ver := run_ver (create_reach ver hver) ops j h1
  refine ⟨j, h1, h2.ents, _, openDisk_of_DInv ver h2.inv.1, h2.ents, rfl, ?_⟩
  rw [h2.inv.2]

example : OkFrom [] [.add ⟨[1, 2, 3], 1, 0⟩, .add ⟨[], 2, 0⟩, .setCommit 2, .timer, .delTo 1, .reopen,
    .add ⟨[7], 3, 1⟩, .delFrom 1, .clear] := by
  simp [OkFrom, ValidEntry, listStep, encLen, recLen, U32, U64]

/-- The same under the simple size hypothesis "total bytes < 2^32". -/
theorem refines_list_total_bytes (ver : Bytes) (hver : ver.length ≤ 8) (ops : List Op)
    (h : WithinLimits ops) :
    ∃ j, run (create ver) ops = .ok j ∧ j.entries = runList [] ops ∧
      ∃ j', openDisk ver j.disk = .ok (j', []) ∧ j'.entries = runList [] ops ∧ j'.disk = j.disk ∧
        j'.cur = j.cur :=
  refines_list ver hver ops (totalBytes_ok ops [] (by simpa [encLen] using h.1) h.2)

example : WithinLimits [.add ⟨[1, 2, 3], 1, 0⟩, .delTo 1, .add ⟨[], 18446744073709551615, 0⟩, .reopen] := by
  decide

/-- The error branch, exactly: a run fails (with `struct.error`) iff the limits are exceeded. -/
theorem run_error_iff (ver : Bytes) (hver : ver.length ≤ 8) (ops : List Op) :
    (∃ e, run (create ver) ops = .error e) ↔ ¬ OkFrom [] ops := by
  constructor
  · rintro ⟨e, he⟩ hok
    obtain ⟨j, h1, _⟩ := run_reach (create_reach ver hver) ops hok
    rw [h1] at he; cases he
  · intro hn
    cases hrun : run (create ver) ops with
    | error e => exact ⟨e, rfl⟩
    | ok j => exact absurd (run_ok_imp (create_reach ver hver) ops j hrun) hn

example : ¬ OkFrom [] [.add ⟨[], 18446744073709551616, 0⟩] := by
  simp [OkFrom, ValidEntry, U64]

/-- The primitive writes returned by an operation are exactly what it did to the disk: replaying
them on the old disk gives the new disk, and a "crash" after all of them is the completed operation. -/
theorem step_replays (ver : Bytes) (hver : ver.length ≤ 8) (ops : List Op) (op : Op)
    (hok : OkFrom [] (ops ++ [op])) :
    ∃ j j' ps, run (create ver) ops = .ok j ∧ j.step op = .ok (j', ps) ∧
      j'.disk = applyPrims j.disk ps ∧ ∀ k t, ps.length ≤ k → crashDisk j.disk ps k t = j'.disk := by
  rw [OkFrom_snoc] at hok
  obtain ⟨j, h1, h2⟩ := run_reach (create_reach ver hver) ops hok.1
  have hjv : j.ver = ver := run_ver (create_reach ver hver) ops j h1
  obtain ⟨j', ps, a1, a2, _, _⟩ := crash_open h2 op hok.2
  exact ⟨j, j', ps, h1, a1, a2, fun k t hk => by rw [crashDisk_all _ _ _ _ hk, a2]⟩

/-- Kill-safety of EVERY operation (full statement): after ANY operation sequence, for EVERY crash
point `(k, t)` of the next operation (`k` primitive writes done, `t` bytes of the next one, record
and tmp-file stores byte-torn), the journal reopens and holds what the property demands: `add` is all
or nothing, `clear` old or empty, the tail drop a prefix containing everything it keeps, the head drop
the complete old journal (killed before the rename) or exactly the kept suffix (after it),
commit-index update / timer / reopen the old entries. -/
theorem crash_contiguous (ver : Bytes) (hver : ver.length ≤ 8) (ops : List Op) (op : Op)
    (hok : OkFrom [] (ops ++ [op])) (k t : Nat) :
    ∃ j j' ps jc, run (create ver) ops = .ok j ∧ j.step op = .ok (j', ps) ∧
      openDisk ver (crashDisk j.disk ps k t) = .ok (jc, []) ∧ CrashSpec (runList [] ops) op jc.entries := by
  rw [OkFrom_snoc] at hok
  obtain ⟨j, h1, h2⟩ := run_reach (create_reach ver hver) ops hok.1
  have hjv : j.ver = ver := run_ver (create_reach ver hver) ops j h1
  obtain ⟨j', ps, a1, _, _, a4⟩ := crash_open h2 op hok.2
  obtain ⟨jc, c1, c2, _, _⟩ := a4 k t
  rw [hjv] at c1
  exact ⟨j, j', ps, jc, h1, a1, c1, c2⟩

example : OkFrom [] ([.add ⟨[1], 1, 0⟩, .add ⟨[2], 2, 0⟩] ++ [.delTo 1]) := by
  simp [OkFrom, ValidEntry, encLen, recLen, U32, U64]

/-- The head drop spelled out: killed anywhere, the reopened journal is the complete old one or
exactly the entries it keeps. -/
theorem crash_headdrop_old_or_new (ver : Bytes) (hver : ver.length ≤ 8) (ops : List Op) (n : Nat)
    (hok : OkFrom [] ops) (k t : Nat) :
    ∃ j j' ps jc, run (create ver) ops = .ok j ∧ j.step (.delTo n) = .ok (j', ps) ∧
      openDisk ver (crashDisk j.disk ps k t) = .ok (jc, []) ∧
      (jc.entries = runList [] ops ∨ jc.entries = (runList [] ops).drop n) :=
  crash_contiguous ver hver ops (.delTo n) ((OkFrom_snoc _ _ _).mpr ⟨hok, trivial⟩) k t

/-- `CrashSpec` in the words of the property: the entries found are a contiguous range
`old[a : a+b]` of the previous entries — or, for an append that completed, `old ++ [e]`. -/
theorem crash_spec_is_contiguous_range (old : List Entry) (op : Op) (r : List Entry)
    (h : CrashSpec old op r) :
    (∃ a b, r = (old.drop a).take b) ∨ (∃ e, op = .add e ∧ r = old ++ [e]) := by
  have hall : old = (old.drop 0).take old.length := by simp
  cases op with
  | add e =>
    rcases h with rfl | rfl
    · exact Or.inl ⟨0, _, hall⟩
    · exact Or.inr ⟨e, rfl, rfl⟩
  | clear =>
    rcases h with rfl | rfl
    · exact Or.inl ⟨0, _, hall⟩
    · exact Or.inl ⟨0, 0, by simp⟩
  | delFrom n =>
    obtain ⟨m, _, rfl⟩ := h
    exact Or.inl ⟨0, m, by simp⟩
  | delTo n =>
    rcases h with rfl | rfl
    · exact Or.inl ⟨0, _, hall⟩
    · exact Or.inl ⟨n, (old.drop n).length, (List.take_length).symm⟩
  | setCommit v => exact Or.inl ⟨0, _, h.trans hall⟩
  | timer => exact Or.inl ⟨0, _, h.trans hall⟩
  | reopen => exact Or.inl ⟨0, _, h.trans hall⟩
  | setTermVote => exact Or.inl ⟨0, _, h.trans hall⟩

/-- After a kill at ANY crash point of ANY operation (head drop included) the reopened journal is
again a correct file journal: every further operation sequence within the limits refines the list
started from what survived, and reopens to the same. Hence all statements of this file apply again
after a crash, for any number of kills. -/
theorem refines_list_after_crash (ver : Bytes) (hver : ver.length ≤ 8) (ops : List Op) (op : Op)
    (hok : OkFrom [] (ops ++ [op])) (k t : Nat) :
    ∃ j j' ps jc, run (create ver) ops = .ok j ∧ j.step op = .ok (j', ps) ∧
      openDisk ver (crashDisk j.disk ps k t) = .ok (jc, []) ∧
      ∀ ops', OkFrom jc.entries ops' →
        ∃ j2, run jc ops' = .ok j2 ∧ j2.entries = runList jc.entries ops' ∧
          ∃ j3, openDisk ver j2.disk = .ok (j3, []) ∧ j3.entries = runList jc.entries ops' := by
  rw [OkFrom_snoc] at hok
  obtain ⟨j, h1, h2⟩ := run_reach (create_reach ver hver) ops hok.1
  have hjv : j.ver = ver := run_ver (create_reach ver hver) ops j h1
  obtain ⟨j', ps, a1, _, _, a4⟩ := crash_open h2 op hok.2
  obtain ⟨jc, c1, _, c3, _⟩ := a4 k t
  rw [hjv] at c1
  refine ⟨j, j', ps, jc, h1, a1, c1, fun ops' hok' => ?_⟩
  obtain ⟨j2, b1, b2⟩ := run_reach c3 ops' hok'
  exact ⟨j2, b1, b2.ents, _, openDisk_of_DInv ver b2.inv.1, b2.ents⟩

/-- Stronger tearing model for the append: with the header word not yet updated, the record area may
hold ANY bytes (every interleaving of old, new or other bytes, not only a prefix of the record) and
the reopened journal still holds exactly the previous entries. Only the aligned 4-byte header store
is assumed atomic. -/
theorem crash_add_any_tear (ver : Bytes) (hver : ver.length ≤ 8) (ops : List Op) (e : Entry)
    (hok : OkFrom [] ops) (g : Bytes) (hg : g.length ≤ recLen e) :
    ∃ j jc, run (create ver) ops = .ok j ∧
      openDisk ver { j.disk with file := storeAt (rfWrite j.disk.file j.cur (encRecord e)).1 j.cur g }
        = .ok (jc, []) ∧ jc.entries = runList [] ops := by
  obtain ⟨j, h1, h2⟩ := run_reach (create_reach ver hver) ops hok
  have hjv : j.ver = ver := run_ver (create_reach ver hver) ops j h1
  obtain ⟨jc, c1, c2⟩ := add_any_garbage h2 e g hg
  rw [hjv] at c1
  exact ⟨j, jc, h1, c1, c2⟩

/-- A left-over `<journal>.tmp` (from a head drop killed before its rename) is ignored by a reopen:
the outcome, entries, offset and commit index do not depend on it. -/
theorem stale_tmp_ignored (ver : Bytes) (d : Disk) (x : Option Bytes) :
    (match openDisk ver { d with jtmp := x }, openDisk ver d with
     | .ok (a, _), .ok (b, _) => a.entries = b.entries ∧ a.cur = b.cur ∧ a.commitIndex = b.commitIndex ∧
         a.disk.file = b.disk.file
     | .error e1, .error e2 => e1 = e2
     | _, _ => False) := by
  rw [openDisk_jtmp]
  cases openDisk ver d with
  | error e => rfl
  | ok r => exact ⟨rfl, rfl, rfl, rfl⟩

/-- D15 as it was BEFORE the repair, kept as documentation: the old head drop (`FJ.delToOld` =
`clear()` then re-`add` in place; not what `FJ.step` executes any more) killed after its first
primitive write leaves an empty journal although entry 2 was to be kept — `CrashSpec` fails. -/
theorem old_headdrop_counterexample :
    ∃ (ver : Bytes) (ops : List Op) (n t : Nat) (j j' : FJ) (ps : List Prim) (jc : FJ),
      ver.length ≤ 8 ∧ OkFrom [] ops ∧ run (create ver) ops = .ok j ∧
      j.delToOld n = .ok (j', ps) ∧ openDisk ver (crashDisk j.disk ps 1 t) = .ok (jc, []) ∧
      ¬ CrashSpec (runList [] ops) (.delTo n) jc.entries := by
  have hok : OkFrom [] [.add ⟨[1], 1, 0⟩, .add ⟨[2], 2, 0⟩] := by
    simp [OkFrom, ValidEntry, encLen, recLen, U32, U64]
  obtain ⟨j, h1, h2⟩ := run_reach (create_reach [48] (by decide)) _ hok
  have hjv : j.ver = [48] := run_ver (create_reach [48] (by decide)) _ j h1
  obtain ⟨j', ps, a1, a2⟩ := crash_delToOld_after_clear h2 1
  obtain ⟨jc, c1, c2⟩ := a2 0
  rw [hjv] at c1
  refine ⟨[48], _, 1, 0, j, j', ps, jc, by decide, hok, h1, a1, c1, ?_⟩
  rw [c2]
  rintro (h | h) <;> simp [runList, listStep] at h

/-- The commit index read after a kill at ANY crash point of ANY operation (head drop included) and
a reopen is the default 1 or a value that was passed to `setRaftCommitIndex` before. -/
theorem meta_was_set (ver : Bytes) (hver : ver.length ≤ 8) (ops : List Op) (op : Op)
    (hok : OkFrom [] (ops ++ [op])) (k t : Nat) :
    ∃ j j' ps jc, run (create ver) ops = .ok j ∧ j.step op = .ok (j', ps) ∧
      openDisk ver (crashDisk j.disk ps k t) = .ok (jc, []) ∧
      (jc.commitIndex = 1 ∨ jc.commitIndex ∈ setValues ops) := by
  rw [OkFrom_snoc] at hok
  obtain ⟨j, h1, h2⟩ := run_reach (create_reach ver hver) ops hok.1
  have hjv : j.ver = ver := run_ver (create_reach ver hver) ops j h1
  obtain ⟨j', ps, a1, _, _, a4⟩ := crash_open h2 op hok.2
  obtain ⟨jc, c1, _, _, c3⟩ := a4 k t
  rw [hjv] at c1
  exact ⟨j, j', ps, jc, h1, a1, c1, by simpa using c3⟩

/-- A commit index that was set and then flushed by `onOneSecondTimer` is the one a reopen reports
(and the entries are untouched). -/
theorem meta_persisted (ver : Bytes) (hver : ver.length ≤ 8) (ops : List Op) (v : Nat)
    (hok : OkFrom [] ops) :
    ∃ j j', run (create ver) (ops ++ [.setCommit v, .timer]) = .ok j ∧
      openDisk ver j.disk = .ok (j', []) ∧ j'.commitIndex = v ∧ j'.entries = runList [] ops := by
  obtain ⟨j0, h1, h2⟩ := run_reach (create_reach ver hver) ops hok
  obtain ⟨j1, p1, j2, p2, jc, a1, a2, a3, a4, a5⟩ := set_timer_persists h2 v
  rw [run_ver (create_reach ver hver) ops j0 h1] at a3
  refine ⟨j2, jc, ?_, a3, a4, a5⟩
  rw [run_append, h1]
  simp only [run, a1, a2]

/-- A commit index that was set and then stored by `setTermAndVote` (which writes the whole meta dict at once) is the one a reopen reports
(and the entries are untouched). -/
theorem meta_persisted_by_term_vote (ver : Bytes) (hver : ver.length ≤ 8) (ops : List Op) (v : Nat)
    (hok : OkFrom [] ops) :
    ∃ j j', run (create ver) (ops ++ [.setCommit v, .setTermVote]) = .ok j ∧
      openDisk ver j.disk = .ok (j', []) ∧ j'.commitIndex = v ∧ j'.entries = runList [] ops := by
  obtain ⟨j0, h1, h2⟩ := run_reach (create_reach ver hver) ops hok
  obtain ⟨j1, p1, j2, p2, jc, a1, a2, a3, a4, a5⟩ := set_termvote_persists h2 v
  rw [run_ver (create_reach ver hver) ops j0 h1] at a3
  refine ⟨j2, jc, ?_, a3, a4, a5⟩
  rw [run_append, h1]
  simp only [run, a1, a2]

example : OkFrom [] ([.setCommit 5, .add ⟨[1], 1, 0⟩] ++ [.timer]) := by
  simp [OkFrom, ValidEntry, listStep, encLen, recLen, U32, U64]

/-! ### creation of the journal file (D74) -/

/-- Constructing a `FileJournal` on a missing file — which the model does not distinguish from a
zero-length one, `file = []` — IS `create ver`, the start state of all statements above; its
primitive writes are: file created empty, default header written, grown to `INITIAL_SIZE`. -/
theorem create_is_open (ver : Bytes) (hver : ver.length ≤ 8) :
    openDisk ver { file := [] } = .ok (create ver, createPrims ver ++ [.resize INITIAL_SIZE]) :=
  openDisk_empty ver hver { file := [] } rfl

/-- D74 repaired: a zero-length journal file (a kill between `open(path,'wb')` and the write of the
default content), whatever else is on the disk, opens as a fresh EMPTY journal instead of raising. -/
theorem empty_file_opens_as_fresh_journal (ver : Bytes) (hver : ver.length ≤ 8) (d : Disk)
    (h : d.file.length = 0) :
    ∃ j ps, openDisk ver d = .ok (j, ps) ∧ j.entries = [] ∧ j.cur = 40 ∧
      j.disk.file = (create ver).disk.file ∧ j.commitIndex = d.metaFile.getD 1 :=
  ⟨_, _, openDisk_empty ver hver d h, rfl, rfl, rfl, rfl⟩

/-- Kill at ANY crash point of the creation (`k` primitive writes done, `t` bytes of the next: before
the file exists, file empty, any prefix of the 40 header bytes, header complete but not yet grown,
complete): the next start opens an empty journal. -/
theorem creation_kill_reopens_empty (ver : Bytes) (hver : ver.length ≤ 8) (k t : Nat) :
    ∃ j ps, openDisk ver (crashDisk { file := [] } (createPrims ver ++ [.resize INITIAL_SIZE]) k t)
        = .ok (j, ps) ∧ j.entries = [] ∧ j.cur = 40 := by
  have hlen := defaultHeader_length ver hver
  have hpre : ∀ (d : Disk) (t : Nat), d.file = (defaultHeader ver).take t →
      ∃ j ps, openDisk ver d = .ok (j, ps) ∧ j.entries = [] ∧ j.cur = 40 := by
    intro d t hf
    obtain ⟨j, ps, h1, h2, h3, _⟩ := openDisk_header_prefix ver hver d t hf
    exact ⟨j, ps, h1, h2, h3⟩
  match k with
  | 0 => exact hpre _ 0 (by simp [createPrims, tornPrim])
  | 1 => exact hpre _ t (by simp [createPrims, tornPrim, applyPrim])
  | 2 => exact hpre _ 40 (by simp [createPrims, tornPrim, applyPrim, ← hlen])
  | k + 3 =>
    have hd := DInv_fresh ver hver
    refine ⟨_, _, openDisk_of_DInv (d := crashDisk { file := [] } (createPrims ver ++ [.resize INITIAL_SIZE]) (k + 3) t)
      ver (by simpa [createPrims, applyPrim] using hd), rfl, rfl⟩

end PSO.C08
