import PSO.Proofs.NodeTickApply

/-!
# C12 — a replicated method that raises does not stall or split the cluster

Statements about `PSO.NodeTick.applyLoop` / `applyEntries` (= `__applyLogEntries` with `__doApplyCommand`
on the tree repaired by fixes/D09-raising-command-advances.diff, D10, D21) and `tick`, the functions
`driver nodetick` executes against the real code.  The user object is the free state machine (`sm` = ids of
executed regular commands; a command flagged `raises` records its id and then raises, exactly like `boom` in
harness/sim.py) — every deterministic user class is an image of it.  "Raises" is a property of the command,
hence the same on every replica (the property's hypothesis).

`supported c e` is false only for a VERSION entry above the node's code version (property C17's business:
the batch stops there, D10); raising commands are always `supported`.
-/
namespace PSO.C12
open PSO.NodeTick
open PSO.Raft (Role)

def exConf : Config := { fallbackT := 2048, minT := 512, maxT := 1536, useBatch := true, selfVer := 0 }

/-- A follower with committed, unapplied entries 2..5: raising commands first, in the middle and last. -/
def exNode : NodeState :=
  { self := some 0, role := .follower, term := 3, votedFor := none, votes := 0, leader := some 1,
    electionDeadline := 99999, others := [1, 2], readonly := [], connected := [1, 2],
    log := [⟨.noop, 1, 0⟩, ⟨.regular 101 true, 2, 2⟩, ⟨.regular 102 false, 3, 3⟩, ⟨.regular 103 true, 4, 3⟩,
            ⟨.regular 104 true, 5, 3⟩],
    commit := 5, lastApplied := 1, matchIndex := [], nextIndex := [], lastResponse := [],
    waiting := [(2, [(2, 21), (3, 22)]), (4, [(3, 23)])], waitingReply := [], sm := [7], enabledVer := 0,
    leaderCommit := some 5, readyCalled := true, newAppendTime := 0, noopIdx := none }

/-- **progress** (`__applyLogEntries`). If the committed range lies in the log and holds no VERSION entry
above the node's code version, the loop moves `lastApplied` past every raising command and continues with the
rest of the batch: afterwards `lastApplied = commit` (when there was anything to apply). -/
theorem progress (c : Config) (s : NodeState) (now : Nat)
    (hver : ¬ c.selfVer < s.enabledVer) (hwf : LogWF s.log) (hne : s.log ≠ [])
    (hfirst : firstIdx s.log ≤ s.lastApplied + 1) (hlast : s.commit ≤ lastIdx s.log)
    (hsup : ∀ e ∈ getEntries s.log (s.lastApplied + 1) (s.commit - s.lastApplied), supported c e = true) :
    (applyEntries c s now).1.lastApplied = max s.lastApplied s.commit :=
  applyEntries_progress c s now hver hwf hne hfirst hlast hsup

/-- **progress** for a whole `_onTick`: after the tick `lastApplied` equals the (possibly just advanced)
commit index, under the same hypotheses on the state the apply step sees (`preApply` = state after the
election-timeout and leader branches, which leave `sm`, `waiting`, `lastApplied` alone: `preApply_keeps`). -/
theorem tick_progress (c : Config) (s : NodeState) (now rand : Nat)
    (hver : ¬ c.selfVer < s.enabledVer)
    (hwf : LogWF (preApply c s now rand).log) (hne : (preApply c s now rand).log ≠ [])
    (hfirst : firstIdx (preApply c s now rand).log ≤ s.lastApplied + 1)
    (hlast : (preApply c s now rand).commit ≤ lastIdx (preApply c s now rand).log)
    (hle : s.lastApplied ≤ (preApply c s now rand).commit)
    (hsup : ∀ e ∈ getEntries (preApply c s now rand).log (s.lastApplied + 1)
              ((preApply c s now rand).commit - s.lastApplied), supported c e = true) :
    (tick c s now rand).1.lastApplied = (tick c s now rand).1.commit := by
  obtain ⟨_, _, hev, hla⟩ := preApply_keeps c s now rand
  obtain ⟨_, h2, _, h4⟩ := tick_after_apply c s now rand
  rw [h2, h4, applyEntries_progress c _ now (by rw [hev]; exact hver) hwf hne (by rw [hla]; exact hfirst) hlast
    (by rw [hla]; exact hsup), hla]
  omega

example : (tick exConf exNode 1000 0).1.lastApplied = 5 ∧ (tick exConf exNode 1000 0).1.sm = [7, 101, 102, 103, 104] := by
  decide

example : ¬ exConf.selfVer < exNode.enabledVer ∧ (preApply exConf exNode 1000 0).log = exNode.log ∧
    (preApply exConf exNode 1000 0).commit = exNode.commit ∧ exNode.log ≠ [] ∧
    firstIdx exNode.log ≤ exNode.lastApplied + 1 ∧ exNode.commit ≤ lastIdx exNode.log ∧
    (∀ e ∈ getEntries exNode.log (exNode.lastApplied + 1) (exNode.commit - exNode.lastApplied), supported exConf e = true) := by
  decide

example : LogWF exNode.log := by
  intro j hj
  have : j < 5 := hj
  match j, this with
  | 0, _ => rfl
  | 1, _ => rfl
  | 2, _ => rfl
  | 3, _ => rfl
  | 4, _ => rfl

/-- **callback_once** (`__applyLogEntries`). The callbacks emitted are exactly `expectedCallbacks` of the
applied entries — for each applied entry, in log order, each of its subscribers `(term, cb)` once:
`(result, SUCCESS)` if `term` is the entry's term (result = value returned, the exception instance for a
raising command, or — D71 — the "wrong version" exception for a VERSION entry below the enabled version),
`(None, DISCARDED)` otherwise.  Afterwards the applied indices have no subscribers left
(nothing can call them a second time) and all other indices keep theirs. -/
theorem callback_once (c : Config) (s : NodeState) (now : Nat) (hwf : LogWF s.log)
    (hver : ¬ c.selfVer < s.enabledVer) (hlt : s.lastApplied < s.commit) :
    (applyEntries c s now).2.1.filter isCallback =
      expectedCallbacks s.waiting s.sm s.enabledVer
        (applicable c (getEntries s.log (s.lastApplied + 1) (s.commit - s.lastApplied))) ∧
    (∀ e ∈ applicable c (getEntries s.log (s.lastApplied + 1) (s.commit - s.lastApplied)),
        subsOf (applyEntries c s now).1.waiting e.idx = []) ∧
    (∀ j, (∀ e ∈ applicable c (getEntries s.log (s.lastApplied + 1) (s.commit - s.lastApplied)), e.idx ≠ j) →
        subsOf (applyEntries c s now).1.waiting j = subsOf s.waiting j) :=
  applyEntries_callbacks c s now hwf hver hlt

/-- **callback_once**, counted: the number of calls of callback `cb` registered for index `idx` made by one
`__applyLogEntries` is the number of times it is registered there if `idx` was applied (1 for a callback
registered once) and 0 otherwise. -/
theorem callback_count (c : Config) (s : NodeState) (now : Nat) (hwf : LogWF s.log)
    (hver : ¬ c.selfVer < s.enabledVer) (hlt : s.lastApplied < s.commit) (idx cb : Nat) :
    callCount idx cb (applyEntries c s now).2.1 =
      if idx ∈ (applicable c (getEntries s.log (s.lastApplied + 1) (s.commit - s.lastApplied))).map (·.idx)
      then ((subsOf s.waiting idx).filter (fun p => decide (p.2 = cb))).length else 0 := by
  rw [← callCount_filter, (applyEntries_callbacks c s now hwf hver hlt).1]
  apply callCount_expected
  have hnd := getEntries_nodup s.log hwf (s.lastApplied + 1) (s.commit - s.lastApplied)
  have hsub : List.Sublist ((applicable c (getEntries s.log (s.lastApplied + 1) (s.commit - s.lastApplied))).map (·.idx))
      ((getEntries s.log (s.lastApplied + 1) (s.commit - s.lastApplied)).map (·.idx)) :=
    List.Sublist.map _ (List.takeWhile_sublist _)
  exact hsub.nodup hnd

example : ((tick exConf exNode 1000 0).2.filter isCallback) =
    [.callback 2 21 (.raised 101) .success, .callback 2 22 .none .discarded, .callback 4 23 (.raised 103) .success] := by
  decide

/-- **replicas_equal.** The state machine after a batch is `before ++ regularIds (applied entries)`: a
function of the entries alone — raising ones included.  Two replicas (any roles, any waiting tables, any
clocks) that run the same code version and start from equal state machines end with equal state machines and
advance `lastApplied` by the same amount. -/
theorem replicas_equal (c1 c2 : Config) (s1 s2 : NodeState) (now1 now2 : Nat) (es : List Entry)
    (hv : c1.selfVer = c2.selfVer) (hsm : s1.sm = s2.sm) :
    (applyLoop c1 now1 es s1).1.sm = (applyLoop c2 now2 es s2).1.sm ∧
    (applyLoop c1 now1 es s1).1.sm = s1.sm ++ regularIds (applicable c1 es) ∧
    (applyLoop c1 now1 es s1).1.lastApplied - s1.lastApplied = (applyLoop c2 now2 es s2).1.lastApplied - s2.lastApplied := by
  obtain ⟨a1, a2⟩ := applyLoop_applied_sm c1 now1 es s1
  obtain ⟨b1, b2⟩ := applyLoop_applied_sm c2 now2 es s2
  have happ : applicable c1 es = applicable c2 es := by unfold applicable; rw [supported_congr hv]
  refine ⟨?_, a2, ?_⟩
  · rw [a2, b2, hsm, happ]
  · rw [a1, b1, happ]; omega

/-- `__applyLogEntries` form: equal log slices ⇒ equal state machines afterwards. -/
theorem replicas_equal_applyEntries (c : Config) (s1 s2 : NodeState) (now1 now2 : Nat)
    (hsm : s1.sm = s2.sm) (hla : s1.lastApplied = s2.lastApplied) (hc : s1.commit = s2.commit)
    (hev : s1.enabledVer = s2.enabledVer)
    (hlog : getEntries s1.log (s1.lastApplied + 1) (s1.commit - s1.lastApplied) =
            getEntries s2.log (s2.lastApplied + 1) (s2.commit - s2.lastApplied)) :
    (applyEntries c s1 now1).1.sm = (applyEntries c s2 now2).1.sm := by
  rw [applyEntries_sm, applyEntries_sm, hsm, hlog, hla, hc, hev]

example : (applyLoop exConf 5 (exNode.log.drop 1) exNode).1.sm =
    (applyLoop exConf 900 (exNode.log.drop 1) { exNode with role := .leader, waiting := [], term := 9 }).1.sm := by decide

/-- **after_restart.** A node that applied `es1` earlier (state `sA'` = anything whose state machine is what
that batch produced — arbitrary other events in between) and now applies `es2`, and a node restarted from the
same base state machine that replays `es1 ++ es2` from its journal in one go, end with the same state machine;
the replay advances `lastApplied` by the total. -/
theorem after_restart (c : Config) (es1 es2 : List Entry) (h1 : ∀ e ∈ es1, supported c e = true)
    (sA sA' sB : NodeState) (t1 t2 t3 : Nat) (hbase : sB.sm = sA.sm)
    (hlater : sA'.sm = (applyLoop c t1 es1 sA).1.sm) :
    (applyLoop c t3 (es1 ++ es2) sB).1.sm = (applyLoop c t2 es2 sA').1.sm ∧
    (applyLoop c t3 (es1 ++ es2) sB).1.lastApplied =
      sB.lastApplied + es1.length + ((applyLoop c t2 es2 sA').1.lastApplied - sA'.lastApplied) := by
  obtain ⟨a1, a2⟩ := applyLoop_applied_sm c t3 (es1 ++ es2) sB
  obtain ⟨b1, b2⟩ := applyLoop_applied_sm c t2 es2 sA'
  obtain ⟨_, c2⟩ := applyLoop_applied_sm c t1 es1 sA
  rw [applicable_append_of_all c es1 es2 h1] at a1 a2
  refine ⟨?_, ?_⟩
  · rw [a2, b2, hlater, c2, applicable_all h1, regularIds_append, hbase, List.append_assoc]
  · rw [a1, b1, List.length_append]; omega

/-- restart from the initial state (`lastApplied = 1`, empty object): replaying the whole journal tail in one
batch gives what two separate batches gave -/
example : (applyLoop exConf 7 (exNode.log.drop 1) { exNode with sm := [] }).1.sm =
    (applyLoop exConf 9 (exNode.log.drop 3)
      (applyLoop exConf 8 ((exNode.log.drop 1).take 2) { exNode with sm := [] }).1).1.sm := by decide

/-- **enabledVer_mono** (D71). The enabled code version never decreases: not along the apply loop, not along a
whole `_onTick`; a VERSION entry below the enabled version counts as applied, changes nothing and hands the
"wrong version" exception to its SUCCESS subscribers. -/
theorem enabledVer_mono (c : Config) (s : NodeState) (now rand : Nat) (es : List Entry) :
    s.enabledVer ≤ (applyLoop c now es s).1.enabledVer ∧ s.enabledVer ≤ (applyEntries c s now).1.enabledVer ∧
    s.enabledVer ≤ (tick c s now rand).1.enabledVer :=
  ⟨applyLoop_enabledVer_mono c now es s, applyEntries_enabledVer_mono c s now, PSO.NodeTick.enabledVer_mono c s now rand⟩

/-- a VERSION entry for version 0 while version 1 is enabled: applied (lastApplied moves), version stays 1, the
subscriber gets `lowerVersion 0` with SUCCESS -/
example :
    let s := { exNode with enabledVer := 1, log := [⟨.noop, 1, 0⟩, ⟨.version 0, 2, 3⟩], commit := 2, waiting := [(2, [(3, 77)])] }
    (applyEntries { exConf with selfVer := 1 } s 5).1.lastApplied = 2 ∧
    (applyEntries { exConf with selfVer := 1 } s 5).1.enabledVer = 1 ∧
    (applyEntries { exConf with selfVer := 1 } s 5).2.1 = [.callback 2 77 (.lowerVersion 0) .success] := by decide

end PSO.C12
