import PSO.Proofs.SerializerLink

/-! # C09 — snapshots: the byte / transfer / dump-file layer (`pysyncobj/serializer.py`, `atomic_replace.py`)

Statements are about the functions of `PSO.Model.Serializer`, which `driver serializer` executes against the
real `Serializer` class (harness components `corr.serializer_chunks`, `corr.storage_dump`).
Opaque, with the law stated where it is used: `gzip(pickle(·))` (an image is a byte string handed in as the
pieces in which it is written — every split is covered), `os.rename` (one atomic primitive operation),
`os.fork` (the child works on the image computed from the data as of the call).

The model is of the tree with the D18 repair (`fixes/D18-cancel-snapshot-transfer-on-reconnect.diff`): whenever the
connection to a follower is replaced the leader forgets its transmission for that follower
(`Ev.reconnect true`).  The pinned behaviour is `Ev.reconnect false`; `interrupted_safe_pinned_counterexample`
shows what it allows.  It is also of the tree with D66 and D70: a completely received snapshot is kept apart
(`<dump>.1.tmp` / `__incomingSnapshot`) and becomes the stored one only by `finishIncoming(True)`. -/
namespace PSO.C09
open PSO PSO.Serializer

-- ------------------------------------------------------------------------------------------------
-- whole transfers
-- ------------------------------------------------------------------------------------------------

/-- **Chunked transfer = identity, for every chunk size ≥ 1 and every size of the snapshot (0 included).**
A leader whose store holds `D` and that has no transmission open for node `n` sends, in one burst with enough
budget, a list of chunks; a receiver in ANY state (any mode, a half-received older transfer, its own dump being
written) that is fed these chunks answers `False` to all but the last and `True` to the last — the empty chunk
with `isLast` the code always sends; the received snapshot (`deserialize(incoming=True)`) is then exactly `D`, the
STORED snapshot is untouched (D70); `finishIncoming(True)` makes `D` the stored one, `finishIncoming(False)` leaves
the stored one as it was; the leader's transmission is closed. -/
theorem chunks_roundtrip (s r : Ser) (n : Nat) (D : Bytes) (b : Nat)
    (hidle : s.pid = .idle) (hc : 1 ≤ s.batch) (hnew : tlookup n s.trans = none) (hdump : s.fs.dump = some D)
    (hb : D.length + 1 ≤ b) :
    (r.feed (s.burst n b).2).1.incoming = some D ∧ (r.feed (s.burst n b).2).1.stored = r.stored ∧
    (r.feed (s.burst n b).2).1.incOpen = false ∧
    (∃ k, (r.feed (s.burst n b).2).2 = List.replicate k false ++ [true] ∧ (s.burst n b).2.length = k + 1) ∧
    (∀ x ∈ (s.burst n b).2, x ≠ none) ∧ tlookup n (s.burst n b).1.trans = none ∧
    ((r.feed (s.burst n b).2).1.finishIncoming true).1.stored = some D ∧
    ((r.feed (s.burst n b).2).1.finishIncoming false).1.stored = r.stored := by
  have hcur : s.cur n = some ⟨D, 0⟩ := by simp [Ser.cur, hnew, hdump]
  have := burst_feed b s r n D 0 hidle hc hcur (Or.inl rfl) (by omega)
  obtain ⟨h1, h2, h3, h4, _, h6, h7, _, _, h10⟩ := this
  refine ⟨h1, h4, h2, h6, h10, h7, (finish_accept_dump _ D h3 h1).1, ?_⟩
  show ((r.feed (s.burst n b).2).1.finishIncoming false).1.fs.dump = r.fs.dump
  rw [finish_reject_dump]; exact h4

/-- non-vacuity: 5 bytes in chunks of 2 = three data chunks and the empty last one; a receiver in the middle of
another transfer receives exactly the 5 bytes, keeps its stored `[9]`, and stores the 5 bytes once it installs -/
example :
    let s : Ser := { mode := .memory, batch := 2, fs := { dump := some [1, 2, 3, 4, 5] } }
    let r : Ser := { mode := .file, batch := 7, incOpen := true, fs := { dump := some [9], tmp1 := some [8, 8] } }
    (s.burst 3 6).2 = [some ⟨[1, 2], true, false⟩, some ⟨[3, 4], false, false⟩, some ⟨[5], false, false⟩, some ⟨[], false, true⟩]
    ∧ (r.feed (s.burst 3 6).2).2 = [false, false, false, true] ∧ (r.feed (s.burst 3 6).2).1.incoming = some [1, 2, 3, 4, 5]
    ∧ (r.feed (s.burst 3 6).2).1.stored = some [9]
    ∧ ((r.feed (s.burst 3 6).2).1.finishIncoming true).1.stored = some [1, 2, 3, 4, 5] := by
  decide

/-- the empty snapshot is one chunk that is first and last -/
example : (({ mode := .memory, batch := 1, fs := { dump := some [] } } : Ser).burst 0 1).2 = [some ⟨[], true, true⟩] := by
  decide

-- ------------------------------------------------------------------------------------------------
-- interrupted transfers
-- ------------------------------------------------------------------------------------------------

/-- **A transfer that is interrupted in any way never completes with anything but a snapshot the sender held.**
For two fresh `Serializer` objects of any modes / fork flags / chunk sizes (sender's ≥ 1) and EVERY finite sequence
of: send one chunk, send a burst with any budget (the wall-clock cut-off), send to other followers, deliver the
head of the connection, replace the connection (everything in flight is lost; repaired code: the leader forgets
its transmission), `cancelTransmisstion`, a new snapshot on the sender (`serialize` in any mode incl. fork child
steps and failures, `checkSerializing` with or without a user checker), a snapshot the sender installs from a
third node, the follower's own compaction in any mode, a follower restart —
every byte string with which the follower completed a transfer (`setTransmissionData` returned `True`; it is what
`deserialize(incoming=True)` then reads and what `finishIncoming(True)` makes the stored snapshot) is one the
sender's store held at some time.  Deliveries carry the install decision of `__loadDumpFile` (accept / reject /
raised before deciding), any of them. -/
theorem interrupted_safe (sm rm : Mode) (sf rf : Bool) (sb rb : Nat) (hsb : 1 ≤ sb) (evs : List Ev)
    (hrep : ∀ e ∈ evs, e.repaired = true) :
    ∀ d ∈ ((Link.init sm rm sf rf sb rb).run evs).completed, d ∈ ((Link.init sm rm sf rf sb rb).run evs).held :=
  (run_inv evs _ hrep (Inv_init sm rm sf rf sb rb hsb)).compl

/-- `held` means what it says: each of its elements was the content of the sender's store after some prefix of
the events (so `interrupted_safe` cannot be satisfied by an over-generous ghost). -/
theorem held_are_sender_snapshots (sm rm : Mode) (sf rf : Bool) (sb rb : Nat) (evs : List Ev) (d : Bytes)
    (h : d ∈ ((Link.init sm rm sf rf sb rb).run evs).held) :
    ∃ k, k ≤ evs.length ∧ ((Link.init sm rm sf rf sb rb).run (evs.take k)).snd.stored = some d := by
  rcases held_sound evs _ d h with h0 | h1
  · simp [Link.init] at h0
  · exact h1

/-- non-vacuity of `interrupted_safe`: a repaired-alphabet run with a cut burst, a lost suffix, a reconnect and a
second burst completes once, with the sender's bytes -/
example :
    let evs : List Ev := [.sndInstall [1, 2, 3, 4, 5], .burst 2, .deliver (some true), .reconnect true, .burst 100,
                          .deliver (some true), .deliver (some true), .deliver (some true), .deliver (some true), .deliver (some true), .deliver (some true), .deliver (some true)]
    (∀ e ∈ evs, e.repaired = true) ∧
    ((Link.init .file .memory false false 1 1).run evs).completed = [[1, 2, 3, 4, 5]] ∧
    ((Link.init .file .memory false false 1 1).run evs).rcv.stored = some [1, 2, 3, 4, 5] := by
  decide

/-- **D18 (the pinned code, where a replaced connection does not cancel the transmission) — counterexample.**
Burst cut after 2 chunks, one chunk arrives, the connection is replaced, the leader continues at offset 2: the
follower completes with `[1, 3, 4, 5]`, which the sender never held.  Hence `hrep` in `interrupted_safe` is needed,
and the repair is what makes it true of the code. -/
theorem interrupted_safe_pinned_counterexample :
    ¬ (∀ (evs : List Ev), ∀ d ∈ ((Link.init .memory .file false false 1 1).run evs).completed,
          d ∈ ((Link.init .memory .file false false 1 1).run evs).held) := by
  intro h
  have := h [.sndInstall [1, 2, 3, 4, 5], .burst 2, .deliver (some true), .reconnect false, .burst 100,
             .deliver (some true), .deliver (some true), .deliver (some true), .deliver (some true), .deliver (some true)] [1, 3, 4, 5] (by decide)
  revert this
  decide

-- ------------------------------------------------------------------------------------------------
-- the dump file is never torn
-- ------------------------------------------------------------------------------------------------

/-- **Dump write: at every crash point the dump file is what it was (absent or the complete old snapshot) or the
complete new image.**  `k` = number of primitive operations (open / each write / close / rename) performed before
the kill; `pieces` = any split of the image into writes; `fail` = the encoder raises (then never the new image).
`rename` is one primitive operation: the atomicity assumption. -/
theorem dump_never_torn (fs : FS) (pieces : List Bytes) (fail : Bool) (k : Nat) :
    (fs.crashAt (serializeOps pieces fail) k).dump = fs.dump ∨
    (fail = false ∧ (fs.crashAt (serializeOps pieces fail) k).dump = some pieces.flatten) := by
  rcases serializeOps_crash fs pieces fail k with h | ⟨h1, _, h3⟩
  · exact Or.inl h
  · exact Or.inr ⟨h1, h3⟩

/-- the operations `dump_never_torn` talks about are the ones `serialize` performs: inline mode runs them all … -/
theorem serialize_inline_runs_ops (s : Ser) (id : Nat) (pieces : List Bytes) (fail : Bool)
    (hm : s.mode = .file) (hf : s.fork = false) (hp : s.pid = .idle) :
    (s.serialize id pieces fail).1.fs = s.fs.run (serializeOps pieces fail) ∧
    (s.serialize id pieces fail).1.pid = (if fail then .doneFail else .doneOk) := by
  refine ⟨serialize_inline_fs s id pieces fail hm hf hp, ?_⟩
  simp [Ser.serialize, hm, hf, hp]

/-- … fork mode performs the first of them (a left-over `<dump>.tmp` is removed, D84) in the calling process and hands
the rest to the child … -/
theorem serialize_fork_hands_ops (s : Ser) (id : Nat) (pieces : List Bytes) (fail : Bool)
    (hm : s.mode = .file) (hf : s.fork = true) (hp : s.pid = .idle) :
    (s.serialize id pieces fail).1.fs = s.fs.apply (.remove .tmp) ∧
    (s.serialize id pieces fail).1.child = some ⟨dumpWriteOps pieces fail, !fail⟩ ∧
    serializeOps pieces fail = .remove .tmp :: dumpWriteOps pieces fail ∧
    (s.serialize id pieces fail).1.pid = .child := by
  simp [Ser.serialize, hm, hf, hp, serializeOps]

/-- … and a complete successful write leaves exactly the image (and no tmp file). -/
theorem dump_complete_is_image (fs : FS) (pieces : List Bytes) :
    (fs.run (serializeOps pieces false)).dump = some pieces.flatten ∧ (fs.run (serializeOps pieces false)).tmp = none :=
  ⟨(FS.run_serializeOps_ok fs pieces).1, (FS.run_serializeOps_ok fs pieces).2.1⟩

/-- non-vacuity: an image written in three pieces over an old dump, a stale tmp file lying around; crash after 4
operations keeps the old dump, after all 7 the new one is there -/
example :
    let fs : FS := { dump := some [7, 7], tmp := some [6] }
    let ops := serializeOps [[1], [2, 3], [4]] false
    ops.length = 7 ∧ (fs.crashAt ops 1).tmp = none ∧ (fs.crashAt ops 4).dump = some [7, 7] ∧
    (fs.crashAt ops 4).tmp = some [1, 2, 3] ∧
    (fs.crashAt ops 6).dump = some [7, 7] ∧ (fs.crashAt ops 7).dump = some [1, 2, 3, 4] := by
  decide

/-- **Incoming transfer: a kill anywhere inside any sequence of `setTransmissionData` calls (accepted, refused,
`None`, several transfers, complete or not) leaves the dump file exactly as it was** — the transfer only ever writes
`<dump>.1.tmp` (D70: also at the last chunk). -/
theorem receive_crash_atomic (r : Ser) (msgs : List (Option Chunk)) (k : Nat) :
    (r.fs.crashAt (r.feedOps msgs) k).dump = r.fs.dump :=
  feedOps_crash msgs r k

/-- the operations of `receive_crash_atomic` are what the calls perform -/
theorem set_runs_acceptOps (r : Ser) (c : Option Chunk) :
    (r.setTransmissionData c).1.fs = r.fs.run (r.acceptOps c) := set_fs r c

/-- **Install: `finishIncoming` is at most one primitive operation** (`rename` of the received file over the dump, or
`remove` of it): at every crash point the dump is what it was or exactly the received snapshot. -/
theorem install_crash_atomic (s : Ser) (accept : Bool) (k : Nat) :
    (s.finishOps accept).length ≤ 1 ∧
    ((s.fs.crashAt (s.finishOps accept) k).dump = s.fs.dump ∨
     (accept = true ∧ s.incSnap = true ∧ (s.fs.crashAt (s.finishOps accept) k).dump = s.incoming ∧ s.incoming ≠ none)) := by
  refine ⟨?_, finishOps_crash s accept k⟩
  unfold Ser.finishOps
  by_cases h : s.incSnap = true <;> cases accept <;> simp [h]

/-- the operations of `install_crash_atomic` are what the call performs -/
theorem finish_runs_finishOps (s : Ser) (accept : Bool) :
    (s.finishIncoming accept).1.fs = s.fs.run (s.finishOps accept) := by
  unfold Ser.finishIncoming Ser.finishOps
  by_cases h : s.incSnap = true <;> simp [h, FS.run_nil]

example :
    let r : Ser := { mode := .file, batch := 1, fs := { dump := some [7] } }
    let msgs : List (Option Chunk) := [some ⟨[1, 2], true, false⟩, some ⟨[3], false, false⟩, some ⟨[], false, true⟩]
    let r' := (r.feed msgs).1
    (r.feedOps msgs).length = 5 ∧ (r.fs.crashAt (r.feedOps msgs) 5).dump = some [7] ∧ r'.incoming = some [1, 2, 3] ∧
    r'.finishOps true = [.rename .tmp1 .dump] ∧ (r'.fs.crashAt (r'.finishOps true) 0).dump = some [7] ∧
    (r'.fs.crashAt (r'.finishOps true) 1).dump = some [1, 2, 3] ∧ r'.finishOps false = [.remove .tmp1] := by
  decide

-- ------------------------------------------------------------------------------------------------
-- D70: what can change the stored snapshot
-- ------------------------------------------------------------------------------------------------

/-- **The follower's stored snapshot changes only through its own dump or an accepted install.**  Every event of a
link other than the follower's own `serialize`, an operation of its own fork child, a process restart and a delivery
with `finishIncoming(True)` leaves the follower's stored snapshot byte for byte as it was — in particular every
delivery that does not complete a transfer, that completes one which `__loadDumpFile` rejects
(`finishIncoming(False)`), or whose load raises. -/
theorem store_changes_only_by_own_dump_or_install (l : Link) (e : Ev) (h : e.mayStore = false) :
    (l.step e).rcv.stored = l.rcv.stored :=
  rcv_store_frame l e h

/-- **An accepted install stores exactly a snapshot the sender held.**  On every link reachable from two fresh
`Serializer` objects by events of the repaired alphabet, a delivery either leaves the stored snapshot as it was, or it
completed a transfer, the decision was to install, and the stored snapshot now equals the completed bytes, which the
sender's store held. -/
theorem install_stores_a_held_snapshot (sm rm : Mode) (sf rf : Bool) (sb rb : Nat) (hsb : 1 ≤ sb) (evs : List Ev)
    (hrep : ∀ e ∈ evs, e.repaired = true) (fin : Option Bool) :
    let l := (Link.init sm rm sf rf sb rb).run evs
    (l.step (.deliver fin)).rcv.stored = l.rcv.stored ∨
    (fin = some true ∧ ∃ d, d ∈ l.held ∧ (l.step (.deliver fin)).rcv.stored = some d ∧
      (l.step (.deliver fin)).completed = d :: l.completed) :=
  deliver_store _ fin (run_inv evs _ hrep (Inv_init sm rm sf rf sb rb hsb))

/-- **A torn, incomplete or rejected incoming transfer leaves the stored snapshot byte for byte as it was**: whatever
is fed to `setTransmissionData` (any chunks, any flags, any order, `None`), the stored snapshot is unchanged, and it
is still unchanged after `finishIncoming(False)`. -/
theorem rejected_or_incomplete_transfer_keeps_store (r : Ser) (msgs : List (Option Chunk)) :
    (r.feed msgs).1.stored = r.stored ∧ ((r.feed msgs).1.finishIncoming false).1.stored = r.stored := by
  refine ⟨feed_keeps_dump msgs r, ?_⟩
  show ((r.feed msgs).1.finishIncoming false).1.fs.dump = r.fs.dump
  rw [finish_reject_dump]; exact feed_keeps_dump msgs r

/-- non-vacuity: a complete transfer that is rejected, and a torn one (first chunk, then a last chunk of something
else) whose load would raise: the stored `[7]` stays in both modes; the accepted one replaces it -/
example :
    let rf : Ser := { mode := .file, batch := 1, fs := { dump := some [7] } }
    let rm : Ser := { mode := .memory, batch := 1, fs := { dump := some [7] } }
    let whole : List (Option Chunk) := [some ⟨[1, 2], true, false⟩, some ⟨[], false, true⟩]
    ((rf.feed whole).1.finishIncoming false).1.stored = some [7] ∧ ((rf.feed whole).1.finishIncoming false).1.fs.tmp1 = none ∧
    ((rm.feed whole).1.finishIncoming false).1.stored = some [7] ∧ ((rm.feed whole).1.finishIncoming false).1.fs.snap = none ∧
    ((rm.feed whole).1.finishIncoming true).1.stored = some [1, 2] ∧ ((rf.feed whole).1.finishIncoming true).1.stored = some [1, 2] ∧
    (rf.feed [some ⟨[1], true, false⟩, none, some ⟨[9], false, true⟩]).1.stored = some [7] := by
  decide

-- ------------------------------------------------------------------------------------------------
-- fork mode
-- ------------------------------------------------------------------------------------------------

/-- **Fork mode captures the value at the call (ASSUMPTION-LABELLED).**
ASSUMPTION (`os.fork`, copy-on-write): the child encodes the data as it was when `serialize` was called; in the
model this is the fact that `pieces` is an argument of the call and nothing later can change it.
Given that: a file-mode, forking sender that is idle calls `serialize id pieces false`; then ANY sequence of events
in which it neither starts another dump nor installs a received snapshot — it keeps sending (chunks of `None` while
the child runs), cancelling, checking, the follower does whatever it does, the child performs its primitive
operations at any moments — keeps the sender's files equal to "`j` child operations applied to the files at the
call" for some `j`; as soon as the child is through, the dump is exactly the image captured at the call. -/
theorem capture_is_value_at_call (l : Link) (id : Nat) (pieces : List Bytes) (evs : List Ev)
    (hm : l.snd.mode = .file) (hf : l.snd.fork = true) (hp : l.snd.pid = .idle)
    (hq : ∀ e ∈ evs, e.noNewDump = true) :
    let l' := (l.step (.serialize id pieces false)).run evs
    (∃ j, 1 ≤ j ∧ j ≤ (serializeOps pieces false).length ∧ l'.snd.fs = l.snd.fs.crashAt (serializeOps pieces false) j) ∧
    ((l'.snd.child = some ⟨[], true⟩ ∨ l'.snd.child = none) → l'.snd.stored = some pieces.flatten) := by
  intro l'
  have h0 : ForkInv (dumpWriteOps pieces false) (l.snd.fs.apply (.remove .tmp)) (l.step (.serialize id pieces false)) := by
    have hs := serialize_fork_hands_ops l.snd id pieces false hm hf hp
    refine ⟨0, by simp, ?_, Or.inl ?_⟩
    · show (Link.noteHeld { l with snd := (l.snd.serialize id pieces false).1 }).snd.fs = _
      rw [noteHeld_snd]; simpa [FS.crashAt, FS.run] using hs.1
    · show (Link.noteHeld { l with snd := (l.snd.serialize id pieces false).1 }).snd.child = _
      rw [noteHeld_snd]; simpa using hs.2.1
  obtain ⟨j, hj, hfs, hchild⟩ := fork_run _ _ evs _ hq h0
  refine ⟨⟨j + 1, by omega, by simp [serializeOps]; omega, ?_⟩, ?_⟩
  · rw [hfs]; simp [serializeOps, FS.crashAt, FS.run]
  intro hdone
  have hjl : j = (dumpWriteOps pieces false).length := by
    rcases hchild with hc | ⟨hjl, _⟩
    · rcases hdone with hd | hd
      · rw [hc] at hd
        have := congrArg (fun c => c.map (fun x => x.ops.length)) hd
        simp at this; omega
      · rw [hc] at hd; cases hd
    · exact hjl
  show l'.snd.fs.dump = _
  rw [hfs, hjl, FS.crashAt, List.take_of_length_le (Nat.le_refl _)]
  exact (FS.run_dumpWriteOps_ok _ _).1

/-- non-vacuity: the parent sends (`None`) and cancels while the child writes; after the child's 4 operations the
dump is the captured image -/
example :
    let l : Link := { snd := { mode := .file, fork := true, batch := 2, fs := { dump := some [9, 9, 9] } },
                      rcv := { mode := .memory, batch := 2 } }
    let evs : List Ev := [.send, .childStep, .cancel, .childStep, .send, .childStep, .deliver (some true), .childStep, .check none]
    (∀ e ∈ evs, e.noNewDump = true) ∧
    ((l.step (.serialize 4 [[1, 2, 3]] false)).run evs).snd.stored = some [1, 2, 3] ∧
    ((l.step (.serialize 4 [[1, 2, 3]] false)).run evs).chan = [none] := by
  decide

-- ------------------------------------------------------------------------------------------------
-- the fork child and the parent's verdict
-- ------------------------------------------------------------------------------------------------

/-- **A dump writer that dies before it is through (signal, OOM killer, non-zero exit) is reported FAILED, never
SUCCESS**: the caller (`__tryLogCompaction`) then trims nothing; files and transmissions are as they were. -/
theorem killed_dump_writer_reports_failed (s : Ser) (op : FsOp) (rest : List FsOp) (ok : Bool)
    (hm : s.mode = .file) (hf : s.fork = true) (hp : s.pid = .child) (hc : s.child = some ⟨op :: rest, ok⟩) :
    (s.childKill.checkSerializing none).2.1 = .failed ∧ (s.childKill.checkSerializing none).1.fs = s.fs ∧
    (s.childKill.checkSerializing none).1.trans = s.trans ∧ (s.childKill.checkSerializing none).1.pid = .idle := by
  simp [Ser.childKill, hc, Ser.checkSerializing, Ser.memBranch, hm, hf, hp]

example :
    let s : Ser := { mode := .file, fork := true, batch := 1, fs := { dump := some [7] } }
    let s1 := (s.serialize 3 [[1], [2]] false).1.childStep.childStep
    (s1.childKill.checkSerializing none).2.1 = .failed ∧ (s1.childKill.checkSerializing none).1.fs.dump = some [7] ∧
    (s1.childStep.childStep.childStep.checkSerializing none).2.1 = .success := by
  decide

/-- **D66 (repaired), restated for `finishIncoming`: a snapshot installed from the leader is not overwritten by the
node's own, older dump child.**  When `finishIncoming(True)` installs a received snapshot while a fork child of an own
dump is running, the child is stopped before the rename: the stored snapshot is the received one, there is no child, no
later child step changes any file, and `checkSerializing` reports NOT_SERIALIZING (nothing is trimmed for the abandoned
dump). -/
theorem installed_snapshot_survives_own_dump_child (r : Ser) (b : Bytes)
    (hm : r.mode = .file) (hf : r.fork = true) (hp : r.pid = .child)
    (hs : r.incSnap = true) (hb : r.incoming = some b) :
    (r.finishIncoming true).2 = true ∧ (r.finishIncoming true).1.stored = some b ∧
    (r.finishIncoming true).1.child = none ∧ (r.finishIncoming true).1.childStep = (r.finishIncoming true).1 ∧
    ((r.finishIncoming true).1.checkSerializing none).2.1 = .notSerializing := by
  have h1 := finish_accept_dump r b hs hb
  have h2 := forkWF_finish r ⟨hm, hf, Or.inr hp⟩ hs
  refine ⟨h1.2.1, h1.1, h2.1, ?_, ?_⟩
  · simp [Ser.childStep, h2.1]
  · simp [Ser.checkSerializing, Ser.memBranch, h2.2.2.1, h2.2.2.2, h2.2.1]

/-- non-vacuity, and the schedule of the witness: own dump child forked at `[7]`, the leader's snapshot `[1,2]` is
received and installed, the (stopped) child's remaining operations change nothing: the dump stays `[1,2]` -/
example :
    let r : Ser := { mode := .file, fork := true, batch := 1, fs := { dump := some [7] } }
    let r1 := (r.serialize 3 [[7, 7]] false).1.childStep
    let r2 := ((r1.feed [some ⟨[1, 2], true, false⟩, some ⟨[], false, true⟩]).1.finishIncoming true).1
    r1.pid = .child ∧ (r1.feed [some ⟨[1, 2], true, false⟩, some ⟨[], false, true⟩]).1.pid = .child ∧
    r2.fs.dump = some [1, 2] ∧ r2.childStep.childStep.childStep.fs.dump = some [1, 2] ∧ r2.pid = .idle := by
  decide

/-- **D66, for every moment at which the own dump was started.**  A fork-mode follower `r0` (idle, no child) receives
any messages `before` (none, the first chunks, older abandoned transfers …), THEN starts its own dump (`serialize`,
any image, failing or not), then — in any interleaving `during` of further messages and primitive operations of its
child — goes on until a received snapshot is at hand, and `finishIncoming(True)` installs it: no child is left, no
later child step changes anything, `checkSerializing` reports NOT_SERIALIZING (never SUCCESS for the stopped child), and
the stored snapshot is the received one.  `before = []` is "child started before the first chunk", `during` consisting
of the last chunk alone is "in the tick of the last chunk", everything in between is "between two chunks". -/
theorem installed_snapshot_survives_own_dump_child_started_any_time
    (r0 : Ser) (before : List (Option Chunk)) (id : Nat) (pieces : List Bytes) (fail : Bool)
    (during : List (Option (Option Chunk))) (b : Bytes)
    (hm : r0.mode = .file) (hf : r0.fork = true) (hp : r0.pid = .idle) (hc : r0.child = none)
    (hs : (((r0.feed before).1.serialize id pieces fail).1.mix during).incSnap = true)
    (hb : (((r0.feed before).1.serialize id pieces fail).1.mix during).incoming = some b) :
    let r := ((((r0.feed before).1.serialize id pieces fail).1.mix during).finishIncoming true).1
    r.stored = some b ∧ r.child = none ∧ r.childStep = r ∧ (r.checkSerializing none).2.1 = .notSerializing := by
  intro r
  have h0 : r0.forkWF := ⟨hm, hf, Or.inl ⟨hp, hc⟩⟩
  have h1 : (r0.feed before).1.forkWF := forkWF_feed before r0 h0
  have h2 := forkWF_mix during _ (forkWF_serialize _ id pieces fail h1)
  have h3 := forkWF_finish _ h2 hs
  have h4 := finish_accept_dump _ b hs hb
  have hchild : r.child = none := h3.1
  have hpid : r.pid = .idle := h3.2.1
  have hmode : r.mode = .file := h3.2.2.1
  have hfork : r.fork = true := h3.2.2.2
  refine ⟨h4.1, hchild, ?_, ?_⟩
  · simp [Ser.childStep, hchild]
  · simp [Ser.checkSerializing, Ser.memBranch, hmode, hfork, hpid]

/-- non-vacuity: child started between the first and the last chunk, one child step in between -/
example :
    let r0 : Ser := { mode := .file, fork := true, batch := 1, fs := { dump := some [7] } }
    let rd := ((r0.feed [some ⟨[1], true, false⟩]).1.serialize 3 [[7, 7]] false).1.mix
                [some (some ⟨[2], false, false⟩), none, some (some ⟨[], false, true⟩)]
    let r := (rd.finishIncoming true).1
    rd.pid = .child ∧ rd.incSnap = true ∧ rd.incoming = some [1, 2] ∧ rd.stored = some [7] ∧
    r.fs.dump = some [1, 2] ∧ r.child = none ∧ r.childStep.childStep.fs.dump = some [1, 2] := by
  decide

/-- **The node's own dump and an incoming transfer use separate files.**  A `serialize` (any mode, any image, failing
or not) at any moment of an incoming transfer leaves the half-received file and the open handle as they are, and no
`setTransmissionData` call ever touches the dump: an own log compaction between two chunks can neither truncate what
was received nor be appended to.  (Seeded C06-13 shares one temp file: the correspondence then differs in the operation
list and the crash monitor of `corr.storage_dump` finds the mixed dump.) -/
theorem own_dump_and_incoming_transfer_use_separate_files (r : Ser) (id : Nat) (pieces : List Bytes) (fail : Bool)
    (m : Option Chunk) :
    (r.serialize id pieces fail).1.fs.tmp1 = r.fs.tmp1 ∧ (r.serialize id pieces fail).1.incOpen = r.incOpen ∧
    (r.setTransmissionData m).1.stored = r.stored :=
  ⟨(serialize_frame r id pieces fail).2.2.2.1, (serialize_frame r id pieces fail).2.2.1, set_keeps_dump r m⟩

/-- non-vacuity: own inline dump `[5,5]` between the two data chunks of `[1,2]`: the dump is `[7]`, then `[5,5]`, and
after the install `[1,2]` — one complete snapshot at every point -/
example :
    let r : Ser := { mode := .file, batch := 1, fs := { dump := some [7] } }
    let r1 := (r.feed [some ⟨[1], true, false⟩]).1
    let r2 := ((r1.serialize 5 [[5], [5]] false).1.checkSerializing none).1
    let r3 := (r2.feed [some ⟨[2], false, false⟩, some ⟨[], false, true⟩]).1
    r1.stored = some [7] ∧ r2.stored = some [5, 5] ∧ r2.fs.tmp1 = some [1] ∧ r3.stored = some [5, 5] ∧
    r3.incoming = some [1, 2] ∧ (r3.finishIncoming true).1.stored = some [1, 2] := by
  decide

-- ------------------------------------------------------------------------------------------------
-- D84: the dump writer that outlives its node
-- ------------------------------------------------------------------------------------------------

/-- **After the repair an orphaned dump writer never changes the dump file of a later incarnation.**
The crash model has the event "parent killed, child continues": `Ser.restart` keeps, in file mode, what is left of the
fork child's operations as `orphan` — with the repair (`__exitIfOrphan` at the child's start and right before its
rename) only writes to and the close of the file it holds open.  For every number `n` of further operations of the orphan,
at any moment of the life of the later incarnation `s`: the dump file is unchanged; and once the later incarnation has
begun a dump of its own (`serialize` removes the left-over `<dump>.tmp`, so the orphan's file is no longer a named file)
NOTHING the orphan does reaches any file. -/
theorem orphan_never_changes_later_dump (s0 : Ser) (h0 : s0.orphanOk) (n : Nat) :
    let s := s0.restart
    (s.orphanRun n).stored = s.stored ∧
    (∀ id pieces fail, s.mode = .file →
      let s' := (s.serialize id pieces fail).1
      s'.orphLinked = false ∧ (s'.orphanRun n).fs = s'.fs) := by
  intro s
  have hok : s.orphanOk := restart_orphanOk s0 h0
  refine ⟨(orphanRun_frame n s hok).1, ?_⟩
  intro id pieces fail hm s'
  have hp : s.pid = .idle := rfl
  have hu := serialize_unlinks_orphan s id pieces fail hm hp
  have hok' : s'.orphanOk := by
    intro ops hops; rw [hu.2] at hops; exact hok ops hops
  exact ⟨hu.1, (orphanRun_frame n s' hok').2 hu.1⟩

/-- non-vacuity, the schedule of the witness: P1 forks a writer for `[5,5]`, it opens its file and is killed with two
writes and the rename still to do; P2 starts, the orphan writes one piece into the shared `<dump>.tmp`; P2 dumps `[8]`
(its own fork child; the stale tmp is removed first); the orphan's remaining operations change nothing: the dump stays `[8]` -/
example :
    let p1 : Ser := { mode := .file, fork := true, batch := 1, fs := { dump := some [3] } }
    let p1' := (p1.serialize 1 [[5], [5]] false).1.childStep
    let p2 := p1'.restart
    let p2a := p2.orphanStep
    let p2b := ((p2a.serialize 2 [[8]] false).1.childStep.childStep.childStep.childStep.checkSerializing none).1
    p2.orphan = some [.write .tmp [5], .write .tmp [5], .close .tmp] ∧ p2.orphLinked = true ∧
    p2a.fs.tmp = some [5] ∧ p2a.stored = some [3] ∧ p2b.stored = some [8] ∧ p2b.orphLinked = false ∧
    (p2b.orphanRun 5).fs = p2b.fs ∧ (p2b.orphanRun 5).stored = some [8] := by
  decide

end PSO.C09
