import PSO.Proofs.NodeTickCutoff

/-!
# C20 — a leader cut off from the majority steps down in bounded time; `hasQuorum`

All statements are about `PSO.NodeTick.tick` / `step` / `run` / `hasQuorum`, the functions `driver nodetick`
executes against the real `_onTick`, `__onMessageReceived`, `hasQuorum` (harness/corr/nodetick_handlers.py).
Time unit 2⁻¹⁰ s; `c.fallbackT` = `leaderFallbackTimeout`.  All cluster sizes, all timeouts.

`CutOff c s now` is literally the code's test `count <= (len(self.__otherNodes) + 1) / 2` (true division)
with `count = 1 + |{n ∈ otherNodes : lastResponseTime[n] > now − T}|`, i.e. `2·count ≤ |others| + 1`.
-/
namespace PSO.C20
open PSO.NodeTick
open PSO.Raft (Role)

/-- A three-voter leader at clock 10000 (T = 2048) whose two followers answered last at 7000. -/
def exConf : Config := { fallbackT := 2048, minT := 512, maxT := 1536, useBatch := true, selfVer := 0 }
def exLeader : NodeState :=
  { self := some 0, role := .leader, term := 2, votedFor := some 0, votes := 2, leader := some 0,
    electionDeadline := 0, others := [1, 2], readonly := [], connected := [1, 2],
    log := [⟨.noop, 1, 0⟩, ⟨.noop, 2, 2⟩, ⟨.regular 7 false, 3, 2⟩], commit := 2, lastApplied := 2,
    matchIndex := [(1, 2), (2, 2)], nextIndex := [(1, 4), (2, 4)], lastResponse := [(1, 7000), (2, 7000)],
    waiting := [(3, [(2, 55)])], waitingReply := [], sm := [], enabledVer := 0, leaderCommit := some 2,
    readyCalled := true, newAppendTime := 0, noopIdx := some 2 }

/-- **step_down.** For every leader state and every clock value: if the code's count of voters heard from
after `now − T` (itself included) is not a majority, then after `_onTick` the node is not leader and names no
leader. -/
theorem step_down (c : Config) (s : NodeState) (now rand : Nat) (hl : s.role = .leader)
    (hcut : 2 * (1 + (s.others.filter (fun n => decide (now < mgetD s.lastResponse n + c.fallbackT))).length)
              ≤ s.others.length + 1) :
    (tick c s now rand).1.role ≠ .leader ∧ (tick c s now rand).1.leader = none :=
  tick_step_down c s now rand hl hcut

example : exLeader.role = .leader ∧
    2 * (1 + (exLeader.others.filter (fun n => decide (10000 < mgetD exLeader.lastResponse n + exConf.fallbackT))).length)
      ≤ exLeader.others.length + 1 := by decide

/-- The boundary is exact: a leader that passes the check stays leader through the tick. -/
theorem stays_leader (c : Config) (s : NodeState) (now rand : Nat) (hl : s.role = .leader)
    (h : ¬ CutOff c s now) : (tick c s now rand).1.role = .leader :=
  tick_stays_leader c s now rand hl h

example : exLeader.role = .leader ∧ ¬ CutOff exConf exLeader 9047 := by unfold CutOff; decide

/-- Whoever reports itself leader right after a tick passed that tick's fallback check. -/
theorem leader_after_tick_heard_majority (c : Config) (s : NodeState) (now rand : Nat)
    (h : (tick c s now rand).1.role = .leader) : ¬ CutOff c (electionPhase c s now rand).1 now :=
  tick_leader_heard c s now rand h

example : (tick exConf exLeader 9047 0).1.role = .leader := by decide

/-- **Invariant over arbitrary runs** (ticks, deliveries of `request_vote` / `response_vote` /
`next_node_idx`, connection events, in any order, clock never running backwards): whenever the node reports
itself leader, more than half of the voters (itself included) have a recorded response later than
(clock of its last tick) − T.  Hypotheses: positive timeout; no MEMBERSHIP entry in the log (the voter set is
then constant — a membership change legitimately re-bases the majority). -/
theorem leader_heard_majority_invariant (c : Config) (hT : 0 < c.fallbackT) (evs : List Event)
    (s : NodeState) (tl tc : Nat) (hle : tl ≤ tc) (ht : Timed tc evs) (hm : NoMembership s.log)
    (h0 : Heard c s tl) : Heard c (run c s evs).1 (lastTick tl evs) :=
  run_heard c hT evs s tl tc hle ht hm h0

example : 0 < exConf.fallbackT ∧ NoMembership exLeader.log ∧ Heard exConf exLeader 9000 ∧
    Timed 9000 [.tick 9040 0, .deliver 1 (.nextNodeIdx (some 2) false 4 true) 9050 0, .tick 9100 0] := by
  refine ⟨by decide, ?_, ?_, ?_⟩
  · unfold NoMembership; decide
  · intro _; unfold CutOff; decide
  · simp [Timed, evTime]

/-- **Bounded-time step-down.** Let the voters in `S` be silent during `evs` (no acknowledgement from them
is delivered, no vote is counted; everything else — ticks at any times, `request_vote`s, acknowledgements
from the remaining voters, (dis)connects — is arbitrary), let the remaining voters plus the node itself be no
majority, and let `t0` bound the response times recorded for the silent voters.  Then a tick at any clock
value `now ≥ t0 + T` after `evs` leaves the node a non-leader: it stops reporting itself leader at its first
tick at or after `t0 + T`, i.e. within `T` + one tick period of losing the majority. -/
theorem steps_down_by (c : Config) (S : List Nat) (t0 : Nat) (s : NodeState) (evs : List Event) (now rand : Nat)
    (hm : NoMembership s.log)
    (hS : 2 * (1 + (s.others.filter (fun n => decide (n ∉ S))).length) ≤ s.others.length + 1)
    (hq : ∀ e ∈ evs, SilentEv S e) (hs : StaleOn S t0 s) (hnow : t0 + c.fallbackT ≤ now) :
    (run c s (evs ++ [.tick now rand])).1.role ≠ .leader :=
  PSO.NodeTick.steps_down_by c S t0 s evs now rand hm hS hq hs hnow

example : NoMembership exLeader.log ∧
    2 * (1 + (exLeader.others.filter (fun n => decide (n ∉ [1, 2]))).length) ≤ exLeader.others.length + 1 ∧
    (∀ e ∈ [Event.tick 8000 0, .disconnected 1, .tick 8500 3], SilentEv [1, 2] e) ∧
    StaleOn [1, 2] 7000 exLeader ∧ 7000 + exConf.fallbackT ≤ 9048 := by
  refine ⟨?_, by decide, ?_, ?_, by decide⟩
  · unfold NoMembership; decide
  · intro e he
    simp only [List.mem_cons, List.not_mem_nil, or_false] at he
    rcases he with rfl | rfl | rfl <;> trivial
  · intro _ n hn
    simp only [List.mem_cons, List.not_mem_nil, or_false] at hn
    rcases hn with rfl | rfl <;> decide

/-- **No new commit without acknowledgements.** In any run segment in which no acknowledgement and no vote
reaches the node (ticks, connection events and `request_vote`s are arbitrary) its commit index never exceeds
`commitBound s` = the index its next tick would commit from the acknowledgements it already holds. -/
theorem commit_bounded_without_acks (c : Config) (s : NodeState) (evs : List Event)
    (hm : NoMembership s.log) (hwf : LogWF s.log) (ho : s.others ≠ [])
    (hq : ∀ e ∈ evs, NoAckEv s.others e) : (run c s evs).1.commit ≤ commitBound s :=
  (run_bounded c (commitBound s) evs s hm hwf ho hq (bounded_init s)).1.1

/-- **no_success_when_cut_off.** In such a segment every SUCCESS callback the node emits is for a log index
≤ `commitBound s`: nothing beyond what was already acknowledged by a majority is ever reported successful. -/
theorem no_success_when_cut_off (c : Config) (s : NodeState) (evs : List Event)
    (hm : NoMembership s.log) (hwf : LogWF s.log) (ho : s.others ≠ [])
    (hq : ∀ e ∈ evs, NoAckEv s.others e) :
    ∀ idx cb res, Output.callback idx cb res .success ∈ (run c s evs).2 → idx ≤ commitBound s := by
  intro idx cb res hmem
  exact (run_bounded c (commitBound s) evs s hm hwf ho hq (bounded_init s)).2 _ hmem idx rfl

/-- … and when the segment starts right after a tick (the usual situation: the last acknowledgements were
consumed by that tick) the commit index does not change at all during the segment. -/
theorem commit_unchanged_after_tick_without_acks (c : Config) (s0 : NodeState) (now rand : Nat) (evs : List Event)
    (hm : NoMembership s0.log) (hwf : LogWF s0.log) (ho : s0.others ≠ [])
    (hq : ∀ e ∈ evs, NoAckEv s0.others e) :
    (run c (tick c s0 now rand).1 evs).1.commit = (tick c s0 now rand).1.commit := by
  have hm' : NoMembership (tick c s0 now rand).1.log := step_noMembership c s0 (.tick now rand) hm
  have hwf' : LogWF (tick c s0 now rand).1.log := step_logWF c s0 (.tick now rand) hwf
  have ho' : (tick c s0 now rand).1.others = s0.others := tick_others c s0 now rand hm
  have hb : commitBound (tick c s0 now rand).1 = (tick c s0 now rand).1.commit := by
    unfold commitBound
    split
    · next hl =>
      -- leader after the tick: it was leader before (others ≠ []), and the loop is idempotent
      have h1 : (electionPhase c s0 now rand).1.role = .leader := by
        rw [tick_role, leaderPhase_eq] at hl
        split at hl
        · assumption
        · next h1 => exact absurd hl h1
      obtain ⟨he, hl0⟩ := electionPhase_not_leader c s0 now rand ho h1
      have hc : (tick c s0 now rand).1.commit = nextCommit s0 := by
        rw [tick_commit, he, leaderPhase_commit, if_pos hl0]
      have hmi : (tick c s0 now rand).1.matchIndex = s0.matchIndex := by rw [tick_matchIndex c s0 now rand hm, he]
      rw [nextCommit_idem ho' (fun n _ => by rw [hmi]) (by rw [tick_log, he]) (by rw [tick_term, he]) hc, hc]
    · rfl
  apply Nat.le_antisymm
  · rw [← hb]
    exact (run_bounded c _ evs _ hm' hwf' (by rw [ho']; exact ho) (by rw [ho']; exact hq) (bounded_init _)).1.1
  · exact run_commit_monotone c evs _

example : NoMembership exLeader.log ∧ LogWF exLeader.log ∧ exLeader.others ≠ [] ∧
    (∀ e ∈ [Event.tick 8000 0, .disconnected 1, .deliver 2 (.requestVote 1 0 0) 8100 0, .tick 12000 3],
      NoAckEv exLeader.others e) := by
  refine ⟨?_, ?_, by decide, ?_⟩
  · unfold NoMembership; decide
  · intro j hj
    have : j < 3 := hj
    match j, this with
    | 0, _ => rfl
    | 1, _ => rfl
    | 2, _ => rfl
  · intro e he
    simp only [List.mem_cons, List.not_mem_nil, or_false] at he
    rcases he with rfl | rfl | rfl | rfl <;> trivial

/-- the example leader does hold an acknowledged-but-uncommitted entry: the bound is not the trivial one -/
example : commitBound exLeader = 2 ∧ commitBound { exLeader with matchIndex := [(1, 3), (2, 2)] } = 3 := by decide

/-- **hasQuorum_iff.** `hasQuorum` is true exactly when the node is connected to a majority of the voters it
knows — counting itself when (and only when) it is a voter; with duplicate-free `others` (a Python set)
`(others.filter (· ∈ connected)).length` is `|otherNodes ∩ connectedNodes|`.  All sizes. -/
theorem hasQuorum_iff (s : NodeState) :
    hasQuorum s = true ↔
      2 * ((s.others.filter (· ∈ s.connected)).length + (if s.self.isSome then 1 else 0)) >
        s.others.length + (if s.self.isSome then 1 else 0) :=
  PSO.NodeTick.hasQuorum_iff s

example : hasQuorum exLeader = true ∧ hasQuorum { exLeader with connected := [] } = false ∧
    hasQuorum { exLeader with self := none, connected := [1] } = false := by decide

end PSO.C20
