import PSO.Proofs.RaftDemo
import PSO.Proofs.BridgeTheorems

/-!
# C03 — one leader per term; a new leader already holds all committed commands

Theorems about `PSO.Raft.step` (lean/PSO/Model/Raft.lean), for every cluster size `N`, every reachable
state = every finite sequence of actions (timeouts of any node at any time, delivery of any in-flight
message in any order, loss of any message, client appends, arbitrary append/snapshot segments,
step-downs).  Nodes keep their memory (no restart action: that is C07).
-/
namespace PSO.C03
open PSO.Raft

/-- In every reachable state, two nodes that are leader in the same term are the same node. -/
theorem one_leader_per_term {N : Nat} {s : State} (h : Reachable N s) {a b : Nat}
    (ha : (s.nodes a).role = .leader) (hb : (s.nodes b).role = .leader)
    (ht : (s.nodes a).term = (s.nodes b).term) : a = b :=
  leaders_unique (inv_reachable h).e ha hb ht

/-- "Ever act": a node that is leader of term `t` at some moment and a node that is leader of term `t`
at any later moment of the same execution are the same node. -/
theorem one_leader_per_term_ever {N : Nat} {s1 s2 : State} {as : List Action} (h1 : Reachable N s1)
    (hr : run N s1 as = some s2) {a b : Nat} (ha : (s1.nodes a).role = .leader)
    (hb : (s2.nodes b).role = .leader) (ht : (s1.nodes a).term = (s2.nodes b).term) : a = b :=
  leader_unique_ever h1 hr ha hb ht

/-- The node recorded as winner of a term never changes (the ghost `leaderOf` is what
`onStateChanged → LEADER` observes). -/
theorem winner_of_term_is_stable {N : Nat} {s1 s2 : State} {as : List Action} (h1 : Reachable N s1)
    (hr : run N s1 as = some s2) {t l : Nat} (hl : s1.g.leaderOf t = some l) : s2.g.leaderOf t = some l :=
  (run_ghost_mono (inv_reachable h1) hr).ldr t l hl

/-- Majorities of any size intersect — odd and even cluster sizes alike (`count > N/2` is `N < 2·count`). -/
theorem majorities_intersect {N : Nat} {A B : List Nat} (hA : IsQuorum N A) (hB : IsQuorum N B) :
    ∃ x, x ∈ A ∧ x ∈ B := quorum_inter hA hB

/-- Leader completeness: a leader's log contains every prefix chosen (acknowledged by a majority in
the term that created its last entry) in an earlier term. -/
theorem leader_holds_chosen {N : Nat} {s : State} (h : Reachable N s) {n t i : Nat}
    (hr : (s.nodes n).role = .leader) (ht : t < (s.nodes n).term) (hc : Chosen N s t i) :
    (s.nodes n).log.take (i + 1) = (s.g.termLog t).take (i + 1) := by
  have hi := inv_reachable h
  have hll := hi.l.ldr_log n hr
  have hne : s.g.termLog (s.nodes n).term ≠ [] := by
    rw [← hll]; intro hnil; have := hi.l.log_sent n; rw [hnil] at this; simp at this
  rcases hi.s.Y t _ i ht hne hc.1 with hy | hy
  · rw [hll]; exact hy
  · exact absurd hy (fun hb => chosen_not_blocked hc hb)

/-- … hence the committed prefix of every node whose term is not above the leader's is a prefix of
the leader's log: a leader can never lack or replace a committed command. -/
theorem leader_holds_committed_prefixes {N : Nat} {s : State} (h : Reachable N s) {n m : Nat}
    (hr : (s.nodes n).role = .leader) (hm : (s.nodes m).term ≤ (s.nodes n).term) :
    (s.nodes m).log.take ((s.nodes m).commit + 1) <+: (s.nodes n).log :=
  leader_holds_committed h hr ((inv_reachable h).s.C1 m) hm

/-! ## The handler-level model refines the cluster model (statements: notes/bridge.md,
lean/PSO/Proofs/BridgeTheorems.lean; `type_of%` keeps the exact statement of the referenced theorem).
Chain: real handler ≈ (single-step correspondence `corr.nodetick_handlers`) `PSO.NodeTick` ⊑ (these
theorems) `PSO.Raft.step` ⊨ (above) election safety. -/

/-- `request_vote` handler ⊑ `recvReqVote`: same term bump, same grant condition, reply iff vote message. -/
theorem request_vote_handler_refines : type_of% @PSO.Bridge.onRequestVote_refines :=
  @PSO.Bridge.onRequestVote_refines

/-- `response_vote` handler ⊑ `recvVote` (counting, majority test, becoming leader appends the no-op). -/
theorem response_vote_handler_refines : type_of% @PSO.Bridge.onResponseVote_refines :=
  @PSO.Bridge.onResponseVote_refines

/-- Election-timeout branch of `_onTick` ⊑ `timeout`. -/
theorem tick_election_refines : type_of% @PSO.Bridge.tick_election_refines :=
  @PSO.Bridge.tick_election_refines

/-- Non-vacuity: a reachable 3-node state with a leader in term 1 that has committed two entries. -/
example : ∃ s, Reachable 3 s ∧ (s.nodes 0).role = .leader ∧ (s.nodes 0).term = 1 ∧ (s.nodes 0).commit = 2 := by
  obtain ⟨s, _, hr, hs⟩ := demo_reachable
  refine ⟨s, hr, ?_⟩
  simp [demoSummary] at hs
  obtain ⟨⟨h1, h2, h3, _⟩, _⟩ := hs
  exact ⟨h2, h1, h3⟩

end PSO.C03
