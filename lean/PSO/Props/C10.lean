import PSO.Proofs.NodeSendMembership
import PSO.Proofs.NodeSendExamples

/-!
# C10 — membership changes (node-local part; cluster-level safety with changing voter sets is NOT proved)

Theorems about `PSO.NodeSend` (lean/PSO/Model/NodeSend.lean), the handler-level mirror of
`_checkCommandsToApply`, `__changeCluster`, `__doChangeCluster`, the rollback/apply of membership entries
in the `append_entries` handler and `__updateClusterConfiguration`, as executed by `driver nodesend`
against the real handlers.  What is claimed: the leader's gate, "member set = fold of the membership
entries of the log" for each handler step, the arithmetic fact that makes one-at-a-time changes safe,
refusal of "remove self".  What is NOT claimed as a theorem: C01–C04 for clusters whose voter set changes
(the cluster invariant of lean/PSO/Proofs/RaftDefs.lean is for a fixed voter set); on the implementation
side that part is covered by the monitors of `corr.c10_membership` only.  The model is of the tree with
D5, D6 (membership entries take effect when appended only; journal fold at start-up) and D63 (a dump carries
the member set of its own position) repaired.
-/
namespace PSO.C10
open PSO.NodeSend

/-- Gate: a leader appends a membership entry only if the no-op of its own term is applied, no earlier
accepted change is still unapplied and the request changes the member set; otherwise the requester gets
REQUEST_DENIED and log and member set are unchanged. -/
theorem gate {cfg : Conf} {s s' : Node} {cmd : Cmd} {cb : Cb} {o : List Out} {br : Branch}
    (h : leaderDispatch cfg s cmd cb = .ok (s', o, br)) (hreq : isRequest cfg cmd = true) :
    (br ≠ .denied →
      ∃ noop last, s.noopIdx = some noop ∧ noop ≤ s.lastApplied ∧
        (∀ c, s.changeIdx = some c → c ≤ s.lastApplied) ∧ lastIdx? s.log = some last ∧
        s'.log = s.log ++ [⟨cmd, last + 1, s.term⟩] ∧ s'.changeIdx = some (last + 1) ∧
        s'.members = (memStep s.self s.members cmd.kind false).1 ∧
        (memStep s.self s.members cmd.kind false).2 = true) ∧
    (br = .denied → s'.log = s.log ∧ s'.members = s.members ∧ o = deniedOut cb) :=
  PSO.NodeSend.gate h hreq

/-- No two changes in flight: when the gate lets a request through, every membership entry already in
the leader's log is applied. -/
theorem gate_all_applied {cfg : Conf} {s s' : Node} {cmd : Cmd} {cb : Cb} {o : List Out} {br : Branch}
    (hinv : GateInv s) (h : leaderDispatch cfg s cmd cb = .ok (s', o, br)) (hreq : isRequest cfg cmd = true)
    (hbr : br ≠ .denied) : ∀ e ∈ s.log, isMembership e.cmd.kind = true → e.idx ≤ s.lastApplied :=
  PSO.NodeSend.gate_all_applied hinv h hreq hbr

/-- Adjacent configurations: `V' = V + one node`; any majority of `V` meets any majority of `V'`
(removal is the same statement read backwards) — so two disjoint majorities can never decide
concurrently while at most one change is uncommitted. -/
theorem adjacent_majorities_intersect {V Q Q' : List Nat} {x : Nat} (hV : V.Nodup) (hx : x ∉ V)
    (hQ : IsMajorityOf Q V) (hQ' : IsMajorityOf Q' (x :: V)) : ∃ y, y ∈ Q ∧ y ∈ Q' :=
  PSO.NodeSend.adjacent_majorities_intersect hV hx hQ hQ'

theorem majorities_intersect {V Q Q' : List Nat} (hQ : IsMajorityOf Q V) (hQ' : IsMajorityOf Q' V) :
    ∃ y, y ∈ Q ∧ y ∈ Q' :=
  PSO.NodeSend.majorities_intersect hQ hQ'

/-- "Remove self" is refused (API path: by the gate; admin path: before anything is queued). -/
theorem remove_self_denied {cfg : Conf} {s s' : Node} {cmd : Cmd} {cb : Cb} {o : List Out} {br : Branch} {n : Nat}
    (h : leaderDispatch cfg s cmd cb = .ok (s', o, br)) (hdyn : cfg.dynMember = true)
    (hk : cmd.kind = .rem n) (hself : s.self = some n) :
    br = .denied ∧ s'.log = s.log ∧ s'.members = s.members ∧ o = deniedOut cb :=
  PSO.NodeSend.remove_self_denied h hdyn hk hself

theorem remove_self_denied_admin (s : Node) (n : Nat) : adminRemoveDenied s n = true ↔ s.self = some n :=
  PSO.NodeSend.remove_self_denied_admin s n

/-- Member set = fold of the log, leader side: an accepted command of any kind (a membership change
takes effect when appended) and a refused one keep the invariant. -/
theorem members_eq_fold_leader {cfg : Conf} {base : List Nat} {s s' : Node} {cmd : Cmd} {cb : Cb} {o : List Out}
    {br : Branch} (hinv : MInv base s) (hdyn : cfg.dynMember = true)
    (h : leaderDispatch cfg s cmd cb = .ok (s', o, br)) : MInv base s' :=
  PSO.NodeSend.members_eq_fold_leader hinv hdyn h

/-- … follower side, truncation: rolling back the membership entries of a deleted suffix in reverse
order gives the fold of the kept prefix (a truncated change is reverted) … -/
theorem members_eq_fold_rollback {base : List Nat} {s s1 : Node} {o : List Out} {pre old : List Entry}
    (hinv : MInv base s) (hlog : s.log = pre ++ old) (h : applyChanges s true old.reverse = .ok (s1, o)) :
    Good s.self s1.members ∧ SetEq s1.members (foldConfig s.self base pre) ∧ s1.self = s.self :=
  PSO.NodeSend.members_eq_fold_rollback hinv hlog h

/-- … follower side, append: applying the appended entries is the fold step … -/
theorem members_eq_fold_append {m0 : List Nat} {s s3 : Node} {o : List Out} {new : List Entry}
    (hg0 : Good s.self m0) (hg : Good s.self s.members) (heq : SetEq s.members m0)
    (h : applyChanges s false new = .ok (s3, o)) :
    Good s.self s3.members ∧ SetEq s3.members (foldConfig s.self m0 new) :=
  PSO.NodeSend.members_eq_fold_append hg0 hg heq h

/-- … snapshot restore: the member set becomes the dump's cluster without the node itself. -/
theorem members_eq_fold_restore {s s' : Node} {o : List Out} (prevE lastE : Entry) (cluster : List Nat)
    (h : restoreSnapshot s prevE lastE cluster true = .ok (s', o)) :
    s'.log = [prevE, lastE] ∧ s'.members.Nodup ∧
    (∀ x, x ∈ s'.members ↔ (x ∈ cluster ∧ s.self ≠ some x)) ∧ s'.self = s.self :=
  PSO.NodeSend.members_eq_fold_restore prevE lastE cluster h

/-- Applying (committing) a membership entry changes nothing (repair D6): no member-set change, no transport call. -/
theorem apply_membership_entry_no_effect (s : Node) (e : Entry) : reapplyAtCommit s e = .ok (s, []) :=
  PSO.NodeSend.apply_membership_entry_no_effect s e

/-- Follower append with conflict rollback keeps the invariant, provided the entries the message makes the handler
append are effective where they are appended (`MsgEff`: true of every message cut from a leader's log). -/
theorem members_eq_fold_follower {cfg : Conf} {base : List Nat} {s s' : Node} {src : Nat} {m : AppendMsg} {o : List Out}
    (hdyn : cfg.dynMember = true) (hinv : MInv base s) (hmsg : MsgEff base s m)
    (h : followerAppend cfg s src m = (s', .ok o)) : MInv base s' :=
  PSO.NodeSend.followerAppend_minv hdyn hinv hmsg h

/-- **Member set = fold of the log, for every sequence of the modelled operations** (`MReach`: leader accept /
refuse, follower append with conflict rollback, apply / commit, snapshot capture at lastApplied, restore from a
snapshot whose cluster is the fold up to its position, restart with the journal fold at start-up): the node's member
list is duplicate-free, does not contain the node, equals as a set the fold of the membership commands of its log
over the base set of the log's first position, and every membership entry of the log was effective. -/
theorem members_eq_fold {cfg : Conf} (hdyn : cfg.dynMember = true) {base : List Nat} {s : Node}
    (h : MReach cfg base s) :
    s.members.Nodup ∧ (∀ n, s.self = some n → n ∉ s.members) ∧
    (∀ x, x ∈ s.members ↔ x ∈ foldConfig s.self base s.log) ∧ MInv base s :=
  have hm := PSO.NodeSend.members_eq_fold hdyn h
  ⟨hm.good.1, hm.good.2, hm.eq, hm⟩

/-- The dump's cluster is the fold at its own position (repair D63): whatever later (possibly uncommitted) entries
have done to `otherNodes`, the cluster written into a dump labelled `lastApplied = first + p - 1` is the fold of
`log[..p)` over the base, plus the node itself. -/
theorem snapshot_cluster_is_fold_at_position {base : List Nat} {s : Node} {first p : Nat} (hinv : MInv base s)
    (hne : s.log ≠ []) (hidx : IdxOK first s.log) (hla : s.lastApplied + 1 = first + p) :
    ∃ c, clusterAt s.self s.members s.log s.lastApplied = some c ∧
      ∀ x, x ∈ c ↔ x ∈ foldConfig s.self base (s.log.take p) ∨ s.self = some x :=
  PSO.NodeSend.snapshot_cluster_is_fold_at_position hinv hne hidx hla

/-- Last operation wins: membership in the fold is decided by the last entry naming the node, else by the base. -/
theorem mem_foldConfig_iff {self : Option Nat} (L : List Entry) {m : List Nat} (hm : Good self m) (x : Nat) :
    (x ∈ foldConfig self m L ↔
      match lastOp x L with
      | some true => self ≠ some x
      | some false => False
      | none => x ∈ m) :=
  PSO.NodeSend.mem_foldConfig_iff L hm x

/-- The journal fold at start-up is idempotent: folding the journal over a list that already contains the effects
of a prefix of it gives the same set as folding it over the base (no validity hypothesis needed). -/
theorem journalfold_idempotent {self : Option Nat} {base : List Nat} (hb : Good self base) (pre post : List Entry) :
    SetEq (foldConfig self (foldConfig self base pre) (pre ++ post)) (foldConfig self base (pre ++ post)) :=
  PSO.NodeSend.journalfold_idempotent hb pre post

/-- … hence a restart (member list containing the effects of a journal prefix, then the fold) re-establishes the
invariant. -/
theorem journalfold_restores_invariant {base : List Nat} {s s' : Node} {o : List Out} {k : Nat}
    (hb : Good s.self base) (hg : Good s.self s.members) (heff : Eff s.self base s.log)
    (hm : SetEq s.members (foldConfig s.self base (s.log.take k)))
    (h : journalFold true s = .ok (s', o)) : MInv base s' :=
  PSO.NodeSend.journalFold_minv hb hg heff hm h

/-- A newly added node is not counted for any position: after the leader accepts `add x`, `matchIndex x = 0` — the
commit of the change needs a majority of the new configuration that really stores the entries. -/
theorem added_node_not_counted {cfg : Conf} {s s' : Node} {cmd : Cmd} {cb : Cb} {o : List Out} {br : Branch} {x : Nat}
    (h : leaderDispatch cfg s cmd cb = .ok (s', o, br)) (hdyn : cfg.dynMember = true) (hk : cmd.kind = .add x)
    (hbr : br ≠ .denied) : s'.matchIndex.get? x = some 0 :=
  PSO.NodeSend.added_node_not_counted h hdyn hk hbr

example : ∃ s' o, leaderDispatch exConf exLeader ⟨.add 3, 7, 80, 56⟩ (.loc 41) = .ok (s', o, .appendLocal) ∧
    s'.matchIndex.get? 3 = some 0 := ⟨_, _, rfl, rfl⟩

/-- non-vacuity of `members_eq_fold`: a run with an accepted change, an apply, a capture and a restart -/
example : ∃ s, MReach exConf [1, 2] s ∧ s.members = [1, 2, 3] ∧ s.log.length = 4 := by
  have h0 : MReach exConf [1, 2] exLeader := .init (by
    exact ⟨⟨by decide, by intro n h; cases h; decide⟩, ⟨by decide, by intro n h; cases h; decide⟩,
      by intro x; simp [exLeader, exLog, foldConfig, memStep, changeDir],
      by simp [exLeader, exLog, Eff, EffStep, changeDir]⟩)
  have h1 := MReach.leader (cmd := ⟨.add 3, 7, 80, 56⟩) (cb := .loc 41) h0 rfl
  have h2 := MReach.apply (e := ⟨⟨.add 3, 7, 80, 56⟩, 4, 1⟩) h1 rfl
  have h3 := MReach.capture h2 rfl
  exact ⟨_, h3, rfl, rfl⟩

end PSO.C10
