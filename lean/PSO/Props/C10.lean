import PSO.Proofs.NodeSendMembership
import PSO.Proofs.NodeSendExamples

/-!
# C10 — membership changes (node-local part; cluster-level safety with changing voter sets is NOT proved)

Theorems about `PSO.NodeSend` (lean/PSO/Model/NodeSend.lean), the handler-level mirror of
`_checkCommandsToApply`, `__changeCluster`, `__doChangeCluster`, the rollback/apply of membership entries
in the `append_entries` handler and `__updateClusterConfiguration`, as executed by `driver nodesend`
against the real handlers.  What is claimed: the leader's gate, "member set = fold of the membership
entries of the log" for each handler step, the arithmetic fact that makes one-at-a-time changes safe,
refusal of "remove self".  What is NOT claimed as a theorem: C01–C04 for clusters whose voter set changes
(the cluster invariant of lean/PSO/Proofs/RaftDefs.lean is for a fixed voter set); on the implementation
side that part is covered by the monitors of `corr.c10_membership` only.  Recorded finding D6:
`reapply_at_commit_counterexample`.
-/
namespace PSO.C10
open PSO.NodeSend

/-- Gate: a leader appends a membership entry only if the no-op of its own term is applied, no earlier
accepted change is still unapplied and the request changes the member set; otherwise the requester gets
REQUEST_DENIED and log and member set are unchanged. -/
theorem gate {cfg : Conf} {s s' : Node} {cmd : Cmd} {cb : Cb} {o : List Out} {br : Branch}
    (h : leaderDispatch cfg s cmd cb = .ok (s', o, br)) (hreq : isRequest cfg cmd = true) :
    (br ≠ .denied →
      ∃ noop last, s.noopIdx = some noop ∧ noop ≤ s.lastApplied ∧
        (∀ c, s.changeIdx = some c → c ≤ s.lastApplied) ∧ lastIdx? s.log = some last ∧
        s'.log = s.log ++ [⟨cmd, last + 1, s.term⟩] ∧ s'.changeIdx = some (last + 1) ∧
        s'.members = (memStep s.self s.members cmd.kind false).1 ∧
        (memStep s.self s.members cmd.kind false).2 = true) ∧
    (br = .denied → s'.log = s.log ∧ s'.members = s.members ∧ o = deniedOut cb) :=
  PSO.NodeSend.gate h hreq

/-- No two changes in flight: when the gate lets a request through, every membership entry already in
the leader's log is applied. -/
theorem gate_all_applied {cfg : Conf} {s s' : Node} {cmd : Cmd} {cb : Cb} {o : List Out} {br : Branch}
    (hinv : GateInv s) (h : leaderDispatch cfg s cmd cb = .ok (s', o, br)) (hreq : isRequest cfg cmd = true)
    (hbr : br ≠ .denied) : ∀ e ∈ s.log, isMembership e.cmd.kind = true → e.idx ≤ s.lastApplied :=
  PSO.NodeSend.gate_all_applied hinv h hreq hbr

/-- Adjacent configurations: `V' = V + one node`; any majority of `V` meets any majority of `V'`
(removal is the same statement read backwards) — so two disjoint majorities can never decide
concurrently while at most one change is uncommitted. -/
theorem adjacent_majorities_intersect {V Q Q' : List Nat} {x : Nat} (hV : V.Nodup) (hx : x ∉ V)
    (hQ : IsMajorityOf Q V) (hQ' : IsMajorityOf Q' (x :: V)) : ∃ y, y ∈ Q ∧ y ∈ Q' :=
  PSO.NodeSend.adjacent_majorities_intersect hV hx hQ hQ'

theorem majorities_intersect {V Q Q' : List Nat} (hQ : IsMajorityOf Q V) (hQ' : IsMajorityOf Q' V) :
    ∃ y, y ∈ Q ∧ y ∈ Q' :=
  PSO.NodeSend.majorities_intersect hQ hQ'

/-- "Remove self" is refused (API path: by the gate; admin path: before anything is queued). -/
theorem remove_self_denied {cfg : Conf} {s s' : Node} {cmd : Cmd} {cb : Cb} {o : List Out} {br : Branch} {n : Nat}
    (h : leaderDispatch cfg s cmd cb = .ok (s', o, br)) (hdyn : cfg.dynMember = true)
    (hk : cmd.kind = .rem n) (hself : s.self = some n) :
    br = .denied ∧ s'.log = s.log ∧ s'.members = s.members ∧ o = deniedOut cb :=
  PSO.NodeSend.remove_self_denied h hdyn hk hself

theorem remove_self_denied_admin (s : Node) (n : Nat) : adminRemoveDenied s n = true ↔ s.self = some n :=
  PSO.NodeSend.remove_self_denied_admin s n

/-- Member set = fold of the log, leader side: an accepted command of any kind (a membership change
takes effect when appended) and a refused one keep the invariant. -/
theorem members_eq_fold_leader {cfg : Conf} {base : List Nat} {s s' : Node} {cmd : Cmd} {cb : Cb} {o : List Out}
    {br : Branch} (hinv : MInv base s) (hdyn : cfg.dynMember = true)
    (h : leaderDispatch cfg s cmd cb = .ok (s', o, br)) : MInv base s' :=
  PSO.NodeSend.members_eq_fold_leader hinv hdyn h

/-- … follower side, truncation: rolling back the membership entries of a deleted suffix in reverse
order gives the fold of the kept prefix (a truncated change is reverted) … -/
theorem members_eq_fold_rollback {base : List Nat} {s s1 : Node} {o : List Out} {pre old : List Entry}
    (hinv : MInv base s) (hlog : s.log = pre ++ old) (h : applyChanges s true old.reverse = .ok (s1, o)) :
    Good s.self s1.members ∧ SetEq s1.members (foldConfig s.self base pre) ∧ s1.self = s.self :=
  PSO.NodeSend.members_eq_fold_rollback hinv hlog h

/-- … follower side, append: applying the appended entries is the fold step … -/
theorem members_eq_fold_append {m0 : List Nat} {s s3 : Node} {o : List Out} {new : List Entry}
    (hg0 : Good s.self m0) (hg : Good s.self s.members) (heq : SetEq s.members m0)
    (h : applyChanges s false new = .ok (s3, o)) :
    Good s.self s3.members ∧ SetEq s3.members (foldConfig s.self m0 new) :=
  PSO.NodeSend.members_eq_fold_append hg0 hg heq h

/-- … snapshot restore: the member set becomes the dump's cluster without the node itself. -/
theorem members_eq_fold_restore {s s' : Node} {o : List Out} (prevE lastE : Entry) (cluster : List Nat)
    (h : restoreSnapshot s prevE lastE cluster true = .ok (s', o)) :
    s'.log = [prevE, lastE] ∧ s'.members.Nodup ∧
    (∀ x, x ∈ s'.members ↔ (x ∈ cluster ∧ s.self ≠ some x)) :=
  PSO.NodeSend.members_eq_fold_restore prevE lastE cluster h

/-- Partial: re-applying an entry at commit time keeps the invariant when it does not change the member
list (what is missing for the full statement: D6, next theorem). -/
theorem reapply_at_commit_partial {base : List Nat} {s s' : Node} {o : List Out} {e : Entry}
    (hinv : MInv base s) (h : reapplyAtCommit s e = .ok (s', o))
    (hnochange : (memStep s.self s.members e.cmd.kind false).2 = false) : MInv base s' :=
  PSO.NodeSend.reapply_at_commit_partial hinv h hnochange

/-- D6 (recorded finding): re-application at commit time undoes a later appended change. -/
theorem reapply_at_commit_counterexample :
    let e2 : Entry := ⟨⟨.add 3, 1, 80, 56⟩, 2, 1⟩
    let e3 : Entry := ⟨⟨.rem 3, 2, 80, 56⟩, 3, 1⟩
    let s : Node := { self := some 0, members := [1, 2], log := [⟨⟨.noop, 0, 1, 54⟩, 1, 0⟩, e2, e3] }
    foldConfig s.self [1, 2] s.log = [1, 2] ∧
    (∃ s' o, reapplyAtCommit s e2 = .ok (s', o) ∧ s'.members = [1, 2, 3] ∧ s'.log = s.log) :=
  PSO.NodeSend.reapply_at_commit_counterexample

end PSO.C10
