import PSO.Proofs.Locks

/-!
# C16 — replicated locks are mutually exclusive and always eventually obtainable

Statements about `PSO.Locks` (model of `_ReplLockManagerImpl` / `ReplLockManager` in
`pysyncobj/batteries.py`, the functions `driver locks` executes).  `cfg.mono = true` is the code with
`fixes/D19-lock-time-monotone.diff`; `cfg.mono = false` is the pinned code.

History = one common log of lock commands (C01); the replica of a client is the state after a prefix of
it; `now` is the instant of the common clock at which the clients are asked.
-/
namespace PSO.C16
open PSO.Locks

/-! ## Mutual exclusion -/

/-- **Mutual exclusion, repaired code, every log** (no assumption on the order in which stamps enter the
log).  Client `ca` looks at the replica after `p₁` log entries, client `cb` at the one after `p₂ ≥ p₁`
entries, both at the same instant `now` of the common clock.  If every stamp among the entries in between
is a reading of that clock not later than `now` (`ClocksAgree`), and `ca` has not asked to release the lock
(`NotReleasedBy`: no `release l ca` among them -- until its own release is applied on its replica,
`isAcquired` still answers True), then both considering `l` held means they are the same client. -/
theorem mutex (cfg : Cfg) (hfix : cfg.mono = true) (log : List Cmd) (p₁ p₂ : Nat) (hp : p₁ ≤ p₂)
    (ca cb : Client) (l now : Nat)
    (hclock : ClocksAgree now ((log.take p₂).drop p₁))
    (hrel : NotReleasedBy l ca.self ((log.take p₂).drop p₁))
    (ha : ca.isAcquired cfg (stateAfter cfg (log.take p₁)) l now = true)
    (hb : cb.isAcquired cfg (stateAfter cfg (log.take p₂)) l now = true) :
    ca.self = cb.self := by
  obtain ⟨ta, hsa, hnow⟩ := (isAcquired_iff cfg _ l ca.self now).mp ha
  obtain ⟨tb, hsb, _⟩ := (isAcquired_iff cfg _ l cb.self now).mp hb
  rw [take_split log hp, stateAfter_append] at hsb
  obtain ⟨t', _, h'⟩ := held_run cfg hfix _ _ l ca.self ta now hsa hnow hclock hrel
  rw [h'] at hsb
  injection hsb with e
  injection e

/-- non-vacuity of `mutex`: the D19 log, client 1 lagging after 2 entries, asked at 112. -/
example :
    let cfg : Cfg := { U := 10, mono := true }
    let log : List Cmd := [.acquire 1 1 100, .prolongate 1 104, .acquire 1 1 101, .acquire 1 2 112]
    2 ≤ 4 ∧ ClocksAgree 112 ((log.take 4).drop 2) ∧ NotReleasedBy 1 1 ((log.take 4).drop 2) ∧
      (Client.mk 1 0).isAcquired cfg (stateAfter cfg (log.take 2)) 1 112 = true ∧
      (Client.mk 1 0).isAcquired cfg (stateAfter cfg (log.take 4)) 1 112 = true ∧
      (Client.mk 2 0).isAcquired cfg (stateAfter cfg (log.take 4)) 1 112 = false := by decide

/-- `mutex` without fixing which of the two replicas is ahead: two clients looking at replicas after
`pa` resp. `pb` entries of the common log at the same instant; stamps in the log are `≤ now`; neither has
asked to release.  Then at most one of them considers the lock held. -/
theorem mutex_any_order (cfg : Cfg) (hfix : cfg.mono = true) (log : List Cmd) (pa pb : Nat)
    (ca cb : Client) (l now : Nat)
    (hclock : ClocksAgree now log)
    (hrela : NotReleasedBy l ca.self log) (hrelb : NotReleasedBy l cb.self log)
    (ha : ca.isAcquired cfg (stateAfter cfg (log.take pa)) l now = true)
    (hb : cb.isAcquired cfg (stateAfter cfg (log.take pb)) l now = true) :
    ca.self = cb.self := by
  have hsub : ∀ p q : Nat, ∀ x ∈ (log.take q).drop p, x ∈ log :=
    fun p q x hx => List.mem_of_mem_take (List.mem_of_mem_drop hx)
  rcases Nat.le_total pa pb with h | h
  · exact mutex cfg hfix log pa pb h ca cb l now (fun c hc => hclock c (hsub _ _ c hc))
      (fun hc => hrela (hsub _ _ _ hc)) ha hb
  · exact (mutex cfg hfix log pb pa h cb ca l now (fun c hc => hclock c (hsub _ _ c hc))
      (fun hc => hrelb (hsub _ _ _ hc)) hb ha).symm

/-- non-vacuity of `mutex_any_order`: same log, client 1 on the shorter or the longer prefix. -/
example :
    let cfg : Cfg := { U := 10, mono := true }
    let log : List Cmd := [.acquire 1 1 100, .prolongate 1 104, .acquire 1 1 101, .acquire 1 2 112]
    ClocksAgree 112 log ∧ NotReleasedBy 1 1 log ∧
      (Client.mk 1 0).isAcquired cfg (stateAfter cfg (log.take 4)) 1 112 = true ∧
      (Client.mk 1 7).isAcquired cfg (stateAfter cfg (log.take 1)) 1 109 = true := by decide

/-- **Mutual exclusion, any variant (in particular the pinned code), under `MonotoneStamps`**: same
statement, with the additional hypothesis that the stamps of the log (up to `p₂`) are non-decreasing in
log order.  What is missing for the pinned code: logs in which a stamp is followed by a smaller one --
excluded here, shown reachable and violating by `pinned_mutex_counterexample` (D19). -/
theorem pinned_mutex_partial (cfg : Cfg) (log : List Cmd) (p₁ p₂ : Nat) (hp : p₁ ≤ p₂)
    (ca cb : Client) (l now : Nat)
    (hmono : MonotoneStamps (log.take p₂))
    (hclock : ClocksAgree now ((log.take p₂).drop p₁))
    (hrel : NotReleasedBy l ca.self ((log.take p₂).drop p₁))
    (ha : ca.isAcquired cfg (stateAfter cfg (log.take p₁)) l now = true)
    (hb : cb.isAcquired cfg (stateAfter cfg (log.take p₂)) l now = true) :
    ca.self = cb.self := by
  obtain ⟨ta, hsa, hnow⟩ := (isAcquired_iff cfg _ l ca.self now).mp ha
  obtain ⟨tb, hsb, _⟩ := (isAcquired_iff cfg _ l cb.self now).mp hb
  obtain ⟨cmd, hmem, _, hst⟩ := entry_time_is_stamp cfg _ l ca.self ta hsa
  have hta : ta ∈ stamps (log.take p₁) := List.mem_filterMap.mpr ⟨cmd, hmem, hst⟩
  rw [take_split log hp] at hmono
  unfold MonotoneStamps stamps at hmono
  rw [List.filterMap_append, List.pairwise_append] at hmono
  have hpw : (ta :: stamps ((log.take p₂).drop p₁)).Pairwise (· ≤ ·) :=
    List.pairwise_cons.mpr ⟨fun y hy => hmono.2.2 ta hta y hy, hmono.2.1⟩
  rw [take_split log hp, stateAfter_append] at hsb
  obtain ⟨t', _, h'⟩ := held_run_pinned cfg _ _ l ca.self ta now hsa hnow hclock hrel hpw
  rw [h'] at hsb
  injection hsb with e
  injection e

/-- non-vacuity of `pinned_mutex_partial` (pinned variant, monotone log, lagging holder). -/
example :
    let cfg : Cfg := { U := 10, mono := false }
    let log : List Cmd := [.acquire 1 1 100, .prolongate 1 104, .acquire 1 1 105, .acquire 1 2 112]
    MonotoneStamps (log.take 4) ∧ ClocksAgree 112 ((log.take 4).drop 2) ∧
      NotReleasedBy 1 1 ((log.take 4).drop 2) ∧
      (Client.mk 1 0).isAcquired cfg (stateAfter cfg (log.take 2)) 1 112 = true ∧
      (Client.mk 1 0).isAcquired cfg (stateAfter cfg (log.take 4)) 1 112 = true := by decide

/-- **D19, pinned code: mutual exclusion fails without `MonotoneStamps`.**  Log (U = 10):
`acquire(L1,c1,100)  prolongate(c1,104)  acquire(L1,c1,101)  acquire(L1,c2,112)` -- client 1's stamp 101
was read before 104 but enqueued after it (two threads).  Client 1's replica has applied two entries
(lock time 104), client 2's all four (time went back to 101, so 112 > 101 + 10 expires it).  At the common
instant 112 both consider L1 held; all stamps are `≤ 112`; nobody released.  (`harness/witness/d19_*`
replays exactly this on the real classes.) -/
theorem pinned_mutex_counterexample :
    ∃ (log : List Cmd) (p₁ p₂ : Nat) (ca cb : Client) (l now : Nat),
      p₁ ≤ p₂ ∧ p₂ ≤ log.length ∧ ClocksAgree now log ∧ NotReleasedBy l ca.self log ∧
      ca.isAcquired { U := 10, mono := false } (stateAfter { U := 10, mono := false } (log.take p₁)) l now = true ∧
      cb.isAcquired { U := 10, mono := false } (stateAfter { U := 10, mono := false } (log.take p₂)) l now = true ∧
      ca.self ≠ cb.self :=
  ⟨[.acquire 1 1 100, .prolongate 1 104, .acquire 1 1 101, .acquire 1 2 112], 2, 4, ⟨1, 0⟩, ⟨2, 0⟩, 1, 112,
    by decide⟩

/-! ## Late acquisition -/

/-- the model's comparison is the code's `acquireTime - attemptTime > autoUnlockTime / 2.0`
(on naturals: `U < 2 * (acquireTime - attemptTime)`, truncated subtraction included). -/
theorem late_iff (U att acq : Nat) : late U att acq = true ↔ U < 2 * (acq - att) := by
  unfold late
  simp only [decide_eq_true_eq]
  omega

/-- **Late acquire is rejected, exactly at the code's boundary.**  For a granted `acquire` the wrapper
answers False and submits `release` iff `acquireTime - attemptTime > U/2`; otherwise it answers True and
submits nothing; an `acquire` that was not granted (False / None) is passed through and nothing is
submitted. -/
theorem late_acquire_rejected (cfg : Cfg) (c : Client) (l att acq : Nat) :
    (c.tryAcquireFinish cfg l att acq (some true) = (some false, [.release l c.self])
        ↔ cfg.U < 2 * (acq - att)) ∧
    (c.tryAcquireFinish cfg l att acq (some true) = (some true, [])
        ↔ ¬ cfg.U < 2 * (acq - att)) ∧
    (∀ res, res ≠ some true → c.tryAcquireFinish cfg l att acq res = (res, [])) := by
  refine ⟨?_, ?_, ?_⟩
  · unfold Client.tryAcquireFinish
    by_cases h : late cfg.U att acq = true
    · simp [h, (late_iff _ _ _).mp h]
    · have := mt (late_iff cfg.U att acq).mpr h
      simp [h, this]
  · unfold Client.tryAcquireFinish
    by_cases h : late cfg.U att acq = true
    · simp [h, (late_iff _ _ _).mp h]
    · have := mt (late_iff cfg.U att acq).mpr h
      simp [h, this]
  · intro res hres
    unfold Client.tryAcquireFinish
    simp [hres]

/-- non-vacuity / boundary of `late_acquire_rejected`: U = 10, took exactly 5 → kept; took 6 → rejected;
U = 5, took 2 → kept, took 3 → rejected. -/
example :
    (Client.mk 7 0).tryAcquireFinish { U := 10 } 3 100 105 (some true) = (some true, []) ∧
    (Client.mk 7 0).tryAcquireFinish { U := 10 } 3 100 106 (some true) = (some false, [.release 3 7]) ∧
    (Client.mk 7 0).tryAcquireFinish { U := 5 } 3 100 102 (some true) = (some true, []) ∧
    (Client.mk 7 0).tryAcquireFinish { U := 5 } 3 100 103 (some true) = (some false, [.release 3 7]) := by
  decide

/-- **... and does not keep the lock**: once the `release` the wrapper submitted for a late acquisition
is applied (to any replica state), the client does not consider the lock held, at any time. -/
theorem late_acquire_not_kept (cfg : Cfg) (c : Client) (l att acq : Nat) (hlate : cfg.U < 2 * (acq - att))
    (s : Table) (now : Nat) :
    c.isAcquired cfg (run cfg s (c.tryAcquireFinish cfg l att acq (some true)).2) l now = false := by
  rw [((late_acquire_rejected cfg c l att acq).1).mpr hlate]
  cases hq : c.isAcquired cfg (run cfg s [Cmd.release l c.self]) l now with
  | false => rfl
  | true =>
    obtain ⟨t0, h0, _⟩ := (isAcquired_iff cfg _ l c.self now).mp hq
    simp only [run, List.foldl_cons, List.foldl_nil, apply, applyRes] at h0
    cases hs : s l with
    | none =>
      rw [release_non_holder s l c.self (by simp [hs]), hs] at h0
      cases h0
    | some v =>
      obtain ⟨c0, t1⟩ := v
      by_cases hc : c0 = c.self
      · rw [release_holder s l c.self t1 (by rw [hs, hc])] at h0
        simp [del_get] at h0
      · rw [release_non_holder s l c.self (by
          intro t2 e; rw [hs] at e; injection e with e; injection e with e1 _; exact hc e1), hs] at h0
        injection h0 with e
        injection e with e1 _
        exact absurd e1 hc

/-- **Only `acquire` gives a lock**: a client that does not hold `l` does not hold it after any commands among
which there is no `acquire l c _` of its own (in particular its prolongations never create or revive one). -/
theorem lock_only_by_acquire (cfg : Cfg) (s : Table) (l c : Nat) (cmds : List Cmd)
    (h : ∀ t, s l ≠ some (c, t)) (hn : ∀ t, Cmd.acquire l c t ∉ cmds) :
    ∀ now, isAcquired cfg (run cfg s cmds) l c now = false := by
  intro now
  cases hq : isAcquired cfg (run cfg s cmds) l c now with
  | false => rfl
  | true =>
    obtain ⟨t0, h0, _⟩ := (isAcquired_iff cfg _ l c now).mp hq
    exact absurd h0 (not_held_run cfg cmds s l c h hn t0)

/-- **Told failed ⇒ not kept, when the compensating release follows the acquire in the log** (code with
`fixes/D73-…`, `comp = true`; *partial*: the ORDER "acquire … release" is built into the shape of the log below.
It holds whenever both commands travel through the same node's queue to the same leader; it is exactly what
D73b breaks -- an `apply_command` delayed in the channel to a deposed leader across two elections is appended
after the release, see `compensating_release_overtaken_counterexample`; recorded finding
`…:failed-acquire-kept:compensating-release-overtaken`).  A `tryAcquire` whose outcome is
reported as failed although the command may still be committed (`Timeout` of the sync call, `LEADER_CHANGED`
on either path: `res ≠ some true`, `outcomeOpen`) submits `release l self`.  Whatever the state `s`, whenever
the `acquire` is committed after all, whatever is committed between it and the compensating release (`mid`,
e.g. the client's own prolongations, which prolong every lock of the client) and afterwards (`later`, as long
as the client does not acquire `l` again): the client does not hold `l`, at any time. -/
theorem told_failed_not_kept (cfg : Cfg) (c : Client) (l att acq : Nat) (res : Option Bool)
    (hres : res ≠ some true) (s : Table) (mid later : List Cmd)
    (hlater : ∀ t, Cmd.acquire l c.self t ∉ later) :
    c.tryAcquireFinish cfg l att acq res true true = (res, [.release l c.self]) ∧
    ∀ now, c.isAcquired cfg
      (run cfg s (c.tryAcquireCmd l att :: mid ++ (c.tryAcquireFinish cfg l att acq res true true).2 ++ later)) l now
        = false := by
  have hsub : c.tryAcquireFinish cfg l att acq res true true = (res, [.release l c.self]) := by
    unfold Client.tryAcquireFinish
    simp [hres]
  refine ⟨hsub, ?_⟩
  intro now
  rw [hsub]
  have : run cfg s (c.tryAcquireCmd l att :: mid ++ [Cmd.release l c.self] ++ later)
      = run cfg (run cfg (run cfg s (c.tryAcquireCmd l att :: mid)) [Cmd.release l c.self]) later := by
    rw [← run_append, ← run_append]
    simp
  rw [this]
  exact lock_only_by_acquire cfg _ l c.self later
    (by
      intro t
      simp only [run, List.foldl_cons, List.foldl_nil, apply, applyRes]
      exact release_not_held _ l c.self t) hlater now

/-- non-vacuity of `told_failed_not_kept`: U = 10, attempt at 100, told LEADER_CHANGED; the acquire is committed
anyway, the client's prolongations at 109 and 112 are committed before the compensating release, one at 115
after it; a competitor's acquire at 116 is then granted. -/
example :
    let cfg : Cfg := { U := 10 }
    let c : Client := ⟨1, 0⟩
    let log := c.tryAcquireCmd 1 100 :: [Cmd.prolongate 1 109, .prolongate 1 112]
      ++ (c.tryAcquireFinish cfg 1 100 106 none true true).2 ++ [Cmd.prolongate 1 115]
    c.isAcquired cfg (stateAfter cfg (log.take 3)) 1 113 = true ∧
      c.isAcquired cfg (stateAfter cfg log) 1 116 = false ∧
      (acquire cfg (stateAfter cfg log) 1 2 116).2 = true := by decide

/-- **D73b, repaired code (`comp = true`), the order the partial theorem excludes.**  The trace of the real
cluster (witness replay (C), U = 10): client 2's `tryAcquire` at 100 is told `LEADER_CHANGED`; the wrapper submits
the compensating `release`, which is committed FIRST; the delayed `acquire(L1, c2, 100)` is appended afterwards
(at about 106); the client's prolongation pass prolongs every lock of the client (107, 110, 113, 116, 119): at 119
the client considers the lock held and a competitor's acquire is refused -- told failed, lock kept. -/
theorem compensating_release_overtaken_counterexample :
    ∃ (cfg : Cfg) (c : Client) (l att acq now : Nat) (log : List Cmd),
      cfg.U < 2 * (acq - att) ∧
      c.tryAcquireFinish cfg l att acq none true true = (none, [.release l c.self]) ∧
      log = (c.tryAcquireFinish cfg l att acq none true true).2 ++ [c.tryAcquireCmd l att] ++
        [Cmd.prolongate c.self 107, .prolongate c.self 110, .prolongate 3 110, .acquire l 3 110, .prolongate c.self 113,
         .prolongate c.self 116, .prolongate c.self 119] ∧
      c.isAcquired cfg (stateAfter cfg log) l now = true ∧
      (acquire cfg (stateAfter cfg log) l 3 now).2 = false :=
  ⟨{ U := 10 }, ⟨2, 0⟩, 1, 100, 106, 119, _, by decide, by decide, rfl, by decide, by decide⟩

/-- **D73c, repaired code (`comp = true`): the compensating release is LOST on its way** (dropped with
MISSING_LEADER when `commandsWaitLeader` is off, or sent on a dead connection): the wrapper does submit it, but it
never enters the log; the acquire (attempt at 100, told `LEADER_CHANGED` at 106, U = 10) is committed and prolonged
(107 … 119): at 119 the client considers the lock held and a competitor is refused.  Recorded finding
`…:failed-acquire-kept:compensating-release-lost`. -/
theorem compensating_release_lost_counterexample :
    ∃ (cfg : Cfg) (c : Client) (l att acq now : Nat) (log : List Cmd),
      cfg.U < 2 * (acq - att) ∧
      (c.tryAcquireFinish cfg l att acq none true true).2 = [.release l c.self] ∧ Cmd.release l c.self ∉ log ∧
      log = c.tryAcquireCmd l att :: [Cmd.prolongate c.self 107, .prolongate c.self 110, .prolongate c.self 113,
        .prolongate c.self 116, .prolongate c.self 119] ∧
      c.isAcquired cfg (stateAfter cfg log) l now = true ∧
      (acquire cfg (stateAfter cfg log) l 3 now).2 = false :=
  ⟨{ U := 10 }, ⟨2, 0⟩, 1, 100, 106, 119, _, by decide, by decide, by decide, rfl, by decide, by decide⟩

/-- **D73, code before the repair (`comp = false`): told failed, lock kept.**  The wrapper submits nothing for
a failure with an open outcome; the acquire (attempt at 100, U = 10) is committed after the client was told
`LEADER_CHANGED` at 106 (> U/2); the client's prolongation pass prolongs every lock of the client (109, 112,
115, 118): at 118 the client considers the lock held and a competitor's acquire is refused. -/
theorem uncompensated_failed_acquire_kept_counterexample :
    ∃ (cfg : Cfg) (c : Client) (l att acq now : Nat) (log : List Cmd),
      cfg.U < 2 * (acq - att) ∧
      c.tryAcquireFinish cfg l att acq none true false = (none, []) ∧
      log = c.tryAcquireCmd l att :: [Cmd.prolongate c.self 109, .prolongate c.self 112, .prolongate c.self 115,
        .prolongate c.self 118] ∧
      c.isAcquired cfg (stateAfter cfg log) l now = true ∧
      (acquire cfg (stateAfter cfg log) l 2 now).2 = false :=
  ⟨{ U := 10 }, ⟨1, 0⟩, 1, 100, 106, 118, _, by decide, by decide, rfl, by decide, by decide⟩

/-! ## Expiry: obtainable after the auto-unlock time -/

/-- **A lock whose holder stops prolonging it becomes obtainable.**  On the replica state after any log:
if lock `l` is held by `a` and every stamp of `a`'s commands in the log is `≤ t₀` (`t₀` = the holder's
last sign of life; the log may continue with other clients' commands), then `acquire` by anybody with a
stamp `> t₀ + U` is granted and makes him the holder with that stamp, and `prolongate` by anybody with
such a stamp removes the entry. Both variants of the code. -/
theorem expiry_obtainable (cfg : Cfg) (log : List Cmd) (l a ta t₀ : Nat)
    (hold : stateAfter cfg log l = some (a, ta))
    (hlast : ∀ cmd ∈ log, cmd.client = a → ∀ t, cmd.stamp? = some t → t ≤ t₀)
    (b t : Nat) (ht : t₀ + cfg.U < t) :
    (acquire cfg (stateAfter cfg log) l b t).2 = true ∧
    (acquire cfg (stateAfter cfg log) l b t).1 l = some (b, t) ∧
    prolongate cfg (stateAfter cfg log) b t l = none := by
  obtain ⟨cmd, hmem, hc, hst⟩ := entry_time_is_stamp cfg log l a ta hold
  have hle : ta ≤ t₀ := hlast cmd hmem hc ta hst
  have he : ta + cfg.U < t := by omega
  rw [acquire_expired cfg _ l b a t ta hold he]
  refine ⟨rfl, by simp [set_get], ?_⟩
  simp [prolongate_get, hold, expired, he]

/-- **An expired lock is not revived by a prolongation** -- neither by the old holder's own nor by anybody
else's: on any table where lock `l` has time `ta`, `prolongate c t` with `t > ta + U` removes `l` and does not
re-insert it (the code's `continue` after the `del`), so the old holder does not consider it held at any time,
and the next `acquire` of `l`, by anybody and whatever its stamp (e.g. stamped before `t`, committed after it),
is granted.  Both variants of the code. -/
theorem expired_lock_not_revived_by_prolongation (cfg : Cfg) (s : Table) (l a ta c t : Nat)
    (hold : s l = some (a, ta)) (ht : ta + cfg.U < t) :
    prolongate cfg s c t l = none ∧
    (∀ now, isAcquired cfg (prolongate cfg s c t) l a now = false) ∧
    (∀ b t', acquire cfg (prolongate cfg s c t) l b t' = ((prolongate cfg s c t).set l (b, t'), true)) := by
  have h : prolongate cfg s c t l = none := by simp [prolongate_get, hold, expired, ht]
  refine ⟨h, ?_, ?_⟩
  · intro now
    simp [isAcquired, h]
  · intro b t'
    exact acquire_free cfg _ l b t' h

/-- non-vacuity: the holder itself prolongs 11 after its last stamp (U = 10); a competitor stamped in between
is then granted; one tick earlier the holder would have kept the lock. -/
example :
    let cfg : Cfg := { U := 10 }
    let s := stateAfter cfg [.acquire 1 1 100]
    prolongate cfg s 1 111 1 = none ∧ (acquire cfg (prolongate cfg s 1 111) 1 2 105).2 = true ∧
      prolongate cfg s 1 110 1 = some (1, 110) := by decide

/-- non-vacuity of `expiry_obtainable`: holder 1 with stamps 100, 104, 101 (in this log order), U = 10. -/
example :
    let cfg : Cfg := { U := 10, mono := true }
    let log : List Cmd := [.acquire 1 1 100, .prolongate 1 104, .acquire 1 1 101, .acquire 2 2 103]
    stateAfter cfg log 1 = some (1, 104) ∧
      (∀ cmd ∈ log, cmd.client = 1 → ∀ t, cmd.stamp? = some t → t ≤ 104) ∧
      (acquire cfg (stateAfter cfg log) 1 2 114).2 = false ∧
      (acquire cfg (stateAfter cfg log) 1 2 115).2 = true := by
  refine ⟨by decide, ?_, by decide, by decide⟩
  intro cmd hmem
  simp only [List.mem_cons, List.not_mem_nil, or_false] at hmem
  rcases hmem with rfl | rfl | rfl | rfl <;> simp [Cmd.client, Cmd.stamp?]

/-- the safety side of expiry: before the holder's lock time + U has passed (stamp `≤ ta + U`) nobody
else is granted the lock and nothing changes. -/
theorem not_obtainable_before_expiry (cfg : Cfg) (s : Table) (l a ta b t : Nat)
    (hold : s l = some (a, ta)) (hb : a ≠ b) (ht : t ≤ ta + cfg.U) :
    acquire cfg s l b t = (s, false) :=
  acquire_refused cfg s l b a t ta hold (by omega) hb

/-- the holder keeps its lock as long as it shows up within `U`: `prolongate` (or a repeated `acquire`)
by the holder with a stamp `≤ ta + U` keeps him the holder, with a time `≥ ta` in the repaired code. -/
theorem prolongation_keeps_lock (cfg : Cfg) (hfix : cfg.mono = true) (s : Table) (l a ta t : Nat)
    (hold : s l = some (a, ta)) (ht : t ≤ ta + cfg.U) :
    prolongate cfg s a t l = some (a, max t ta) ∧ (acquire cfg s l a t).1 l = some (a, max t ta) := by
  have he : ¬ ta + cfg.U < t := by omega
  constructor
  · simp [prolongate_get, hold, expired, he, newTime, hfix]
  · rw [acquire_holder cfg s l a t ta hold he]
    simp [set_get, newTime, hfix]

/-- **A holder that shows up in time never loses its lock** (repaired code; the stamps of the commands may
be arbitrarily *old* -- commands committed late after a partition / leader change / commit delay -- and in
any order).  From any state in which `a` holds `l` with time `ta`: after any commands none of which is
stamped later than `ta + U` (nothing that could count as an expiry) and none of which is `a`'s own release,
`a` is still the holder, with a time `≥ ta`; hence every `acquire` of another client stamped `≤ ta + U` that
follows is refused.  In particular a late prolongation of *another* client cannot purge a fresh lock
(seeded change C16-4). -/
theorem holder_keeps_lock_until_expiry (cfg : Cfg) (hfix : cfg.mono = true) (s : Table) (l a ta : Nat)
    (cmds : List Cmd) (hold : s l = some (a, ta))
    (hstamps : ClocksAgree (ta + cfg.U) cmds) (hrel : NotReleasedBy l a cmds) :
    (∃ ta', ta ≤ ta' ∧ run cfg s cmds l = some (a, ta')) ∧
    (∀ b t, a ≠ b → t ≤ ta + cfg.U → (acquire cfg (run cfg s cmds) l b t).2 = false) := by
  obtain ⟨ta', hle, h'⟩ := kept_run cfg hfix cmds s l a ta (ta + cfg.U) hold (Nat.le_refl _) hstamps hrel
  refine ⟨⟨ta', hle, h'⟩, ?_⟩
  intro b t hab ht
  rw [acquire_refused cfg _ l b a t ta' h' (by omega) hab]

/-- non-vacuity of `holder_keeps_lock_until_expiry`: client 1 holds L1 since 118 (U = 10); a prolongation of
client 3 stamped 100 and one of client 2 stamped 90 are committed afterwards, client 1 prolongs at 122. -/
example :
    let cfg : Cfg := { U := 10, mono := true }
    let s := stateAfter cfg [.acquire 2 3 99, .acquire 1 1 118]
    let cmds : List Cmd := [.prolongate 3 100, .prolongate 1 122, .prolongate 2 90, .acquire 1 2 123]
    s 1 = some (1, 118) ∧ ClocksAgree (118 + cfg.U) cmds ∧ NotReleasedBy 1 1 cmds ∧
      run cfg s cmds 1 = some (1, 122) := by decide

/-! ## Snapshots -/

/-- **A replica rebuilt from a snapshot has exactly the locks of the replica the snapshot was taken from**
(`_deserialize (_serialize s)` into any instance, whatever it was created with and whatever it held): same
table, same auto-unlock time, hence the same state after any further commands and the same answers -- so
every statement above about `stateAfter (log.take p)` also holds for a replica that reached position `p`
through a dump file or the leader's snapshot. -/
theorem snapshot_roundtrip_keeps_locks (cfg cfg' : Cfg) (s s' : Table) (hv : cfg'.mono = cfg.mono) :
    rebuild cfg s cfg' s' = (cfg, s) ∧
    (∀ cmds, run (rebuild cfg s cfg' s').1 (rebuild cfg s cfg' s').2 cmds = run cfg s cmds) ∧
    (∀ l c now, isAcquired (rebuild cfg s cfg' s').1 (rebuild cfg s cfg' s').2 l c now = isAcquired cfg s l c now) := by
  have h : rebuild cfg s cfg' s' = (cfg, s) := by
    cases cfg; cases cfg'
    simp only [rebuild, deserialize, serialize] at *
    simp_all
  refine ⟨h, ?_, ?_⟩ <;> intros <;> rw [h]

/-- non-vacuity / what would go wrong: the receiving instance was created with another auto-unlock time and
holds a stale lock; after the rebuild it has the holder's lock with time 104 and U = 10. -/
example :
    let cfg : Cfg := { U := 10 }
    let s := stateAfter cfg [.acquire 1 1 100, .prolongate 1 104]
    let r := rebuild cfg s { U := 3 } (stateAfter { U := 3 } [.acquire 1 2 50, .acquire 7 7 7])
    r.1.U = 10 ∧ r.2 1 = some (1, 104) ∧ r.2 7 = none ∧ (acquire r.1 r.2 1 2 110).2 = false := by decide

/-! ## Release -/

/-- **Releasing a lock one does not hold has no effect**: the whole table is unchanged. -/
theorem release_by_non_holder_is_noop (cfg : Cfg) (s : Table) (l c : Nat)
    (h : ∀ t, s l ≠ some (c, t)) : apply cfg s (.release l c) = s :=
  release_non_holder s l c h

/-- non-vacuity: lock 1 held by client 1, client 2 releases it -- and the positive case: the holder's
release frees the lock. -/
example :
    let cfg : Cfg := { U := 10 }
    let s := stateAfter cfg [.acquire 1 1 100]
    (∀ t, s 1 ≠ some (2, t)) ∧ apply cfg s (.release 1 2) 1 = some (1, 100) ∧
      apply cfg s (.release 1 1) 1 = none := by
  refine ⟨?_, by decide, by decide⟩
  intro t
  have : stateAfter { U := 10 } [.acquire 1 1 100] 1 = some (1, 100) := by decide
  rw [this]
  intro e
  injection e with e
  injection e with e1 _
  cases e1

/-- the holder's release frees the lock and touches nothing else. -/
theorem release_by_holder_frees (cfg : Cfg) (s : Table) (l c t : Nat) (h : s l = some (c, t)) :
    apply cfg s (.release l c) l = none ∧ ∀ l', l' ≠ l → apply cfg s (.release l c) l' = s l' := by
  constructor
  · simp [apply, applyRes, release_holder s l c t h, del_get]
  · intro l' hl
    simp [apply, applyRes, release_get_ne s c hl]

/-! ## Reachable-state invariant and the prolongation period -/

/-- in every reachable replica state the time of a lock is a stamp its holder put into the log. -/
theorem lock_time_is_holder_stamp (cfg : Cfg) (log : List Cmd) (l c t : Nat)
    (h : stateAfter cfg log l = some (c, t)) : ∃ cmd ∈ log, cmd.client = c ∧ cmd.stamp? = some t :=
  entry_time_is_stamp cfg log l c t h

/-- the prolongation pass submits `prolongate(selfID, now)` iff at least `U/4` passed since the last one
(`¬ now - last < U/4`), the consumer is attached and a leader is known; and only then moves
`__lastProlongateTime`. -/
theorem tick_prolongs_iff (cfg : Cfg) (c : Client) (obj leader : Bool) (n1 n2 n3 : Nat) :
    (c.tick cfg obj leader n1 n2 n3 = ({ c with lastProlong := n2 }, [.prolongate c.self n3])
        ↔ (¬ 4 * n1 < cfg.U + 4 * c.lastProlong) ∧ obj = true ∧ leader = true) ∧
    ((4 * n1 < cfg.U + 4 * c.lastProlong ∨ obj = false ∨ leader = false)
        → c.tick cfg obj leader n1 n2 n3 = (c, [])) := by
  unfold Client.tick
  constructor
  · by_cases h1 : 4 * n1 < cfg.U + 4 * c.lastProlong
    · simp [h1]
    · cases obj <;> cases leader <;> simp [h1]
  · rintro (h | h | h)
    · simp [h]
    · subst h
      by_cases h1 : 4 * n1 < cfg.U + 4 * c.lastProlong <;> simp [h1]
    · subst h
      by_cases h1 : 4 * n1 < cfg.U + 4 * c.lastProlong <;> cases obj <;> simp [h1]

end PSO.C16
