import PSO.Proofs.QueueFacts
import PSO.Proofs.QueuePipe

/-!
# C19 — thread-safe calls: each applied once, sync returns its own result

PARTIAL scope (named): the theorems below hold for ALL interleavings of the model's atomic actions
(`PSO.Queue.Label`: a caller thread's next action, a wait timing out, one dequeue+dispatch of the tick
thread, the core answering a registered callback, the tick thread enqueueing a forwarded command).
That these actions are atomic in CPython — `FastQueue`'s `threading.Lock`, `deque`, `threading.Event`,
one `AsyncResult.onResult` call, under the GIL — is an ASSUMPTION, validated (not proved) by
`harness/corr/queue_threads.py` with real threads.  The replication core is abstracted by the label
`answer`: a callback registered with the core is answered at most once, with the result of the command
it was registered with (SUCCESS) or with `None` and a failure; it may never be answered (interface
supplied by C02).

`Run m progs ro c0 ls s`: `s` is the state after schedule `ls` from the initial state (queue limit `m`,
thread `i` runs the calls `progs[i]`, applying command `x` returns `ro x`, `commandsLocalCounter` starts
at `c0` — any value: the code draws 48 random bits).  Every theorem is `∀ m progs ro c0 ls s, Run … → …`, proved from the inductive invariant `PSO.Queue.Inv`
(`inv_init`, `inv_step`, `inv_exec`).
-/
namespace PSO.C19
open PSO.Queue

/-- `s` is reached by the schedule `ls` (any merge of the threads' atomic actions) -/
def Run (m : Nat) (progs : List (List CallSpec)) (ro : CmdRef → Nat) (c0 : Nat) (ls : List Label) (s : Sys) : Prop :=
  (Sys.init m progs ro c0).exec ls = some s

theorem run_inv {m progs ro c0 ls s} (h : Run m progs ro c0 ls s) : Inv s := inv_exec (inv_init m progs ro c0) ls h

/-- Every call whose `_applyCommand` step ran was enqueued exactly once or refused (`Queue.Full`) exactly
once — never both, never twice; before that step, neither.  A refused call with a callback was told
`QUEUE_FULL` through that callback.  A call's command is dequeued at most as often as it was enqueued
(so at most once, and never when refused). -/
theorem each_call_once_or_failed {m progs ro c0 ls s} (h : Run m progs ro c0 ls s) (c : CallId) :
    (s.hist.countP (Ev.isEnq c) + s.hist.countP (Ev.isFull c)
        = if s.isRepl c = true ∧ s.putDone c then 1 else 0) ∧
    s.hist.countP (Ev.isDeq (.call c)) ≤ s.hist.countP (Ev.isEnq c) ∧
    s.hist.countP (Ev.isDeq (.call c)) ≤ 1 ∧
    (Ev.full c ∈ s.hist → s.hist.countP (Ev.isDeq (.call c)) = 0) ∧
    (Ev.full c ∈ s.hist → s.hasCb c = true → Ev.fired c none .queueFull ∈ s.hist) := by
  have hi := run_inv h
  have h1 := hi.enq1 c
  have h2 := deq_le_enq hi c
  have h3 := enq_le_one hi c
  refine ⟨h1, h2, by omega, ?_, hi.fullFired c⟩
  intro hf
  have : 0 < s.hist.countP (Ev.isFull c) :=
    List.countP_pos_iff.mpr ⟨_, hf, by simp [Ev.isFull]⟩
  omega

/-- FIFO: the commands dequeued so far are, in order, a prefix of the commands enqueued so far, and the
rest is exactly the queue content, in order (local calls and forwarded commands alike). -/
theorem fifo_order {m progs ro c0 ls s} (h : Run m progs ro c0 ls s) :
    enqSeq s.hist = deqSeq s.hist ++ s.q.items.map (fun e => e.cmd) := (run_inv h).fifo

/-- Every dequeued command went exactly one way: appended to the leader's log once, or forwarded to the
leader once, or refused — never two of them, never twice.  Hence a call enters the replication core at
most once. -/
theorem dispatched_once {m progs ro c0 ls s} (h : Run m progs ro c0 ls s) (x : CmdRef) :
    s.hist.countP (Ev.isDeq x)
      = s.hist.countP (Ev.isApp x) + s.hist.countP (Ev.isFwd x) + s.hist.countP (Ev.isDrop x) :=
  (run_inv h).disp x

theorem enters_core_at_most_once {m progs ro c0 ls s} (h : Run m progs ro c0 ls s) (c : CallId) :
    s.hist.countP (Ev.isApp (.call c)) + s.hist.countP (Ev.isFwd (.call c)) ≤ 1 := by
  have h1 := dispatched_once h (.call c)
  have h2 := (each_call_once_or_failed h c).2.2.1
  omega

/-- The callback of a call (the user's function, or the call's own `AsyncResult.onResult`) is, once the
`_applyCommand` step ran, in exactly one place: in the queue, registered with the core, or it has fired
exactly once.  So it never fires twice, and it has fired exactly once as soon as it is neither queued
nor waiting in the core (i.e. the core answered, or the dispatch / the full queue refused the call). -/
theorem callback_once {m progs ro c0 ls s} (h : Run m progs ro c0 ls s) (c : CallId) :
    s.hist.countP (Ev.isFired c) ≤ 1 ∧
    (s.q.items.countP (fun e => e.cb.isFor c) + s.pend.countP (fun p => p.e.cb.isFor c)
        + s.hist.countP (Ev.isFired c) = if s.hasCb c = true ∧ s.putDone c then 1 else 0) :=
  ⟨fired_le_one (run_inv h) c, (run_inv h).token c⟩

/-- A callback only ever travels with its own command: in the queue and inside the core the entry that
carries the callback of call `c` carries the command built by call `c`. -/
theorem callback_with_own_command {m progs ro c0 ls s} (h : Run m progs ro c0 ls s) (c : CallId) :
    (∀ e ∈ s.q.items, e.cb.isFor c = true → e.cmd = .call c) ∧
    (∀ p ∈ s.pend, p.e.cb.isFor c = true → p.e.cmd = .call c) :=
  ⟨fun e he => (run_inv h).pairQ e he c, fun p hp => (run_inv h).pairP p hp c⟩

/-- what the last state knows about the calls is what the programs say -/
theorem run_static {m progs ro c0 ls s} (h : Run m progs ro c0 ls s) :
    s.resultOf = ro ∧ ∀ c, s.planAt c = (((progs.getD c.t [])[c.k]?).map planOf) := by
  obtain ⟨h1, h2⟩ := exec_static ls h
  exact ⟨h1, fun c => by simp only [Sys.planAt, h2 c.t]; rfl⟩

/-- A callback that fires gets the result of its OWN command together with SUCCESS, or `None` together
with a failure reason. -/
theorem callback_gets_own_result {m progs ro c0 ls s} (h : Run m progs ro c0 ls s) (c : CallId)
    (r : Option Nat) (e : Fail) (hf : Ev.fired c r e ∈ s.hist) :
    r = if e = .success then some (ro (.call c)) else none := by
  have := (run_inv h).firedGood c r e hf
  rw [(run_static h).1] at this
  exact this

/-- `sync_returns_own_result` + `timeout_or_reason`.  Every return of a synchronous call `c` (event
`ret c o`, anywhere in the history) is one of:
* `o = value (result of c's own command)`, justified by an EARLIER invocation of c's callback with
  `(that result, SUCCESS)`;
* `o = raised e` with `e ≠ SUCCESS`, justified by an earlier invocation of c's callback with `(None, e)`;
* `o = timeout` ('Timeout'), and then the call is a sync call whose timeout is not `None`
  (the model takes that step only while the `AsyncResult` is not set: `Sys.timeoutStep`). -/
theorem sync_returns_own_result {m progs ro c0 ls s} (h : Run m progs ro c0 ls s)
    (pre post : List Ev) (c : CallId) (o : Outcome) (hs : s.hist = pre ++ Ev.ret c o :: post) :
    (o = .value (some (ro (.call c))) ∧ Ev.fired c (some (ro (.call c))) .success ∈ post) ∨
    (∃ e, e ≠ Fail.success ∧ o = .raised e ∧ Ev.fired c none e ∈ post) ∨
    (o = .timeout ∧ ∃ cmd tmo, ((progs.getD c.t [])[c.k]?).map planOf = some (.replicate cmd (.sync tmo))
        ∧ tmo.isSome = true) := by
  have hi := run_inv h
  rcases hi.retJust pre post c o hs with ⟨ho, cmd, tmo, hp, ht⟩ | ⟨r, e, hm, ho⟩
  · exact Or.inr (Or.inr ⟨ho, cmd, tmo, by rw [← (run_static h).2 c]; exact hp, ht⟩)
  · have hmem : Ev.fired c r e ∈ s.hist := by rw [hs]; simp [hm]
    have hr := callback_gets_own_result h c r e hmem
    by_cases he : e = .success
    · subst he
      simp only [↓reduceIte] at hr
      subst hr
      exact Or.inl ⟨by rw [ho]; rfl, hm⟩
    · simp only [he, ↓reduceIte] at hr
      subst hr
      exact Or.inr (Or.inl ⟨e, he, by rw [ho]; simp [outcomeOf, he], hm⟩)

/-- the value a sync call returns is the result of its own command -/
theorem sync_value_is_own {m progs ro c0 ls s} (h : Run m progs ro c0 ls s) (c : CallId) (v : Option Nat)
    (hm : Ev.ret c (.value v) ∈ s.hist) : v = some (ro (.call c)) := by
  obtain ⟨pre, post, hs⟩ := List.append_of_mem hm
  rcases sync_returns_own_result h pre post c _ hs with ⟨ho, _⟩ | ⟨e, _, ho, _⟩ | ⟨ho, _⟩
  · simpa using ho
  · simp at ho
  · simp at ho

/-- C11/C02 `pack_unpack`: for both decorators, a call that is not a local apply submits ONE command,
and the unpacking of `__doApplyCommand` followed by the wrapper's `_doApply` path hands the method body
exactly `(funcID, args, kwargs without the reserved names callback/sync/timeout/_doApply)` of the call —
whichever of the three tuple shapes was pickled.  `kwargs` is a Python dict: distinct keys. -/
theorem pack_unpack (sp : CallSpec) (hn : (kwKeys sp.kw).Nodup)
    (hd : ((kwGet "_doApply" sp.kw).getD (.bool false)).truthy = false) :
    ∃ cmd mode, planOf sp = .replicate cmd mode ∧
      received cmd.toVal = some (.int sp.func, sp.args, stripReserved sp.kw) :=
  planOf_received sp hn hd

/-- … and with `_doApply` truthy nothing is submitted: the body runs in the caller with the remaining
arguments. -/
theorem local_apply (sp : CallSpec) (hd : ((kwGet "_doApply" sp.kw).getD (.bool false)).truthy = true) :
    planOf sp = .localRun sp.args (kwDel "_doApply" sp.kw) := planOf_local sp hd

/-- capacity rule of `FastQueue` exactly as written (`len > maxSize ⇒ Full`): a put succeeds iff at most
`maxSize` items are queued, so the queue holds up to `maxSize + 1` items; `get` is `popleft`. -/
theorem fastqueue_rules {α : Type} (q : FastQueue α) (v : α) :
    (q.putNowait v = none ↔ q.items.length > q.maxSize) ∧
    (∀ q', q.putNowait v = some q' → q'.items = q.items ++ [v] ∧ q'.maxSize = q.maxSize) ∧
    (q.getNowait = none ↔ q.items = []) ∧
    (∀ x q', q.getNowait = some (x, q') → q.items = x :: q'.items ∧ q'.maxSize = q.maxSize) := by
  refine ⟨?_, ?_, ?_, ?_⟩
  · unfold FastQueue.putNowait; split <;> simp_all
  · intro q' h
    unfold FastQueue.putNowait at h
    split at h
    · simp at h
    · simp only [Option.some.injEq] at h; subst h; exact ⟨rfl, rfl⟩
  · unfold FastQueue.getNowait; split <;> simp_all
  · intro x q' h
    obtain ⟨rest, h1, rfl⟩ := getNowait_eq h
    exact ⟨h1, rfl⟩

/-! ## non-vacuity: concrete schedules that satisfy the hypotheses and reach every kind of outcome -/

def specSync : CallSpec := ⟨.replicatedSync (.int 5), 0, [.int 1], []⟩
def specCb : CallSpec := ⟨.replicated, 0, [], [("callback", .int 1)]⟩
def leaderEnv : Env := ⟨true, true, true, false, 2, 1⟩
def followerEnv : Env := ⟨true, false, true, false, 2, 1⟩

/-- queue limit 0: thread 0's sync call is enqueued, thread 1's call with a callback is refused
(QUEUE_FULL through its callback), the leader appends, the core answers SUCCESS, the sync call returns
the result of its own command. -/
example : ∃ s, Run 0 [[specSync], [specCb]] (fun _ => 7) 0
      [.call 0, .call 0, .call 1, .call 1, .tick leaderEnv, .answer 0 .success, .call 0] s ∧
    s.hist = [Ev.ret ⟨0, 0⟩ (.value (some 7)), .fired ⟨0, 0⟩ (some 7) .success,
      .appended (.call ⟨0, 0⟩) 2 1, .deq (.call ⟨0, 0⟩), .fired ⟨1, 0⟩ none .queueFull, .full ⟨1, 0⟩,
      .enq ⟨0, 0⟩] :=
  ⟨_, rfl, by decide⟩

/-- forwarded by a follower, the wait times out, the answer (a failure) arrives later: 'Timeout' first,
the late callback changes nothing the caller sees. -/
example : ∃ s, Run 3 [[specSync]] (fun _ => 7) 41
      [.call 0, .call 0, .tick followerEnv, .timeout 0, .answer 0 .leaderChanged] s ∧
    s.hist = [Ev.fired ⟨0, 0⟩ none .leaderChanged, .ret ⟨0, 0⟩ .timeout,
      .forwarded (.call ⟨0, 0⟩) (some 42), .deq (.call ⟨0, 0⟩), .enq ⟨0, 0⟩] :=
  ⟨_, rfl, by decide⟩

/-- a failure reason is raised -/
example : ∃ s, Run 3 [[specSync]] (fun _ => 7) 41
      [.call 0, .call 0, .tick ⟨false, false, false, false, 2, 1⟩, .call 0] s ∧
    s.hist = [Ev.ret ⟨0, 0⟩ (.raised .missingLeader), .fired ⟨0, 0⟩ none .missingLeader,
      .dropped (.call ⟨0, 0⟩) .missingLeader, .deq (.call ⟨0, 0⟩), .enq ⟨0, 0⟩] :=
  ⟨_, rfl, by decide⟩

/-- `pack_unpack` hypotheses are satisfiable with reserved names present and args that are tuples -/
example : (kwKeys ([("sync", .bool true), ("x", .tup [.int 1, .int 2]), ("timeout", .int 3)] : Kw)).Nodup ∧
    ((kwGet "_doApply" ([("sync", .bool true), ("x", .tup [.int 1, .int 2]), ("timeout", .int 3)] : Kw)).getD
      (.bool false)).truthy = false := by decide


/-! ## the wake-up pipe (`PipeNotifier`, repair D67)

`WRun m cap ro ls w`: `w` is the state after the steps `ls` (callers' `put` / `notify`, the tick
thread's `process k` = `_checkCommandsToApply` dequeuing up to `k` commands and `poll` = read the pipe
when it is readable), in ANY order, from the empty queue (limit `m`) and the empty pipe of capacity
`cap ≥ 1`; `ro = 0` is the code as it is (the pipe is read until empty), `ro = n > 0` a variant with
a single `os.read(fd, n)` per notification — the theorems hold for every `ro`, and for every answer of
the kernel to a write into a pipe that is neither empty nor full (`notify acc`). -/

def WRun (m cap : Nat) (ro : Nat) (ls : List WLabel) (w : Wake) : Prop := ((Wake.init m cap ro).run ls).1 = w

/-- (a) no step fails — in particular `notify` never raises, however far the tick thread is behind;
a `put` on a full queue is the only non-`ok` outcome (QUEUE_FULL, reported through the callback). -/
theorem pipe_no_step_fails (m cap : Nat) (ro : Nat) (ls : List WLabel) :
    ∀ o ∈ ((Wake.init m cap ro).run ls).2, o ≠ WOut.error := run_no_error _ ls

theorem pipe_notify_never_fails (w : Wake) (acc : Bool) : (w.step (.notify acc)).2 = .ok := by
  simp only [Wake.step, pipeNotify]; split <;> rfl

/-- the unrepaired `notify` fails exactly when the pipe is full (witness D67) -/
theorem pipe_notify_pinned_counterexample (cap : Nat) : (pipeNotifyPinned cap cap).2 = .error := by
  simp [pipeNotifyPinned]

/-- (b) the pipe never exceeds its capacity -/
theorem pipe_le_cap {m cap ro ls w} (hc : 0 < cap) (h : WRun m cap ro ls w) : w.pipe ≤ w.cap := by
  subst h; exact (winv_run (winv_init m cap ro hc) ls).pipeLe

/-- (c) no lost wake-up: when commands were put since the pipe was last read, the pipe is readable
(`poll` returns at once) — unless each of those puts is by a caller that has not yet reached its
`notify` (it will make the pipe readable).  With `put` and `notify` taken as one action (`owing = 0`):
a put since the last read ⇒ the pipe is readable. -/
theorem pipe_no_lost_wakeup {m cap ro ls w} (hc : 0 < cap) (h : WRun m cap ro ls w)
    (hf : w.owing < w.freshPuts) : 0 < w.pipe := by
  subst h
  have := (winv_run (winv_init m cap ro hc) ls).fresh
  by_cases hp : ((Wake.init m cap ro).run ls).1.pipe = 0
  · have := this hp; omega
  · omega

/-- (d) the tick thread goes to sleep in `poll` (pipe empty, nobody owes a `notify`) only when the queue
holds nothing but what `_checkCommandsToApply` itself decided to leave (time budget, waiting for a
leader): no command put by a caller is stranded. -/
theorem pipe_sleep_only_when_processed {m cap ro ls w} (hc : 0 < cap) (h : WRun m cap ro ls w)
    (hs : w.sleeps = true) : w.queue.items.length ≤ w.leftover := by
  subst h
  have hi := winv_run (winv_init m cap ro hc) ls
  simp only [Wake.sleeps, Bool.and_eq_true, beq_iff_eq] at hs
  obtain ⟨⟨h1, h2⟩, h3⟩ := hs
  have a := hi.fresh h2
  have b := hi.procFresh h1
  have c := hi.queueLe h1
  omega

/-- (d') reading the pipe and then processing the whole queue, with no further put, leaves it empty -/
theorem pipe_drain_process_empties (w : Wake) (k : Nat) (hk : w.queue.items.length ≤ k) :
    (((w.step .poll).1.step (.process k)).1).queue.items = [] := by
  have hq : (w.step .poll).1.queue = w.queue := by
    simp only [Wake.step]; split <;> rfl
  show ((w.step .poll).1.queue.items.drop k) = []
  rw [hq]
  exact List.drop_eq_nil_of_le hk

/-- non-vacuity: 3 × cap notifies against a pipe of capacity 2 while the tick thread is busy, then a
poll and a complete processing: nothing fails, the pipe saturates at 2, the tick thread may sleep and
the queue is empty. -/
example : ((Wake.init 10 2 0).run
      [.put 1, .notify true, .put 2, .notify true, .put 3, .notify true, .put 4, .notify true, .put 5, .notify true, .put 6, .notify true]).2
      = [.ok, .ok, .ok, .ok, .ok, .ok, .ok, .ok, .ok, .ok, .ok, .ok] ∧
    ((Wake.init 10 2 0).run
      [.put 1, .notify true, .put 2, .notify true, .put 3, .notify true, .put 4, .notify true, .put 5, .notify true, .put 6, .notify true]).1.pipe = 2 ∧
    ((Wake.init 10 2 0).run
      [.put 1, .notify true, .put 2, .notify true, .put 3, .notify true, .poll, .process 9]).1.sleeps = true ∧
    ((Wake.init 10 2 0).run
      [.put 1, .notify true, .put 2, .notify true, .put 3, .notify true, .poll, .process 9]).1.queue.items = [] := by decide

end PSO.C19
