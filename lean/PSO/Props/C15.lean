import PSO.Proofs.BatteriesRefine
import PSO.Proofs.BatteriesSpec
import PSO.Proofs.BatteriesChoice
/-!
# C15 — batteries behave like the Python containers they mimic, on every replica

`Repl*.step` is the battery method body (tree with D12 and D20 repaired), `Ref*.step` the mimicked
builtin given the same call (both executed by `driver batteries` and diffed against the real classes /
builtins on every check).  `runOps` applies an arbitrary operation sequence over ALL public methods
with arbitrary integer arguments, optional arguments present or omitted.

`ReplSet.pop` (D20 repaired, /repo 56b6cb5; D85, /repo d72ca52) removes `min(data, key=_valueKey)`: on ints the
element with the smallest `(type name, repr)`, i.e. the smallest decimal string, `PySet.minRepr` — a function of the
CONTENTS; for tuple / frozenset members see the D85 section below (key = sorted member keys: invariant under every
hash layout).  The reference
for `pop` is the `set` ABSTRACTION (`RefSet.step choose`: some member, chosen by a function of the
abstract set, is returned and exactly it is removed); the battery `ReplSet.step` is shown to be that
abstraction with `choose := PySet.minRepr`, hence replicas (also rebuilt from snapshots) are equal:
`C15_set_replicas_equal` is now a FULL statement.  `ReplSet.stepWith choose` (any rule) and the
counterexample are kept: they document why the old `self.__data.pop()` — whose choice is not a function
of the abstract set — made replicas diverge.
-/
namespace PSO.C15
open PSO.Py PSO.Batteries PSO.Py.PyHeap

/-! ## refinement: battery = builtin, for all operation sequences, results and contents -/

/-- ReplCounter ↔ `int`: same results (incl. the returned new value), same value held. -/
theorem C15_counter_refines_int (ops : List CounterOp) (s : ReplCounter.State) :
    (runOps ReplCounter.step s ops).2 = (runOps RefCounter.step s.counter ops).2 ∧
    (runOps ReplCounter.step s ops).1.counter = (runOps RefCounter.step s.counter ops).1 := by
  have := runOps_sim ReplCounter.step RefCounter.step (fun s c => s.counter = c)
    (fun s t o h => by subst h; exact counter_step s o) ops s s.counter rfl
  exact ⟨this.2, this.1⟩

/-- ReplList ↔ `list`: same results and error kinds (IndexError / ValueError / AssertionError),
same contents; `pop()` without argument = `list.pop()` (D12 repaired), `sort()` = `list.sort()`. -/
theorem C15_list_refines_list (ops : List ListOp) (s : ReplList.State) :
    (runOps ReplList.step s ops).2 = (runOps RefList.step s.data ops).2 ∧
    (runOps ReplList.step s ops).1.data = (runOps RefList.step s.data ops).1 := by
  have := runOps_sim ReplList.step RefList.step (fun s c => s.data = c)
    (fun s t o h => by subst h; exact list_step s o) ops s s.data rfl
  exact ⟨this.2, this.1⟩

/-- ReplDict ↔ `dict` (insertion ordered): same results (KeyError, defaults of `pop`/`get`), same items
in the same order. -/
theorem C15_dict_refines_dict (ops : List DictOp) (s : ReplDict.State) :
    (runOps ReplDict.step s ops).2 = (runOps RefDict.step s.data ops).2 ∧
    (runOps ReplDict.step s ops).1.data = (runOps RefDict.step s.data ops).1 := by
  have := runOps_sim ReplDict.step RefDict.step (fun s c => s.data = c)
    (fun s t o h => by subst h; exact dict_step s o) ops s s.data rfl
  exact ⟨this.2, this.1⟩

/-- ReplSet (with ANY rule `choose` for `pop`) ↔ the `set` abstraction with the same rule. -/
theorem C15_set_refines_set_any_choice (choose : PySet.S → Int) (ops : List SetOp) (s : ReplSet.State) :
    (runOps (ReplSet.stepWith choose) s ops).2 = (runOps (RefSet.step choose) s.data ops).2 ∧
    (runOps (ReplSet.stepWith choose) s ops).1.data = (runOps (RefSet.step choose) s.data ops).1 := by
  have := runOps_sim (ReplSet.stepWith choose) (RefSet.step choose) (fun s c => s.data = c)
    (fun s t o h => by subst h; exact set_step choose s o) ops s s.data rfl
  exact ⟨this.2, this.1⟩

/-- ReplSet as implemented ↔ `set`: same results (KeyError of `remove`/`pop`, AssertionError of `reset`)
and same contents for all operation sequences; `pop` returns a member, removes exactly it (see
`C15_set_laws`), and the member is the one with the smallest `repr` (`C15_set_pop_choice`). -/
theorem C15_set_refines_set (ops : List SetOp) (s : ReplSet.State) :
    (runOps ReplSet.step s ops).2 = (runOps (RefSet.step PySet.minRepr) s.data ops).2 ∧
    (runOps ReplSet.step s ops).1.data = (runOps (RefSet.step PySet.minRepr) s.data ops).1 := by
  rw [set_step_funext]; exact C15_set_refines_set_any_choice PySet.minRepr ops s

/-- the implemented choice: a member of the set with the smallest `repr` key (Python string order on
the decimal representation); the method body equals the generic battery with that rule. -/
theorem C15_set_pop_choice (s : PySet.S) (h : s ≠ []) :
    PySet.minRepr s ∈ s ∧ (∀ y ∈ s, ¬ PySet.reprKey y < PySet.reprKey (PySet.minRepr s)) ∧
    ReplSet.step = ReplSet.stepWith PySet.minRepr :=
  ⟨minRepr_mem s h, minRepr_min s, set_step_funext⟩

example : PySet.minRepr [-2, -1, 2, 10, 100] = -1 ∧ PySet.minRepr [2, 10, 100] = 10 := by decide

/-- ReplQueue(maxsize) ↔ `queue.Queue(maxsize)` (non-blocking calls, `Full` ↦ `False`, `Empty` ↦
default): same results incl. `full()` for `maxsize = 0` (D12 repaired), same contents and bound. -/
theorem C15_queue_refines_fifo (ops : List QueueOp) (s : ReplQueue.State) :
    (runOps ReplQueue.step s ops).2 = (runOps RefQueue.step ⟨s.maxsize, s.data⟩ ops).2 ∧
    (runOps ReplQueue.step s ops).1.data = (runOps RefQueue.step ⟨s.maxsize, s.data⟩ ops).1.data ∧
    (runOps ReplQueue.step s ops).1.maxsize = (runOps RefQueue.step ⟨s.maxsize, s.data⟩ ops).1.maxsize := by
  have := runOps_sim ReplQueue.step RefQueue.step QRel queue_step ops s ⟨s.maxsize, s.data⟩ ⟨rfl, rfl⟩
  exact ⟨this.2, this.1.2, this.1.1⟩

/-- ReplPriorityQueue(maxsize) (the transcribed `heapq` sift loops on an array) ↔ the abstract
bounded priority queue (ascending list: `put` inserts, `get` takes the smallest): from any heap,
same results for every operation sequence; the array stays a heap and a permutation of the abstract
contents. -/
theorem C15_pq_refines_heap (ops : List QueueOp) (s : ReplPriorityQueue.State) (q : PyQueue.Q)
    (h : PQRel s q) :
    (runOps ReplPriorityQueue.step s ops).2 = (runOps RefPQ.step q ops).2 ∧
    PQRel (runOps ReplPriorityQueue.step s ops).1 (runOps RefPQ.step q ops).1 := by
  have := runOps_sim ReplPriorityQueue.step RefPQ.step PQRel pq_step ops s q h
  exact ⟨this.2, this.1⟩

/-- … in particular from the freshly constructed queue, for every `maxsize` (also omitted). -/
theorem C15_pq_refines_heap_init (ops : List QueueOp) (maxsize : Option Nat) :
    (runOps ReplPriorityQueue.step (ReplPriorityQueue.init maxsize) ops).2 =
      (runOps RefPQ.step ⟨maxsize.getD 0, []⟩ ops).2 :=
  (C15_pq_refines_heap ops _ _ ⟨rfl, fun _ _ h => absurd h (Nat.not_lt_zero _), List.Perm.refl _,
    List.Pairwise.nil⟩).1

/-- non-vacuity of `PQRel`: a heap that is not sorted, related to its sorted contents -/
example : PQRel ⟨3, [1, 5, 2]⟩ ⟨3, [1, 2, 5]⟩ := by
  refine ⟨rfl, ?_, by decide, by decide⟩
  intro i h0 hl
  have : i = 1 ∨ i = 2 := by simp at hl; omega
  rcases this with rfl | rfl <;> decide

/-! ## heap, FIFO, bounds -/

/-- `heappop` (CPython's algorithm) on a non-empty heap returns a minimum, removes exactly one
occurrence of it (`a` is a permutation of `x :: r`) and leaves a heap; `heappush` keeps the heap
and adds exactly the item.  Proved for the transcribed `_siftdown`/`_siftup` loops themselves. -/
theorem C15_heap_min (a : List Int) (hne : a ≠ []) (h : IsHeap a) :
    ∃ x r, heappop a = .ok (x, r) ∧ (∀ y ∈ a, x ≤ y) ∧ a.Perm (x :: r) ∧ IsHeap r := by
  obtain ⟨x, r, h1, _, h3, h4, h5⟩ := heappop_spec a hne h
  exact ⟨x, r, h1, h3, h4, h5⟩

theorem C15_heap_push (a : List Int) (x : Int) (h : IsHeap a) :
    IsHeap (heappush a x) ∧ (heappush a x).Perm (x :: a) :=
  ⟨heappush_isHeap a x h, heappush_perm a x⟩

example : IsHeap [1, 5, 2, 7] ∧ ([1, 5, 2, 7] : List Int) ≠ [] := by
  refine ⟨?_, by decide⟩
  intro i h0 hl
  have : i = 1 ∨ i = 2 ∨ i = 3 := by simp at hl; omega
  rcases this with rfl | rfl | rfl <;> decide

/-- `ReplPriorityQueue.get` on a reachable (heap) state: the default iff empty, else a minimum of
the contents, of which exactly one occurrence is removed. -/
theorem C15_pq_get_min (s : ReplPriorityQueue.State) (d : Option Int) (h : IsHeap s.data) :
    (s.data = [] ∧ ReplPriorityQueue.step s (.get d) = (s, .ok (optVal d))) ∨
    (∃ x, (ReplPriorityQueue.step s (.get d)).2 = .ok (.int x) ∧ (∀ y ∈ s.data, x ≤ y) ∧
      s.data.Perm (x :: (ReplPriorityQueue.step s (.get d)).1.data) ∧
      IsHeap (ReplPriorityQueue.step s (.get d)).1.data) := by
  by_cases he : s.data = []
  · left; refine ⟨he, ?_⟩; simp [ReplPriorityQueue.step, he]
  · right
    obtain ⟨x, r, h1, _, h3, h4, h5⟩ := heappop_spec s.data he h
    have hemp : s.data.isEmpty = false := by cases hs : s.data <;> simp_all
    refine ⟨x, ?_, h3, ?_, ?_⟩ <;> simp only [ReplPriorityQueue.step, hemp, h1] <;> first | rfl | assumption

/-- FIFO: initial contents followed by the items accepted by `put` (in call order) = the items
returned by `get` on a non-empty queue (in call order) followed by the final contents. -/
theorem C15_fifo_order (ops : List QueueOp) (s : ReplQueue.State) :
    s.data ++ accepted s ops = delivered s ops ++ (runOps ReplQueue.step s ops).1.data :=
  fifo_order ops s

/-- `maxsize > 0 → size ≤ maxsize` is preserved by every operation sequence, and `maxsize` never
changes (both queues). -/
theorem C15_bounded (ops : List QueueOp) (s : ReplQueue.State) (h : 0 < s.maxsize → s.data.length ≤ s.maxsize) :
    (runOps ReplQueue.step s ops).1.maxsize = s.maxsize ∧
    (0 < s.maxsize → (runOps ReplQueue.step s ops).1.data.length ≤ s.maxsize) := by
  have h1 := runOps_inv ReplQueue.step (fun t => t.maxsize = s.maxsize)
    (fun t o ht => by rw [queue_step_maxsize]; exact ht) ops s rfl
  have h2 := runOps_inv ReplQueue.step QBounded queue_step_bounded ops s h
  exact ⟨h1, fun hm => by have := h2 (by rw [h1]; exact hm); rwa [h1] at this⟩

theorem C15_bounded_pq (ops : List QueueOp) (s : ReplPriorityQueue.State)
    (h : 0 < s.maxsize → s.data.length ≤ s.maxsize) :
    (runOps ReplPriorityQueue.step s ops).1.maxsize = s.maxsize ∧
    (0 < s.maxsize → (runOps ReplPriorityQueue.step s ops).1.data.length ≤ s.maxsize) := by
  have h1 := runOps_inv ReplPriorityQueue.step (fun t => t.maxsize = s.maxsize)
    (fun t o ht => by rw [pq_step_maxsize]; exact ht) ops s rfl
  have h2 := runOps_inv ReplPriorityQueue.step PQBounded pq_step_bounded ops s h
  exact ⟨h1, fun hm => by have := h2 (by rw [h1]; exact hm); rwa [h1] at this⟩

/-- the hypothesis of `C15_bounded*` holds of every freshly constructed queue -/
example (m : Option Nat) : 0 < (ReplQueue.init m).maxsize → (ReplQueue.init m).data.length ≤ (ReplQueue.init m).maxsize :=
  fun _ => Nat.zero_le _
example : (runOps ReplQueue.step (ReplQueue.init (some 1)) [.put 4, .put 5, .full]).2 =
    [.ok (.bool true), .ok (.bool false), .ok (.bool true)] := by decide

/-! ## replicas -/

/-- `_deserialize(_serialize(s))` into ANY existing instance of the class reproduces `s` exactly
(including `maxsize` and the heap layout), pickle being the identity on the attribute values. -/
theorem C15_serialize_roundtrip :
    (∀ s f, ReplCounter.deserialize (ReplCounter.serialize s) f = s) ∧
    (∀ s f, ReplList.deserialize (ReplList.serialize s) f = s) ∧
    (∀ s f, ReplDict.deserialize (ReplDict.serialize s) f = s) ∧
    (∀ s f, ReplSet.deserialize (ReplSet.serialize s) f = s) ∧
    (∀ s f, ReplQueue.deserialize (ReplQueue.serialize s) f = s) ∧
    (∀ s f, ReplPriorityQueue.deserialize (ReplPriorityQueue.serialize s) f = s) :=
  ⟨counter_roundtrip, list_roundtrip, dict_roundtrip, set_roundtrip, queue_roundtrip, pq_roundtrip⟩

/-- Replica A applies `ops1 ++ ops2`; replica B installs A's snapshot taken after `ops1` into a fresh
instance `f` and applies `ops2`: B ends in A's state and computed A's results for `ops2`.  Generic in
the battery: `step` deterministic (it is a function), `restore` a left inverse of `snap`. -/
theorem C15_replicas_equal_generic {σ ο κ : Type} (step : σ → ο → σ × Res) (snap : σ → κ) (restore : κ → σ → σ)
    (rt : ∀ s f, restore (snap s) f = s) (s0 f : σ) (ops1 ops2 : List ο) :
    let a := runOps step s0 (ops1 ++ ops2)
    let b := runOps step (restore (snap (runOps step s0 ops1).1) f) ops2
    b.1 = a.1 ∧ a.2 = (runOps step s0 ops1).2 ++ b.2 := by
  simp only [rt, runOps_append, and_self]

theorem C15_replicas_equal :
    (∀ s0 f ops1 ops2, (runOps ReplCounter.step (ReplCounter.deserialize (ReplCounter.serialize (runOps ReplCounter.step s0 ops1).1) f) ops2).1
        = (runOps ReplCounter.step s0 (ops1 ++ ops2)).1) ∧
    (∀ s0 f ops1 ops2, (runOps ReplList.step (ReplList.deserialize (ReplList.serialize (runOps ReplList.step s0 ops1).1) f) ops2).1
        = (runOps ReplList.step s0 (ops1 ++ ops2)).1) ∧
    (∀ s0 f ops1 ops2, (runOps ReplDict.step (ReplDict.deserialize (ReplDict.serialize (runOps ReplDict.step s0 ops1).1) f) ops2).1
        = (runOps ReplDict.step s0 (ops1 ++ ops2)).1) ∧
    (∀ s0 f ops1 ops2, (runOps ReplQueue.step (ReplQueue.deserialize (ReplQueue.serialize (runOps ReplQueue.step s0 ops1).1) f) ops2).1
        = (runOps ReplQueue.step s0 (ops1 ++ ops2)).1) ∧
    (∀ s0 f ops1 ops2, (runOps ReplPriorityQueue.step (ReplPriorityQueue.deserialize (ReplPriorityQueue.serialize (runOps ReplPriorityQueue.step s0 ops1).1) f) ops2).1
        = (runOps ReplPriorityQueue.step s0 (ops1 ++ ops2)).1) :=
  ⟨fun s0 f o1 o2 => (C15_replicas_equal_generic _ _ _ counter_roundtrip s0 f o1 o2).1,
   fun s0 f o1 o2 => (C15_replicas_equal_generic _ _ _ list_roundtrip s0 f o1 o2).1,
   fun s0 f o1 o2 => (C15_replicas_equal_generic _ _ _ dict_roundtrip s0 f o1 o2).1,
   fun s0 f o1 o2 => (C15_replicas_equal_generic _ _ _ queue_roundtrip s0 f o1 o2).1,
   fun s0 f o1 o2 => (C15_replicas_equal_generic _ _ _ pq_roundtrip s0 f o1 o2).1⟩

/-- FULL statement for ReplSet (D20 repaired): replica A applies `ops1 ++ ops2`; replica B installs A's
snapshot taken after `ops1` into any instance `f` and applies `ops2`: B ends in A's state (same contents)
and returned A's results for `ops2` — including every `pop`. -/
theorem C15_set_replicas_equal (s0 f : ReplSet.State) (ops1 ops2 : List SetOp) :
    let a := runOps ReplSet.step s0 (ops1 ++ ops2)
    let b := runOps ReplSet.step (ReplSet.deserialize (ReplSet.serialize (runOps ReplSet.step s0 ops1).1) f) ops2
    b.1 = a.1 ∧ a.2 = (runOps ReplSet.step s0 ops1).2 ++ b.2 :=
  C15_replicas_equal_generic _ _ _ set_roundtrip s0 f ops1 ops2

/-- the same for every rule by which `pop` might choose AS A FUNCTION OF THE ABSTRACT SET (used on both
replicas): what any repair of D20 has to provide, and what `set.pop()` did not. -/
theorem C15_set_replicas_equal_any_choice (choose : PySet.S → Int) (s0 f : ReplSet.State) (ops1 ops2 : List SetOp) :
    let a := runOps (ReplSet.stepWith choose) s0 (ops1 ++ ops2)
    let b := runOps (ReplSet.stepWith choose) (ReplSet.deserialize (ReplSet.serialize (runOps (ReplSet.stepWith choose) s0 ops1).1) f) ops2
    b.1 = a.1 ∧ a.2 = (runOps (ReplSet.stepWith choose) s0 ops1).2 ++ b.2 :=
  C15_replicas_equal_generic _ _ _ set_roundtrip s0 f ops1 ops2

/-- Why the code before 56b6cb5 failed (kept as documentation; witness
`harness/witness/d20_replset_pop_layout.py` trips on the parent commit): when the two replicas do NOT
choose by one function of the abstract set — both choices legal (always a member) but different, as
CPython's `set.pop()` after a snapshot rebuild — they diverge on `add 1; add 8; pop` in result and contents. -/
theorem C15_set_replicas_equal_counterexample :
    ∃ (chooseA chooseB : PySet.S → Int),
      (∀ s, s ≠ [] → chooseA s ∈ s) ∧ (∀ s, s ≠ [] → chooseB s ∈ s) ∧
      ∃ ops, (runOps (ReplSet.stepWith chooseA) ReplSet.init ops).2 ≠ (runOps (ReplSet.stepWith chooseB) ReplSet.init ops).2 ∧
             (runOps (ReplSet.stepWith chooseA) ReplSet.init ops).1 ≠ (runOps (ReplSet.stepWith chooseB) ReplSet.init ops).1 := by
  refine ⟨fun s => s.headD 0, fun s => s.getLastD 0, ?_, ?_, [.add 1, .add 8, .pop], by decide, by decide⟩
  · intro s hs; cases s with
    | nil => exact absurd rfl hs
    | cons a t => simp
  · intro s hs
    cases s with
    | nil => exact absurd rfl hs
    | cons a t => simp only [List.getLastD_cons]; exact List.getLastD_mem_cons ..

/-! ## `ReplSet.pop` beyond ints (repair D85): the member removed is a function of the SET of values

Members: ints, atoms (type name + repr), tuples, frozensets given by an ENUMERATION (the iteration order of their own
hash table).  `PySet.valueKey` transcribes `batteries._valueKey`, `PySet.Key.lt` Python's `<` on those keys,
`PySet.chooseMember`/`chooseIdx` = `min(enumeration, key=_valueKey)` (diffed against the real `ReplSet.pop` on sets of
such members by `corr.batteries_mixed`, driver class `members`). -/

/-- Python's `<` on the keys is a strict total order (irreflexive, transitive, and two keys neither of which is
smaller are EQUAL), so `min` and `sorted` are well defined whatever the iteration order. -/
theorem C15_set_member_key_order_strict_total : PySet.StrictTotal PySet.Key.lt := PySet.Key.lt_strictTotal

/-- the key of a frozenset member depends only on the multiset of its members' keys — not on the iteration order of
its own hash table (which differs between a value received through the log and the same value restored from a
snapshot: the defect D85), nor on the layouts of nested set-valued members; tuples: only on the members' keys. -/
theorem C15_set_member_key_layout_invariant (l l' : List PySet.Member) :
    ((l.map PySet.valueKey).Perm (l'.map PySet.valueKey) → PySet.valueKey (.fset l) = PySet.valueKey (.fset l')) ∧
    (l.Perm l' → PySet.valueKey (.fset l) = PySet.valueKey (.fset l')) ∧
    (l.map PySet.valueKey = l'.map PySet.valueKey → PySet.valueKey (.tup l) = PySet.valueKey (.tup l')) :=
  ⟨PySet.valueKey_fset_congr l l', fun hp => PySet.valueKey_fset_congr l l' (hp.map _), PySet.valueKey_tup_congr l l'⟩

/-- the instance of D85: 45 and 53 enumerated either way give one key; `frozenset({50})` does not sort between -/
example : PySet.Key.cmp (PySet.valueKey (.fset [.int 45, .int 53])) (PySet.valueKey (.fset [.int 53, .int 45])) = .eq ∧
    PySet.chooseIdx [.fset [.int 53, .int 45], .fset [.int 50]] = some 0 ∧
    PySet.chooseIdx [.fset [.int 50], .fset [.int 45, .int 53]] = some 1 := by decide

/-- invariance under the hash layout of the SET: any two enumerations of the same members (keys distinguishing them)
yield the same member. -/
theorem C15_set_pop_choice_layout_invariant (l l' : List PySet.Member)
    (hinj : ∀ x ∈ l, ∀ y ∈ l, PySet.valueKey x = PySet.valueKey y → x = y) (hsame : ∀ x, x ∈ l ↔ x ∈ l') :
    PySet.chooseMember l = PySet.chooseMember l' :=
  PySet.pickMinBy_enum_invariant PySet.Key.lt PySet.Key.lt_strictTotal PySet.valueKey l l' hinj hsame

/-- replicas: two sets holding the same VALUES (the same keys) — whatever the insertion order, the hash layout of the
sets and the layouts of their set-valued members (log vs. snapshot) — choose members with the same key, i.e. the same
value.  The chosen member is a member, and no member has a smaller key. -/
theorem C15_set_pop_choice_value_invariant (l l' : List PySet.Member)
    (hsame : ∀ k, k ∈ l.map PySet.valueKey ↔ k ∈ l'.map PySet.valueKey) :
    (PySet.chooseMember l).map PySet.valueKey = (PySet.chooseMember l').map PySet.valueKey ∧
    (l ≠ [] → ∃ m, PySet.chooseMember l = some m ∧ m ∈ l ∧ ∀ y ∈ l, PySet.Key.lt (PySet.valueKey y) (PySet.valueKey m) = false) :=
  ⟨PySet.chooseMember_key_invariant l l' hsame,
   fun hne => PySet.pickMinBy_spec PySet.Key.lt PySet.Key.lt_strictTotal PySet.valueKey l hne⟩

/-- non-vacuity: two different enumerations (outer order and the frozenset's own order) of the same values -/
example : (∀ k, k ∈ [PySet.Member.fset [.int 53, .int 45], .fset [.int 50]].map PySet.valueKey ↔
                 k ∈ [PySet.Member.fset [.int 50], .fset [.int 45, .int 53]].map PySet.valueKey) := by
  have e : PySet.valueKey (.fset [.int 53, .int 45]) = PySet.valueKey (.fset [.int 45, .int 53]) :=
    PySet.valueKey_fset_congr _ _ (by simpa using List.Perm.swap _ _ [])
  intro k; simp only [List.map_cons, List.map_nil, List.mem_cons, List.not_mem_nil, or_false, e]
  constructor <;> (rintro (h | h) <;> simp [h])

/-! ## the container specifications mean what they say (they are additionally diffed against the real
builtins on every check) -/

/-- `list.sort(reverse=r)`: a permutation of the list, ascending (`r = False`, also the default) or
descending (`r = True`). -/
theorem C15_list_sort_spec (l : List Int) (reverse : Bool) :
    (PyList.sort l reverse).Perm l ∧
    (reverse = false → (PyList.sort l reverse).Pairwise (· ≤ ·)) ∧
    (reverse = true → (PyList.sort l reverse).Pairwise (· ≥ ·)) :=
  sort_spec l reverse

/-- the dict representation is a finite map: keys stay distinct under every operation sequence … -/
theorem C15_dict_keys_distinct (ops : List DictOp) (s : ReplDict.State) (h : (PyDict.keys s.data).Nodup) :
    (PyDict.keys (runOps ReplDict.step s ops).1.data).Nodup :=
  runOps_inv ReplDict.step DictWF dict_step_wf ops s h

example : (PyDict.keys ReplDict.init.data).Nodup := List.nodup_nil

/-- … `d[k] = v` changes the value of `k` only, and (with distinct keys) deleting `k` removes `k` only. -/
theorem C15_dict_map_laws (d : PyDict.D) (k v k' : Int) :
    PyDict.lookup (PyDict.setitem d k v) k' = (if k' = k then some v else PyDict.lookup d k') ∧
    ((PyDict.keys d).Nodup →
      PyDict.lookup (PyDict.delete d k) k' = (if k' = k then none else PyDict.lookup d k')) :=
  ⟨lookup_setitem d k v k', lookup_delete d k k'⟩

/-- the set representation stays canonical (strictly increasing) under every operation sequence and
every choice made by `pop`, and canonical representations with the same members are EQUAL — so
"same contents" is equality of states and a function of the state is a function of the abstract set. -/
theorem C15_set_canonical_any_choice (choose : PySet.S → Int) (ops : List SetOp) (s : ReplSet.State)
    (h : s.data.Pairwise (· < ·)) :
    (runOps (ReplSet.stepWith choose) s ops).1.data.Pairwise (· < ·) ∧
    (∀ t : PySet.S, t.Pairwise (· < ·) → (∀ x, x ∈ (runOps (ReplSet.stepWith choose) s ops).1.data ↔ x ∈ t) →
      (runOps (ReplSet.stepWith choose) s ops).1.data = t) := by
  have hw := runOps_inv (ReplSet.stepWith choose) (fun s => SetWF s.data) (set_step_wf choose) ops s h
  exact ⟨hw, fun t ht hm => set_ext _ t hw ht hm⟩

/-- … in particular for the battery as implemented. -/
theorem C15_set_canonical (ops : List SetOp) (s : ReplSet.State) (h : s.data.Pairwise (· < ·)) :
    (runOps ReplSet.step s ops).1.data.Pairwise (· < ·) ∧
    (∀ t : PySet.S, t.Pairwise (· < ·) → (∀ x, x ∈ (runOps ReplSet.step s ops).1.data ↔ x ∈ t) →
      (runOps ReplSet.step s ops).1.data = t) := by
  rw [set_step_funext]; exact C15_set_canonical_any_choice PySet.minRepr ops s h

example : ReplSet.init.data.Pairwise (· < ·) := List.Pairwise.nil

/-- finite-set laws of the representation: `add`, `update`, `discard`/`remove`, `pop`. -/
theorem C15_set_laws (s : PySet.S) (h : s.Pairwise (· < ·)) (x y : Int) (o : List Int) (choose : PySet.S → Int) :
    (y ∈ PySet.add x s ↔ y = x ∨ y ∈ s) ∧
    (y ∈ PySet.update s o ↔ y ∈ s ∨ y ∈ o) ∧
    (y ∈ PySet.discard s x ↔ y ≠ x ∧ y ∈ s) ∧
    (s ≠ [] → ∃ e r, PySet.pop choose s = .ok (e, r) ∧ e ∈ s ∧ ∀ z, z ∈ r ↔ z ≠ e ∧ z ∈ s) :=
  ⟨mem_add x y s, mem_update s o y, mem_erase_wf s x y h, set_pop_spec choose s h⟩

end PSO.C15
