import PSO.Proofs.RaftDemo
import PSO.Proofs.BridgeRestart
import PSO.Proofs.BridgeRestartIdem

/-!
# C06 — a journaled node restarts without forgetting anything it acknowledged (protocol level)

The byte level (the journal file reopens to the same entries after a kill at any primitive write;
the dump file is never torn) is `PSO.C08` and `PSO.C09`.  Here: the protocol consequences, for every
execution of `PSO.Raft.step` with any number of `restart` actions (all nodes at once included).
That the implementation's kill + restart IS the action `restart n c a` (same log, term and vote,
`c ≤ commit`, `a ≤ c`) at every kill point — between two events, right after a send, between two
storage writes — is what `harness/corr/restart_schedules.py` and `restart_crashpoints.py` test on the
real code.  The three implementation defects that broke it are repaired in /repo (see the `fixed:`
list of known_findings.json / DESIGN.md): D14 (restart on an untrimmed journal cleared it, 65aa36f),
D15 (head drop of the journal was not kill-safe, 4be213c: the kept entries go to a new file that
replaces the journal in one step) and D17 (journal without dump file + compaction: nothing applied
after a restart, 410e23b: such a journal gets a dump file next to it).  No exception is left open.
-/
namespace PSO.C06
open PSO.Raft

/-- A restart keeps the whole log: every entry the node had acknowledged to a leader, or held as a
leader, is still there. -/
theorem restart_keeps_log {N : Nat} {s s' : State} {n c a : Nat}
    (hs : step N s (.restart n c a) = some s') : (s'.nodes n).log = (s.nodes n).log := by
  simp only [step] at hs
  split at hs
  · injection hs with hs; subst hs; simp
  · cases hs

/-- What a follower acknowledged in its current term it still holds — in every reachable state, so
also right after any restart: its log agrees with the leader's log of that term up to the
acknowledged position. -/
theorem acknowledged_prefix_is_held {N : Nat} {s : State} (h : Reachable N s) (n : Nat)
    (hpos : 0 < s.g.acked (s.nodes n).term n) :
    (s.nodes n).log.take (s.g.acked (s.nodes n).term n + 1) =
      (s.g.termLog (s.nodes n).term).take (s.g.acked (s.nodes n).term n + 1) :=
  (inv_reachable h).s.acked_cur n hpos

/-- The recovered commit and applied positions are ones that were reached before (never beyond), and
what is re-applied after the restart is the committed prefix again: the applied sequence after any
later sequence of steps is a prefix of every other node's committed sequence or vice versa — no entry
is applied at a different position than before, none is skipped. -/
theorem replay_agrees_with_everything_committed {N : Nat} {s1 s2 : State} {as : List Action}
    (h1 : Reachable N s1) (hr : run N s1 as = some s2) (a b p : Nat)
    (hpa : p ≤ (s1.nodes a).commit) (hpb : p ≤ (s2.nodes b).applied) :
    (s1.nodes a).log[p]? = (s2.nodes b).log[p]? :=
  committed_agree h1 hr a b p hpa (Nat.le_trans hpb ((inv_run (inv_reachable h1) hr).a b))

/-- A command acknowledged with SUCCESS (applied at position `p` on node `a`) survives any sequence
of kills and restarts: every node that later reports position `p` committed holds the same entry … -/
theorem success_survives_restarts {N : Nat} {s1 s2 : State} {as : List Action}
    (h1 : Reachable N s1) (hr : run N s1 as = some s2) (a b p : Nat)
    (hpa : p ≤ (s1.nodes a).applied) (hpb : p ≤ (s2.nodes b).commit) :
    (s1.nodes a).log[p]? = (s2.nodes b).log[p]? :=
  committed_agree h1 hr a b p (Nat.le_trans hpa ((inv_reachable h1).a a)) hpb

/-- … and every later leader whose term is not below the acknowledging node's holds it. -/
theorem success_held_by_later_leaders {N : Nat} {s1 s2 : State} {as : List Action}
    (h1 : Reachable N s1) (hr : run N s1 as = some s2) {a l : Nat} (hl : (s2.nodes l).role = .leader)
    (ht : (s1.nodes a).term ≤ (s2.nodes l).term) :
    (s1.nodes a).log.take ((s1.nodes a).commit + 1) <+: (s2.nodes l).log := by
  have i1 := inv_reachable h1
  exact leader_holds_committed (reachable_of_run h1 hr) hl (cmt_later (run_ghost_mono i1 hr) (i1.s.C1 a)) ht

/-- The restart itself: commit and applied fall back to earlier values, never forward. -/
theorem restart_indices {N : Nat} {s s' : State} {n c a : Nat}
    (hs : step N s (.restart n c a) = some s') :
    (s'.nodes n).applied ≤ (s'.nodes n).commit ∧ (s'.nodes n).commit ≤ (s.nodes n).commit := by
  simp only [step] at hs
  split at hs
  · rename_i hg; injection hs with hs; subst hs; simpa using hg
  · cases hs

/-- Non-vacuity: restart every node of the demo run at once; the run is an execution and the
committed entry at position 2 (command 7) is still on node 0. -/
example : ∃ s, Reachable 3 s ∧ (s.nodes 0).role = .follower ∧ (s.nodes 1).role = .follower ∧
    (s.nodes 0).log[2]? = some ⟨1, 7⟩ := by
  have h : ((run 3 init (demoActs ++ [.restart 0 0 0, .restart 1 2 2, .restart 2 0 0])).map
      (fun s => (decide ((s.nodes 0).role = .follower), decide ((s.nodes 1).role = .follower),
        (s.nodes 0).log[2]?))) = some (true, true, some ⟨1, 7⟩) := by
    decide +kernel
  cases hr : run 3 init (demoActs ++ [.restart 0 0 0, .restart 1 2 2, .restart 2 0 0]) with
  | none => rw [hr] at h; cases h
  | some s =>
    rw [hr] at h; simp at h
    exact ⟨s, reachable_iff_run.mpr ⟨_, hr⟩, h.1, h.2.1, h.2.2⟩

/-- **The implementation's kill + start IS the action `restart`** (handler level, proved; `PSO/Proofs/BridgeRestart.lean`).
`NodeSend.restartNode s sc dump` = `SyncObj.__init__` on the node's journal file followed by the first tick's
`__loadDumpFile(clearJournal=False)` (correspondence-tested on the real class: op `restartnode` of
`corr.nodesend_handlers`).  If the journal holds the dump's two entries (`DumpHeld`; D14/D60), the stored commit index
and the dump's index are not beyond what the node had reached, then `restart n c a` with
`c = max sc lastApplied' − 1`, `a = lastApplied' − 1` is enabled and yields exactly the abstraction of the restarted
node; no other node and no message changes. -/
theorem restart_handler_refines (x : PSO.NodeSend.Extra) (s : PSO.NodeSend.Node) (sc : Nat)
    (dump : Option (PSO.NodeSend.Entry × PSO.NodeSend.Entry)) (ghost : List Entry)
    (hheld : ∀ p l, dump = some (p, l) → PSO.Bridge.DumpHeld s.log p l)
    (hsc : sc ≤ max s.commit s.lastApplied)
    (hdump : ∀ p l, dump = some (p, l) → l.idx ≤ max s.commit s.lastApplied)
    (N n : Nat) (S : State) (habs : S.nodes n = PSO.Bridge.absNodeM ghost x s) :
    ∃ S', step N S (.restart n (max sc (PSO.NodeSend.restartNode s sc dump).lastApplied - 1)
              ((PSO.NodeSend.restartNode s sc dump).lastApplied - 1)) = some S' ∧
      S'.nodes n = PSO.Bridge.absNodeM (PSO.Bridge.restartGhost ghost s dump) (PSO.NodeSend.restartExtra x)
        (PSO.NodeSend.restartNode s sc dump) ∧
      (∀ j, j ≠ n → S'.nodes j = S.nodes j) ∧ S'.msgs = S.msgs := by
  exact PSO.Bridge.restart_refines x s sc dump ghost hheld hsc hdump N n S habs

/-- Non-vacuity: the hypotheses hold for the 3-voter leader killed with a dump at index 3 and stored commit 2. -/
example : ∃ S', step 3 PSO.Bridge.exStateR (.restart 0 2 2) = some S' ∧ (S'.nodes 0).applied = 2 ∧
    (S'.nodes 0).log = (PSO.Bridge.exStateR.nodes 0).log := by
  obtain ⟨S', h1, h2, _, _⟩ := restart_handler_refines PSO.Bridge.exExtraR PSO.Bridge.exLeaderR 2
    (some (PSO.Bridge.exLogS[1]!, PSO.Bridge.exLogS[2]!)) []
    (by intro p l h; cases h; unfold PSO.Bridge.DumpHeld; decide) (by decide) (by intro p l h; cases h; decide)
    3 0 PSO.Bridge.exStateR rfl
  refine ⟨S', h1, ?_⟩
  rw [h2]
  decide

/-- **A kill during (or right after) the start-up loses nothing more**: starting again on the files the first start
left behind — the journal `(restartNode s sc dump).log`, the same meta and the same dump file — yields the same node.
No hypothesis on the journal: it holds in the `DumpHeld` branch and in the branch where the dump replaces the journal
(`PSO/Proofs/BridgeRestartIdem.lean`; `restartNode` is compared with the real start-up by `corr.restart_handler`). -/
theorem restart_twice_is_restart_once (s : PSO.NodeSend.Node) (sc : Nat)
    (dump : Option (PSO.NodeSend.Entry × PSO.NodeSend.Entry)) :
    PSO.NodeSend.restartNode (PSO.NodeSend.restartNode s sc dump) sc dump = PSO.NodeSend.restartNode s sc dump := by
  exact PSO.Bridge.restart_idempotent s sc dump

/-- … and after a start with a dump file the journal begins with the dump's two entries, whatever it held before. -/
theorem restart_journal_begins_with_dump (s : PSO.NodeSend.Node) (sc : Nat) (p l : PSO.NodeSend.Entry) :
    ∃ r, (PSO.NodeSend.restartNode s sc (some (p, l))).log = p :: l :: r := by
  exact PSO.Bridge.restartNode_log_begins s sc p l

/-- Non-vacuity: the 3-voter leader with a dump at index 3 really drops its journal head at the first start (the journal
gets shorter), and the second start changes nothing. -/
example : (PSO.NodeSend.restartNode PSO.Bridge.exLeaderR 2 (some (PSO.Bridge.exLogS[1]!, PSO.Bridge.exLogS[2]!))).log.length
      < PSO.Bridge.exLeaderR.log.length ∧
    PSO.NodeSend.restartNode (PSO.NodeSend.restartNode PSO.Bridge.exLeaderR 2 (some (PSO.Bridge.exLogS[1]!, PSO.Bridge.exLogS[2]!))) 2
      (some (PSO.Bridge.exLogS[1]!, PSO.Bridge.exLogS[2]!)) =
    PSO.NodeSend.restartNode PSO.Bridge.exLeaderR 2 (some (PSO.Bridge.exLogS[1]!, PSO.Bridge.exLogS[2]!)) := by
  refine ⟨by decide, ?_⟩
  exact restart_twice_is_restart_once _ _ _

/-- **The hypothesis `DumpHeld` of `restart_handler_refines` along a run**: it holds when the node's own compaction writes the
dump (the dump's entries are `__getEntries(lastApplied - 1, 2)` of the journal at that moment) … -/
theorem dump_held_when_written (log : List PSO.NodeSend.Entry) (k : Nat) (p l : PSO.NodeSend.Entry)
    (h : PSO.NodeSend.getEntries log (some k) (some 2) none = some [p, l]) (hk : p.idx = k) :
    PSO.Bridge.DumpHeld log p l := by
  exact PSO.Bridge.dumpHeld_of_getEntries log k p l h hk

/-- … it is kept when entries are appended (leader: new commands; follower: accepted `append_entries`) … -/
theorem dump_held_after_append (log es : List PSO.NodeSend.Entry) (p l : PSO.NodeSend.Entry)
    (h : PSO.Bridge.DumpHeld log p l) : PSO.Bridge.DumpHeld (log ++ es) p l := by
  exact PSO.Bridge.dumpHeld_append log es p l h

/-- … and when a conflicting suffix is cut that begins behind the dump's second entry (`deleteEntriesFrom`; the dump's
entries are applied, hence committed, and a follower never cuts committed entries: C04). -/
theorem dump_held_after_suffix_cut (log : List PSO.NodeSend.Entry) (m : Nat) (p l e0 : PSO.NodeSend.Entry)
    (h : PSO.Bridge.DumpHeld log p l) (he0 : log.head? = some e0) (hm : p.idx - e0.idx + 2 ≤ m) :
    PSO.Bridge.DumpHeld (log.take m) p l := by
  exact PSO.Bridge.dumpHeld_take log m p l h e0 he0 hm

/-- Non-vacuity: the example leader's journal holds the dump at index 3, also after an append and after a cut at 3 entries. -/
example : PSO.Bridge.DumpHeld PSO.Bridge.exLeaderR.log PSO.Bridge.exLogS[1]! PSO.Bridge.exLogS[2]! ∧
    PSO.Bridge.DumpHeld (PSO.Bridge.exLeaderR.log ++ [PSO.Bridge.exLogS[2]!]) PSO.Bridge.exLogS[1]! PSO.Bridge.exLogS[2]! ∧
    PSO.Bridge.DumpHeld (PSO.Bridge.exLeaderR.log.take 3) PSO.Bridge.exLogS[1]! PSO.Bridge.exLogS[2]! := by
  have h0 : PSO.Bridge.DumpHeld PSO.Bridge.exLeaderR.log PSO.Bridge.exLogS[1]! PSO.Bridge.exLogS[2]! := by
    unfold PSO.Bridge.DumpHeld; decide
  refine ⟨h0, dump_held_after_append _ _ _ _ h0, ?_⟩
  exact dump_held_after_suffix_cut _ 3 _ _ PSO.Bridge.exLogS[0]! h0 (by decide) (by decide)

end PSO.C06
