import PSO.Proofs.Versions
import PSO.Proofs.VersionsApply

/-!
# C17 — code versions: stable method ids, cluster-wide switch, survives snapshot/restart

Statement (properties.jsonl): adding replicated methods whose version number is higher than every version present
in the old code never changes how existing log entries are interpreted, so nodes running old and new code execute
the same method for every entry. A call uses the newest implementation whose version is not above the cluster's
enabled version - on every node, also one that restarted or caught up from a snapshot taken after the switch;
requests to enable an unsupported or lower version are rejected, and a node that lacks an enabled version stops
applying rather than misapplying.

The theorems are about `PSO.Versions` (lean/PSO/Model/Versions.lean), the functions `driver versions` executes
against the real classes (harness/corr/versions_ids.py, versions_apply.py). They quantify over ALL class
definitions (finite lists of method declarations on the object and on any number of consumers), all old/new
pairs, all enabled versions, all node states and all sequences of ticks / commit moves / appends / subscriptions.
-/
namespace PSO.C17
open PSO.Versions

/-! ## Stable method ids -/

/-- **Id stability.** `new` is any class definition consisting of the declarations of `old` plus `added` (in any
order: `dir()` order does not matter). If every added method has a version strictly above every version of the old
code then the id table of the new code is the id table of the old code followed by the added methods - for every
class shape. -/
theorem ids_stable (old added new : ClassDef) (hnew : new.Perm (old ++ added))
    (hver : ∀ o ∈ old, ∀ m ∈ added, o.ver < m.ver) :
    idToMethod new = idToMethod old ++ idToMethod added :=
  idToMethod_new old added new hnew hver

/-- **Id stability with the exclusion spelled out.** For classes given WITH their aliases and name-mangled private
replicated methods (`ClassX`), the statement holds under the explicit decidable hypothesis `NoAliasOrPrivate` for the old
and the new code. Without it it is false: `ids_stable_alias_counterexample` (known finding D86). -/
theorem ids_stable_no_alias_or_private (old new : ClassX) (added : ClassDef)
    (ho : NoAliasOrPrivate old = true) (hn : NoAliasOrPrivate new = true)
    (hnew : new.decls.Perm (old.decls ++ added)) (hver : ∀ o ∈ old.decls, ∀ m ∈ added, o.ver < m.ver) :
    idToMethodX new = idToMethodX old ++ idToMethod added ∧
    idToMethodX old = idToMethod old.decls ∧ idToMethodX new = idToMethod new.decls := by
  have e : ∀ c : ClassX, NoAliasOrPrivate c = true → idToMethodX c = idToMethod c.decls := by
    intro c hc
    have : c.aliases = [] := by simpa [NoAliasOrPrivate] using hc
    simp [idToMethodX, idToMethod, this]
  rw [e old ho, e new hn]
  exact ⟨ids_stable old.decls added new.decls hnew hver, rfl, rfl⟩

example : ∃ c : ClassX, NoAliasOrPrivate c = true ∧ c.decls ≠ [] := ⟨⟨[⟨0, [102], 0⟩], []⟩, rfl, by decide⟩

/-- **Known finding D86 as a theorem about the model**: with an alias the statement fails. Old code `f` (v0), `z` (v0)
and `alias = f`; the new code only adds `f` (v1), the alias is now bound to the last definition (version 1). Id 1, which
a call of `f` puts into the log on the old code (`f_v0`), denotes `z_v0` on the new code.
(Names: `alias` = [97,108,105,97,115], `f` = [102], `z` = [122].) -/
theorem ids_stable_alias_counterexample :
    ∃ (old new : ClassX) (added : ClassDef),
      new.decls = old.decls ++ added ∧ (∀ o ∈ old.decls, ∀ m ∈ added, o.ver < m.ver) ∧
      NoAliasOrPrivate old = false ∧
      (idToMethodX old)[1]? = some ⟨0, 0, [102, 95, 118, 48]⟩ ∧ (idToMethodX new)[1]? = some ⟨0, 0, [122, 95, 118, 48]⟩ ∧
      mkName [102] 0 = [102, 95, 118, 48] ∧ mkName [122] 0 = [122, 95, 118, 48] := by
  have d0 : digits 0 = [48] := by simp [digits, digitsRev]
  have d1 : digits 1 = [49] := by simp [digits, digitsRev]
  have hold : idToMethodX ⟨[⟨0, [102], 0⟩, ⟨0, [122], 0⟩], [⟨0, [97, 108, 105, 97, 115], 0⟩]⟩ =
      [⟨0, 0, [97, 108, 105, 97, 115]⟩, ⟨0, 0, [102, 95, 118, 48]⟩, ⟨0, 0, [122, 95, 118, 48]⟩] := by
    apply sortDescs_eq_of_sorted_perm (by decide)
    simp only [methodsToEnumerate, Decl.desc, Alias.desc, mkName, d0, List.map_cons, List.map_nil, List.cons_append,
      List.nil_append]
    decide
  have hnew : idToMethodX ⟨[⟨0, [102], 0⟩, ⟨0, [122], 0⟩, ⟨0, [102], 1⟩], [⟨0, [97, 108, 105, 97, 115], 1⟩]⟩ =
      [⟨0, 0, [102, 95, 118, 48]⟩, ⟨0, 0, [122, 95, 118, 48]⟩, ⟨1, 0, [97, 108, 105, 97, 115]⟩, ⟨1, 0, [102, 95, 118, 49]⟩] := by
    apply sortDescs_eq_of_sorted_perm (by decide)
    simp only [methodsToEnumerate, Decl.desc, Alias.desc, mkName, d0, d1, List.map_cons, List.map_nil, List.cons_append,
      List.nil_append]
    decide
  refine ⟨⟨[⟨0, [102], 0⟩, ⟨0, [122], 0⟩], [⟨0, [97, 108, 105, 97, 115], 0⟩]⟩,
    ⟨[⟨0, [102], 0⟩, ⟨0, [122], 0⟩, ⟨0, [102], 1⟩], [⟨0, [97, 108, 105, 97, 115], 1⟩]⟩,
    [⟨0, [102], 1⟩], rfl, by decide, rfl, ?_, ?_, by simp [mkName, d0], by simp [mkName, d0]⟩
  · rw [hold]; rfl
  · rw [hnew]; rfl

/-- **Old and new code run the same method for every entry.** Every method id the old code knows denotes the same
method (version, object, name) on the new code, and every `(object, method name)` keeps its id. -/
theorem same_method_on_old_and_new_code (old added new : ClassDef) (hnew : new.Perm (old ++ added))
    (hver : ∀ o ∈ old, ∀ m ∈ added, o.ver < m.ver) :
    (∀ (i : Nat) (d : Desc), (idToMethod old)[i]? = some d → (idToMethod new)[i]? = some d) ∧
    (∀ (obj : Nat) (name : Name) (i : Nat), methodToID old obj name = some i → methodToID new obj name = some i) := by
  constructor
  · intro i d h
    rw [ids_stable old added new hnew hver]
    rw [List.getElem?_append_left (by
      rcases Nat.lt_or_ge i (idToMethod old).length with h' | h'
      · exact h'
      · rw [List.getElem?_eq_none h'] at h; cases h)]
    exact h
  · intro obj name i h
    exact methodToID_new old added new hnew hver obj name i h

/-- What a regular entry does on a node: the method with that id runs (same id ⇒ same method on old and new code by
`same_method_on_old_and_new_code`), the entry is consumed, the loop goes on. -/
theorem regular_entry_runs_method_of_id (n : Node) (fid arg idx term : Nat) (d : Desc)
    (h : (idToMethod n.cls)[fid]? = some d) :
    ∃ n' cbs, applyEntry n ⟨.regular fid arg, idx, term⟩ = (n', Ev.ran idx d arg :: cbs, true) ∧
      ranIdxs cbs = [] ∧ n'.lastApplied = n.lastApplied + 1 ∧ n'.enabled = n.enabled := by
  unfold applyEntry
  simp only [h]
  exact ⟨_, _, rfl, ranIdxs_fireCallbacks _ _ _, rfl, rfl⟩

/-- **Every entry an old-code node executes runs the same method as on a new-code node** - whatever the two nodes'
states are (enabled version, position, subscribers): the implementation that runs is a function of the entry and
of the id table only. -/
theorem same_method_for_every_entry (old added new : ClassDef) (hnew : new.Perm (old ++ added))
    (hver : ∀ o ∈ old, ∀ m ∈ added, o.ver < m.ver) (a b : Node) (ha : a.cls = old) (hb : b.cls = new)
    (e : Entry) (i : Nat) (d : Desc) (x : Nat) (h : Ev.ran i d x ∈ (applyEntry a e).2.1) :
    Ev.ran i d x ∈ (applyEntry b e).2.1 := by
  obtain ⟨fid, hc, hd, rfl⟩ := applyEntry_ran h
  rw [ha] at hd
  have := (same_method_on_old_and_new_code old added new hnew hver).1 fid d hd
  exact applyEntry_ran_of_id hc (by rw [hb]; exact this)

/-- **An entry whose method id this code does not have** (reachable only when the hypothesis of `ids_stable` is broken,
or for a corrupt entry) is not a stop and not a misapplication: no implementation runs, the `KeyError` is logged and
becomes the command's result (subscribers of the entry's term get `(KeyError(id), SUCCESS)`, others
`(None, DISCARDED)`), the entry is consumed and the loop goes on (repair D9 of `__doApplyCommand`). -/
theorem unknown_id_is_applied_with_exception_result (n : Node) (fid arg idx term : Nat)
    (h : (idToMethod n.cls)[fid]? = none) :
    ∃ n', applyEntry n ⟨.regular fid arg, idx, term⟩ =
        (n', Ev.unknownId idx fid :: fireCallbacks (popWaiting n.waiting idx).1 term (.keyError fid), true) ∧
      ranIdxs (Ev.unknownId idx fid :: fireCallbacks (popWaiting n.waiting idx).1 term (.keyError fid)) = [] ∧
      n'.lastApplied = n.lastApplied + 1 ∧ n'.enabled = n.enabled ∧ n'.tableVer = n.tableVer ∧
      n'.waiting = (popWaiting n.waiting idx).2 := by
  unfold applyEntry
  simp only [h]
  exact ⟨_, rfl, by simp [ranIdxs, ranIdxs_fireCallbacks], rfl, rfl, rfl, rfl⟩

example : ∃ (n : Node) (fid : Nat), (idToMethod n.cls)[fid]? = none ∧ n.waiting ≠ [] :=
  ⟨{ initNode [] with waiting := [(2, [(1, 7)])] }, 0, by decide +kernel, by decide⟩

/-- The ids do not depend on the order in which the methods are found. -/
theorem ids_independent_of_declaration_order (c₁ c₂ : ClassDef) (h : c₁.Perm c₂) : idToMethod c₁ = idToMethod c₂ :=
  idToMethod_perm h

/-! ## Resolution -/

/-- **Resolution = newest version not above the enabled one.** The name-table loop (ascending, `break` at the first
version above `e`) selects version `v` for key `k` iff `v` is a version of `k`, `v ≤ e`, and no other version of `k`
that is `≤ e` is greater; it selects nothing (`KeyError`) iff every version of `k` is above `e`. -/
theorem resolution_is_max_le_enabled (cls : ClassDef) (e : Nat) (k : Key) :
    (∀ v, resolveVer cls e k = some v ↔
      (∃ c ∈ cls, c.key = k ∧ c.ver = v) ∧ v ≤ e ∧ ∀ c ∈ cls, c.key = k → c.ver ≤ e → c.ver ≤ v) ∧
    (resolveVer cls e k = none ↔ ∀ c ∈ cls, c.key = k → e < c.ver) :=
  ⟨resolveVer_some_iff cls e k, resolveVer_none_iff cls e k⟩

/-- **A call runs that implementation.** The id a call `obj.f(...)` puts into the log denotes, in this code's id
table, exactly the resolved version of `f` on that object (`KeyError` when there is none). -/
theorem call_uses_resolved_implementation (cls : ClassDef) (e : Nat) (k : Key) :
    (resolveVer cls e k = none → callId cls e k = none) ∧
    (∀ v, resolveVer cls e k = some v →
      ∃ i, callId cls e k = some i ∧ (idToMethod cls)[i]? = some ⟨v, k.obj, mkName k.orig v⟩) :=
  ⟨callId_none, fun _ h => callId_some h⟩

/-- `_getFuncName` is the resolved version's `_vN` name, and different (name, version) pairs never collide. -/
theorem func_name_is_versioned_name (cls : ClassDef) (e : Nat) (k : Key) :
    funcName cls e k = (resolveVer cls e k).map (mkName k.orig) ∧
    ∀ o₁ o₂ v₁ v₂, mkName o₁ v₁ = mkName o₂ v₂ → o₁ = o₂ ∧ v₁ = v₂ :=
  ⟨rfl, fun _ _ _ _ h => mkName_inj h⟩

/-- **At all times the name table is the one of the enabled version**: true of a fresh node, preserved by every
tick / commit move / append / subscription and by loading a dump (installed or ignored). -/
theorem name_table_follows_enabled_version :
    (∀ cls, (initNode cls).tableVer = (initNode cls).enabled) ∧
    (∀ (n : Node) (ops : List Op), n.tableVer = n.enabled → (run n ops).1.tableVer = (run n ops).1.enabled) ∧
    (∀ (n : Node) (d : Dump) (clear : Bool), n.tableVer = n.enabled →
      (loadDump n d clear).tableVer = (loadDump n d clear).enabled) := by
  refine ⟨fun _ => rfl, fun n ops h => (run_table ops n h).1, fun n d clear h => ?_⟩
  unfold loadDump
  split
  · exact h
  · rfl

/-- **A call uses the newest implementation whose version is not above the enabled version** - on every node whose
name table belongs to its enabled version (all of them, by `name_table_follows_enabled_version`). -/
theorem call_uses_newest_not_above_enabled (n : Node) (h : n.tableVer = n.enabled) (k : Key) :
    (∀ v, resolveVer n.cls n.tableVer k = some v →
      v ≤ n.enabled ∧ (∀ c ∈ n.cls, c.key = k → c.ver ≤ n.enabled → c.ver ≤ v) ∧
      ∃ i, callId n.cls n.tableVer k = some i ∧ (idToMethod n.cls)[i]? = some ⟨v, k.obj, mkName k.orig v⟩) ∧
    (resolveVer n.cls n.tableVer k = none → callId n.cls n.tableVer k = none ∧ ∀ c ∈ n.cls, c.key = k → n.enabled < c.ver) := by
  rw [h]
  constructor
  · intro v hv
    obtain ⟨_, h2, h3⟩ := (resolveVer_some_iff n.cls n.enabled k v).1 hv
    exact ⟨h2, h3, callId_some hv⟩
  · intro hn
    exact ⟨callId_none hn, (resolveVer_none_iff n.cls n.enabled k).1 hn⟩

example : ∃ n : Node, n.tableVer = n.enabled ∧ n.enabled = 3 ∧ n.log ≠ [] :=
  ⟨{ initNode [⟨0, [102], 3⟩] with enabled := 3, tableVer := 3 }, rfl, rfl, by simp [initNode]⟩

/-! ## `setCodeVersion` guards -/

/-- `__selfCodeVersion` is the highest version present in the code. -/
theorem self_code_version_is_max (cls : ClassDef) :
    (∀ c ∈ cls, c.ver ≤ selfCodeVersion cls) ∧ (selfCodeVersion cls = 0 ∨ ∃ c ∈ cls, c.ver = selfCodeVersion cls) :=
  ⟨fun _ hc => ver_le_selfCodeVersion hc, selfCodeVersion_attained cls⟩

/-- **Requests to enable an unsupported or lower version are rejected**, all others are queued. -/
theorem set_version_guards (n : Node) (v : Nat) :
    (setCodeVersion n v = .queued v ↔ v ≤ selfCodeVersion n.cls ∧ n.enabled ≤ v) ∧
    (selfCodeVersion n.cls < v → setCodeVersion n v = .tooHigh (selfCodeVersion n.cls) v) ∧
    (v ≤ selfCodeVersion n.cls → v < n.enabled → setCodeVersion n v = .tooLow n.enabled v) := by
  unfold setCodeVersion
  refine ⟨?_, ?_, ?_⟩
  · constructor
    · intro h
      split at h
      · cases h
      · split at h
        · cases h
        · omega
    · rintro ⟨h1, h2⟩
      rw [if_neg (by omega), if_neg (by omega)]
  · intro h; rw [if_pos h]
  · intro h1 h2; rw [if_neg (by omega), if_pos h2]

/-- **The switch itself**: a VERSION entry for a version this code has that is not below the enabled one sets the
enabled version and the name table and is consumed like any other entry; the `onCodeVersionChanged(old, new)` hook
runs with both already switched. (Below the enabled version: `lower_version_entry_changes_nothing`; above the code's
version: `unsupported_version_entry_keeps_node`.) -/
theorem version_entry_switches (n : Node) (v idx term : Nat) (h : v ≤ selfCodeVersion n.cls) (hup : n.enabled ≤ v) :
    ∃ n' cbs, applyEntry n ⟨.version v, idx, term⟩ = (n', Ev.versionChanged n.enabled v v v :: cbs, true) ∧
      n'.enabled = v ∧ n'.tableVer = v ∧ n'.lastApplied = n.lastApplied + 1 ∧ ranIdxs cbs = [] := by
  unfold applyEntry
  simp only [if_neg (show ¬ selfCodeVersion n.cls < v by omega), if_neg (show ¬ v < n.enabled by omega)]
  exact ⟨_, _, rfl, rfl, rfl, rfl, ranIdxs_fireCallbacks _ _ _⟩

/-- **A request to enable a lower version is rejected also when it only shows at apply time** (repair D71:
`setCodeVersion` compares with the version applied so far on the requester, so `setCodeVersion(2); setCodeVersion(1)`
before the next tick, or requests from two nodes, put VERSION 2 then VERSION 1 into the log). The entry below the
enabled version changes nothing - enabled version, name table: as before; no `onCodeVersionChanged`; no implementation
runs - it is consumed (`lastApplied + 1`, the loop goes on) and the subscribers of its term get the refusal
`Res.lowerVersion enabled v` as the result. -/
theorem lower_version_entry_changes_nothing (n : Node) (v idx term : Nat) (h : v < n.enabled)
    (hs : n.enabled ≤ selfCodeVersion n.cls) :
    ∃ n', applyEntry n ⟨.version v, idx, term⟩ =
        (n', fireCallbacks (popWaiting n.waiting idx).1 term (.lowerVersion n.enabled v), true) ∧
      n'.enabled = n.enabled ∧ n'.tableVer = n.tableVer ∧ n'.lastApplied = n.lastApplied + 1 ∧
      ranIdxs (fireCallbacks (popWaiting n.waiting idx).1 term (.lowerVersion n.enabled v)) = [] ∧
      (∀ o w he ht, Ev.versionChanged o w he ht ∉ fireCallbacks (popWaiting n.waiting idx).1 term (.lowerVersion n.enabled v)) := by
  unfold applyEntry
  simp only [if_neg (show ¬ selfCodeVersion n.cls < v by omega), if_pos h, List.nil_append]
  refine ⟨_, rfl, rfl, rfl, rfl, ranIdxs_fireCallbacks _ _ _, ?_⟩
  intro o w he ht hm
  simp only [fireCallbacks, List.mem_map] at hm
  obtain ⟨s, _, hs'⟩ := hm
  split at hs' <;> cases hs'

example : ∃ (n : Node) (v : Nat), v < n.enabled ∧ n.enabled ≤ selfCodeVersion n.cls ∧ n.waiting ≠ [] := by
  refine ⟨{ initNode [⟨0, [102], 2⟩] with enabled := 2, tableVer := 2, waiting := [(4, [(1, 72)])] }, 1, by decide, ?_, by decide⟩
  exact ver_le_selfCodeVersion (c := ⟨0, [102], 2⟩) (by simp [initNode])

/-- **The enabled version never goes down** - along every log, for every sequence of ticks / commit moves / appends /
subscriptions, whatever VERSION entries the log contains and however it is cut into batches. -/
theorem enabled_version_never_decreases (n : Node) (ops : List Op) : n.enabled ≤ (run n ops).1.enabled :=
  run_mono ops n

/-- **The version-change hook sees the new version AND the new name table.** Whenever the apply loop - one entry, a
batch, or any sequence of ticks / commit moves / appends / subscriptions - reports `onCodeVersionChanged(old, new)`,
the hook runs in a state where `getCodeVersion() = new` and the name table is the one built for `new`: a replicated
call issued from inside the hook (a migration step) resolves, by `call_uses_resolved_implementation` and
`resolution_is_max_le_enabled`, to the newest implementation not above `new`. -/
theorem hook_sees_new_table :
    (∀ (n : Node) (e : Entry) (o v he ht : Nat), Ev.versionChanged o v he ht ∈ (applyEntry n e).2.1 →
      he = v ∧ ht = v ∧ o = n.enabled ∧ e.cmd = .version v) ∧
    (∀ (n : Node) (ops : List Op) (o v he ht : Nat), Ev.versionChanged o v he ht ∈ (run n ops).2 → he = v ∧ ht = v) := by
  have hentry : ∀ (n : Node) (e : Entry) (o v he ht : Nat), Ev.versionChanged o v he ht ∈ (applyEntry n e).2.1 →
      he = v ∧ ht = v ∧ o = n.enabled ∧ e.cmd = .version v := by
    intro n e o v he ht h
    have hcb : ∀ (subs : List (Nat × Nat)) (t : Nat) (r : Res), Ev.versionChanged o v he ht ∉ fireCallbacks subs t r := by
      intro subs t r hm
      simp only [fireCallbacks, List.mem_map] at hm
      obtain ⟨s, _, hs⟩ := hm
      split at hs <;> cases hs
    unfold applyEntry at h
    simp only at h
    split at h
    · rename_i v' hv'
      split at h
      · simp at h
      · split at h
        · simp only [List.nil_append] at h
          exact absurd h (hcb _ _ _)
        · simp only [List.cons_append, List.nil_append, List.mem_cons] at h
          rcases h with h | h
          · cases h; exact ⟨rfl, rfl, rfl, hv'⟩
          · exact absurd h (hcb _ _ _)
    · split at h
      · simp only [List.cons_append, List.nil_append, List.mem_cons] at h
        rcases h with h | h
        · cases h
        · exact absurd h (hcb _ _ _)
      · simp only [List.cons_append, List.nil_append, List.mem_cons] at h
        rcases h with h | h
        · cases h
        · exact absurd h (hcb _ _ _)
    · simp only [List.nil_append] at h
      exact absurd h (hcb _ _ _)
  have hbatch : ∀ (es : List Entry) (n : Node) (o v he ht : Nat),
      Ev.versionChanged o v he ht ∈ (applyBatch n es).2 → he = v ∧ ht = v := by
    intro es
    induction es with
    | nil => intro n o v he ht h; simp [applyBatch] at h
    | cons e rest ih =>
      intro n o v he ht h
      unfold applyBatch at h
      have h1 := hentry n e o v he ht
      cases hae : applyEntry n e with
      | mk n1 r =>
        cases r with
        | mk evs1 b =>
          rw [hae] at h h1
          cases b with
          | true =>
            simp only at h
            cases hb : applyBatch n1 rest with
            | mk n2 evs2 =>
              rw [hb] at h
              simp only [List.mem_append] at h
              rcases h with h | h
              · exact ⟨(h1 h).1, (h1 h).2.1⟩
              · exact ih n1 o v he ht (by rw [hb]; exact h)
          | false =>
            simp only at h
            exact ⟨(h1 h).1, (h1 h).2.1⟩
  refine ⟨hentry, ?_⟩
  intro n ops
  induction ops generalizing n with
  | nil => intro o v he ht h; simp [run] at h
  | cons op os ih =>
    intro o v he ht h
    unfold run at h
    cases hs : step n op with
    | mk n1 evs1 =>
      rw [hs] at h
      simp only at h
      cases hr : run n1 os with
      | mk n2 evs2 =>
        rw [hr] at h
        simp only [List.mem_append] at h
        rcases h with h | h
        · cases op with
          | tick =>
            simp only [step, applyLogEntries] at hs
            split at hs
            · simp only [Prod.mk.injEq] at hs
              obtain ⟨_, rfl⟩ := hs
              simp at h
            · split at hs
              · exact hbatch _ n o v he ht (by rw [hs]; exact h)
              · simp only [Prod.mk.injEq] at hs
                obtain ⟨_, rfl⟩ := hs
                simp at h
          | setCommit c => simp only [step, Prod.mk.injEq] at hs; obtain ⟨_, rfl⟩ := hs; simp at h
          | append es => simp only [step, Prod.mk.injEq] at hs; obtain ⟨_, rfl⟩ := hs; simp at h
          | subscribe i t cb => simp only [step, Prod.mk.injEq] at hs; obtain ⟨_, rfl⟩ := hs; simp at h
        · exact ih n1 o v he ht (by rw [hr]; exact h)

/-- **The enabled version is a function of the applied entries**: a batch that is consumed completely leaves the
HIGHEST version among the previous one and its VERSION entries (`versionAfter`; a VERSION entry below the version
enabled at its position has no effect, D71). Hence all nodes that applied the same prefix of the log are on the same
version - the switch is cluster wide. -/
theorem enabled_version_is_highest_version_applied (n n' : Node) (es : List Entry) (evs : List Ev)
    (h : applyBatch n es = (n', evs)) (hall : n'.lastApplied = n.lastApplied + es.length) :
    n'.enabled = versionAfter n.enabled es :=
  applyBatch_enabled es n n' evs h hall

example : ∃ (n n' : Node) (es : List Entry) (evs : List Ev), applyBatch n es = (n', evs) ∧
    n'.lastApplied = n.lastApplied + es.length ∧ es.length = 2 ∧ n'.enabled ≠ n.enabled :=
  ⟨initNode [⟨0, [102], 1⟩], { initNode [⟨0, [102], 1⟩] with lastApplied := 3, enabled := 1, tableVer := 1 },
    [⟨.noop, 2, 1⟩, ⟨.version 1, 3, 1⟩], [Ev.versionChanged 0 1 1 1], by decide +kernel, rfl, rfl, by decide⟩

/-! ## A node that lacks an enabled version stops applying -/

/-- **Unsupported version stops the node - for every batch split and any number of ticks.** (Unchanged by the D9
repair: entries with an unknown method id before `e` are now consumed like any other entry - see
`unknown_id_is_applied_with_exception_result` - which only moves `lastApplied` closer to `e`, never past it.) The log of `n` is
consecutive from `f`; it contains a VERSION entry `e` the node's code does not have, not yet applied. Whatever
sequence of ticks, commit moves, appends (continuing the numbering) and subscriptions follows: `lastApplied` stays
below `e`, every implementation that runs belongs to an entry before `e`, the positions of the entries that run are
strictly increasing and lie in `(lastApplied before, lastApplied after]` (nothing twice, nothing out of order), and
the log is only extended. -/
theorem unsupported_version_stops (n n' : Node) (evs : List Ev) (ops : List Op) (f : Nat) (e : Entry)
    (hlog : Consec f n.log) (hops : OpsOk f n.log.length ops)
    (he : e ∈ n.log) (hun : Unsupported n.cls e) (hla : n.lastApplied < e.idx)
    (hrun : run n ops = (n', evs)) :
    n'.lastApplied < e.idx ∧ (∀ i ∈ ranIdxs evs, i < e.idx) ∧
    (ranIdxs evs).Pairwise (· < ·) ∧ (∀ i ∈ ranIdxs evs, n.lastApplied < i ∧ i ≤ n'.lastApplied) ∧
    n.lastApplied ≤ n'.lastApplied ∧ (∃ more, n'.log = n.log ++ more) := by
  obtain ⟨_, hmore, _, hmono, hr, hp, hu, _⟩ := run_spec ops n n' evs f hlog hops hrun
  have hlt := hu e he hun hla
  exact ⟨hlt, fun i hi => by have := hr i hi; omega, hp, hr, hmono, hmore⟩

/-- Non-vacuity: old code `{f_v0}`, log `1:noop 2:f 3:VERSION 1 4:f`, everything committed, two ticks. -/
example : ∃ (n : Node) (ops : List Op) (f : Nat) (e : Entry),
    Consec f n.log ∧ OpsOk f n.log.length ops ∧ e ∈ n.log ∧ Unsupported n.cls e ∧ n.lastApplied < e.idx ∧
    n.commit = 4 ∧ ops.length = 3 := by
  refine ⟨{ initNode [⟨0, [102], 0⟩] with
            log := [⟨.noop, 1, 0⟩, ⟨.regular 0 7, 2, 1⟩, ⟨.version 1, 3, 1⟩, ⟨.regular 0 8, 4, 1⟩], commit := 4 },
          [.tick, .append [⟨.regular 0 9, 5, 1⟩], .tick], 1, ⟨.version 1, 3, 1⟩, ?_, ?_, by simp, ?_, by simp [initNode], rfl, rfl⟩
  · intro i hi
    simp only [List.length_cons, List.length_nil] at hi
    match i, hi with
    | 0, _ => rfl
    | 1, _ => rfl
    | 2, _ => rfl
    | 3, _ => rfl
  · refine ⟨?_, trivial⟩
    intro i hi
    simp only [List.length_cons, List.length_nil] at hi
    match i, hi with
    | 0, _ => rfl
  · refine ⟨1, rfl, ?_⟩
    have : selfCodeVersion [⟨0, [102], 0⟩] = 0 := by
      rcases selfCodeVersion_attained [⟨0, [102], 0⟩] with h | ⟨c, hc, h⟩
      · exact h
      · simp only [List.mem_singleton] at hc; subst hc; exact h.symm
    show selfCodeVersion [⟨0, [102], 0⟩] < 1
    omega

/-- **Nothing but an unsupported version stops a node.** A batch is either consumed completely, or it contains a
VERSION entry the code does not have and is consumed exactly up to the first such entry (every entry before it is
applied, `lastApplied` points just before it). An unknown method id, a no-op, a membership or an unknown-type entry
never stops it. So "stops applying" happens for the reason the property names and for no other. -/
theorem only_unsupported_version_stops_a_batch (n n' : Node) (es : List Entry) (evs : List Ev)
    (h : applyBatch n es = (n', evs)) :
    n'.lastApplied = n.lastApplied + es.length ∨
    ∃ pre e post, es = pre ++ e :: post ∧ Unsupported n.cls e ∧ (∀ x ∈ pre, ¬ Unsupported n.cls x) ∧
      n'.lastApplied = n.lastApplied + pre.length :=
  applyBatch_stops_only_at_unsupported es n n' evs h

/-- One batch: the WrongVer branch leaves the node exactly as it was - subscribers of the VERSION entry included
(repair D10) - and ends the batch. -/
theorem unsupported_version_entry_keeps_node (n : Node) (e : Entry) (h : Unsupported n.cls e) (rest : List Entry) :
    ∃ v, applyBatch n (e :: rest) = (n, [Ev.wrongVer (selfCodeVersion n.cls) v]) := by
  obtain ⟨v, hv⟩ := applyEntry_unsupported h
  exact ⟨v, by simp [applyBatch, hv]⟩

/-- A node whose enabled version is above its code (only a loaded dump can bring that about, see
`enabled_stays_supported`) applies nothing, whatever happens (repair D21). -/
theorem unsupported_enabled_version_blocks (n : Node) (ops : List Op) (h : n.enabled > selfCodeVersion n.cls) :
    (run n ops).1.lastApplied = n.lastApplied ∧ ranIdxs (run n ops).2 = [] ∧ (run n ops).1.enabled = n.enabled := by
  obtain ⟨e, _, l, r⟩ := run_blocked ops n h
  exact ⟨l, r, e⟩

/-- Through the log the enabled version never leaves the range the code supports. -/
theorem enabled_stays_supported (n n' : Node) (evs : List Ev) (ops : List Op) (f : Nat)
    (hlog : Consec f n.log) (hops : OpsOk f n.log.length ops) (h : n.enabled ≤ selfCodeVersion n.cls)
    (hrun : run n ops = (n', evs)) : n'.enabled ≤ selfCodeVersion n'.cls := by
  obtain ⟨hc, _, _, _, _, _, _, hen⟩ := run_spec ops n n' evs f hlog hops hrun
  rw [hc]; omega

/-! ## Snapshot and restart -/

/-- **Survives snapshot and restart.** `m` (any code, any state) takes a dump; `r` is any node - a restarted
instance, a node catching up, same or other code - that loads it and installs it (`skipsInstall = false`; the other
branch is `snapshot_already_held_is_ignored`). Then `r` has the enabled version `m` had at the snapshot position and
its name table is the one of that version for `r`'s own code: every call on `r` resolves to the newest implementation
in `r`'s code that is not above that version. `lastApplied` is the snapshot position. -/
theorem survives_snapshot_and_restart (m r : Node) (d : Dump) (clear : Bool) (h : takeDump m = some d)
    (hinst : skipsInstall r d clear = false) :
    let r' := loadDump r d clear
    r'.enabled = m.enabled ∧ r'.tableVer = m.enabled ∧ r'.cls = r.cls ∧ r'.lastApplied = d.last.idx ∧
    (∀ k, callId r'.cls r'.tableVer k = callId r.cls m.enabled k) ∧
    (∀ k v, resolveVer r'.cls r'.tableVer k = some v ↔
      (∃ c ∈ r.cls, c.key = k ∧ c.ver = v) ∧ v ≤ m.enabled ∧ ∀ c ∈ r.cls, c.key = k → c.ver ≤ m.enabled → c.ver ≤ v) := by
  have hd : d.enabled = some m.enabled := by
    unfold takeDump at h
    split at h
    · simp only [Option.some.injEq] at h; rw [← h]
    · cases h
  have he : (loadDump r d clear).enabled = m.enabled := by simp [loadDump, hd, hinst]
  have ht : (loadDump r d clear).tableVer = m.enabled := by simp [loadDump, hd, hinst]
  have hc : (loadDump r d clear).cls = r.cls := by simp [loadDump, hinst]
  have hl : (loadDump r d clear).lastApplied = d.last.idx := by simp [loadDump, hinst]
  refine ⟨he, ht, hc, hl, fun k => by rw [ht, hc], fun k v => ?_⟩
  rw [ht, hc]
  exact resolveVer_some_iff r.cls m.enabled k v

/-- The other branch of `__loadDumpFile`: a received snapshot (`clearJournal`) whose last entry the node has already
applied, or already holds with the same term, is ignored - log, position, enabled version, name table and waiting callbacks stay as
they are (the node got / will get the switch through its own log: `enabled_version_is_highest_version_applied`). A dump
read from the node's own file at start-up (`clearJournal = false`) is never ignored. -/
theorem snapshot_already_held_is_ignored (r : Node) (d : Dump) (clear : Bool) :
    (skipsInstall r d clear = true → loadDump r d clear = r ∧ clear = true ∧
      (d.last.idx ≤ r.lastApplied ∨
        ∃ e ∈ r.log, e.term = d.last.term ∧ (getEntries r.log d.last.idx 1).head? = some e)) ∧
    skipsInstall r d false = false := by
  constructor
  · intro h
    refine ⟨by simp [loadDump, h], ?_, ?_⟩
    · unfold skipsInstall at h
      cases clear <;> simp_all
    · unfold skipsInstall at h
      simp only [Bool.and_eq_true, Bool.or_eq_true, decide_eq_true_eq] at h
      rcases h.2 with h1 | h2
      · exact .inl h1
      · right
        split at h2
        · rename_i e rest hg
          exact ⟨e, mem_of_mem_getEntries (hg ▸ List.mem_cons_self), by simpa using h2, by rw [hg]; rfl⟩
        · cases h2
  · simp [skipsInstall]

/-- **Loading a dump answers exactly the subscribers it covers** (repair D61), and only when the dump is installed:
* ignored snapshot (`skipsInstall`, the early return comes first): nothing is answered, the waiting list is untouched;
* installed dump: every subscriber of an index `≤` the dump's last index - and no other - gets
  `(None, LEADER_CHANGED)` (`Ev.callbackOpen`), by ascending index; those indices leave the waiting list, all
  others stay as they are, so afterwards no waiting index is `≤ lastApplied`; no implementation runs. -/
theorem dump_load_answers_covered_subscribers (r : Node) (d : Dump) (clear : Bool) :
    (skipsInstall r d clear = true →
      loadDumpEvents r d clear = [] ∧ (loadDump r d clear).waiting = r.waiting) ∧
    (skipsInstall r d clear = false →
      (loadDump r d clear).waiting = r.waiting.filter (fun p => !decide (p.1 ≤ d.last.idx)) ∧
      (∀ p ∈ (loadDump r d clear).waiting, (loadDump r d clear).lastApplied < p.1) ∧
      loadDumpEvents r d clear =
        (coveredWaiting r.waiting d.last.idx).flatMap (fun p => p.2.map (fun s =>
          Ev.callbackOpen s.2 (loadDump r d clear).enabled (loadDump r d clear).tableVer)) ∧
      (∀ p, p ∈ coveredWaiting r.waiting d.last.idx ↔ p ∈ r.waiting ∧ p.1 ≤ d.last.idx) ∧
      (coveredWaiting r.waiting d.last.idx).Pairwise (fun a b => a.1 ≤ b.1) ∧
      (∀ cb he ht, Ev.callbackOpen cb he ht ∈ loadDumpEvents r d clear ↔
        (∃ p ∈ r.waiting, p.1 ≤ d.last.idx ∧ ∃ s ∈ p.2, s.2 = cb) ∧
        he = (loadDump r d clear).enabled ∧ ht = (loadDump r d clear).tableVer)) ∧
    ranIdxs (loadDumpEvents r d clear) = [] := by
  refine ⟨fun h => ⟨by simp [loadDumpEvents, h], by simp [loadDump, h]⟩, fun h => ?_, ranIdxs_loadDumpEvents r d clear⟩
  have hw : (loadDump r d clear).waiting = r.waiting.filter (fun p => !decide (p.1 ≤ d.last.idx)) := by
    simp [loadDump, h]
  have hl : (loadDump r d clear).lastApplied = d.last.idx := by simp [loadDump, h]
  have he : loadDumpEvents r d clear =
      (coveredWaiting r.waiting d.last.idx).flatMap (fun p => p.2.map (fun s =>
        Ev.callbackOpen s.2 (loadDump r d clear).enabled (loadDump r d clear).tableVer)) := by
    simp [loadDumpEvents, h]
  refine ⟨hw, ?_, he, fun p => mem_coveredWaiting, coveredWaiting_sorted _ _, ?_⟩
  · intro p hp
    rw [hw, List.mem_filter] at hp
    rw [hl]
    have := hp.2
    simp only [Bool.not_eq_true', decide_eq_false_iff_not] at this
    omega
  · intro cb he' ht'
    rw [he]
    simp only [List.mem_flatMap, List.mem_map, Ev.callbackOpen.injEq]
    constructor
    · rintro ⟨p, hp, s, hs, rfl, rfl, rfl⟩
      obtain ⟨h1, h2⟩ := mem_coveredWaiting.1 hp
      exact ⟨⟨p, h1, h2, s, hs, rfl⟩, rfl, rfl⟩
    · rintro ⟨⟨p, h1, h2, s, hs, rfl⟩, rfl, rfl⟩
      exact ⟨p, mem_coveredWaiting.2 ⟨h1, h2⟩, s, hs, rfl, rfl, rfl⟩

/-- **A call made from an install callback resolves with the table of the installed version** (repair D82). Every
`(None, LEADER_CHANGED)` callback a dump load fires runs in a state where `getCodeVersion()` is the version the loaded
node ends with and the name table is the one built for exactly that version; for a dump taken by `m` that is
`m.enabled`. So a command re-submitted from such a callback goes out - by `call_uses_resolved_implementation` and
`resolution_is_max_le_enabled` - with the newest implementation not above the snapshot's version. -/
theorem install_callback_sees_installed_table (m r : Node) (d : Dump) (clear : Bool) (cb he ht : Nat)
    (h : Ev.callbackOpen cb he ht ∈ loadDumpEvents r d clear) :
    he = (loadDump r d clear).enabled ∧ ht = he ∧ skipsInstall r d clear = false ∧
    (takeDump m = some d → he = m.enabled ∧
      ∀ k, callId r.cls ht k = callId (loadDump r d clear).cls (loadDump r d clear).tableVer k) := by
  have hs : skipsInstall r d clear = false := by
    cases hsk : skipsInstall r d clear with
    | false => rfl
    | true => simp [loadDumpEvents, hsk] at h
  obtain ⟨_, he1, ht1⟩ := ((dump_load_answers_covered_subscribers r d clear).2.1 hs).2.2.2.2.2 cb he ht |>.1 h
  have htab : (loadDump r d clear).tableVer = (loadDump r d clear).enabled := by simp [loadDump, hs]
  refine ⟨he1, by rw [ht1, he1, htab], hs, fun hm => ?_⟩
  obtain ⟨hen, _, hc, _⟩ := survives_snapshot_and_restart m r d clear hm hs
  exact ⟨by rw [he1, hen], fun k => by rw [ht1, hc]⟩

/-- Non-vacuity: a fresh node holding callbacks for index 4 (covered, two subscribers) and 9 (not covered) installs a
dump at 6. -/
example : ∃ (r : Node) (d : Dump), skipsInstall r d true = false ∧
    loadDumpEvents r d true = [Ev.callbackOpen 91 1 1, Ev.callbackOpen 94 1 1] ∧
    (loadDump r d true).waiting = [(9, [(1, 93)])] :=
  ⟨{ initNode [] with waiting := [(4, [(1, 91), (2, 94)]), (9, [(1, 93)])] },
   ⟨some 1, ⟨.noop, 5, 1⟩, ⟨.version 1, 6, 1⟩⟩, by decide, by decide +kernel, by decide +kernel⟩

example : ∃ (r : Node) (d : Dump), skipsInstall r d true = false ∧ skipsInstall r d false = false ∧ r.log ≠ [] :=
  ⟨initNode [], ⟨some 1, ⟨.noop, 5, 1⟩, ⟨.version 1, 6, 1⟩⟩, by decide, by decide, by decide⟩

example : ∃ (r : Node) (d : Dump), skipsInstall r d true = true :=
  ⟨initNode [], ⟨some 0, ⟨.noop, 0, 0⟩, ⟨.noop, 1, 0⟩⟩, by decide⟩

/-- Non-vacuity: a node that applied `f, VERSION 1` can take a dump. -/
example : ∃ (m : Node) (d : Dump), takeDump m = some d ∧ m.enabled = 1 ∧ d.last.idx = m.lastApplied := by
  refine ⟨{ initNode [⟨0, [102], 0⟩, ⟨0, [102], 1⟩] with
            log := [⟨.noop, 1, 0⟩, ⟨.regular 0 7, 2, 1⟩, ⟨.version 1, 3, 1⟩], commit := 3, lastApplied := 3,
            enabled := 1, tableVer := 1 }, ⟨some 1, ⟨.regular 0 7, 2, 1⟩, ⟨.version 1, 3, 1⟩⟩, ?_, rfl, rfl⟩
  simp [takeDump, getEntries]

/-- The dump is taken at the snapshot position: on a consecutive log its last entry is the one at `lastApplied`. -/
theorem dump_is_at_last_applied (m : Node) (d : Dump) (f : Nat) (hlog : Consec f m.log) (hla : 1 ≤ m.lastApplied)
    (h : takeDump m = some d) : d.last.idx = m.lastApplied ∧ d.prev.idx + 1 = m.lastApplied ∧ d.prev ∈ m.log ∧ d.last ∈ m.log := by
  unfold takeDump at h
  split at h
  · rename_i p l hg
    simp only [Option.some.injEq] at h
    subst h
    have hc := getEntries_consec hlog (m.lastApplied - 1) 2
    rw [hg] at hc
    have hp : p.idx = m.lastApplied - 1 := hc.head
    have hl : l.idx = m.lastApplied - 1 + 1 := hc.tail.head
    have hmem : ∀ x ∈ [p, l], x ∈ m.log := fun x hx => mem_of_mem_getEntries (hg ▸ hx)
    refine ⟨?_, ?_, hmem p (by simp), hmem l (by simp)⟩
    · simp only; omega
    · simp only; omega
  · cases h

/-- After loading a dump made under a version the receiver's code lacks, the receiver applies nothing (it "stops
applying rather than misapplying" also when the switch reached it inside a snapshot). -/
theorem snapshot_of_unsupported_version_blocks (m r : Node) (d : Dump) (clear : Bool) (ops : List Op)
    (h : takeDump m = some d) (hinst : skipsInstall r d clear = false) (hun : selfCodeVersion r.cls < m.enabled) :
    ranIdxs (run (loadDump r d clear) ops).2 = [] ∧
    (run (loadDump r d clear) ops).1.lastApplied = d.last.idx := by
  obtain ⟨he, _, hc, hl, _⟩ := survives_snapshot_and_restart m r d clear h hinst
  have hb : (loadDump r d clear).enabled > selfCodeVersion (loadDump r d clear).cls := by rw [he, hc]; exact hun
  obtain ⟨l, rr, _⟩ := unsupported_enabled_version_blocks (loadDump r d clear) ops hb
  exact ⟨rr, by rw [l, hl]⟩

/-- A dump in the old user-serializer format (no version stored, `enabled = none`) leaves the receiver's enabled
version as it is; the name table is rebuilt for it. Stated so that the legacy branch of `loadDump` is covered. -/
theorem legacy_dump_keeps_version (r : Node) (p l : Entry) (clear : Bool)
    (hinst : skipsInstall r ⟨none, p, l⟩ clear = false) :
    (loadDump r ⟨none, p, l⟩ clear).enabled = r.enabled ∧ (loadDump r ⟨none, p, l⟩ clear).tableVer = r.enabled := by
  simp [loadDump, hinst]

end PSO.C17
