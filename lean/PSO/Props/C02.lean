import PSO.Proofs.RaftDemo
import PSO.Proofs.NodeSendCallbacks

/-!
# C02 — callback contract (cluster level)

A callback registered for log position `p` and term `t` fires SUCCESS when the node applies an entry of
term `t` at `p`, DISCARDED when it applies an entry of another term there (`__applyLogEntries`).  The
node-local bookkeeping (each callback at most once, definite failures only on paths that append
nothing, registration iff appended) is proved on the handler-level models: `PSO.C19.callback_once`,
`PSO.C19.callback_gets_own_result` (queue/decorator side) and lean/PSO/Proofs/NodeSendCallbacks.lean
(dispatch side).  Here: what SUCCESS and DISCARDED mean for the whole cluster, for every execution of
`PSO.Raft.step` (restarts included).
-/
namespace PSO.C02
open PSO.Raft

/-- `(position, term)` identifies an entry, across nodes and across time: two logs holding an entry of
term `t` at position `p` hold the same command there.  (So the pair a forwarded command is registered
under names exactly one command.) -/
theorem position_and_term_identify_entry {N : Nat} {s1 s2 : State} {as : List Action} (h1 : Reachable N s1)
    (hr : run N s1 as = some s2) (a b p t : Nat)
    (hpa : p < (s1.nodes a).log.length) (hpb : p < (s2.nodes b).log.length)
    (hta : termAt (s1.nodes a).log p = t) (htb : termAt (s2.nodes b).log p = t) :
    (s1.nodes a).log[p]? = (s2.nodes b).log[p]? := by
  have i1 := inv_reachable h1
  have i2 := inv_run i1 hr
  have ag1 := i1.l.log_l2 a p hpa
  have ag2 := i2.l.log_l2 b p hpb
  rw [hta] at ag1; rw [htb] at ag2
  obtain ⟨ys, hys⟩ := (run_ghost_mono i1 hr).tl t
  have hp1 : p < (s1.g.termLog t).length := ag1.length_lt hpa
  rw [ag1.getElem? (Nat.le_refl _), ag2.getElem? (Nat.le_refl _), hys, List.getElem?_append_left hp1]

/-- SUCCESS is sound and permanent: the entry a node applied at position `p` is the entry at `p` on
every node that has `p` committed, now or at any later time (after any leader changes, kills and
restarts) — the command occupies that position of the common sequence and is never undone. -/
theorem success_is_permanent {N : Nat} {s1 s2 : State} {as : List Action} (h1 : Reachable N s1)
    (hr : run N s1 as = some s2) (a b p : Nat)
    (hpa : p ≤ (s1.nodes a).applied) (hpb : p ≤ (s2.nodes b).commit) :
    (s1.nodes a).log[p]? = (s2.nodes b).log[p]? :=
  committed_agree h1 hr a b p (Nat.le_trans hpa ((inv_reachable h1).a a)) hpb

/-- The result of a command is a function of the common prefix before it: two nodes that apply position
`p` have applied exactly the same entries at all positions `≤ p`. -/
theorem success_result_is_position_result {N : Nat} {s1 s2 : State} {as : List Action} (h1 : Reachable N s1)
    (hr : run N s1 as = some s2) (a b p : Nat)
    (hpa : p ≤ (s1.nodes a).applied) (hpb : p ≤ (s2.nodes b).applied) :
    (s1.nodes a).log.take (p + 1) = (s2.nodes b).log.take (p + 1) := by
  have i1 := inv_reachable h1
  have i2 := inv_run i1 hr
  apply List.ext_getElem?
  intro q
  by_cases hq : q ≤ p
  · have := committed_agree h1 hr a b q (by have := i1.a a; omega) (by have := i2.a b; omega)
    rw [List.getElem?_take, List.getElem?_take]; simp [Nat.lt_succ_of_le hq, this]
  · rw [List.getElem?_take, List.getElem?_take]; simp [show ¬ q < p + 1 by omega]

/-- DISCARDED means never applied: if some node has committed position `p` with an entry of term
`t1 ≠ t`, then no node ever commits (hence applies) an entry of term `t` at `p` — the only entry ever
created for the discarded command. -/
theorem discarded_is_never_applied {N : Nat} {s1 s2 : State} {as : List Action} (h1 : Reachable N s1)
    (hr : run N s1 as = some s2) (a b p t : Nat)
    (hpa : p ≤ (s1.nodes a).commit) (hta : termAt (s1.nodes a).log p ≠ t)
    (hpb : p ≤ (s2.nodes b).commit) : termAt (s2.nodes b).log p ≠ t := by
  have := committed_agree h1 hr a b p hpa hpb
  unfold termAt at hta ⊢
  rw [← this]; exact hta

/-- … and the same looking backwards (the discarding node may be the later one). -/
theorem discarded_was_never_applied {N : Nat} {s1 s2 : State} {as : List Action} (h1 : Reachable N s1)
    (hr : run N s1 as = some s2) (a b p t : Nat)
    (hpa : p ≤ (s1.nodes a).commit) (hpb : p ≤ (s2.nodes b).commit)
    (htb : termAt (s2.nodes b).log p ≠ t) : termAt (s1.nodes a).log p ≠ t := by
  have := committed_agree h1 hr a b p hpa hpb
  unfold termAt at htb ⊢
  rw [this]; exact htb

/-- A leader creates entries only in its own term and only at the end of its log (so a command handed
to a leader becomes at most one entry `(position, term)`). -/
theorem leader_appends_one_entry {N : Nat} {s s' : State} {n cmd : Nat}
    (hs : step N s (.clientAppend n cmd) = some s') :
    (s'.nodes n).log = (s.nodes n).log ++ [⟨(s.nodes n).term, cmd⟩] ∧ (s.nodes n).role = .leader ∧
    ∀ k, k ≠ n → (s'.nodes k).log = (s.nodes k).log := by
  simp only [step] at hs
  split at hs
  · rename_i hg
    injection hs with hs; subst hs
    exact ⟨by simp, hg.2, fun k hk => by simp [setNode, hk]⟩
  · cases hs

/-! ## Node level (`PSO.NodeSend`: `_applyCommand`, `_checkCommandsToApply`, `__onLeaderChanged`,
`apply_command_response`, as executed by `driver nodesend` against the real handlers) -/

/-- Each callback fires at most once: over any run of submissions, queue drains, leader changes and
forwarding responses, with distinct callback ids, no id is emitted twice and an emitted id is no longer
held anywhere. (The commit-time consumption in the apply loop is `PSO.C12.callback_once`.) -/
theorem callback_at_most_once_local {cfg : PSO.NodeSend.Conf} {s s' : PSO.NodeSend.Node}
    {es : List PSO.NodeSend.Ev} {o : List PSO.NodeSend.Out}
    (h : PSO.NodeSend.evRun cfg s es = .ok (s', o))
    (huniq : (PSO.NodeSend.submitted es ++ PSO.NodeSend.pendingIds s).Nodup) :
    (PSO.NodeSend.cbIds o).Nodup ∧ ∀ id ∈ PSO.NodeSend.cbIds o, id ∉ PSO.NodeSend.pendingIds s' :=
  PSO.NodeSend.callback_at_most_once_local h huniq

/-- Definite failures (QUEUE_FULL, MISSING_LEADER, NOT_LEADER, REQUEST_DENIED) are produced only on paths
that append nothing, register nothing and forward nothing — so the command is never applied anywhere. -/
theorem failure_paths_append_nothing {cfg : PSO.NodeSend.Conf} {s s' : PSO.NodeSend.Node} {cmd : PSO.NodeSend.Cmd}
    {cb : PSO.NodeSend.Cb} {o : List PSO.NodeSend.Out} {br : PSO.NodeSend.Branch}
    (h : PSO.NodeSend.dispatchOne cfg s cmd cb = .ok (s', o, br)) (hf : ∃ x ∈ o, x.isFailure = true) :
    s'.log = s.log ∧ s'.waitCommit = s.waitCommit ∧ s'.waitReply = s.waitReply ∧ ∀ x ∈ o, x.isForward = false :=
  PSO.NodeSend.failure_paths_append_nothing h hf

theorem queue_full_changes_nothing (cfg : PSO.NodeSend.Conf) (s : PSO.NodeSend.Node) (cmd : PSO.NodeSend.Cmd)
    (cb : PSO.NodeSend.Cb) (hf : ∃ x ∈ (PSO.NodeSend.submit cfg s cmd cb).2, x.isFailure = true) :
    (PSO.NodeSend.submit cfg s cmd cb).1 = s :=
  PSO.NodeSend.queue_full_changes_nothing cfg s cmd cb hf

/-- A callback is registered for commit iff its command was appended — and then under exactly the
index and term of the new entry (the pair that `position_and_term_identify_entry` is about). -/
theorem waiting_commit_registered_iff_appended {cfg : PSO.NodeSend.Conf} {s s' : PSO.NodeSend.Node}
    {cmd : PSO.NodeSend.Cmd} {cb : PSO.NodeSend.Cb} {o : List PSO.NodeSend.Out} {br : PSO.NodeSend.Branch}
    (h : PSO.NodeSend.dispatchOne cfg s cmd cb = .ok (s', o, br)) :
    (s'.log = s.log ∧ s'.waitCommit = s.waitCommit) ∨
    (∃ last, PSO.NodeSend.lastIdx? s.log = some last ∧ s'.log = s.log ++ [⟨cmd, last + 1, s.term⟩] ∧
      s'.waitCommit = s.waitCommit ++ PSO.NodeSend.wcNew cb (last + 1) s.term) :=
  PSO.NodeSend.waiting_commit_registered_iff_appended h

/-- Non-vacuity: in the demo run node 1 (a follower) has applied command 7 at position 2, the same
entry the leader applied. -/
example : ∃ s, Reachable 3 s ∧ 2 ≤ (s.nodes 1).applied ∧ (s.nodes 1).log[2]? = some ⟨1, 7⟩ ∧
    (s.nodes 0).log[2]? = some ⟨1, 7⟩ := by
  have h : ((run 3 init demoActs).map
      (fun s => (decide (2 ≤ (s.nodes 1).applied), (s.nodes 1).log[2]?, (s.nodes 0).log[2]?))) =
      some (true, some ⟨1, 7⟩, some ⟨1, 7⟩) := by
    decide +kernel
  cases hr : run 3 init demoActs with
  | none => rw [hr] at h; cases h
  | some s =>
    rw [hr] at h; simp at h
    exact ⟨s, reachable_iff_run.mpr ⟨_, hr⟩, h.1, h.2.1, h.2.2⟩

end PSO.C02
