import PSO.Proofs.FramingE2E
import PSO.Proofs.FramingDuplex
import PSO.Proofs.FramingDrain
import PSO.Proofs.FramingCallback
import PSO.Proofs.FramingExample

/-!
# C13 — TCP framing delivers each message once, in order and uncorrupted

Theorems about `PSO.Framing` (lean/PSO/Model/Framing.lean), the model of `TcpConnection` **with the repairs D13
(negative length disconnects), D53 (`__processConnection`), D75 (private sentinel for "no frame": `None` is a message)
D76 (`__trySendBuffer` re-arms the WRITE interest) and D83 (the payload must be consumed exactly)**; the same functions are what `driver framing` runs against the real
class.  Vocabulary (lean/PSO/Proofs/Framing*.lean):

* `frames cfg ms`  : the byte stream `frame (enc m₁) ++ frame (enc m₂) ++ …`, `frame p = le32 |p| ++ p`
* `readEv now cs`  : one READ event of the poller in which `recv` returns the chunks `cs`, then EAGAIN
* `gapsOk`         : no read time-out fires between the events
* `sentLog`        : the messages passed to `send` since the socket was created (`connect` starts afresh)
* `writeEv now s`  : one WRITE event of the poller, the socket answering the successive `send` calls with `s`
* `Writable s`     : the first answer takes at least one byte, no later answer is a hard error
* `StrictDec cfg`  : a decodable payload followed by anything is rejected (exact consumption, repair D83)
* `MsgOk cfg m`    : `dec (enc m) = some m`, `|enc m| < 2^31`, its callback does not disconnect (any value is a message, `None` included: D75)
-/
namespace PSO.C13
open PSO PSO.Framing

variable {Msg : Type}

/-! ## writer -/

/-- **writer_prefix.**  For every sequence of events whatsoever (sends, poller events with any pattern of short
writes, zero writes, EAGAIN, hard errors, reads, time-outs, disconnects, reconnects): the bytes the socket has
accepted are a prefix of the concatenated frames of the messages sent since the socket was created, and as long
as the connection is not DISCONNECTED, accepted bytes ++ write buffer is exactly that concatenation: nothing is
lost, duplicated, reordered or torn by partial writes. -/
theorem writer_prefix (cfg : Cfg Msg) (sock : Bool) (now : Nat) (evs : List (Ev Msg)) :
    (run cfg (Conn.init sock now) evs).wire <+: frames cfg (sentLog cfg [] evs) ∧
    ((run cfg (Conn.init sock now) evs).state ≠ .disconnected →
      (run cfg (Conn.init sock now) evs).wire ++ (run cfg (Conn.init sock now) evs).wbuf
        = frames cfg (sentLog cfg [] evs)) := by
  have h0 : WInv (frames cfg ([] : List Msg)) (Conn.init sock now : Conn Msg) :=
    ⟨List.prefix_rfl, fun _ => by simp [Conn.init, frames]⟩
  exact WInv_run cfg evs _ [] h0

/-- non-vacuity: a run that is still connected, with bytes on the wire and bytes left in the buffer -/
example : (run Ex.cfg (Conn.init true 0) Ex.writesShort).state = .connected ∧
    (run Ex.cfg (Conn.init true 0) Ex.writesShort).wire = [1, 0, 0, 0, 1, 1, 0] ∧
    (run Ex.cfg (Conn.init true 0) Ex.writesShort).wbuf = [0, 0, 0] ∧
    sentLog Ex.cfg [] Ex.writesShort = [true, false] := ⟨rfl, rfl, rfl, rfl⟩

/-- **writer_prefix_reconnecting_callback.**  `writer_prefix` for an object whose `onDisconnected` callback calls
`connect()` (accepted or refused) and then `send()`s messages of its own, at whatever point of whatever handler
the connection was lost (hard error or negative result inside a flush after a short write, time-out, EOF, invalid
frame, ERROR event, `disconnect()` by the application …): the bytes the CURRENT socket has accepted are a prefix
of the frames of the messages sent on the current connection (`sentLogCb`: the callback's messages, then the
application's) — nothing of the previous connection, no torn frame — and while not DISCONNECTED accepted bytes ++
write buffer are exactly those frames.  (`stepCb`/`runCb`: lean/PSO/Model/Framing.lean; with `cb = none` this is
`writer_prefix`, `runCb_none`.) -/
theorem writer_prefix_reconnecting_callback (cfg : Cfg Msg) (cb : Option (DiscCb Msg)) (sock : Bool) (now : Nat)
    (evs : List (Ev Msg)) :
    (runCb cfg cb now (Conn.init sock now) evs).wire <+:
      frames cfg (sentLogCb cfg cb now (Conn.init sock now) [] evs) ∧
    ((runCb cfg cb now (Conn.init sock now) evs).state ≠ .disconnected →
      (runCb cfg cb now (Conn.init sock now) evs).wire ++ (runCb cfg cb now (Conn.init sock now) evs).wbuf
        = frames cfg (sentLogCb cfg cb now (Conn.init sock now) [] evs)) := by
  have h0 : WInv (frames cfg ([] : List Msg)) (Conn.init sock now : Conn Msg) :=
    ⟨List.prefix_rfl, fun _ => by simp [Conn.init, frames]⟩
  exact WInv_runCb cfg cb evs now _ [] h0

/-- non-vacuity: a short write, then a hard error in the same flush; the callback redials and queues `true`;
the new socket receives exactly the frame of `true`, nothing of the half-sent frame of `false` -/
example : (runCb Ex.cfg (some Ex.redial) 0 (Conn.init true 0) Ex.lossy).state = .connected ∧
    (runCb Ex.cfg (some Ex.redial) 0 (Conn.init true 0) Ex.lossy).wire = [1, 0, 0, 0, 1] ∧
    (runCb Ex.cfg (some Ex.redial) 0 (Conn.init true 0) Ex.lossy).nDisc = 1 ∧
    sentLogCb Ex.cfg (some Ex.redial) 0 (Conn.init true 0) [] Ex.lossy = [true] := ⟨rfl, rfl, rfl, rfl⟩

/-- **write_interest_armed** (D76).  After every sequence of events whatsoever: while a connect is in flight, and
whenever bytes are pending in the write buffer of a CONNECTED connection, the descriptor is subscribed for
READ|WRITE|ERROR — the poller will report the socket writable without the application having to call `send`
again. -/
theorem write_interest_armed (cfg : Cfg Msg) (sock : Bool) (now : Nat) (evs : List (Ev Msg)) :
    ((run cfg (Conn.init sock now) evs).state = .connecting →
      (run cfg (Conn.init sock now) evs).pollMask = some 7) ∧
    ((run cfg (Conn.init sock now) evs).state = .connected → (run cfg (Conn.init sock now) evs).wbuf ≠ [] →
      (run cfg (Conn.init sock now) evs).pollMask = some 7) :=
  Armed_run cfg evs _ (Armed_init sock now)

/-- non-vacuity: a send that hits EAGAIN after the WRITE interest had been dropped: bytes pending, mask 7 again -/
example : (send Ex.cfg Ex.idle true 1 [.again]).state = .connected ∧ Ex.idle.pollMask = some 5 ∧
    (send Ex.cfg Ex.idle true 1 [.again]).wbuf = [1, 0, 0, 0, 1] ∧
    (send Ex.cfg Ex.idle true 1 [.again]).pollMask = some 7 := ⟨rfl, rfl, rfl, rfl⟩

/-- **write_buffer_drains** (D76).  A CONNECTED connection with pending bytes, no further `send`: WRITE events on a
writable socket (each first `socket.send` takes ≥ 1 byte; short writes, zero writes, EAGAIN afterwards), at least
as many events as pending bytes, no time-out.  Then the write buffer is empty, exactly the pending bytes went to
the socket, in order, the connection is still CONNECTED and the reader side is untouched.  Together with
`write_interest_armed` (the poller does deliver those events) and `writer_prefix`: the last message of a burst
reaches the peer although it hit EAGAIN. -/
theorem write_buffer_drains (cfg : Cfg Msg) (c : Conn Msg) (hc : c.state = .connected)
    (evs : List (Nat × List SendRes)) (hw : ∀ e ∈ evs, Writable e.2)
    (ht : ∀ e ∈ evs, e.1 ≤ c.lastRead + cfg.timeout) (hlen : c.wbuf.length ≤ evs.length) :
    let c' := run cfg c (evs.map fun e => writeEv e.1 e.2)
    c'.wbuf = [] ∧ c'.wire = c.wire ++ c.wbuf ∧ c'.state = .connected ∧
    c'.delivered = c.delivered ∧ c'.rbuf = c.rbuf ∧ c'.nDisc = c.nDisc := by
  intro c'
  obtain ⟨h1, h2, h3, h4⟩ := run_writeEvs cfg evs c hc hw ht hlen
  exact ⟨h1, h2, h3, h4.delivered, h4.rbuf (by rw [h3]; decide), h4.nDisc⟩

/-- non-vacuity: the five bytes of one frame leave through five one-byte writes -/
example : (run Ex.cfg (send Ex.cfg Ex.idle true 1 [.again]) (Ex.drips.map fun e => writeEv e.1 e.2)).wbuf = [] ∧
    (run Ex.cfg (send Ex.cfg Ex.idle true 1 [.again]) (Ex.drips.map fun e => writeEv e.1 e.2)).wire =
      [] ++ [1, 0, 0, 0, 1] := by
  have h := write_buffer_drains Ex.cfg (send Ex.cfg Ex.idle true 1 [.again]) rfl Ex.drips Ex.dripsWritable
    (by decide) (by decide)
  exact ⟨h.1, h.2.1⟩

/-- The unrepaired `send` (D76): the same situation leaves bytes pending on a CONNECTED connection whose
descriptor is subscribed for READ|ERROR only — no WRITE event will come, the bytes wait for the next `send`. -/
theorem pinned_partial_write_stall_counterexample :
    ∃ (cfg : Cfg Bool) (c : Conn Bool) (m : Bool),
      (sendPinned cfg c m 1 [.again]).state = .connected ∧ (sendPinned cfg c m 1 [.again]).wbuf ≠ [] ∧
      (sendPinned cfg c m 1 [.again]).pollMask = some 5 ∧ (send cfg c m 1 [.again]).pollMask = some 7 :=
  ⟨Ex.cfg, Ex.idle, true, rfl, by decide, rfl, rfl⟩

/-! ## reader -/

/-- **fragmentation_independent.**  Two arbitrary ways of cutting the same bytes into `recv` chunks and READ
events (no time-out in either) leave the connection in the same state: same delivered sequence, same
connection state, same buffers, same number of `onDisconnected` calls — for *any* bytes, valid or not. -/
theorem fragmentation_independent (cfg : Cfg Msg)
    (c : Conn Msg) (hc : c.state = .connected) (hidle : parseOne cfg.dec c.rbuf = .wait)
    (evs₁ evs₂ : List (Nat × List Bytes))
    (hne₁ : ∀ e ∈ evs₁, ∀ b ∈ e.2, b ≠ []) (hne₂ : ∀ e ∈ evs₂, ∀ b ∈ e.2, b ≠ [])
    (hg₁ : gapsOk cfg.timeout c.lastRead (evs₁.map (·.1))) (hg₂ : gapsOk cfg.timeout c.lastRead (evs₂.map (·.1)))
    (hsame : (evs₁.map (·.2)).flatten.flatten = (evs₂.map (·.2)).flatten.flatten) :
    let c₁ := run cfg c (evs₁.map fun e => readEv e.1 e.2)
    let c₂ := run cfg c (evs₂.map fun e => readEv e.1 e.2)
    c₁.delivered = c₂.delivered ∧ c₁.state = c₂.state ∧ c₁.rbuf = c₂.rbuf ∧ c₁.wbuf = c₂.wbuf ∧
    c₁.wire = c₂.wire ∧ c₁.nDisc = c₂.nDisc ∧ c₁.pollMask = c₂.pollMask := by
  intro c₁ c₂
  have h0 : parseLoop cfg c = c := parseLoop_wait cfg c hidle
  have h1 := run_reads_eq cfg evs₁ c hc hne₁ hg₁ 0
  have h2 := run_reads_eq cfg evs₂ c hc hne₂ hg₂ 0
  rw [h0] at h1 h2
  rw [hsame] at h1
  have h : c₁.atTime 0 = c₂.atTime 0 := h1.trans h2.symm
  exact Conn.atTime_fields h

/-- non-vacuity: two different fragmentations of the same twelve bytes -/
example : (run Ex.cfg (Conn.init true 0) (Ex.reads.map fun e => readEv e.1 e.2)).delivered =
    (run Ex.cfg (Conn.init true 0) (Ex.reads'.map fun e => readEv e.1 e.2)).delivered :=
  (fragmentation_independent Ex.cfg (Conn.init true 0) rfl rfl Ex.reads Ex.reads'
    (by decide) (by decide) ⟨by decide, by decide, trivial⟩ ⟨by decide, trivial⟩ rfl).1

/-- **reader_exact.**  An idle connected connection (nothing complete in its buffer) receives, in any
fragmentation whatsoever, bytes that complete the frames of `ms` followed by `tail`, an incomplete frame
(`[]`, or any strict prefix of a frame, see `strict_prefix_waits`).  Then exactly `ms` is delivered — in order,
each once — the connection is still CONNECTED, no `onDisconnected`, and exactly `tail` stays buffered.
Payload sizes 0 … 2^31-1. -/
theorem reader_exact (cfg : Cfg Msg) (ms : List Msg) (hok : ∀ m ∈ ms, MsgOk cfg m)
    (c : Conn Msg) (hc : c.state = .connected) (hidle : parseOne cfg.dec c.rbuf = .wait)
    (evs : List (Nat × List Bytes)) (hne : ∀ e ∈ evs, ∀ b ∈ e.2, b ≠ [])
    (hg : gapsOk cfg.timeout c.lastRead (evs.map (·.1)))
    (tail : Bytes) (htail : parseOne cfg.dec tail = .wait)
    (hcat : c.rbuf ++ (evs.map (·.2)).flatten.flatten = frames cfg ms ++ tail) :
    let c' := run cfg c (evs.map fun e => readEv e.1 e.2)
    c'.delivered = c.delivered ++ ms ∧ c'.state = .connected ∧ c'.rbuf = tail ∧
    c'.nDisc = c.nDisc ∧ c'.wbuf = c.wbuf ∧ c'.wire = c.wire := by
  intro c'
  have h0 : parseLoop cfg c = c := parseLoop_wait cfg c hidle
  have h1 := run_reads_eq cfg evs c hc hne hg 0
  rw [h0, parseLoop_frames cfg ms hok (c.feed _) tail hcat,
      parseLoop_wait cfg _ (by exact htail)] at h1
  obtain ⟨f1, f2, f3, f4, f5, f6, _⟩ := Conn.atTime_fields h1
  exact ⟨f1, f2.trans hc, f3, f6, f4, f5⟩

/-- non-vacuity: two messages and a partial third frame, cut 3+3 | 6 -/
example : (run Ex.cfg (Conn.init true 0) (Ex.reads.map fun e => readEv e.1 e.2)).delivered = [] ++ [true, false] ∧
    (run Ex.cfg (Conn.init true 0) (Ex.reads.map fun e => readEv e.1 e.2)).rbuf = [1, 0] := by
  have h := reader_exact Ex.cfg [true, false] (fun m _ => Ex.msgOk m) (Conn.init true 0) rfl rfl Ex.reads
    (by decide) ⟨by decide, by decide, trivial⟩ [1, 0] rfl rfl
  exact ⟨h.1, h.2.2.1⟩

/-- a strict prefix of any frame is an "incomplete frame" in the sense of `reader_exact` -/
theorem strict_prefix_waits (dec : Bytes → Option Msg) (p t : Bytes) (hs : p.length < 2147483648)
    (ht : t <+: frame p) (hlt : t.length < (frame p).length) : parseOne dec t = .wait :=
  parseOne_partial dec p t hs ht hlt

/-- **invalid_disconnects.**  The stream consists of the frames of `ms`, then — at a frame boundary — either four
bytes with a NEGATIVE length field or a complete frame whose payload does not decode (`dec = none`: zlib or pickle
raise), then anything.  In any fragmentation: exactly `ms` is delivered (nothing of the invalid frame, nothing
after it, nothing twice), the connection is DISCONNECTED with exactly one `onDisconnected`, both buffers are
empty.  (The model has no exception channel out of the event loop: every branch of `__processParseMessage`'s
`try/except:` is a total function here; the harness monitor checks on the real code that none escapes.) -/
theorem invalid_disconnects (cfg : Cfg Msg) (ms : List Msg) (hok : ∀ m ∈ ms, MsgOk cfg m)
    (c : Conn Msg) (hc : c.state = .connected) (hidle : parseOne cfg.dec c.rbuf = .wait)
    (evs : List (Nat × List Bytes)) (hne : ∀ e ∈ evs, ∀ b ∈ e.2, b ≠ [])
    (hg : gapsOk cfg.timeout c.lastRead (evs.map (·.1)))
    (bad rest : Bytes)
    (hbad : (4 ≤ bad.length ∧ leInt32 bad < 0) ∨
            (∃ p, bad = frame p ∧ p.length < 2147483648 ∧ cfg.dec p = none))
    (hcat : c.rbuf ++ (evs.map (·.2)).flatten.flatten = frames cfg ms ++ (bad ++ rest)) :
    let c' := run cfg c (evs.map fun e => readEv e.1 e.2)
    c'.delivered = c.delivered ++ ms ∧ c'.state = .disconnected ∧ c'.nDisc = c.nDisc + 1 ∧
    c'.rbuf = [] ∧ c'.wbuf = [] ∧ c'.pollMask = none := by
  intro c'
  have hb : parseOne cfg.dec (bad ++ rest) = .bad := by
    rcases hbad with ⟨h4, hn⟩ | ⟨p, rfl, hs, hd⟩
    · exact parseOne_negative cfg.dec _ (by simp; omega) (by rw [leInt32_append bad rest h4]; exact hn)
    · exact parseOne_undecodable cfg.dec p rest hd hs
  have h0 : parseLoop cfg c = c := parseLoop_wait cfg c hidle
  have h1 := run_reads_eq cfg evs c hc hne hg 0
  rw [h0, parseLoop_frames cfg ms hok (c.feed _) (bad ++ rest) hcat,
      parseLoop_bad cfg _ (by exact hb)] at h1
  obtain ⟨f1, f2, f3, f4, _, f6, f7⟩ := Conn.atTime_fields h1
  refine ⟨f1, f2, ?_, f3, f4, f7⟩
  rw [f6]
  simp [disconnect, Conn.feed, hc]

/-- non-vacuity, negative length: `[true]` delivered, then DISCONNECTED -/
example : (run Ex.cfg (Conn.init true 0) (Ex.readsNeg.map fun e => readEv e.1 e.2)).delivered = [] ++ [true] ∧
    (run Ex.cfg (Conn.init true 0) (Ex.readsNeg.map fun e => readEv e.1 e.2)).state = .disconnected := by
  have h := invalid_disconnects Ex.cfg [true] (fun m _ => Ex.msgOk m) (Conn.init true 0) rfl rfl Ex.readsNeg
    (by decide) ⟨by decide, by decide, trivial⟩ [0xFB, 0xFF, 0xFF, 0xFF] [9, 9] (Or.inl ⟨by decide, by decide⟩) rfl
  exact ⟨h.1, h.2.1⟩

/-- non-vacuity, undecodable payload -/
example : (run Ex.cfg (Conn.init true 0) (Ex.readsUndec.map fun e => readEv e.1 e.2)).delivered = [] ++ [true] ∧
    (run Ex.cfg (Conn.init true 0) (Ex.readsUndec.map fun e => readEv e.1 e.2)).nDisc = 0 + 1 := by
  have h := invalid_disconnects Ex.cfg [true] (fun m _ => Ex.msgOk m) (Conn.init true 0) rfl rfl Ex.readsUndec
    (by decide) ⟨by decide, by decide, trivial⟩ (frame [7]) [1, 0, 0, 0, 1]
    (Or.inr ⟨[7], rfl, by decide, rfl⟩) rfl
  exact ⟨h.1, h.2.2.1⟩

/-- **length_overrun_disconnects** (D83).  A length field corrupted UPWARDS: after the frames of `ms` comes a frame
whose payload `p` is decodable but whose length field says `|p| + k`, `k ≥ 1`, and at least `k` more bytes follow
(the next frames, say).  With a decoder that consumes its input exactly (`StrictDec`: the repaired
`zlib.decompressobj` / `pickle.load` path) this is an invalid frame: exactly `ms` is delivered — not the message of
`p`, nothing behind it — and the connection is DISCONNECTED, in any fragmentation. -/
theorem length_overrun_disconnects (cfg : Cfg Msg) (hS : StrictDec cfg) (ms : List Msg) (hok : ∀ m ∈ ms, MsgOk cfg m)
    (c : Conn Msg) (hc : c.state = .connected) (hidle : parseOne cfg.dec c.rbuf = .wait)
    (evs : List (Nat × List Bytes)) (hne : ∀ e ∈ evs, ∀ b ∈ e.2, b ≠ [])
    (hg : gapsOk cfg.timeout c.lastRead (evs.map (·.1)))
    (p : Bytes) (m : Msg) (hp : cfg.dec p = some m) (k : Nat) (hk : 1 ≤ k) (hsz : p.length + k < 2147483648)
    (rest : Bytes) (hrest : k ≤ rest.length)
    (hcat : c.rbuf ++ (evs.map (·.2)).flatten.flatten = frames cfg ms ++ (le32 (p.length + k) ++ p ++ rest)) :
    let c' := run cfg c (evs.map fun e => readEv e.1 e.2)
    c'.delivered = c.delivered ++ ms ∧ c'.state = .disconnected ∧ c'.nDisc = c.nDisc + 1 ∧
    c'.rbuf = [] ∧ c'.wbuf = [] ∧ c'.pollMask = none := by
  have hl : (rest.take k).length = k := by simp [List.length_take]; omega
  have hx : rest.take k ≠ [] := by
    intro h; rw [h] at hl; simp at hl; omega
  refine invalid_disconnects cfg ms hok c hc hidle evs hne hg (frame (p ++ rest.take k)) (rest.drop k)
    (Or.inr ⟨p ++ rest.take k, rfl, by simp [hl]; omega, hS p _ m hp hx⟩) ?_
  rw [hcat, frame_overrun p rest k hrest]

/-- non-vacuity: the frame of `true` with its length raised by one, then the frame of `false`: nothing delivered -/
example : (run Ex.cfg (Conn.init true 0) (Ex.readsOver.map fun e => readEv e.1 e.2)).delivered = [] ++ [] ∧
    (run Ex.cfg (Conn.init true 0) (Ex.readsOver.map fun e => readEv e.1 e.2)).state = .disconnected := by
  have h := length_overrun_disconnects Ex.cfg Ex.cfgStrict [] (by simp) (Conn.init true 0) rfl rfl Ex.readsOver
    (by decide) ⟨by decide, by decide, trivial⟩ [1] true rfl 1 (by decide) (by decide) [1, 0, 0, 0, 0] (by decide) rfl
  exact ⟨h.1, h.2.1⟩

/-- The unrepaired decoder (D83, case A): a decoder that ignores trailing bytes, as `zlib.decompress` and
`pickle.loads` do.  The stream is the frames of `[true, false, true]` with the FIRST length field raised by
exactly one frame (1 → 1 + 4 + 1): `[true, true]` is delivered, the connection stays CONNECTED with an empty
buffer and no `onDisconnected` — the second message has vanished without a trace. -/
theorem pinned_length_overrun_counterexample :
    frames Ex.lenient [true, false, true] = [1, 0, 0, 0, 1, 1, 0, 0, 0, 0, 1, 0, 0, 0, 1] ∧
    Ex.overrun = [6, 0, 0, 0, 1, 1, 0, 0, 0, 0, 1, 0, 0, 0, 1] ∧
    (∀ p x m, Ex.lenient.dec p = some m → Ex.lenient.dec (p ++ x) = some m) ∧
    (run Ex.lenient (Conn.init true 0) [readEv 1 [Ex.overrun]]).delivered = [true, true] ∧
    (run Ex.lenient (Conn.init true 0) [readEv 1 [Ex.overrun]]).state = .connected ∧
    (run Ex.lenient (Conn.init true 0) [readEv 1 [Ex.overrun]]).rbuf = [] ∧
    (run Ex.lenient (Conn.init true 0) [readEv 1 [Ex.overrun]]).nDisc = 0 := by
  refine ⟨rfl, rfl, ?_, ?_⟩
  · intro p x m h
    cases p with
    | nil => simp [Ex.lenient] at h
    | cons b t => simpa [Ex.lenient] using h
  · let c0 : Conn Bool := ((Conn.init true 0 : Conn Bool).feed [Ex.overrun].flatten).atTime 1
    let c1 : Conn Bool := { c0 with rbuf := [1, 0, 0, 0, 1], delivered := c0.delivered ++ [true] }
    let c2 : Conn Bool := { c1 with rbuf := [], delivered := c1.delivered ++ [true] }
    have e : run Ex.lenient (Conn.init true 0) [readEv 1 [Ex.overrun]] = c2 := by
      simp only [run, List.foldl_cons, List.foldl_nil]
      rw [poll_readEv Ex.lenient (Conn.init true 0) 1 [Ex.overrun] rfl (by decide) (by decide)]
      calc parseLoop Ex.lenient c0 = parseLoop Ex.lenient c1 :=
            parseLoop_msg_nocb Ex.lenient c0 true [1, 0, 0, 0, 1] rfl rfl
        _ = parseLoop Ex.lenient c2 := parseLoop_msg_nocb Ex.lenient c1 true [] rfl rfl
        _ = c2 := parseLoop_wait Ex.lenient c2 rfl
    rw [e]
    exact ⟨rfl, rfl, rfl, rfl⟩

/-! ## reads interleaved with sends and WRITE events (full duplex) -/

/-- **reader_exact_interleaved.**  As `reader_exact`, but the READ events are interleaved in any way with `send`
calls and with poller events carrying the WRITE bit (alone or together with READ), every `socket.send` answer being
a short write, a zero write or EAGAIN (`IoEv.Ok`), no time-out (`gapsOkIo`): the reader still delivers exactly
`ms`, stays CONNECTED and keeps exactly the incomplete tail.  (`writer_prefix` holds of the same run.) -/
theorem reader_exact_interleaved (cfg : Cfg Msg) (ms : List Msg) (hok : ∀ m ∈ ms, MsgOk cfg m)
    (c : Conn Msg) (hc : c.state = .connected) (hidle : parseOne cfg.dec c.rbuf = .wait)
    (evs : List (IoEv Msg)) (hev : ∀ e ∈ evs, e.Ok) (hg : gapsOkIo cfg.timeout c.lastRead evs)
    (tail : Bytes) (htail : parseOne cfg.dec tail = .wait)
    (hcat : c.rbuf ++ ((ioReads evs).map (·.2)).flatten.flatten = frames cfg ms ++ tail) :
    let c' := run cfg c (evs.map IoEv.toEv)
    c'.delivered = c.delivered ++ ms ∧ c'.state = .connected ∧ c'.rbuf = tail ∧ c'.nDisc = c.nDisc := by
  intro c'
  have hsim := run_io_sim cfg evs c c (Sim.refl c) (Or.inl hc) hev hg
  obtain ⟨h1, h2, h3, h4, _⟩ := reader_exact cfg ms hok c hc hidle (ioReads evs) (ioReads_ne evs hev)
    (gapsOkIo_reads cfg.timeout evs c.lastRead hg) tail htail hcat
  have hst : c'.state = .connected := hsim.state.trans h2
  exact ⟨hsim.delivered.trans h1, hst, (hsim.rbuf (by rw [hst]; decide)).trans h3, hsim.nDisc.trans h4⟩

/-- non-vacuity: `Ex.ioEvs` (sends with short write / EAGAIN, READ+WRITE in one event, a zero write) -/
example : (run Ex.cfg (Conn.init true 0) (Ex.ioEvs.map IoEv.toEv)).delivered = [] ++ [true, false] ∧
    (run Ex.cfg (Conn.init true 0) (Ex.ioEvs.map IoEv.toEv)).rbuf = [1, 0] := by
  have h := reader_exact_interleaved Ex.cfg [true, false] (fun m _ => Ex.msgOk m) (Conn.init true 0) rfl rfl
    Ex.ioEvs Ex.ioOk ⟨by decide, by decide, by decide, by decide, by decide, trivial⟩ [1, 0] rfl rfl
  exact ⟨h.1, h.2.2.1⟩

/-- **invalid_disconnects_interleaved.**  As `invalid_disconnects`, with the READ events interleaved with benign
sends / WRITE events: exactly `ms` delivered, DISCONNECTED, one `onDisconnected`. -/
theorem invalid_disconnects_interleaved (cfg : Cfg Msg) (ms : List Msg)
    (hok : ∀ m ∈ ms, MsgOk cfg m)
    (c : Conn Msg) (hc : c.state = .connected) (hidle : parseOne cfg.dec c.rbuf = .wait)
    (evs : List (IoEv Msg)) (hev : ∀ e ∈ evs, e.Ok) (hg : gapsOkIo cfg.timeout c.lastRead evs)
    (bad rest : Bytes)
    (hbad : (4 ≤ bad.length ∧ leInt32 bad < 0) ∨
            (∃ p, bad = frame p ∧ p.length < 2147483648 ∧ cfg.dec p = none))
    (hcat : c.rbuf ++ ((ioReads evs).map (·.2)).flatten.flatten = frames cfg ms ++ (bad ++ rest)) :
    let c' := run cfg c (evs.map IoEv.toEv)
    c'.delivered = c.delivered ++ ms ∧ c'.state = .disconnected ∧ c'.nDisc = c.nDisc + 1 := by
  intro c'
  have hsim := run_io_sim cfg evs c c (Sim.refl c) (Or.inl hc) hev hg
  obtain ⟨h1, h2, h3, _⟩ := invalid_disconnects cfg ms hok c hc hidle (ioReads evs) (ioReads_ne evs hev)
    (gapsOkIo_reads cfg.timeout evs c.lastRead hg) bad rest hbad hcat
  exact ⟨hsim.delivered.trans h1, hsim.state.trans h2, hsim.nDisc.trans h3⟩

/-- non-vacuity -/
example : (run Ex.cfg (Conn.init true 0) (Ex.ioEvsNeg.map IoEv.toEv)).delivered = [] ++ [true] ∧
    (run Ex.cfg (Conn.init true 0) (Ex.ioEvsNeg.map IoEv.toEv)).state = .disconnected := by
  have h := invalid_disconnects_interleaved Ex.cfg [true] (fun m _ => Ex.msgOk m) (Conn.init true 0) rfl rfl
    Ex.ioEvsNeg Ex.ioOkNeg ⟨by decide, by decide, by decide, by decide, trivial⟩
    [0xFB, 0xFF, 0xFF, 0xFF] [9, 9] (Or.inl ⟨by decide, by decide⟩) rfl
  exact ⟨h.1, h.2.1⟩

/-! ## writer and reader together -/

/-- **end_to_end.**  Take any run of a writer connection (any events at all) and let a reader connection receive
the bytes the writer's socket accepted, cut in any way.  The reader delivers a prefix of the messages that were
sent, in order, each once, and stays connected; if the writer is still up with an empty write buffer the reader
has delivered *all* of them. -/
theorem end_to_end (cfg : Cfg Msg) (hok : ∀ m, MsgOk cfg m)
    (sock : Bool) (now : Nat) (wevs : List (Ev Msg))
    (r : Conn Msg) (hr : r.state = .connected) (hempty : r.rbuf = [])
    (evs : List (Nat × List Bytes)) (hne : ∀ e ∈ evs, ∀ b ∈ e.2, b ≠ [])
    (hg : gapsOk cfg.timeout r.lastRead (evs.map (·.1)))
    (hwire : (evs.map (·.2)).flatten.flatten = (run cfg (Conn.init sock now) wevs).wire) :
    let w := run cfg (Conn.init sock now) wevs
    let r' := run cfg r (evs.map fun e => readEv e.1 e.2)
    ∃ got, got <+: sentLog cfg [] wevs ∧ r'.delivered = r.delivered ++ got ∧ r'.state = .connected ∧
      (w.state ≠ .disconnected → w.wbuf = [] → got = sentLog cfg [] wevs) := by
  intro w r'
  obtain ⟨hpre, hall⟩ := writer_prefix cfg sock now wevs
  obtain ⟨ms1, ms2, tail, hsplit, hw, htail⟩ := prefix_frames_decomp cfg _ _ hpre
  have hidle : parseOne cfg.dec r.rbuf = .wait := by rw [hempty]; rfl
  have hwait : parseOne cfg.dec tail = .wait := by
    rcases htail with rfl | ⟨m, ms3, _, hp, hl⟩
    · rfl
    · exact parseOne_partial cfg.dec _ _ (hok m).2.1 hp hl
  have hcat : r.rbuf ++ (evs.map (·.2)).flatten.flatten = frames cfg ms1 ++ tail := by
    rw [hempty, hwire, List.nil_append]; exact hw
  obtain ⟨hd, hs, hrb, _⟩ := reader_exact cfg ms1 (fun m _ => hok m) r hr hidle evs hne hg tail hwait hcat
  refine ⟨ms1, by rw [hsplit]; exact List.prefix_append _ _, hd, hs, fun hup hwb => ?_⟩
  have hfull := hall hup
  rw [show (run cfg (Conn.init sock now) wevs).wbuf = [] from hwb, List.append_nil, hw, hsplit,
      frames_append] at hfull
  -- frames ms1 ++ tail = frames ms1 ++ frames ms2, and tail is empty or a strict prefix of ms2's first frame
  have ht2 : tail = frames cfg ms2 := List.append_cancel_left hfull
  rcases htail with rfl | ⟨m, ms3, rfl, _, hl⟩
  · cases ms2 with
    | nil => simp [hsplit]
    | cons m ms3 =>
      rw [frames_cons] at ht2
      have := congrArg List.length ht2
      simp [frame_length] at this
      omega
  · rw [ht2, frames_cons] at hl
    simp at hl
    omega

/-- non-vacuity: the writer of `Ex.writes` (short write, EAGAIN, flush) and a reader that gets its ten bytes as 3+4 | 3 -/
example : ∃ got, got <+: sentLog Ex.cfg [] Ex.writes ∧
    (run Ex.cfg (Conn.init true 0) (Ex.readsW.map fun e => readEv e.1 e.2)).delivered = [] ++ got ∧
    (run Ex.cfg (Conn.init true 0) (Ex.readsW.map fun e => readEv e.1 e.2)).state = .connected ∧
    ((run Ex.cfg (Conn.init true 0) Ex.writes).state ≠ .disconnected →
      (run Ex.cfg (Conn.init true 0) Ex.writes).wbuf = [] → got = sentLog Ex.cfg [] Ex.writes) :=
  end_to_end Ex.cfg Ex.msgOk true 0 Ex.writes (Conn.init true 0) rfl rfl Ex.readsW
    (by decide) ⟨by decide, by decide, trivial⟩ rfl

/-! ## the defect that was repaired (D13) -/

/-- The pinned `__processParseMessage` (no sign check) hands the payload of a frame with length field −5 to the
decoder and returns a message; the repaired function rejects the same buffer. -/
theorem pinned_negative_length_counterexample :
    ∃ (dec : Bytes → Option Nat) (rb : Bytes), 4 ≤ rb.length ∧ leInt32 rb < 0 ∧
      parseOnePinned dec rb = .msg 7 [0] ∧ parseOne dec rb = .bad :=
  ⟨fun p => if p = [1, 2, 3] then some 7 else none, [0xFB, 0xFF, 0xFF, 0xFF, 1, 2, 3, 0],
   by decide, by decide, by rfl, by rfl⟩

end PSO.C13
