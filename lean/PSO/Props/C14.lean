import PSO.Proofs.TransportReach

/-!
# C14 — Transport keeps one live connection per peer and reports it truthfully

Theorems about `PSO.Transport` (model of `TCPTransport` + the connection-state part of `TcpConnection`/`TcpServer`
after the repairs `fixes/D51`, `D52`, `D53`), the very functions `driver transport` executes.

`Reach s`: `s = run (init selfAddr retry timeout now others) evs` for distinct `others` and ANY event list `evs`
(ticks with any immediate connect failures, accepted sockets, poll events with/without error on any object, reads
carrying any messages — a member's address, `'readonly'`, utility lists, garbage —, time steps, `send`,
`dropNode` of anything) in which `addNode a` only occurs for an address that is not a member at that moment
(`AdmissibleRun`; SyncObj checks exactly that before it calls `addNode`; `double_add_counterexample` shows the
hypothesis is needed: the code overwrites the registry entry and forgets a possibly connected object).

PARTIAL SCOPE (named): the kernel and the network are the event alphabet, not derived.  The model cannot exhibit:
packet loss / retransmission, the timing of half-open detection (keep-alive, `tcp_syn_retries`), `SO_ERROR` timing,
the accept backlog, DNS (`connect(host=None)`), partial `send()`s and frame reassembly (C13), fd-number reuse.
Encryption (`password`) is out of scope.
-/
namespace PSO.C14
open PSO.Transport

/-! ## source_truthful -/

/-- The only place where `_onMessageReceived(node, message)` is called: the read loop of an object whose message
callback is bound to `n` and whose socket is still the one the loop started with. -/
theorem delivery_point (s : St) (c g : Nat) (k : Conn) (n : NodeId) (m : Msg) (ms : List Msg)
    (hk : s.conn? c = some k) (hg : k.gen = g) (hcb : k.cb = .deliver n) :
    s.processMsgs c g (m :: ms) = (s.emit (.deliver n m)).processMsgs c g ms := by
  rw [St.processMsgs]
  simp [hk, hg, hcb]

/-- In every reachable state, an object that can still pass messages up as coming from `n` (bound to `n`, not
DISCONNECTED) is THE registered connection of `n`; for a TCP node, `n` is a member.  Objects get bound to `n` only
by `addNode n` (dialled to `n`) or by a first message naming `n` while `n` is a member (`St.hsRegister`). -/
theorem source_truthful {s : St} (h : Reach s) {c : Nat} {k : Conn} {n : NodeId}
    (hk : s.conn? c = some k) (hcb : k.cb = .deliver n) (hst : k.state ≠ .disconnected) :
    lookup n s.reg = some c ∧ ∀ a, n = .tcp a → a ∈ s.nodes := by
  have hl := h.inv.live c k n hk hcb hst
  exact ⟨hl, fun a e => by subst e; exact h.inv.regMem a c hl⟩

/-- Never from a non-member: no object bound to a TCP address that is not a member can deliver. -/
theorem never_from_non_member {s : St} (h : Reach s) {a c : Nat} {k : Conn} (ha : a ∉ s.nodes)
    (hk : s.conn? c = some k) (hcb : k.cb = .deliver (.tcp a)) : k.state = .disconnected := by
  cases hst : k.state with
  | disconnected => rfl
  | connecting => exact absurd ((source_truthful h hk hcb (by rw [hst]; simp)).2 a rfl) ha
  | connected => exact absurd ((source_truthful h hk hcb (by rw [hst]; simp)).2 a rfl) ha

/-- Never after `dropNode X`: right after the call every object bound to `X` is DISCONNECTED (and stays so until
`addNode X`, by `never_from_non_member`). -/
theorem never_after_dropNode {s : St} (h : Reach s) (a : Nat) {c : Nat} {k : Conn}
    (hk : (step s (.dropNode (.tcp a))).conn? c = some k) (hcb : k.cb = .deliver (.tcp a)) :
    k.state = .disconnected :=
  never_from_non_member (h.step (e := .dropNode (.tcp a)) trivial) (dropNode_not_member s a) hk hcb

/-! ## one_registered_connection -/

/-- At most one object per node can receive events and deliver as that node, and it is the registered one; in
particular a stale connection replaced by a new incoming one has been disconnected (D52). -/
theorem one_registered_connection {s : St} (h : Reach s) {c1 c2 : Nat} {k1 k2 : Conn} {n : NodeId}
    (h1 : s.conn? c1 = some k1) (h2 : s.conn? c2 = some k2) (hcb1 : k1.cb = .deliver n) (hcb2 : k2.cb = .deliver n)
    (hs1 : k1.state ≠ .disconnected) (hs2 : k2.state ≠ .disconnected) : c1 = c2 := by
  have e1 := (source_truthful h h1 hcb1 hs1).1
  have e2 := (source_truthful h h2 hcb2 hs2).1
  rw [e1] at e2
  exact Option.some.inj e2

/-- The registry never maps two nodes to the same object. -/
theorem registry_injective {s : St} (h : Reach s) {n1 n2 : NodeId} {c : Nat}
    (h1 : lookup n1 s.reg = some c) (h2 : lookup n2 s.reg = some c) : n1 = n2 :=
  h.inv.inj n1 n2 c h1 h2

/-! ## notifications_consistent -/

/-- `isNodeConnected X` (the set SyncObj maintains from the four callbacks) implies that the registered connection
of `X` is CONNECTED. -/
theorem notifications_consistent {s : St} (h : Reach s) {n : NodeId} (hv : n ∈ s.view) :
    ∃ c k, lookup n s.reg = some c ∧ s.conn? c = some k ∧ k.state = .connected :=
  h.inv.viewOk n hv

/-- `send` reports `True` exactly when, after the attempt, the registered connection of the node is CONNECTED. -/
theorem send_result (s : St) (n : NodeId) (sf f : Bool) :
    ∃ b pre, (s.send n sf f).log = pre ++ [.sendResult b] ∧
      (b = true ↔ ∃ c k, (s.send n sf f).regConn n = some (c, k) ∧ k.state = .connected) := by
  unfold St.send
  cases hr : s.regConn n with
  | none =>
    refine ⟨false, s.log, rfl, ?_⟩
    have : (s.emit (.sendResult false)).regConn n = none := hr
    simp [this]
  | some ck =>
    obtain ⟨c, k⟩ := ck
    simp only
    by_cases hst : (k.state != CState.connected) = true
    · simp only [hst, if_true]
      refine ⟨false, s.log, rfl, ?_⟩
      have : (s.emit (.sendResult false)).regConn n = some (c, k) := hr
      simp only [this, Bool.false_eq_true, false_iff, not_exists, not_and]
      intro c' k' e hk'
      cases e
      simp [hk'] at hst
    · simp only [hst, Bool.false_eq_true, if_false]
      generalize (if s.timedOut k = true then s.connDisconnect c none f
        else if sf = true then s.connDisconnect c none f else s) = s1
      refine ⟨_, s1.log, rfl, ?_⟩
      have hreg : ∀ o, (s1.emit o).regConn n = s1.regConn n := fun _ => rfl
      rw [hreg]
      cases hr1 : s1.regConn n with
      | none => simp
      | some ck1 =>
        obtain ⟨c1, k1⟩ := ck1
        simp only [beq_iff_eq, Option.some.injEq, Prod.mk.injEq]
        constructor
        · intro h; exact ⟨c1, k1, ⟨rfl, rfl⟩, h⟩
        · rintro ⟨_, _, ⟨rfl, rfl⟩, h⟩; exact h

/-- `_connectIfNecessarySingle`'s `assert node in self._connections` never fails. -/
theorem no_assertion_failure {s : St} (h : Reach s) {a : Nat} (ha : a ∈ s.nodes)
    (hs : s.shouldConnect a false = true) : ∃ c, lookup (.tcp a) s.reg = some c :=
  h.inv.dialReg a ha hs

/-- Which side dials: of two ordinary nodes with different addresses exactly one, the larger address. -/
theorem one_dialler (sa sb : St) (a b : Nat) (ha : sa.selfAddr = some a) (hb : sb.selfAddr = some b) (hne : a ≠ b) :
    (sa.shouldConnect b false = true ↔ sb.shouldConnect a false = false) ∧
    (sa.shouldConnect b false = true ↔ a > b) := by
  simp only [St.shouldConnect, ha, hb, Bool.not_false, Bool.true_and, decide_eq_true_eq, decide_eq_false_iff_not]
  refine ⟨⟨fun h => by omega, fun h => by omega⟩, trivial⟩

/-! ## reconnect_bound -/

/-- Bounded progress of the dialling side, from ANY registry state satisfying the invariant (not only reachable
ones): `a` a member this side dials, `c` its registered object, created by `addNode`, not CONNECTED (DISCONNECTED or
an attempt pending for however long), attempt times not in the future.  Hypotheses on the environment ("the fabric
accepts connects"): `d ≥ connectionRetryTime` passes, one tick whose `connect()` to `a` does not fail at once, and
the fabric answers with two poll events without error and without a failing send.  Then the registered connection
of `a` is CONNECTED, `a` is reported connected, at time `now + d`: within connectionRetryTime + one tick. -/
theorem reconnect_bound {s : St} {a c : Nat} {k : Conn} (hinv : Inv s) (hmem : a ∈ s.nodes)
    (hdial : s.shouldConnect a false = true) (hreg : lookup (.tcp a) s.reg = some c)
    (hk : s.conn? c = some k) (hdl : k.dialled = true) (hnc : k.state ≠ .connected)
    (hla : ∀ t, lookup a s.lastAttempt = some t → t ≤ s.now)
    (d : Nat) (hd : s.retry ≤ d) (fl : List Nat) (hfl : a ∉ fl) :
    let s' := run s [.advance d, .tick fl, .pollOk c false false, .pollOk c false false]
    (∃ k', s'.conn? c = some k' ∧ k'.state = .connected) ∧ lookup (.tcp a) s'.reg = some c ∧
      NodeId.tcp a ∈ s'.view ∧ s'.now = s.now + d :=
  reconnect_script ⟨hinv, hmem, hdial, hreg⟩ hk hdl hnc hla d hd fl hfl

/-! ## the hypothesis `AdmissibleRun` is needed -/

/-- `addNode` of an address that already is a member (never done by SyncObj) overwrites the registry entry with
a fresh object and leaves the old, connected one behind: two live objects deliver as the same node. -/
theorem double_add_counterexample :
    ∃ s c1 c2 k1 k2, s = run (init (some 1) 5 5 0 [0])
        [.tick [], .pollOk 0 false false, .addNode 0, .advance 5, .tick [], .pollOk 1 false false] ∧
      c1 ≠ c2 ∧ s.conn? c1 = some k1 ∧ s.conn? c2 = some k2 ∧ k1.cb = .deliver (.tcp 0) ∧ k2.cb = .deliver (.tcp 0) ∧
      k1.state = .connected ∧ k2.state = .connected :=
  ⟨_, 0, 1, _, _, rfl, by decide, rfl, rfl, rfl, rfl, rfl, rfl⟩

/-! ## non-vacuity -/

/-- A reachable state with a live, registered, reported connection (hypotheses of `source_truthful`,
`one_registered_connection`, `notifications_consistent`, `no_assertion_failure` are satisfiable, non-trivially). -/
example : ∃ s, Reach s ∧ (∃ c k, s.conn? c = some k ∧ k.cb = .deliver (.tcp 0) ∧ k.state = .connected) ∧
    NodeId.tcp 0 ∈ s.view ∧ 0 ∈ s.nodes ∧ s.shouldConnect 0 false = true :=
  ⟨run (init (some 1) 5 5 0 [0]) [.tick [], .pollOk 0 false false],
    ⟨some 1, 5, 5, 0, [0], _, by decide, by simp [AdmissibleRun, Admissible], rfl⟩,
    ⟨0, _, rfl, rfl, rfl⟩, by decide, by decide, rfl⟩

/-- An admissible run that contains an `addNode` (after a `dropNode`), a stale connection being replaced and a
removal: the acceptor side. -/
example : Reach (run (init (some 0) 5 5 0 [1])
    [.accept, .recv 0 [.addr 1, .unhashable 7] false, .accept, .recv 1 [.addr 1] false, .dropNode (.tcp 1),
     .addNode 1]) :=
  ⟨some 0, 5, 5, 0, [1], _, by decide, by simp only [AdmissibleRun, Admissible, and_true, true_and]; decide, rfl⟩

/-- ... in which the replaced object 0 is DISCONNECTED after the second handshake (D52) and the view is empty after
the removal (D51). -/
example : (run (init (some 0) 5 5 0 [1]) [.accept, .recv 0 [.addr 1, .unhashable 7] false, .accept,
    .recv 1 [.addr 1] false]).conns.map (·.state) = [.disconnected, .connected] ∧
    (run (init (some 0) 5 5 0 [1]) [.accept, .recv 0 [.addr 1, .unhashable 7] false, .accept,
    .recv 1 [.addr 1] false, .dropNode (.tcp 1)]).view = [] := by decide

/-- The hypotheses of `reconnect_bound` hold of a concrete state (freshly constructed dialler, time 7). -/
example : ∃ (s : St) (a c : Nat) (k : Conn), Inv s ∧ a ∈ s.nodes ∧ s.shouldConnect a false = true ∧
    lookup (.tcp a) s.reg = some c ∧ s.conn? c = some k ∧ k.dialled = true ∧ k.state ≠ .connected ∧
    (∀ t, lookup a s.lastAttempt = some t → t ≤ s.now) :=
  ⟨init (some 1) 5 5 7 [0], 0, 0, _, inv_init _ _ _ _ (by decide), by decide, rfl, rfl, rfl, rfl, by decide,
    by intro t h; simp [init, St.addNode, St.shouldConnect, lookup] at h⟩

end PSO.C14
