import PSO.Proofs.RaftProgressDemo

/-!
# C05 — after faults stop the cluster converges: one leader, progress, equal replicas

Level: proof with a named PARTIAL scope.  Election termination in PySyncObj is probabilistic in the
random election timeouts and depends on real message delays, so "within a bounded number of election
timeouts" is not a theorem of any schedule-quantified model.  What is proved here, about
`PSO.Raft.step` (lean/PSO/Model/Raft.lean: the protocol run by the code after the repairs D1–D4; voters
`0 … N-1`, observers = ids `≥ N`), is the part of C05 that lives in logic:

* **possibility of convergence from EVERY reachable state** (`no_wedge_majority` for any connected
  majority `Q` of voters plus connected observers, nodes outside untouched; `no_wedge` = all voters) — "whatever happened
  before": any interleaving of elections, partial replication in any batching, snapshots, message loss
  and reordering, step-downs, restarts, stale messages of any kind still in flight.  The continuation is
  constructed explicitly and uses NO fault action (no `restart`, no `lose`; stale messages simply stay in
  flight): the most up-to-date voter steps down if it leads, times out until its term exceeds every
  voter's, requests the votes, every voter grants, the votes are delivered, the winner appends its no-op,
  sends its whole log from position 0 to every voter and listed observer (always accepted), collects the
  acknowledgements, commits, applies, sends a heartbeat with the commit index, everybody applies.  So no
  reachable state is a wedge: neither a stuck `nextIndex`-like bookkeeping (the model's `sendAppend`
  may use any `prev`), nor a half-installed snapshot, nor a stale leader, nor diverged uncommitted suffixes;
* `no_wedge_then_progress`: in the converged state a command appended at the leader is replicated to,
  committed and applied by every voter and observer (again without faults);
* **bounded progress of catch-up with a ranking function** (`catchup_progress`, `catchup_rejected_harmless`,
  `catchup_bounded`, `catchup_full_resync`, `catchup_snapshot`): from ANY state satisfying the invariant,
  for EVERY `prev`, one accepted round extends the agreement with the leader by the batch, a rejected
  round loses nothing, `n` rounds of batch size `k` cover a distance `n·k`, position 0 is always accepted,
  the snapshot path (keep or install) yields the leader's prefix — for voters and observers alike;
* `commit_progress`: acknowledgements of a majority on an entry of the leader's own term enable the
  commit advance (a connected majority suffices for SUCCESS); `unique_leader_after`: nobody else leads the
  term of the converged state.

NOT provable here (the partial scope): that the timing hypothesis eventually holds — i.e. that the real
scheduler (random timeouts from `random.random`, tick periods, network delays) eventually produces such a
continuation — and any wall-clock bound.  That part is validated on the REAL code by
`harness/corr/c05_convergence.py` (seeded fault histories, heal, bounded quiet period of virtual time,
monitors = the property statement) and reported in the evidence as validation, not as proof.
-/
namespace PSO.C05
open PSO.Raft

/-- **No wedge / possibility of convergence, connected majority.** For every cluster size `N`, every
majority `Q` of voters that can exchange messages, every list `obs` of connected read-only nodes (ids
`≥ N`; `hobsT`: an observer's term was learnt from some voter, as in the code, where read-only nodes only
ever adopt the term of an `append_entries`) and EVERY reachable state `s` there is a finite fault-free
continuation `as`, leaving every node outside `Q ∪ obs` untouched, to a state `s'` with a voter `c ∈ Q`
such that: `c` is leader of a term larger than every voter's term in `s`; every other node of
`Q ∪ obs` is a follower of that term; every one of them holds exactly the leader's log (the leader's
old log plus the no-op of the new term) and has committed and applied all of it. -/
theorem no_wedge_majority {N : Nat} {s : State} (Q obs : List Nat) (hQ : IsQuorum N Q)
    (hobs : ∀ o ∈ obs, N ≤ o)
    (hobsT : ∀ o ∈ obs, ∃ d, d < N ∧ (s.nodes o).term ≤ (s.nodes d).term)
    (hR : Reachable N s) :
    ∃ as s' c, NoFault as ∧ run N s as = some s' ∧ c ∈ Q ∧
      (s'.nodes c).role = .leader ∧
      (∀ d, d < N → (s.nodes d).term < (s'.nodes c).term) ∧
      (s'.nodes c).log = (s.nodes c).log ++ [⟨(s'.nodes c).term, 0⟩] ∧
      (∀ d, (d ∈ Q ∨ d ∈ obs) →
        (d ≠ c → (s'.nodes d).role = .follower) ∧
        (s'.nodes d).term = (s'.nodes c).term ∧
        (s'.nodes d).log = (s'.nodes c).log ∧
        (s'.nodes d).commit = (s'.nodes c).log.length - 1 ∧
        (s'.nodes d).applied = (s'.nodes c).log.length - 1) ∧
      (∀ x, ¬ (x ∈ Q ∨ x ∈ obs) → s'.nodes x = s.nodes x) ∧
      Converged N Q obs s' c := by
  obtain ⟨as, s', c, hnf, hrun, hcv, hgt, hlog, hfr⟩ := no_wedge_run Q obs hQ hobs hobsT hR
  exact ⟨as, s', c, hnf, hrun, hcv.cQ, hcv.ldr, hgt, hlog,
    fun d hd => ⟨hcv.flw d hd, hcv.term_eq d hd, hcv.log_eq d hd, hcv.commit_eq d hd, hcv.applied_eq d hd⟩,
    hfr, hcv⟩

/-- Non-vacuity of `no_wedge_majority`: the demo state (leader 0, voter 2 left behind in term 0 with one
entry), the majority `[1, 2]` that does NOT contain the current leader, observer 3. -/
example : ∃ s, Reachable 3 s ∧ IsQuorum 3 [1, 2] ∧ (∀ o ∈ [3], 3 ≤ o) ∧
    (∀ o ∈ [3], ∃ d, d < 3 ∧ (s.nodes o).term ≤ (s.nodes d).term) ∧
    (s.nodes 0).role = .leader := by
  obtain ⟨s, hR, h0, h1, _, h4, h5, _, _, h8⟩ := demo_lagging
  refine ⟨s, hR, ⟨by simp, by simp, by simp⟩, by simp, ?_, h0⟩
  intro o ho
  simp at ho; subst ho
  exact ⟨0, by omega, by omega⟩

/-- **No wedge, all voters connected** (`Q` = all voters): from EVERY reachable state of a cluster
with `N > 0` voters a fault-free continuation leads to: exactly one voter `c` is leader, of a term
larger than every term a voter had in `s`; every voter and every listed observer is in that term, holds
exactly the leader's log and has `commit = applied = log.length − 1`. -/
theorem no_wedge {N : Nat} {s : State} (obs : List Nat) (hobs : ∀ o ∈ obs, N ≤ o)
    (hobsT : ∀ o ∈ obs, ∃ d, d < N ∧ (s.nodes o).term ≤ (s.nodes d).term)
    (hN : 0 < N) (hR : Reachable N s) :
    ∃ as s' c, NoFault as ∧ run N s as = some s' ∧ c < N ∧
      (s'.nodes c).role = .leader ∧
      (∀ d, d < N → (s.nodes d).term < (s'.nodes c).term) ∧
      (s'.nodes c).log = (s.nodes c).log ++ [⟨(s'.nodes c).term, 0⟩] ∧
      (∀ d, (d < N ∨ d ∈ obs) →
        (d ≠ c → (s'.nodes d).role = .follower) ∧
        (s'.nodes d).term = (s'.nodes c).term ∧
        (s'.nodes d).log = (s'.nodes c).log ∧
        (s'.nodes d).commit = (s'.nodes c).log.length - 1 ∧
        (s'.nodes d).applied = (s'.nodes c).log.length - 1) ∧
      Converged N (List.range N) obs s' c := by
  obtain ⟨as, s', c, hnf, hrun, hcv, hgt, hlog, _⟩ :=
    no_wedge_run (List.range N) obs (range_quorum hN) hobs hobsT hR
  have hsc : ∀ d, (d < N ∨ d ∈ obs) → InScope (List.range N) obs d := fun d hd =>
    hd.elim (fun h => Or.inl (List.mem_range.mpr h)) Or.inr
  exact ⟨as, s', c, hnf, hrun, hcv.cN, hcv.ldr, hgt, hlog,
    fun d hd => ⟨hcv.flw d (hsc d hd), hcv.term_eq d (hsc d hd), hcv.log_eq d (hsc d hd),
      hcv.commit_eq d (hsc d hd), hcv.applied_eq d (hsc d hd)⟩, hcv⟩

/-- Non-vacuity of `no_wedge`: a reachable 3-voter state that is NOT converged (voter 2 holds one
entry, leader 0 three), with observer 3 in scope. -/
example : ∃ s, Reachable 3 s ∧ (∀ o ∈ [3], 3 ≤ o) ∧
    (∀ o ∈ [3], ∃ d, d < 3 ∧ (s.nodes o).term ≤ (s.nodes d).term) ∧
    (s.nodes 2).log.length ≠ (s.nodes 0).log.length := by
  obtain ⟨s, hR, _, h1, _, h4, h5, _, _, h8⟩ := demo_lagging
  refine ⟨s, hR, by simp, ?_, by omega⟩
  intro o ho
  simp at ho; subst ho
  exact ⟨0, by omega, by omega⟩

/-- **Progress after convergence**: in a converged state a command submitted to the leader is appended,
replicated to, committed and applied by every connected voter and observer by a fault-free continuation
that involves nobody else; the state is converged again with the command as last entry of everybody's
log. -/
theorem no_wedge_then_progress {N : Nat} {s : State} {c : Nat} (Q obs : List Nat) (hQ : IsQuorum N Q)
    (hobs : ∀ o ∈ obs, N ≤ o) (hR : Reachable N s) (hcv : Converged N Q obs s c) (cmd : Nat) :
    ∃ as s', NoFault as ∧ run N s (.clientAppend c cmd :: as) = some s' ∧ Converged N Q obs s' c ∧
      (s'.nodes c).term = (s.nodes c).term ∧
      (∀ d, (d ∈ Q ∨ d ∈ obs) →
        (s'.nodes d).log = (s.nodes c).log ++ [⟨(s.nodes c).term, cmd⟩] ∧
        (s'.nodes d).commit = (s.nodes c).log.length ∧ (s'.nodes d).applied = (s.nodes c).log.length) ∧
      (∀ x, ¬ (x ∈ Q ∨ x ∈ obs) → s'.nodes x = s.nodes x) := by
  obtain ⟨as, s', hnf, hrun, hcv', hlog, hterm, hfr⟩ := converged_progress Q obs hQ hobs hR hcv cmd
  refine ⟨as, s', hnf, hrun, hcv', hterm, fun d hd => ?_, hfr⟩
  have hl := hcv'.log_eq d hd
  have h1 := hcv'.commit_eq d hd
  have h2 := hcv'.applied_eq d hd
  rw [hlog] at hl h1 h2
  simp at h1 h2
  exact ⟨hl, h1, h2⟩

/-- Non-vacuity of `no_wedge_then_progress` and `unique_leader_after`: converged reachable states exist
(for 3 voters and an observer; obtained from `no_wedge` itself at the initial state). -/
example : ∃ s c, Reachable 3 s ∧ IsQuorum 3 (List.range 3) ∧ Converged 3 (List.range 3) [3] s c := by
  obtain ⟨as, s', c, _, hrun, _, _, _, _, _, hcv⟩ :=
    no_wedge (N := 3) (s := init) [3] (by simp) (fun o _ => ⟨0, by omega, by simp [init]⟩) (by omega) Reachable.init
  exact ⟨s', c, reachable_of_run Reachable.init hrun, range_quorum (by omega), hcv⟩

/-- **Election under the timing hypothesis.** The timing hypothesis `H_timing` of DESIGN §5 — "the node
whose deadline expires first has a log at least as up to date as a connected majority and its messages
are delivered before anybody else times out" — is, at the level of schedules, exactly the continuation
constructed here: for EVERY voter `c` of a connected majority `Q` whose log is at least as up to date
(`upToDate`, the vote handler's own comparison) as the log of every voter in `Q`, from EVERY reachable
state: `c` steps down if it leads, times out (repeatedly, until its term exceeds every voter's), the
voters of `Q` receive the request and grant, the votes are delivered — and `c` is leader of a term above
every previous voter term, all of `Q` is in that term, `c`'s log is its old log plus the no-op of the new
term, nodes outside `Q` are untouched.  Whether the real timeouts ever produce this order is the
probabilistic part (not provable here). -/
theorem election_winnable {N : Nat} {s : State} (Q : List Nat) (hQ : IsQuorum N Q) (hR : Reachable N s)
    {c : Nat} (hcQ : c ∈ Q)
    (hmax : ∀ d, d ∈ Q →
      upToDate (lastTerm (s.nodes c).log) ((s.nodes c).log.length - 1) (s.nodes d).log = true) :
    ∃ as s', NoFault as ∧ run N s as = some s' ∧ (s'.nodes c).role = .leader ∧
      (∀ d, d < N → (s.nodes d).term < (s'.nodes c).term) ∧
      (∀ d, d ∈ Q → (s'.nodes d).term = (s'.nodes c).term) ∧
      (s'.nodes c).log = (s.nodes c).log ++ [⟨(s'.nodes c).term, 0⟩] ∧
      (∀ x, x ∉ Q → s'.nodes x = s.nodes x) ∧
      (∀ n, (s'.nodes n).role = .leader → (s'.nodes n).term = (s'.nodes c).term → n = c) := by
  obtain ⟨as, s', hnf, hrun, hR', hldr, hgt, hterm, hlog, _, hfr⟩ := elect Q hQ hR hcQ hmax
  exact ⟨as, s', hnf, hrun, hldr, hgt, hterm, hlog, hfr,
    fun n hn ht => leaders_unique (inv_reachable hR').e hn hldr ht⟩

/-- Non-vacuity of `election_winnable`: in the demo state voter 1 (three entries, last term 1) is at
least as up to date as both voters of the majority `[1, 2]`, which excludes the current leader 0. -/
example : ∃ s, Reachable 3 s ∧ IsQuorum 3 [1, 2] ∧ (1 : Nat) ∈ [1, 2] ∧
    (∀ d, d ∈ [1, 2] →
      upToDate (lastTerm (s.nodes 1).log) ((s.nodes 1).log.length - 1) (s.nodes d).log = true) := by
  obtain ⟨s, hrun, hR, _⟩ := demo_reachable
  refine ⟨s, hR, ⟨by simp, by simp, by simp⟩, by simp, ?_⟩
  have h := demo_uptodate_runs
  rw [hrun] at h
  simp at h
  intro d hd
  simp at hd
  rcases hd with rfl | rfl
  · exact h.1
  · exact h.2

/-- **Unique leader after convergence**: no other node — voter or observer — is leader of the term of
the converged state. -/
theorem unique_leader_after {N : Nat} {s : State} {c : Nat} {Q obs : List Nat} (hR : Reachable N s)
    (hcv : Converged N Q obs s c) {n : Nat} (hr : (s.nodes n).role = .leader)
    (ht : (s.nodes n).term = (s.nodes c).term) : n = c :=
  converged_unique_leader hR hcv hr ht

/-- **Catch-up, accepted round.** Leader `l` of term `t`, any other node `f` (voter or observer) whose
term is not newer, ANY position `prev` of the leader's log at which `f` passes the consistency check,
ANY batch size `k`, any commit value `c` the leader may write: after `sendAppend; recvAppend` the
follower's log agrees with the leader's up to `prev + min k (distance to the leader's end)`, that
position is acknowledged (message in flight, ghost `acked`), the follower is in the leader's term, its
applied position is untouched, and the check passes again at the new position (rounds chain; the
distance to the leader's end is a ranking function that drops by the batch size). -/
theorem catchup_progress {N : Nat} {s : State} (hR : Reachable N s) {l f prev k c : Nat}
    (hl : l < N) (hf : f ≠ l) (hr : (s.nodes l).role = .leader)
    (hterm : (s.nodes f).term ≤ (s.nodes l).term)
    (hprev : prev < (s.nodes l).log.length) (hc : c ≤ (s.nodes l).commit)
    (hp : prev < (s.nodes f).log.length)
    (hpt : termAt (s.nodes f).log prev = termAt (s.nodes l).log prev) :
    ∃ s', run N s [.sendAppend l f prev k c,
        .recvAppend f (.append (s.nodes l).term l f prev (termAt (s.nodes l).log prev)
          (((s.nodes l).log.drop (prev + 1)).take k) c)] = some s' ∧
      Agree (s'.nodes f).log (s.nodes l).log (prev + min k ((s.nodes l).log.length - (prev + 1))) ∧
      Msg.ack (s.nodes l).term f l (prev + min k ((s.nodes l).log.length - (prev + 1))) ∈ s'.msgs ∧
      prev + min k ((s.nodes l).log.length - (prev + 1)) ≤ s'.g.acked (s.nodes l).term f ∧
      (s'.nodes f).term = (s.nodes l).term ∧ (s'.nodes f).applied = (s.nodes f).applied ∧
      s'.nodes l = s.nodes l ∧
      (prev + min k ((s.nodes l).log.length - (prev + 1)) < (s'.nodes f).log.length ∧
        termAt (s'.nodes f).log (prev + min k ((s.nodes l).log.length - (prev + 1))) =
          termAt (s'.nodes l).log (prev + min k ((s.nodes l).log.length - (prev + 1)))) := by
  obtain ⟨s', hrun, hag, _, _, hT, _, happ, _, hfr, hack, _, hacked⟩ :=
    append_round (k := k) (inv_reachable hR) hl hf hr hterm hprev hc hp hpt
  rw [batch_length] at hag hack hacked
  have hl' : s'.nodes l = s.nodes l := hfr l (fun e => hf e.symm)
  exact ⟨s', hrun, hag, hack, hacked, hT, happ, hl', append_round_next hl' (by omega) hag⟩

/-- Non-vacuity of the catch-up theorems: leader 0 of term 1 with three entries, voter 2 still in term 0
with one entry; the check passes at `prev = 0`. -/
example : ∃ s, Reachable 3 s ∧ (0 : Nat) < 3 ∧ (2 : Nat) ≠ 0 ∧ (s.nodes 0).role = .leader ∧
    (s.nodes 2).term ≤ (s.nodes 0).term ∧ 0 < (s.nodes 0).log.length ∧ 0 ≤ (s.nodes 0).commit ∧
    0 < (s.nodes 2).log.length ∧ termAt (s.nodes 2).log 0 = termAt (s.nodes 0).log 0 := by
  obtain ⟨s, hR, h0, h1, h2, h4, h5, _⟩ := demo_lagging
  have hi := inv_reachable hR
  exact ⟨s, hR, by omega, by omega, h0, by omega, by omega, by omega, by omega,
    by rw [termAt_zero_of_sent (hi.l.log_sent 2), termAt_zero_of_sent (hi.l.log_sent 0)]⟩

/-- **Catch-up, rejected round.** If the follower does not hold `prev` or holds another term there,
the round changes nothing of the follower but its term and role (log, commit, applied untouched) and
nothing of any other node: a rejection never destroys progress, the leader retries further left. -/
theorem catchup_rejected_harmless {N : Nat} {s : State} {l f prev k c : Nat}
    (hl : l < N) (hf : f ≠ l) (hr : (s.nodes l).role = .leader)
    (hterm : (s.nodes f).term ≤ (s.nodes l).term)
    (hprev : prev < (s.nodes l).log.length) (hc : c ≤ (s.nodes l).commit)
    (hrej : ¬ (prev < (s.nodes f).log.length ∧ termAt (s.nodes f).log prev = termAt (s.nodes l).log prev)) :
    ∃ s', run N s [.sendAppend l f prev k c,
        .recvAppend f (.append (s.nodes l).term l f prev (termAt (s.nodes l).log prev)
          (((s.nodes l).log.drop (prev + 1)).take k) c)] = some s' ∧
      (s'.nodes f).log = (s.nodes f).log ∧ (s'.nodes f).commit = (s.nodes f).commit ∧
      (s'.nodes f).applied = (s.nodes f).applied ∧ (s'.nodes f).term = (s.nodes l).term ∧
      (s'.nodes f).role = .follower ∧ (∀ x, x ≠ f → s'.nodes x = s.nodes x) ∧ s'.g = s.g :=
  append_round_rejected hl hf hr hterm hprev hc hrej

/-- Non-vacuity: in the demo state the check of voter 2 fails at `prev = 1` (it holds one entry). -/
example : ∃ s, Reachable 3 s ∧ (s.nodes 0).role = .leader ∧ (s.nodes 2).term ≤ (s.nodes 0).term ∧
    1 < (s.nodes 0).log.length ∧
    ¬ (1 < (s.nodes 2).log.length ∧ termAt (s.nodes 2).log 1 = termAt (s.nodes 0).log 1) := by
  obtain ⟨s, hR, h0, h1, h2, h4, h5, _⟩ := demo_lagging
  exact ⟨s, hR, h0, by omega, by omega, fun h => by omega⟩

/-- **Bounded catch-up by entries.** If the check passes at `prev` and the distance to the leader's end
is at most `n·k`, then `n` fault-free rounds of batch size `k` (exactly `2n` actions) make the
follower's log agree with the leader's entire log. -/
theorem catchup_bounded {N : Nat} {s : State} (k n : Nat) (hR : Reachable N s)
    {l f prev : Nat} (hl : l < N) (hf : f ≠ l) (hr : (s.nodes l).role = .leader)
    (hterm : (s.nodes f).term ≤ (s.nodes l).term) (hprev : prev < (s.nodes l).log.length)
    (hp : prev < (s.nodes f).log.length)
    (hpt : termAt (s.nodes f).log prev = termAt (s.nodes l).log prev)
    (hdist : (s.nodes l).log.length - 1 - prev ≤ n * k) :
    ∃ as s', NoFault as ∧ as.length = 2 * n ∧ run N s as = some s' ∧
      Agree (s'.nodes f).log (s.nodes l).log ((s.nodes l).log.length - 1) ∧
      s'.nodes l = s.nodes l ∧ (0 < n → (s'.nodes f).term = (s.nodes l).term) :=
  catchup_rounds k n hR hl hf hr hterm hprev hp hpt hdist

/-- **Full re-synchronisation is always possible.** Position 0 passes the check on every node (every
log starts with the same initial entry), so whatever a follower or observer holds — a diverged
uncommitted suffix of any length included — one round carrying the leader's whole log makes its log
EQUAL to the leader's (given that the leader's last entry is of its own term, which holds from its
election on: `becomeLeader` appends the no-op). -/
theorem catchup_full_resync {N : Nat} {s : State} (hR : Reachable N s) {l f k c : Nat}
    (hl : l < N) (hf : f ≠ l) (hr : (s.nodes l).role = .leader)
    (hterm : (s.nodes f).term ≤ (s.nodes l).term) (hc : c ≤ (s.nodes l).commit)
    (hk : (s.nodes l).log.length - 1 ≤ k)
    (hlast : termAt (s.nodes l).log ((s.nodes l).log.length - 1) = (s.nodes l).term) :
    ∃ s', run N s [.sendAppend l f 0 k c,
        .recvAppend f (.append (s.nodes l).term l f 0 0 ((s.nodes l).log.drop 1) c)] = some s' ∧
      (s'.nodes f).log = (s.nodes l).log ∧ (s'.nodes f).term = (s.nodes l).term ∧
      (s'.nodes f).applied = (s.nodes f).applied ∧
      Msg.ack (s.nodes l).term f l ((s.nodes l).log.length - 1) ∈ s'.msgs := by
  obtain ⟨s', hrun, hlog, hT, _, happ, _, _, hack, _⟩ :=
    full_sync (inv_reachable hR) hl hf hr hterm hc hk hlast
  exact ⟨s', hrun, hlog, hT, happ, hack⟩

/-- Non-vacuity: the leader's last entry is of its own term in the state right after the
acknowledgement of voter 1 (leader 0, term 1, entries `[init, no-op@1, cmd@1]`). -/
example : ∃ s, Reachable 3 s ∧ (s.nodes 0).role = .leader ∧
    termAt (s.nodes 0).log ((s.nodes 0).log.length - 1) = (s.nodes 0).term := by
  obtain ⟨s, hR, h0, h1, _, h3, h4, _⟩ := demo_acked
  exact ⟨s, hR, h0, by rw [h3, h1]; exact h4⟩

/-- **Catch-up by snapshot.** The leader sends its applied prefix up to any `k ≤ applied`; after
`sendSnapshot; recvSnapshot` the receiver — whether it kept its log (it already held that prefix) or
installed the prefix — agrees with the leader's log up to `k`, is in the leader's term, has not moved
its applied position backwards, holds a commit index `≥ k` when the message carried one, and the
position is acknowledged.  No half-received state exists at this level (chunking: C09). -/
theorem catchup_snapshot {N : Nat} {s : State} (hR : Reachable N s) {l f k c : Nat}
    (hl : l < N) (hf : f ≠ l) (hr : (s.nodes l).role = .leader)
    (hterm : (s.nodes f).term ≤ (s.nodes l).term)
    (hk : k ≤ (s.nodes l).applied) (hc : c ≤ (s.nodes l).commit) :
    ∃ s', run N s [.sendSnapshot l f k c,
        .recvSnapshot f (.snapshot (s.nodes l).term l f k (termAt (s.nodes l).log k) c
          ((s.nodes l).log.take (k + 1)))] = some s' ∧
      Agree (s'.nodes f).log (s.nodes l).log k ∧
      (s'.nodes f).term = (s.nodes l).term ∧
      (s.nodes f).applied ≤ (s'.nodes f).applied ∧
      (k ≤ c → k ≤ (s'.nodes f).commit) ∧
      (k ≤ (s'.nodes f).applied ∨ (s'.nodes f).log = (s.nodes f).log) ∧
      (∀ x, x ≠ f → s'.nodes x = s.nodes x) ∧
      Msg.ack (s.nodes l).term f l k ∈ s'.msgs ∧ k ≤ s'.g.acked (s.nodes l).term f :=
  snapshot_round (inv_reachable hR) hl hf hr hterm hk hc

/-- Non-vacuity: the demo leader has applied position 2 and can send the snapshot at `k = 2` to the
lagging voter 2. -/
example : ∃ s, Reachable 3 s ∧ (s.nodes 0).role = .leader ∧ (s.nodes 2).term ≤ (s.nodes 0).term ∧
    2 ≤ (s.nodes 0).applied ∧ 2 ≤ (s.nodes 0).commit := by
  obtain ⟨s, hR, h0, h1, h2, _, _, h6, h7⟩ := demo_lagging
  exact ⟨s, hR, h0, by omega, by omega, by omega⟩

/-- **Commit progress.** A leader holding acknowledgements `≥ i` from a majority `Q` of voters (it
counts itself) for a not yet committed position `i` of its own term can advance its commit index to `i`:
the `advanceCommit` guard — the code's `count > (len(otherNodes)+1)/2` over `matchIndex` plus the
own-term check — holds.  Hence a connected majority suffices for a command to be answered. -/
theorem commit_progress {N : Nat} {s : State} {l i : Nat} (hl : l < N) (hr : (s.nodes l).role = .leader)
    (hci : (s.nodes l).commit < i) (hi : i < (s.nodes l).log.length)
    (hti : termAt (s.nodes l).log i = (s.nodes l).term)
    {Q : List Nat} (hQ : IsQuorum N Q) (hq : ∀ q ∈ Q, q = l ∨ i ≤ (s.nodes l).matchIdx q) :
    ∃ s', step N s (.advanceCommit l i) = some s' ∧ (s'.nodes l).commit = i ∧
      (∀ x, x ≠ l → s'.nodes x = s.nodes x) :=
  ⟨_, commit_enabled hl hr hci hi hti hQ hq, by simp, fun x hx => by simp [setNode, hx]⟩

/-- Non-vacuity: leader 0 of three voters with the acknowledgement of voter 1 for position 2, nothing
committed yet; the majority is `[0, 1]`. -/
example : ∃ s, Reachable 3 s ∧ (s.nodes 0).role = .leader ∧ (s.nodes 0).commit < 2 ∧
    2 < (s.nodes 0).log.length ∧ termAt (s.nodes 0).log 2 = (s.nodes 0).term ∧ IsQuorum 3 [0, 1] ∧
    (∀ q ∈ [0, 1], q = 0 ∨ 2 ≤ (s.nodes 0).matchIdx q) := by
  obtain ⟨s, hR, h0, h1, h2, h3, h4, h5⟩ := demo_acked
  refine ⟨s, hR, h0, by omega, by omega, by rw [h4, h1], ⟨by simp, by simp, by simp⟩, ?_⟩
  intro q hq
  simp at hq
  rcases hq with rfl | rfl
  · exact Or.inl rfl
  · exact Or.inr (by omega)

/-- **The vote threshold is a STRICT majority.** The model's `isMajority N count` is `N < 2·count`, the code's
`votesCount > (len(otherNodes)+1) / 2` (true division).  The variant `votesCount >= (len(otherNodes)+2) // 2`
(seeded change C05-14) agrees with it for odd sizes and for 2 voters but accepts exactly HALF of an even
cluster: for every `k > 0` and `N = 2k` voters the `>=` test passes with `k` votes while `k` votes are no
majority. -/
theorem ge_vote_threshold_counterexample (k : Nat) (hk : 0 < k) :
    k ≥ ((2 * k - 1) + 2) / 2 ∧ isMajority (2 * k) k = false := by
  refine ⟨by omega, ?_⟩
  simp [isMajority]

/-- … pinned on 4 voters: 2 votes pass the `>=` test, are no majority, and the two halves `[0,1]`, `[2,3]`
are disjoint vote sets (no quorum intersection: both halves can elect a leader in the same term — every
theorem of this file and of C01–C04 rests on `quorum_inter`, which needs the strict test). -/
theorem ge_vote_threshold_four_nodes_counterexample :
    (2 ≥ (3 + 2) / 2) ∧ isMajority 4 2 = false ∧ isMajority 4 3 = true ∧
    ¬ IsQuorum 4 [0, 1] ∧ ¬ IsQuorum 4 [2, 3] ∧ (∀ x ∈ [0, 1], x ∉ [2, 3]) := by
  refine ⟨by decide, by decide, by decide, ?_, ?_, by decide⟩ <;> simp [IsQuorum]

/-- The strict test is what the election theorems use: with the model's threshold any two vote sets
that elect a leader intersect (odd and even sizes alike). -/
example {N : Nat} {A B : List Nat} (hA : IsQuorum N A) (hB : IsQuorum N B) : ∃ x, x ∈ A ∧ x ∈ B :=
  quorum_inter hA hB

end PSO.C05
