import PSO.Model.Basic
/-!
Byte-level model of `pysyncobj/journal.py` (with the repairs `fixes/D08-journal-grow-until-fits.diff`
and `fixes/D15-journal-head-drop-by-atomic-replace.diff` applied): `ResizableFile`, `MetaStorer`, `FileJournal`, and the reference `MemoryJournal`.

* The journal file is a `List UInt8`; its length is the size of the mapping.
* Every operation returns the new object state *and* the ordered list of primitive writes it
  performed (`Prim`): mmap resize, mmap slice store, `.meta.tmp` create / write, move onto `.meta`,
  and the same on the head drop's second journal file `<journal>.tmp` plus its atomic rename.
  The new disk is, by construction, the old disk with these primitives applied in order
  (`FJ.step_disk` in the proofs), so "killed after the first k primitive writes (and t bytes of the
  next one)" is `crashDisk d prims k t`.
* The content of `.meta` is abstracted to `Option Nat` (the stored `raftCommitIndex`, `none` = file
  missing / unreadable / key absent); pickle is not modelled.
* Arguments are naturals: negative Python indices are outside the model.
-/
namespace PSO.Journal

/-! ### little-endian integers (`struct.pack('<I')`, `'<Q'`) -/

/-- `w` little-endian bytes of `n` (value taken mod 256^w; callers check the range first). -/
def leEnc : Nat → Nat → Bytes
  | 0, _ => []
  | w + 1, n => UInt8.ofNat n :: leEnc w (n / 256)

def leDec : Bytes → Nat
  | [] => 0
  | b :: bs => b.toNat + 256 * leDec bs

def U32 : Nat := 4294967296
def U64 : Nat := 18446744073709551616

/-! ### entries and their file encoding -/

structure Entry where
  cmd : Bytes
  idx : Nat
  term : Nat
deriving DecidableEq, Repr

/-- `struct.pack('<QQ', idx, term) + command`. -/
def encBody (e : Entry) : Bytes := leEnc 8 e.idx ++ leEnc 8 e.term ++ e.cmd

/-- One record: `u32 len ‖ u64 idx ‖ u64 term ‖ command ‖ u32 len`. -/
def encRecord (e : Entry) : Bytes :=
  leEnc 4 (encBody e).length ++ encBody e ++ leEnc 4 (encBody e).length

def recLen (e : Entry) : Nat := 24 + e.cmd.length

def encEntries : List Entry → Bytes
  | [] => []
  | e :: es => encRecord e ++ encEntries es

def encLen : List Entry → Nat
  | [] => 0
  | e :: es => recLen e + encLen es

/-! ### the mmap'ed file -/

def NAME_SIZE : Nat := 24
def VERSION_SIZE : Nat := 8
def FIRST_RECORD_OFFSET : Nat := 40
def LAST_RECORD_OFFSET_OFFSET : Nat := 36
def INITIAL_SIZE : Nat := 1024

def zeros (n : Nat) : Bytes := List.replicate n 0

/-- `mm[off:off+n]` (Python slice: clamped at the end of the mapping). -/
def rd (f : Bytes) (off n : Nat) : Bytes := (f.drop off).take n

/-- `mm[off:off+len(bs)] = bs` for a slice that lies inside the mapping. -/
def storeAt (f : Bytes) (off : Nat) (bs : Bytes) : Bytes :=
  f.take off ++ bs ++ f.drop (off + bs.length)

/-- `struct.unpack('<I', read(off, 4))`; `none` = short read (`struct.error`). -/
def rdU32 (f : Bytes) (off : Nat) : Option Nat :=
  let b := rd f off 4
  if b.length = 4 then some (leDec b) else none

/-- Primitive writes, in the order the process issues them. -/
inductive Prim where
  | resize (n : Nat)                 -- `mm.resize(n)`: file grows (zero filled) to n bytes
  | store (off : Nat) (bs : Bytes)   -- `mm[off:off+len] = bs`
  | tmpCreate                        -- `open(path + '.tmp', 'wb')`
  | tmpWrite (v : Option Nat)        -- `f.write(dumps(meta)); f.flush()`
  | tmpMove                          -- `shutil.move(path + '.tmp', path)`
  -- the head drop's second journal file `<journal>.tmp` (fixes/D15-journal-head-drop-by-atomic-replace.diff)
  | jtRemove                         -- `os.remove(journal + '.tmp')` (stale file of an earlier kill)
  | jtCreate                         -- `open(journal + '.tmp', 'wb')`: empty file
  | jtWrite (bs : Bytes)             -- `f.write(defaultContent)` + close
  | jtResize (n : Nat)               -- `mm.resize(n)` on the tmp journal
  | jtStore (off : Nat) (bs : Bytes) -- slice store into the tmp journal
  | jtRename                         -- `shutil.move(journal + '.tmp', journal)`: atomic replace
  -- creation of the journal file itself (`ResizableFile.__init__` on a missing / zero-length file)
  | fCreate                          -- `open(journal, 'wb')`: the file exists and is empty
  | fWrite (bs : Bytes)              -- `f.write(defaultContent)` + close
deriving DecidableEq, Repr

inductive Tmp where
  | absent
  | torn                             -- created; content empty or torn
  | full (v : Option Nat)
deriving DecidableEq, Repr

structure Disk where
  file : Bytes
  metaFile : Option Nat := none
  tmp : Tmp := .absent
  jtmp : Option Bytes := none        -- `<journal>.tmp`: absent, or its bytes
deriving DecidableEq, Repr

def resizeFile (f : Bytes) (n : Nat) : Bytes :=
  if f.length ≤ n then f ++ zeros (n - f.length) else f.take n

def applyPrim (d : Disk) : Prim → Disk
  | .resize n => { d with file := resizeFile d.file n }
  | .store off bs => { d with file := storeAt d.file off bs }
  | .tmpCreate => { d with tmp := .torn }
  | .tmpWrite v => { d with tmp := .full v }
  | .tmpMove =>
    match d.tmp with
    | .absent => d
    | .torn => { d with metaFile := none, tmp := .absent }
    | .full v => { d with metaFile := v, tmp := .absent }
  | .jtRemove => { d with jtmp := none }
  | .jtCreate => { d with jtmp := some [] }
  | .jtWrite bs => { d with jtmp := some bs }
  | .jtResize n => { d with jtmp := d.jtmp.map (resizeFile · n) }
  | .jtStore off bs => { d with jtmp := d.jtmp.map (storeAt · off bs) }
  | .jtRename =>
    match d.jtmp with
    | none => d
    | some f => { d with file := f, jtmp := none }
  | .fCreate => { d with file := [] }
  | .fWrite bs => { d with file := bs }

def applyPrims (d : Disk) (ps : List Prim) : Disk := ps.foldl applyPrim d

/-- A store of one aligned 4-byte word is assumed atomic; everything longer may be torn. -/
def atomicStore (off : Nat) (bs : Bytes) : Bool := bs.length ≤ 4 && off % 4 == 0

/-- Effect of a primitive that was interrupted after `t` bytes. -/
def tornPrim (d : Disk) (p : Prim) (t : Nat) : Disk :=
  match p with
  | .store off bs => if atomicStore off bs then d else { d with file := storeAt d.file off (bs.take t) }
  | .tmpWrite _ => { d with tmp := .torn }
  | .jtWrite bs => { d with jtmp := some (bs.take t) }
  | .fWrite bs => { d with file := bs.take t }
  | .jtStore off bs =>
    if atomicStore off bs then d else { d with jtmp := d.jtmp.map (storeAt · off (bs.take t)) }
  | _ => d

/-- Disk after a kill: the first `k` primitives of `ps` happened, and `t` bytes of the next one. -/
def crashDisk (d : Disk) (ps : List Prim) (k t : Nat) : Disk :=
  let d' := applyPrims d (ps.take k)
  match ps[k]? with
  | some p => tornPrim d' p t
  | none => d'

/-- `ResizableFile.write` (repaired): grow to `max(2*size, off+len)` when the slice does not fit,
then store. Returns the new file and the primitives issued. -/
def rfWrite (f : Bytes) (off : Nat) (vs : Bytes) : Bytes × List Prim :=
  if f.length < off + vs.length then
    let n := max (2 * f.length) (off + vs.length)
    (storeAt (resizeFile f n) off vs, [.resize n, .store off vs])
  else
    (storeAt f off vs, [.store off vs])

/-! ### FileJournal -/

inductive Err where
  | structError      -- `struct.error`: value out of range for its field / short unpack
  | emptyFile        -- `ValueError: cannot mmap an empty file`
deriving DecidableEq, Repr

structure FJ where
  disk : Disk
  entries : List Entry      -- `__journal`
  cur : Nat                 -- `__currentOffset`
  mci : Option Nat          -- `__meta.get('raftCommitIndex')`
  metaSaved : Bool
  ver : Bytes := []         -- `APP_VERSION` of the running code (a constant of the process)
deriving DecidableEq, Repr

inductive Op where
  | add (e : Entry)
  | clear
  | delFrom (n : Nat)
  | delTo (n : Nat)
  | setCommit (v : Nat)
  | timer
  | reopen
  | setTermVote              -- `setTermAndVote(term, vote)`: stores the whole meta dict at once
deriving DecidableEq, Repr

def padTo (bs : Bytes) (n : Nat) : Bytes := bs ++ zeros (n - bs.length)

def APP_NAME : Bytes := [80, 89, 83, 89, 78, 67, 79, 66, 74]   -- b'PYSYNCOBJ'

/-- `__getDefaultHeader` for the given `APP_VERSION` bytes. -/
def defaultHeader (ver : Bytes) : Bytes :=
  padTo APP_NAME NAME_SIZE ++ padTo ver VERSION_SIZE ++ leEnc 4 1 ++ leEnc 4 FIRST_RECORD_OFFSET

/-- `__setLastRecordOffset`. -/
def setLast (f : Bytes) (off : Nat) : Except Err (Bytes × List Prim) :=
  if off < U32 then .ok (rfWrite f LAST_RECORD_OFFSET_OFFSET (leEnc 4 off)) else .error .structError

/-- The constructor's scan of an existing file from `cur` up to the header's last-record offset. -/
def scan (f : Bytes) (last cur : Nat) : Except Err (List Entry × Nat) :=
  if cur < last then
    match rdU32 f cur with
    | none => .error .structError
    | some sz =>
      let data := rd f (cur + 4) sz
      if data.length < 16 then .error .structError
      else
        match scan f last (cur + sz + 8) with
        | .error e => .error e
        | .ok (es, c) =>
          .ok (⟨data.drop 16, leDec (data.take 8), leDec ((data.drop 8).take 8)⟩ :: es, c)
  else .ok ([], cur)
termination_by last - cur
decreasing_by omega

/-- The constructor after `ResizableFile` has made sure the file has its default content:
mmap (an empty file cannot be mapped), grow to `INITIAL_SIZE`, read the header word, scan.
`p0` = primitives already issued. A left-over `<journal>.tmp` is ignored. -/
def openCore (ver : Bytes) (d : Disk) (p0 : List Prim) : Except Err (FJ × List Prim) :=
  if d.file.length = 0 then .error .emptyFile
  else
    let ps : List Prim := if d.file.length < INITIAL_SIZE then [.resize INITIAL_SIZE] else []
    let d' := applyPrims d ps
    match rdU32 d'.file LAST_RECORD_OFFSET_OFFSET with
    | none => .error .structError
    | some last =>
      match scan d'.file last FIRST_RECORD_OFFSET with
      | .error e => .error e
      | .ok (es, c) =>
        .ok ({ disk := d', entries := es, cur := c, mci := d'.metaFile, metaSaved := true, ver := ver },
             p0 ++ ps)

/-- The primitives of `ResizableFile.__init__` writing the default content. -/
def createPrims (ver : Bytes) : List Prim := [.fCreate, .fWrite (defaultHeader ver)]

/-- `FileJournal(path)` by code whose `APP_VERSION` is `ver` (with the repair of D74: a zero-length
journal file — what a kill between `open(path, 'wb')` and the write of the default content leaves —
is treated like a missing one: the default content is written first). The model does not
distinguish a missing file from an empty one: `file = []` stands for both. -/
def openDisk (ver : Bytes) (d : Disk) : Except Err (FJ × List Prim) :=
  if d.file.length = 0 then openCore ver (applyPrims d (createPrims ver)) (createPrims ver)
  else openCore ver d []

/-- `FileJournal(path)` when the file does not exist yet (= `openDisk ver { file := [] }`, see
`PSO.C08.create_is_open`). -/
def create (ver : Bytes) : FJ :=
  { disk := { file := resizeFile (defaultHeader ver) INITIAL_SIZE }, entries := [],
    cur := FIRST_RECORD_OFFSET, mci := none, metaSaved := true, ver := ver }

def FJ.withFile (j : FJ) (f : Bytes) : FJ := { j with disk := { j.disk with file := f } }

def FJ.add (j : FJ) (e : Entry) : Except Err (FJ × List Prim) :=
  if ¬ (e.idx < U64 ∧ e.term < U64) then .error .structError
  else if ¬ ((encBody e).length < U32) then .error .structError
  else
    let w := rfWrite j.disk.file j.cur (encRecord e)
    let cur' := j.cur + (encRecord e).length
    match setLast w.1 cur' with
    | .error x => .error x
    | .ok (f2, p2) => .ok ({ j.withFile f2 with entries := j.entries ++ [e], cur := cur' }, w.2 ++ p2)

def FJ.clear (j : FJ) : Except Err (FJ × List Prim) :=
  match setLast j.disk.file FIRST_RECORD_OFFSET with
  | .error x => .error x
  | .ok (f, p) => .ok ({ j.withFile f with entries := [], cur := FIRST_RECORD_OFFSET }, p)

/-- The backward walk of `deleteEntriesFrom`: `k` records still to remove, `removed` done so far. -/
def delWalk : Nat → Nat → Bytes → Nat → Except Err (Bytes × Nat × List Prim)
  | 0, _, f, cur => .ok (f, cur, [])
  | k + 1, removed, f, cur =>
    match rdU32 f (cur - 4) with
    | none => .error .structError
    | some sz =>
      if cur < sz + 8 then .error .structError
      else
        let cur' := cur - (sz + 8)
        if (removed + 1) % 10 = 0 then
          match setLast f cur' with
          | .error x => .error x
          | .ok (f', p) =>
            match delWalk k (removed + 1) f' cur' with
            | .error x => .error x
            | .ok (f'', c, ps) => .ok (f'', c, p ++ ps)
        else delWalk k (removed + 1) f cur'

def FJ.delFrom (j : FJ) (n : Nat) : Except Err (FJ × List Prim) :=
  match delWalk (j.entries.length - n) 0 j.disk.file j.cur with
  | .error x => .error x
  | .ok (f, c, ps) =>
    match setLast f c with
    | .error x => .error x
    | .ok (f', p) => .ok ({ j.withFile f' with entries := j.entries.take n, cur := c }, ps ++ p)

def addAll (j : FJ) : List Entry → Except Err (FJ × List Prim)
  | [] => .ok (j, [])
  | e :: es =>
    match j.add e with
    | .error x => .error x
    | .ok (j1, p1) =>
      match addAll j1 es with
      | .error x => .error x
      | .ok (j2, p2) => .ok (j2, p1 ++ p2)

/-- The same write issued on the head drop's tmp journal instead of the journal file. -/
def toTmp : Prim → Prim
  | .resize n => .jtResize n
  | .store off bs => .jtStore off bs
  | p => p

/-- `deleteEntriesTo` (repaired, D15): the kept entries are `add`ed to a fresh `<journal>.tmp`
(the object's file attribute points to it meanwhile), which then replaces the journal atomically;
the journal is reopened (no write: it has at least `INITIAL_SIZE` bytes). -/
def FJ.delTo (j : FJ) (n : Nat) : Except Err (FJ × List Prim) :=
  let hdr := defaultHeader j.ver
  let p0 : List Prim :=
    (if j.disk.jtmp.isSome then [.jtRemove] else []) ++ [.jtCreate, .jtWrite hdr] ++
    (if hdr.length < INITIAL_SIZE then [.jtResize INITIAL_SIZE] else [])
  let f0 := if hdr.length < INITIAL_SIZE then resizeFile hdr INITIAL_SIZE else hdr
  let j1 : FJ := { j with disk := { j.disk with file := f0 }, entries := [], cur := FIRST_RECORD_OFFSET }
  match addAll j1 (j.entries.drop n) with
  | .error x => .error x
  | .ok (j2, ps) =>
    .ok ({ j2 with disk := { j.disk with file := j2.disk.file, jtmp := none } },
         p0 ++ ps.map toTmp ++ [.jtRename])

/-- The head drop BEFORE the repair (`clear()` then re-`add` in place); kept only to state the old
defect D15 (`PSO.C08.old_headdrop_counterexample`). Not executed by `FJ.step`. -/
def FJ.delToOld (j : FJ) (n : Nat) : Except Err (FJ × List Prim) :=
  match j.clear with
  | .error x => .error x
  | .ok (j1, p1) =>
    match addAll j1 (j.entries.drop n) with
    | .error x => .error x
    | .ok (j2, p2) => .ok (j2, p1 ++ p2)

/-- `MetaStorer.storeMeta(self.__meta)` + `metaSaved = True`: tmp create, write, move. -/
def FJ.storeMetaNow (j : FJ) : FJ × List Prim :=
  let ps : List Prim := [.tmpCreate, .tmpWrite j.mci, .tmpMove]
  ({ j with disk := applyPrims j.disk ps, metaSaved := true }, ps)

/-- `onOneSecondTimer`. -/
def FJ.timer (j : FJ) : FJ × List Prim :=
  if j.metaSaved then (j, []) else j.storeMetaNow

def FJ.step (j : FJ) : Op → Except Err (FJ × List Prim)
  | .add e => j.add e
  | .clear => j.clear
  | .delFrom n => j.delFrom n
  | .delTo n => j.delTo n
  | .setCommit v => .ok ({ j with mci := some v, metaSaved := false }, [])
  | .timer => .ok j.timer
  | .reopen => openDisk j.ver j.disk
  -- `setTermAndVote` (added by the repair of D16): term and vote themselves are outside this model
  -- (`.meta` is abstracted to the commit index); what matters here is that the WHOLE meta dict,
  -- a pending commit index included, is stored immediately.
  | .setTermVote => .ok j.storeMetaNow

/-- `getRaftCommitIndex`. -/
def FJ.commitIndex (j : FJ) : Nat := j.mci.getD 1

def run (j : FJ) : List Op → Except Err FJ
  | [] => .ok j
  | op :: ops =>
    match j.step op with
    | .error x => .error x
    | .ok (j', _) => run j' ops

/-! ### reference: `MemoryJournal` -/

def listStep (l : List Entry) : Op → List Entry
  | .add e => l ++ [e]
  | .clear => []
  | .delFrom n => l.take n
  | .delTo n => l.drop n
  | _ => l

def runList (l : List Entry) (ops : List Op) : List Entry := ops.foldl listStep l

/-! ### specification vocabulary (used by the theorems in `PSO.Props.C08`) -/

/-- The format's own limits for one entry: `idx`, `term` are `u64`. -/
def ValidEntry (e : Entry) : Prop := e.idx < U64 ∧ e.term < U64

instance (e : Entry) : Decidable (ValidEntry e) := by unfold ValidEntry; infer_instance

/-- Exact condition under which no operation of `ops`, started from a journal holding `l`, hits a
`struct.error`: every appended entry has `u64` index/term and the end offset stays a `u32`. -/
def OkFrom (l : List Entry) : List Op → Prop
  | [] => True
  | .add e :: ops => ValidEntry e ∧ 40 + encLen (l ++ [e]) < U32 ∧ OkFrom (l ++ [e]) ops
  | op :: ops => OkFrom (listStep l op) ops

/-- Header + all bytes ever appended by `ops`. -/
def totalBytes : List Op → Nat
  | [] => 40
  | .add e :: ops => recLen e + totalBytes ops
  | _ :: ops => totalBytes ops

def opValid : Op → Bool
  | .add e => decide (ValidEntry e)
  | _ => true

/-- Simple sufficient condition: "total bytes < 2^32" and `u64` indices/terms. -/
def WithinLimits (ops : List Op) : Prop := totalBytes ops < U32 ∧ ops.all opValid = true

instance (ops : List Op) : Decidable (WithinLimits ops) := by unfold WithinLimits; infer_instance

/-- What the property demands of the entries `r` found after a kill inside `op` and a reopen,
`old` being the entries before `op`. -/
def CrashSpec (old : List Entry) : Op → List Entry → Prop
  | .add e, r => r = old ∨ r = old ++ [e]                  -- all or nothing
  | .clear, r => r = old ∨ r = []
  | .delFrom n, r => ∃ m, n ≤ m ∧ r = old.take m           -- a prefix that contains `old.take n`
  | .delTo n, r => r = old ∨ r = old.drop n                -- the old journal or exactly the kept suffix
  | _, r => r = old

/-- Values ever passed to `setRaftCommitIndex`. -/
def setValues : List Op → List Nat
  | [] => []
  | .setCommit v :: ops => v :: setValues ops
  | _ :: ops => setValues ops

end PSO.Journal
