/-!
# Transport registry model (C14)

Executable, import-free mirror of `pysyncobj/transport.py` (`TCPTransport`) together with the connection-state
part of `pysyncobj/tcp_connection.py` (`TcpConnection.connect / disconnect / __processConnection / send`) and
`TcpServer.__onNewConnection`, *after* the repairs `fixes/D51`, `fixes/D52`, `fixes/D53` and D77 (a first message that is neither a member's address, nor
`'readonly'`, nor a well-formed known utility command closes the connection instead of raising out of the poll loop).

What the kernel / the network does is an event alphabet (`Event`), not derived: a poll event on a socket with or
without error, with or without complete messages; the outcome of a non-blocking `connect()` (in progress /
immediate failure) and of a `send()` (accepted / error) are parameters of the events that make the code perform
them.  Bytes, framing and partial writes belong to C13 and are not represented: a `recv` event carries the list
of complete messages parsed out of one read.  Encryption (`password`) is out of scope (`encryptor = None`).
Binding of the server socket is not represented (the server is bound).

One `St` is the registry of ONE transport.  Connection objects (`TcpConnection` instances) are numbered in
creation order; `St.conns[c]` is object `c`.  An object is never forgotten by the model, because the code
forgets objects only from its registry, not from the poller: an unregistered object that is still connected
keeps receiving events (that is what D52 is about).

Time is `Nat` (unit 2⁻¹⁰ s in the harness).
-/
namespace PSO.Transport

inductive CState where
  | disconnected | connecting | connected
  deriving DecidableEq, Repr, Inhabited

/-- `TCPNode(address)` / the `Node(str(counter))` made up for a read-only peer. Addresses are numbered in
string order, so `a > b` on `Nat` is `selfNode.address > node.address`. -/
inductive NodeId where
  | tcp (a : Nat)
  | ro (k : Nat)
  deriving DecidableEq, Repr, Inhabited

/-- What the `onMessageReceived` callback of a connection object is bound to. -/
inductive MsgCb where
  | handshake                 -- `partial(self._onIncomingMessageReceived, conn)`
  | deliver (n : NodeId)      -- `partial(self._onMessageReceived, node)`
  deriving DecidableEq, Repr, Inhabited

/-- Messages as far as the transport looks at them. -/
inductive Msg where
  | addr (a : Nat)            -- a string that is the address numbered `a`
  | readonly                  -- the string 'readonly'
  | util (known : Bool) (replyFail : Bool)  -- a list; `known`: message[0] has a registered utility callback;
                              -- `replyFail`: the `send()` of the reply fails
  | hashable (k : Nat)        -- any other hashable value (not an address of anything)
  | unhashable (k : Nat)      -- a dict (what SyncObj sends)
  deriving DecidableEq, Repr, Inhabited

structure Conn where
  state : CState
  lastRead : Nat              -- `__lastReadTime`
  dialled : Bool              -- created by `addNode` (has `_onOutgoingConnected` as onConnected callback)
  cb : MsgCb
  gen : Nat                   -- number of `disconnect()`s that took effect: identity of `__socket`
  deriving DecidableEq, Repr, Inhabited

/-- Calls made upwards (to SyncObj) and results returned, in order. -/
inductive Out where
  | nodeConn (n : Option NodeId)    -- `_onNodeConnected(node)`; `none` = `_connToNode` found nothing
  | nodeDisc (n : NodeId)
  | roConn (n : NodeId)
  | roDisc (n : NodeId)
  | deliver (n : NodeId) (m : Msg)  -- `_onMessageReceived(node, message)`
  | utility                         -- a utility callback was invoked
  | raised                          -- an exception escapes the event (before D77: TypeError on an unhashable first message;
                                    -- AssertionError in `_connectIfNecessarySingle`)
  | sendResult (b : Bool)
  deriving DecidableEq, Repr, Inhabited

structure St where
  selfAddr : Option Nat       -- `none`: this transport belongs to a read-only node
  retry : Nat                 -- conf.connectionRetryTime
  timeout : Nat               -- conf.connectionTimeout
  now : Nat
  nodes : List Nat            -- `_nodes` (= keys of `_nodeAddrToNode`)
  roNodes : List Nat          -- `_readonlyNodes`
  roCounter : Nat
  conns : List Conn
  reg : List (NodeId × Nat)   -- `_connections`
  unknown : List Nat          -- `_unknownConnections`
  lastAttempt : List (Nat × Nat)
  view : List NodeId          -- observer: `SyncObj.__connectedNodes` as maintained by the four callbacks
  log : List Out              -- everything emitted so far (oldest first)
  deriving Repr, Inhabited

inductive Event where
  | advance (dt : Nat)
  | tick (immFail : List Nat)                     -- `_onTick`; `connect()` to address a fails at once iff a ∈ immFail
  | accept                                        -- `TcpServer.__onNewConnection` accepted a socket
  | pollOk (c : Nat) (sendFail immFail : Bool)    -- READ/WRITE event, SO_ERROR = 0, nothing to read
  | connErr (c : Nat) (immFail : Bool)            -- ERROR event / SO_ERROR ≠ 0 / recv error / EOF
  | recv (c : Nat) (msgs : List Msg) (immFail : Bool)  -- READ event with complete messages
  | addNode (a : Nat)
  | dropNode (n : NodeId)
  | send (n : NodeId) (sendFail immFail : Bool)
  deriving Repr, Inhabited

/-! ## Small finite-map helpers -/

def lookup {α : Type} [DecidableEq α] (k : α) : List (α × Nat) → Option Nat
  | [] => none
  | (k', v) :: r => if k' = k then some v else lookup k r

def eraseKey {α : Type} [DecidableEq α] (k : α) : List (α × Nat) → List (α × Nat)
  | [] => []
  | (k', v) :: r => if k' = k then eraseKey k r else (k', v) :: eraseKey k r

def setKey {α : Type} [DecidableEq α] (k : α) (v : Nat) (m : List (α × Nat)) : List (α × Nat) :=
  (k, v) :: eraseKey k m

/-- `_connToNode`: the key under which object `c` is registered. -/
def connToNode (c : Nat) : List (NodeId × Nat) → Option NodeId
  | [] => none
  | (n, v) :: r => if v = c then some n else connToNode c r

def insertSet {α : Type} [DecidableEq α] (a : α) (l : List α) : List α := if a ∈ l then l else l ++ [a]

def eraseAll {α : Type} [DecidableEq α] (a : α) (l : List α) : List α := l.filter (· ≠ a)

/-! ## The transport -/

def St.emit (s : St) (o : Out) : St := { s with log := s.log ++ [o] }

def St.setConn (s : St) (c : Nat) (k : Conn) : St := { s with conns := s.conns.set c k }

def St.conn? (s : St) (c : Nat) : Option Conn := s.conns[c]?

/-- Registered object of a node and its record. -/
def St.regConn (s : St) (n : NodeId) : Option (Nat × Conn) :=
  match lookup n s.reg with
  | none => none
  | some c => match s.conn? c with
    | none => none
    | some k => some (c, k)

/-- `_shouldConnect(node)` for a `TCPNode` with address `a`; `prevent` = `node in self._preventConnectNodes`. -/
def St.shouldConnect (s : St) (a : Nat) (prevent : Bool) : Bool :=
  !prevent && (match s.selfAddr with
    | none => true
    | some me => decide (me > a))

/-- `TcpConnection.connect(host, port)` (host resolvable). -/
def St.connConnect (s : St) (c : Nat) (immFail : Bool) : St :=
  match s.conn? c with
  | none => s
  | some k => s.setConn c { k with state := if immFail then .disconnected else .connecting, lastRead := s.now }

/-- `node in self._connections and self._connections[node].state != DISCONNECTED`. -/
def St.regLive (s : St) (n : NodeId) : Bool :=
  match s.regConn n with
  | some (_, k) => k.state != CState.disconnected
  | none => false

/-- `node in self._lastConnectAttempt and monotonicTime() - self._lastConnectAttempt[node] < connectionRetryTime`. -/
def St.recent (s : St) (a : Nat) : Bool :=
  match lookup a s.lastAttempt with
  | some t => decide (s.now - t < s.retry)
  | none => false

/-- `_connectIfNecessarySingle(node)`, node = `TCPNode` numbered `a`. -/
def St.connectSingle (s : St) (a : Nat) (prevent immFail : Bool) : St :=
  if s.regLive (NodeId.tcp a) then s
  else if !s.shouldConnect a prevent then s
  else match lookup (NodeId.tcp a) s.reg with
    | none => s.emit .raised                       -- `assert node in self._connections`
    | some c =>
      if s.recent a then s
      else ({ s with lastAttempt := setKey a s.now s.lastAttempt }).connConnect c immFail

/-- `node in self._nodes` for the node found by `_connToNode`. -/
def St.isMember (s : St) : NodeId → Bool
  | .tcp a => decide (a ∈ s.nodes)
  | .ro _ => false

/-- `_onDisconnected(conn)`. `prevent`: the node currently in `_preventConnectNodes` (set by `dropNode` and by the
D52 repair around the `disconnect()` they perform). -/
def St.onDisconnected (s : St) (c : Nat) (prevent : Option NodeId) (immFail : Bool) : St :=
  let s := { s with unknown := eraseAll c s.unknown }
  match connToNode c s.reg with
  | none => s
  | some n =>
    if s.isMember n then
      let s := { s with view := eraseAll n s.view }.emit (.nodeDisc n)
      match n with
      | .tcp a => s.connectSingle a (decide (prevent = some n)) immFail
      | .ro _ => s
    else
      let s := match n with
        | .ro k => { s with roNodes := eraseAll k s.roNodes }
        | .tcp _ => s
      { s with view := eraseAll n s.view }.emit (.roDisc n)

/-- `TcpConnection.disconnect()` (every object of the transport has an onDisconnected callback). -/
def St.connDisconnect (s : St) (c : Nat) (prevent : Option NodeId) (immFail : Bool) : St :=
  match s.conn? c with
  | none => s
  | some k =>
    if k.state = .disconnected then s
    else (s.setConn c { k with state := .disconnected, gen := k.gen + 1 }).onDisconnected c prevent immFail

def St.timedOut (s : St) (k : Conn) : Bool := decide (s.now - k.lastRead > s.timeout)

/-- `_onOutgoingConnected(conn)` (no encryption), after D53. -/
def St.onOutgoingConnected (s : St) (c : Nat) (sendFail immFail : Bool) : St :=
  let s := if sendFail then s.connDisconnect c none immFail else s     -- `_sendSelfAddress(conn)`
  match s.conn? c with
  | none => s
  | some k =>
    if k.state != CState.connected then s
    else
      let n := connToNode c s.reg
      let s := match n with
        | some n => { s with view := insertSet n s.view }
        | none => s
      s.emit (.nodeConn n)

/-- READ/WRITE poll event without error and without data. -/
def St.pollOk (s : St) (c : Nat) (sendFail immFail : Bool) : St :=
  match s.conn? c with
  | none => s
  | some k =>
    match k.state with
    | .disconnected => s                                   -- `descr != self.__fileno`
    | .connecting =>
      if s.timedOut k then s.connDisconnect c none immFail
      else
        let s := s.setConn c { k with state := .connected, lastRead := s.now }
        if k.dialled then s.onOutgoingConnected c sendFail immFail else s
    | .connected =>
      if s.timedOut k then s.connDisconnect c none immFail else s

/-- `conn.disconnect(); self._unknownConnections.discard(conn)` for a first message that names nobody. -/
def St.hsReject (s : St) (c : Nat) : St :=
  let s := s.connDisconnect c none false
  { s with unknown := eraseAll c s.unknown }

/-- The tail of `_onIncomingMessageReceived` once the node is known, after D52. -/
def St.hsRegister (s : St) (c : Nat) (n : NodeId) (ro : Bool) : St :=
  let s := { s with unknown := eraseAll c s.unknown }
  let s := match lookup n s.reg with                       -- D52: close the connection being replaced
    | some old => s.connDisconnect old (some n) false
    | none => s
  let s := { s with reg := setKey n c s.reg }
  let s := match s.conn? c with
    | some k => s.setConn c { k with cb := .deliver n }
    | none => s
  let s := { s with view := insertSet n s.view }
  s.emit (if ro then .roConn n else .nodeConn (some n))

/-- `_onIncomingMessageReceived(conn, message)` (no encryption), after D52. Returns the state and whether an
exception escaped. -/
def St.onIncomingMessage (s : St) (c : Nat) (m : Msg) : St × Bool :=
  match m with
  | .util known replyFail =>
    if known then
      let s := s.emit .utility
      (if replyFail then s.connDisconnect c none false else s, false)
    else (s.hsReject c, false)             -- D77: a list that is no known utility command names nobody: closed
  | .unhashable _ => (s.hsReject c, false) -- D77: an unhashable value cannot be a node id: closed (was: TypeError)
  | .addr a => if a ∈ s.nodes then (s.hsRegister c (.tcp a) false, false) else (s.hsReject c, false)
  | .hashable _ => (s.hsReject c, false)
  | .readonly =>
    let n := NodeId.ro s.roCounter
    let s := { s with roNodes := insertSet s.roCounter s.roNodes, roCounter := s.roCounter + 1 }
    (s.hsRegister c n true, false)

/-- The message loop of `__processConnection` for object `c` whose socket generation was `gen` at the start. -/
def St.processMsgs (s : St) (c : Nat) (gen : Nat) : List Msg → St
  | [] => s
  | m :: ms =>
    match s.conn? c with
    | none => s
    | some k =>
      if k.gen != gen then s                               -- `self.__socket is not sock`
      else match k.cb with
        | .deliver n => (s.emit (.deliver n m)).processMsgs c gen ms
        | .handshake =>
          let (s, raised) := s.onIncomingMessage c m
          if raised then s else s.processMsgs c gen ms

def St.recv (s : St) (c : Nat) (msgs : List Msg) (immFail : Bool) : St :=
  match s.conn? c with
  | none => s
  | some k =>
    match k.state with
    | .disconnected => s
    | .connecting => s.pollOk c false immFail              -- becomes connected, data stays in the socket
    | .connected =>
      if s.timedOut k then s.connDisconnect c none immFail
      else (s.setConn c { k with lastRead := s.now }).processMsgs c k.gen msgs

/-- `addNode(node)`. -/
def St.addNode (s : St) (a : Nat) : St :=
  let s := { s with nodes := insertSet a s.nodes }
  if s.shouldConnect a false then
    let c := s.conns.length
    { s with conns := s.conns ++ [{ state := .disconnected, lastRead := s.now, dialled := true,
                                     cb := .deliver (.tcp a), gen := 0 }],
             reg := setKey (.tcp a) c s.reg }
  else s

/-- `dropNode(node)`, after D51. -/
def St.dropNode (s : St) (n : NodeId) : St :=
  let s := match lookup n s.reg with
    | some c => let s := s.connDisconnect c (some n) false
                { s with reg := eraseKey n s.reg }
    | none => s
  match n with
  | .tcp a => { s with nodes := eraseAll a s.nodes, lastAttempt := eraseKey a s.lastAttempt }
  | .ro k => { s with roNodes := eraseAll k s.roNodes }

/-- `send(node, message)`; the boolean result is emitted as `sendResult`. -/
def St.send (s : St) (n : NodeId) (sendFail immFail : Bool) : St :=
  match s.regConn n with
  | none => s.emit (.sendResult false)
  | some (c, k) =>
    if k.state != CState.connected then s.emit (.sendResult false)
    else
      let s := if s.timedOut k then s.connDisconnect c none immFail       -- `__trySendBuffer`: timeout check first
               else if sendFail then s.connDisconnect c none immFail
               else s
      let ok := match s.regConn n with
        | some (_, k') => k'.state == CState.connected
        | none => false
      s.emit (.sendResult ok)

def St.accept (s : St) : St :=
  let c := s.conns.length
  { s with conns := s.conns ++ [{ state := .connected, lastRead := s.now, dialled := false, cb := .handshake, gen := 0 }],
           unknown := insertSet c s.unknown }

def St.tick (s : St) (immFail : List Nat) : St :=
  s.nodes.foldl (fun s a => s.connectSingle a false (decide (a ∈ immFail))) s

def step (s : St) : Event → St
  | .advance dt => { s with now := s.now + dt }
  | .tick f => s.tick f
  | .accept => s.accept
  | .pollOk c sf f => s.pollOk c sf f
  | .connErr c f => s.connDisconnect c none f
  | .recv c ms f => s.recv c ms f
  | .addNode a => s.addNode a
  | .dropNode n => s.dropNode n
  | .send n sf f => s.send n sf f

def run (s : St) (evs : List Event) : St := evs.foldl step s

/-- `TCPTransport.__init__(syncObj, selfNode, otherNodes)` at time `now`. -/
def init (selfAddr : Option Nat) (retry timeout now : Nat) (others : List Nat) : St :=
  others.foldl St.addNode
    { selfAddr := selfAddr, retry := retry, timeout := timeout, now := now, nodes := [], roNodes := [],
      roCounter := 0, conns := [], reg := [], unknown := [], lastAttempt := [], view := [], log := [] }

end PSO.Transport
