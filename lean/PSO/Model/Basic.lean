/-! Shared basic definitions for all PSO models (import-free). -/
namespace PSO

/-- Bytes are modelled as lists of naturals < 256 where a byte-level model needs them. -/
abbrev Bytes := List UInt8

end PSO
