import PSO.Model.Raft

/-!
# Handler-level ("Impl") model of the tick side of one PySyncObj node  (C20, C12, C18, C04-local)

Executable, no imports beyond `PSO.Model.Raft` (for `Role`, `isMajority`).  Mirrors, statement by
statement, these parts of `/repo/pysyncobj/syncobj.py` (tree with the repairs D1–D4, D9, D10, D21, D71):

* `_onTick`: election-timeout branch, leader branch (commit-advance loop over `__raftMatchIndex`,
  `leaderFallbackTimeout` count over `__lastResponseTime`), `__applyLogEntries`, the decision to call
  `__sendAppendEntries` (the call itself is an output marker), the `onReady` notification.
  Not modelled: transport readiness, dump loading, the one-second journal timer, the command queue,
  compaction, tick callbacks, the poller (they come after / are owned by other components).
* `__applyLogEntries` / `__doApplyCommand` with the *free state machine* as user object (a regular
  command records its id, then returns the new length or — flag `raises` — raises; the repaired code
  turns the exception into the command's result), VERSION entries (D10: stop the batch at an
  unsupported version and keep the subscribers; D71: a version below the enabled one is refused — the entry
  counts as applied, nothing is set, its SUCCESS subscribers get the exception object; D21: nothing is applied while the enabled version is
  unsupported) and MEMBERSHIP entries (`__doChangeCluster`, forward direction).
* `__onBecomeLeader`, `__setState`, `__onLeaderChanged`, `__generateRaftTimeout`, `__connectedToAnyone`,
  `hasQuorum`.
* `__onMessageReceived` for `request_vote`, `response_vote`, `next_node_idx`.
* `__onNodeConnected/Disconnected`, `__onReadonlyNodeConnected/Disconnected`.

Time is `Nat` in units of 2⁻¹⁰ s; `rand` is the numerator k of the patched `random.random() = k/1024`.
Python sets are lists (canonical: ascending, duplicate free), dicts are association lists; reading a
missing key of `__raftMatchIndex` / `__lastResponseTime` for a voter (a `KeyError` in Python that would
abort `_onTick`) reads 0 here.  Precondition `KeysOK`: a leader has both entries for every voter — established
by `__onBecomeLeader` and preserved by every modelled handler (proved: `Proofs/NodeTickKeys.lean`, `step_keysOK`);
the correspondence generator produces only such states and
reports any `KeyError` of the real tick as an output the model does not have (a disagreement).  The one place
where the code itself can hit a missing key on a well-formed state — `next_node_idx` with `success` from a node
it does not track — is modelled (`Output.keyError`).
-/
namespace PSO.NodeTick
open PSO.Raft (Role isMajority)

inductive Cmd
  | noop
  | regular (id : Nat) (raises : Bool)
  | membership (add : Bool) (node : Nat)
  | version (v : Nat)
deriving DecidableEq, Repr, Inhabited

structure Entry where
  cmd  : Cmd
  idx  : Nat
  term : Nat
deriving DecidableEq, Repr, Inhabited

structure Config where
  fallbackT : Nat          -- leaderFallbackTimeout
  minT      : Nat          -- raftMinTimeout
  maxT      : Nat          -- raftMaxTimeout
  useBatch  : Bool         -- appendEntriesUseBatch
  selfVer   : Nat          -- __selfCodeVersion (fixed by the code a node runs)
deriving Repr, Inhabited

abbrev AMap := List (Nat × Nat)

structure NodeState where
  self             : Option Nat          -- `None` ⇒ read-only node (observer)
  role             : Role
  term             : Nat
  votedFor         : Option Nat
  votes            : Nat
  leader           : Option Nat
  electionDeadline : Nat
  others           : List Nat            -- voters other than self
  readonly         : List Nat            -- connected observers
  connected        : List Nat
  log              : List Entry
  commit           : Nat
  lastApplied      : Nat
  matchIndex       : AMap
  nextIndex        : AMap
  lastResponse     : AMap
  waiting          : List (Nat × List (Nat × Nat))   -- __commandsWaitingCommit: idx ↦ [(term, cb)]
  waitingReply     : List (Nat × Nat)                 -- __commandsWaitingReply: request id ↦ cb (ascending ids)
  sm               : List Nat                          -- free state machine: ids of executed regular commands
  enabledVer       : Nat
  leaderCommit     : Option Nat
  readyCalled      : Bool
  newAppendTime    : Nat
  noopIdx          : Option Nat
deriving Repr, Inhabited

/-- What a callback receives as `result`. -/
inductive Res
  | none
  | ok (n : Nat)            -- value returned by the method (new length of the free state machine)
  | raised (id : Nat)       -- the exception instance raised by command `id` (repair D9)
  | lowerVersion (v : Nat)  -- `Exception('wrong version, enabled version is …, requested version is v')` (repair D71)
deriving DecidableEq, Repr, Inhabited

inductive Fail | success | discarded | leaderChanged
deriving DecidableEq, Repr, Inhabited

inductive Output
  | requestVote (dst term lastIdx lastTerm : Nat)
  | responseVote (dst term : Nat)
  | stateChange (old new : Role)
  | callback (idx cb : Nat) (res : Res) (err : Fail)   -- idx: log index (request id for `leaderChanged`)
  | exec (pos id : Nat)                                -- the user method ran for log position `pos`
  | versionChanged (old new : Nat)
  | addNode (n : Nat)
  | dropNode (n : Nat)
  | sendAppend                                          -- `__sendAppendEntries()` is called here
  | ready
  | keyError
deriving DecidableEq, Repr, Inhabited

/-! ## containers -/

def mget (m : AMap) (k : Nat) : Option Nat :=
  match m with
  | [] => none
  | (k', v) :: rest => if k' = k then some v else mget rest k

def mgetD (m : AMap) (k : Nat) : Nat := (mget m k).getD 0

def mdel (m : AMap) (k : Nat) : AMap := m.filter (fun p => p.1 ≠ k)

/-- `m[k] = v` (canonical form: the binding moves to the end; comparisons sort by key). -/
def mset (m : AMap) (k v : Nat) : AMap := mdel m k ++ [(k, v)]

def sadd (l : List Nat) (x : Nat) : List Nat := if x ∈ l then l else l ++ [x]
def sdel (l : List Nat) (x : Nat) : List Nat := l.filter (· ≠ x)

def wget (w : List (Nat × List (Nat × Nat))) (k : Nat) : Option (List (Nat × Nat)) :=
  match w with
  | [] => none
  | (k', v) :: rest => if k' = k then some v else wget rest k

def wdel (w : List (Nat × List (Nat × Nat))) (k : Nat) : List (Nat × List (Nat × Nat)) :=
  w.filter (fun p => p.1 ≠ k)

/-! ## log access -/

def firstIdx (log : List Entry) : Nat := (log.head?.map (·.idx)).getD 0
def lastIdx (log : List Entry) : Nat := (log.getLast?.map (·.idx)).getD 0
def lastTerm (log : List Entry) : Nat := (log.getLast?.map (·.term)).getD 0

/-- `__getEntries(fromIDx, count)` -/
def getEntries (log : List Entry) (frm count : Nat) : List Entry :=
  if frm < firstIdx log then [] else (log.drop (frm - firstIdx log)).take count

/-! ## small pieces -/

/-- `__generateRaftTimeout()` with `random.random() = rand/1024` -/
def raftTimeout (c : Config) (rand : Nat) : Nat := c.minT + (c.maxT - c.minT) * rand / 1024

/-- `__connectedToAnyone()` -/
def connectedToAnyone (s : NodeState) : Bool := decide (s.connected.length > 0) || decide (s.others.length = 0)

/-- `hasQuorum` -/
def hasQuorum (s : NodeState) : Bool :=
  let nodeCount := s.others.length
  let connectedCount := (s.others.filter (· ∈ s.connected)).length
  if s.self.isSome then isMajority (nodeCount + 1) (connectedCount + 1)
  else isMajority nodeCount connectedCount

/-- `__setState(newState)` with an `onStateChanged` callback installed. -/
def setRole (s : NodeState) (r : Role) : NodeState × List Output :=
  ({ s with role := r }, if s.role = r then [] else [.stateChange s.role r])

/-- `__onLeaderChanged()`: every command waiting for the leader's reply fails with LEADER_CHANGED. -/
def leaderChanged (s : NodeState) : NodeState × List Output :=
  ({ s with waitingReply := [] },
   s.waitingReply.map (fun p => .callback p.1 p.2 .none .leaderChanged))

/-- nodes a leader tracks: `self.__otherNodes | self.__readonlyNodes` -/
def tracked (s : NodeState) : List Nat := s.others ++ s.readonly.filter (· ∉ s.others)

/-- `__onBecomeLeader()` (the two calls of `__sendAppendEntries` are output markers). -/
def becomeLeader (c : Config) (s : NodeState) (now : Nat) : NodeState × List Output :=
  let (s1, o1) := setRole { s with leader := s.self } .leader
  let li := lastIdx s1.log + 1
  let nodes := tracked s1
  let s2 := { s1 with
    nextIndex := nodes.foldl (fun m n => mset m n li) s1.nextIndex
    matchIndex := nodes.foldl (fun m n => mset m n 0) s1.matchIndex
    lastResponse := nodes.map (fun n => (n, now))
    log := s1.log ++ [⟨.noop, li, s1.term⟩]
    noopIdx := some li }
  (s2, o1 ++ (if c.useBatch then [] else [.sendAppend]) ++ [.sendAppend])

/-! ## `_onTick`, election-timeout branch -/

def electionPhase (c : Config) (s : NodeState) (now rand : Nat) : NodeState × List Output :=
  match s.self with
  | none => (s, [])
  | some me =>
    if s.role = .leader then (s, [])
    else if s.electionDeadline < now ∧ connectedToAnyone s then
      let s0 := { s with electionDeadline := now + raftTimeout c rand, leader := none }
      let (s1, o1) := setRole s0 .candidate
      let s2 := { s1 with term := s1.term + 1, votedFor := some me, votes := 1 }
      let reqs := s2.others.map (fun n => Output.requestVote n s2.term (lastIdx s2.log) (lastTerm s2.log))
      let (s3, o3) := leaderChanged s2
      if isMajority (s3.others.length + 1) s3.votes then
        let (s4, o4) := becomeLeader c s3 now
        (s4, o1 ++ reqs ++ o3 ++ o4)
      else (s3, o1 ++ reqs ++ o3)
    else (s, [])

/-! ## `_onTick`, leader branch -/

/-- `count` of the commit-advance loop: self + voters whose match index reaches `i`. -/
def commitCount (others : List Nat) (m : AMap) (i : Nat) : Nat :=
  1 + (others.filter (fun n => decide (i ≤ mgetD m n))).length

def termAt (log : List Entry) (i : Nat) : Option Nat := ((getEntries log i 1).head?).map (·.term)

/-- The `while commitIdx < lastIdx` loop; `fuel = lastIdx − commitIdx`. Returns `nextCommitIdx`. -/
def commitLoop (others : List Nat) (m : AMap) (log : List Entry) (term : Nat) :
    Nat → Nat → Nat → Nat
  | 0, _, next => next
  | fuel + 1, ci, next =>
    let ci' := ci + 1
    if isMajority (others.length + 1) (commitCount others m ci') then
      if termAt log ci' = some term then commitLoop others m log term fuel ci' ci'
      else commitLoop others m log term fuel ci' next
    else next

/-- The commit index the leader branch of a tick computes. -/
def nextCommit (s : NodeState) : Nat :=
  commitLoop s.others s.matchIndex s.log s.term (lastIdx s.log - s.commit) s.commit s.commit

/-- `count` of the fallback check: self + voters heard from after `now − T`. -/
def freshCount (others : List Nat) (lr : AMap) (now T : Nat) : Nat :=
  1 + (others.filter (fun n => decide (now < mgetD lr n + T))).length

def leaderPhase (c : Config) (s : NodeState) (now : Nat) : NodeState × List Output :=
  if s.role = .leader then
    let s1 := { s with commit := nextCommit s }
    let s2 := { s1 with leaderCommit := some s1.commit }
    if isMajority (s2.others.length + 1) (freshCount s2.others s2.lastResponse now c.fallbackT) then (s2, [])
    else
      let (s3, o3) := setRole s2 .follower
      ({ s3 with leader := none }, o3)
  else (s, [])

/-! ## `__applyLogEntries` -/

/-- `__doChangeCluster(request)` (forward direction, as called from `__doApplyCommand`). -/
def changeCluster (s : NodeState) (now : Nat) (add : Bool) (n : Nat) : NodeState × List Output :=
  if add then
    if s.self = some n ∨ n ∈ s.others then (s, [])
    else
      ({ s with
          others := s.others ++ [n]
          nextIndex := mset s.nextIndex n (lastIdx s.log + 1)
          matchIndex := mset s.matchIndex n 0
          lastResponse := if s.role = .leader then mset s.lastResponse n now else s.lastResponse },
       [.addNode n])
  else
    if s.self = some n then (s, [])
    else if n ∉ s.others then (s, [])
    else
      ({ s with
          others := sdel s.others n
          nextIndex := mdel s.nextIndex n
          matchIndex := mdel s.matchIndex n },
       [.dropNode n])

/-- `__doApplyCommand(command)`: `none` = `SyncObjExceptionWrongVer` was raised (state untouched). -/
def applyCmd (c : Config) (s : NodeState) (now : Nat) (e : Entry) : Option (NodeState × Res × List Output) :=
  match e.cmd with
  | .noop => some (s, .none, [])
  | .version v =>
    if c.selfVer < v then none
    else if v < s.enabledVer then some (s, .lowerVersion v, [])     -- D71: a lower version is refused, nothing is set
    else some ({ s with enabledVer := v }, .none, [.versionChanged s.enabledVer v])
  | .membership _ _ =>
    -- since repair D6 a membership entry is carried out when it is appended (after a restart: when the
    -- journal is read), applying it leaves the member set alone
    some (s, .none, [])
  | .regular id raises =>
    let sm' := s.sm ++ [id]
    some ({ s with sm := sm' }, if raises then .raised id else .ok sm'.length, [.exec (s.lastApplied + 1) id])

def callbacksFor (e : Entry) (res : Res) (subs : List (Nat × Nat)) : List Output :=
  subs.map (fun p => if p.1 = e.term then .callback e.idx p.2 res .success
                     else .callback e.idx p.2 .none .discarded)

/-- The `for entry in entries` loop of `__applyLogEntries`. -/
def applyLoop (c : Config) (now : Nat) : List Entry → NodeState → NodeState × List Output
  | [], s => (s, [])
  | e :: es, s =>
    let subs := (wget s.waiting e.idx).getD []
    let s0 := { s with waiting := wdel s.waiting e.idx }
    match applyCmd c s0 now e with
    | none =>
      -- unsupported version (D10): put the subscribers back, stop the batch
      ({ s0 with waiting := if subs = [] then s0.waiting else s0.waiting ++ [(e.idx, subs)] }, [])
    | some (s1, res, o1) =>
      let r := applyLoop c now es { s1 with lastApplied := s1.lastApplied + 1 }
      (r.1, o1 ++ callbacksFor e res subs ++ r.2)

/-- `__applyLogEntries()`: new state, outputs, `needSendAppendEntries`. -/
def applyEntries (c : Config) (s : NodeState) (now : Nat) : NodeState × List Output × Bool :=
  if c.selfVer < s.enabledVer then (s, [], false)          -- D21
  else if s.lastApplied < s.commit then
    let r := applyLoop c now (getEntries s.log (s.lastApplied + 1) (s.commit - s.lastApplied)) s
    (r.1, r.2, !c.useBatch)
  else (s, [], false)

/-! ## `_onTick` -/

def sendPhase (s : NodeState) (now : Nat) (needSend : Bool) : List Output :=
  if s.role = .leader ∧ (s.newAppendTime < now ∨ needSend = true) then [.sendAppend] else []

def readyPhase (s : NodeState) : NodeState × List Output :=
  if s.readyCalled = false ∧ s.leaderCommit = some s.lastApplied then ({ s with readyCalled := true }, [.ready])
  else (s, [])

def tick (c : Config) (s : NodeState) (now rand : Nat) : NodeState × List Output :=
  let r1 := electionPhase c s now rand
  let r2 := leaderPhase c r1.1 now
  let r3 := applyEntries c r2.1 now
  let o4 := sendPhase r3.1 now r3.2.2
  let r5 := readyPhase r3.1
  (r5.1, r1.2 ++ r2.2 ++ r3.2.1 ++ o4 ++ r5.2)

/-! ## `__onMessageReceived` (vote and acknowledgement parts) -/

inductive Msg
  | requestVote (term lastIdx lastTerm : Nat)
  | responseVote (term : Nat)
  | nextNodeIdx (term : Option Nat) (reset : Bool) (next : Nat) (success : Bool)
deriving DecidableEq, Repr, Inhabited

def onRequestVote (c : Config) (s : NodeState) (frm term li lt now rand : Nat) : NodeState × List Output :=
  if s.self.isNone then (s, [])
  else
    let r1 : NodeState × List Output :=
      if s.term < term then
        let (s1, o1) := setRole { s with term := term, votedFor := none } .follower
        ({ s1 with leader := none }, o1)
      else (s, [])
    let s1 := r1.1
    if s1.role = .leader then r1
    else if term < s1.term then r1
    else if lt < lastTerm s1.log then r1
    else if lt = lastTerm s1.log ∧ li < lastIdx s1.log then r1
    else if s1.votedFor.isSome then r1
    else
      ({ s1 with votedFor := some frm, electionDeadline := now + raftTimeout c rand },
       r1.2 ++ [.responseVote frm term])

def onResponseVote (c : Config) (s : NodeState) (term now : Nat) : NodeState × List Output :=
  if s.role = .candidate ∧ term = s.term then
    let s1 := { s with votes := s.votes + 1 }
    if isMajority (s1.others.length + 1) s1.votes then becomeLeader c s1 now else (s1, [])
  else (s, [])

def onNextNodeIdx (s : NodeState) (frm : Nat) (term : Option Nat) (reset : Bool) (next : Nat)
    (success : Bool) (now : Nat) : NodeState × List Output :=
  if s.role = .leader ∧ term.getD s.term = s.term then
    let s1 := if reset then { s with nextIndex := mset s.nextIndex frm next } else s
    if success then
      match mget s1.matchIndex frm with
      | none => (s1, [.keyError])
      | some mi =>
        let s2 := if mi + 1 < next then
            { s1 with matchIndex := mset s1.matchIndex frm (next - 1), nextIndex := mset s1.nextIndex frm next }
          else s1
        ({ s2 with lastResponse := mset s2.lastResponse frm now }, [])
    else ({ s1 with lastResponse := mset s1.lastResponse frm now }, [])
  else (s, [])

def onMessage (c : Config) (s : NodeState) (frm : Nat) (m : Msg) (now rand : Nat) : NodeState × List Output :=
  match m with
  | .requestVote t li lt => onRequestVote c s frm t li lt now rand
  | .responseVote t => onResponseVote c s t now
  | .nextNodeIdx t reset next success => onNextNodeIdx s frm t reset next success now

/-! ## connection callbacks -/

def onConnected (s : NodeState) (n : Nat) : NodeState := { s with connected := sadd s.connected n }
def onDisconnected (s : NodeState) (n : Nat) : NodeState := { s with connected := sdel s.connected n }

def onReadonlyConnected (s : NodeState) (n : Nat) : NodeState :=
  { s with
    readonly := sadd s.readonly n
    connected := sadd s.connected n
    nextIndex := mset s.nextIndex n (lastIdx s.log + 1)
    matchIndex := mset s.matchIndex n 0 }

def onReadonlyDisconnected (s : NodeState) (n : Nat) : NodeState :=
  { s with
    readonly := sdel s.readonly n
    connected := sdel s.connected n
    nextIndex := mdel s.nextIndex n
    matchIndex := mdel s.matchIndex n }

/-! ## events -/

inductive Event
  | tick (now rand : Nat)
  | deliver (frm : Nat) (m : Msg) (now rand : Nat)
  | connected (n : Nat)
  | disconnected (n : Nat)
  | roConnected (n : Nat)
  | roDisconnected (n : Nat)
deriving DecidableEq, Repr, Inhabited

def step (c : Config) (s : NodeState) : Event → NodeState × List Output
  | .tick now rand => tick c s now rand
  | .deliver frm m now rand => onMessage c s frm m now rand
  | .connected n => (onConnected s n, [])
  | .disconnected n => (onDisconnected s n, [])
  | .roConnected n => (onReadonlyConnected s n, [])
  | .roDisconnected n => (onReadonlyDisconnected s n, [])

/-- Run a list of events; outputs are concatenated. -/
def run (c : Config) (s : NodeState) : List Event → NodeState × List Output
  | [] => (s, [])
  | e :: es =>
    let r := step c s e
    let r' := run c r.1 es
    (r'.1, r.2 ++ r'.2)

end PSO.NodeTick
