/-!
# Model of the caller-thread → tick-thread hand-over of PySyncObj (property C19)

Mirrors, function by function:

* `pysyncobj/fast_queue.py`  `FastQueue.put_nowait / get_nowait`            → `FastQueue.putNowait / getNowait`
* `syncobj.py` decorators `replicated` / `replicated_sync` (wrapper `newFunc`) → `replicatedCall / replicatedSyncCall / planOf`
* `syncobj.py` `__doApplyCommand` unpacking of a REGULAR command            → `Packed.toVal / unpackVal / received`
* `syncobj.py` `_applyCommand` (put, or `QUEUE_FULL` to the own callback)    → `Sys.putStep`, `Sys.remotePut`
* `syncobj.py` `_checkCommandsToApply` (one loop iteration = one dequeue + dispatch) → `Sys.tick`
* `syncobj.py` `AsyncResult` + the sync wait in `newFunc`                    → `ARes`, `Sys.waitStep`, `Sys.timeoutStep`

The replication core (log, commit, apply, forwarding replies) is NOT modelled here; it is abstracted
by the label `answer j err`: any callback registered with the core (`commandsWaitingCommit` /
`commandsWaitingReply`, here the pool `pend`) may be answered, at most once (it is removed), with
`(result of its own command, SUCCESS)` or `(None, failure)`; it may also never be answered.  That is
the interface assumption towards the core (supplied by C02).

Atomicity assumed (the "partial" part of C19): one `Label` = one atomic action.  `put_nowait` and
`get_nowait` are atomic because of the queue's lock; `AsyncResult.onResult` (three attribute stores,
the last one `Event.set`) is taken as one action and a waiter reads `error`/`result` only after
`Event.wait` returned true.
-/
namespace PSO.Queue

/-! ## FastQueue -/

/-- `FastQueue`: a deque and `maxSize` (the lock is the atomicity of the two operations). -/
structure FastQueue (α : Type) where
  items : List α
  maxSize : Nat

namespace FastQueue

/-- `put_nowait`: `if len(queue) > maxSize: raise Full` — as written, so `maxSize + 1` items fit. -/
def putNowait {α : Type} (q : FastQueue α) (v : α) : Option (FastQueue α) :=
  if q.items.length > q.maxSize then none else some { q with items := q.items ++ [v] }

/-- `get_nowait`: `if len(queue) == 0: raise Empty; return popleft()`. -/
def getNowait {α : Type} (q : FastQueue α) : Option (α × FastQueue α) :=
  match q.items with
  | [] => none
  | x :: rest => some (x, { q with items := rest })

end FastQueue

/-! ## Python values, keyword dictionaries, the decorator wrapper -/

/-- The Python values the wrapper can tell apart (everything else is opaque to it). -/
inductive Val where
  | none
  | bool (b : Bool)
  | int (n : Int)
  | str (s : String)
  | tup (xs : List Val)
  | dict (kvs : List (String × Val))

/-- keyword arguments: insertion-ordered association list (Python `dict`, keys unique). -/
abbrev Kw := List (String × Val)

/-- Python truthiness. -/
def Val.truthy : Val → Bool
  | .none => false
  | .bool b => b
  | .int n => n != 0
  | .str s => s != ""
  | .tup xs => !xs.isEmpty
  | .dict kvs => !kvs.isEmpty

/-- `x is not None`. -/
def Val.isSome : Val → Bool
  | .none => false
  | _ => true

/-- `kw.get(k)` -/
def kwGet (k : String) : Kw → Option Val
  | [] => none
  | (k', v) :: rest => if k' == k then some v else kwGet k rest

/-- the dictionary after `kw.pop(k, default)` -/
def kwDel (k : String) (kw : Kw) : Kw := kw.filter (fun p => p.1 != k)

/-- `kw[k] = v` (in place when present, appended otherwise). -/
def kwSet (k : String) (v : Val) : Kw → Kw
  | [] => [(k, v)]
  | (k', v') :: rest => if k' == k then (k, v) :: rest else (k', v') :: kwSet k v rest

/-- `kw.setdefault(k, v)` -/
def kwSetDefault (k : String) (v : Val) (kw : Kw) : Kw :=
  match kwGet k kw with
  | some _ => kw
  | none => kw ++ [(k, v)]

/-- `base.update(upd)` -/
def kwUpdate (base : Kw) : Kw → Kw
  | [] => base
  | (k, v) :: rest => kwUpdate (kwSet k v base) rest

/-- the keys of a dictionary -/
def kwKeys (kw : Kw) : List String := kw.map (fun p => p.1)

/-- the caller's keyword arguments without the four names the wrapper reserves -/
def stripReserved (kw : Kw) : Kw :=
  kwDel "timeout" (kwDel "sync" (kwDel "callback" (kwDel "_doApply" kw)))

/-- The command object that is pickled: `funcID | (funcID, args) | (funcID, args, kwargs)`. -/
inductive Packed where
  | bare (f : Nat)
  | two (f : Nat) (args : List Val)
  | three (f : Nat) (args : List Val) (kw : Kw)

/-- The Python object `pickle.loads` gives back on the applying side. -/
def Packed.toVal : Packed → Val
  | .bare f => .int f
  | .two f a => .tup [.int f, .tup a]
  | .three f a kw => .tup [.int f, .tup a, .dict kw]

/-- How the caller learns the outcome. -/
inductive Mode where
  | nocb                      -- no callback, not sync: fire and forget
  | user                      -- `callback=` given (then `sync` is ignored)
  | sync (timeout : Val)      -- `sync` truthy and no callback: own `AsyncResult`, `event.wait(timeout)`

/-- What the wrapper does with one call. -/
inductive Plan where
  | localRun (args : List Val) (kw : Kw)     -- `_doApply` truthy: run the method body here
  | replicate (cmd : Packed) (mode : Mode)   -- `applier(pickle.dumps(cmd), callback, REGULAR)`

/-- `replicated`'s `newFunc`, line by line.  `cmd` references the `kwargs` dict object, and `sync` /
`timeout` are popped from that same object *after* the shape of `cmd` was chosen and *before*
`pickle.dumps(cmd)`: the shape sees them, the pickled kwargs do not. -/
def replicatedCall (f : Nat) (args : List Val) (kw : Kw) : Plan :=
  let doApply := (kwGet "_doApply" kw).getD (.bool false)
  let kw := kwDel "_doApply" kw
  if doApply.truthy then .localRun args kw
  else
    let callback := (kwGet "callback" kw).getD .none
    let kw := kwDel "callback" kw
    -- `if kwargs: … elif args and not kwargs: … else: …`
    let shape : Nat := if !kw.isEmpty then 3 else if !args.isEmpty then 2 else 1
    let sync := ((kwGet "sync" kw).getD (.bool false)).truthy
    let kw := kwDel "sync" kw
    let sync := if callback.isSome then false else sync
    let timeout := (kwGet "timeout" kw).getD .none
    let kw := kwDel "timeout" kw
    let cmd : Packed := if shape == 3 then .three f args kw else if shape == 2 then .two f args else .bare f
    let mode : Mode := if sync then .sync timeout else if callback.isSome then .user else .nocb
    .replicate cmd mode

/-- `replicated_sync`'s `newFunc` around `replicated(func)`. -/
def replicatedSyncCall (dtimeout : Val) (f : Nat) (args : List Val) (kw : Kw) : Plan :=
  if ((kwGet "_doApply" kw).getD (.bool false)).truthy then replicatedCall f args kw
  else replicatedCall f args (kwSetDefault "sync" (.bool true) (kwSetDefault "timeout" dtimeout kw))

/-- `__doApplyCommand` on the unpickled command: the three branches
`not isinstance(command, tuple)` / `len(command) == 2` / else (3-unpacking, `ValueError` otherwise);
result = `(funcID, args, kwargs)` with `kwargs = {'_doApply': True}.update(newKwArgs)`. -/
def unpackVal : Val → Option (Val × Val × Kw)
  | .tup [f, a] => some (f, a, [("_doApply", .bool true)])
  | .tup [f, a, .dict kw] => some (f, a, kwUpdate [("_doApply", .bool true)] kw)
  | .tup _ => none
  | v => some (v, .tup [], [("_doApply", .bool true)])

/-- What the user's method body receives when the applying side calls
`self._idToMethod[funcID](*args, **kwargs)`: the wrapper pops `_doApply` and calls `func`. -/
def received (cmd : Val) : Option (Val × List Val × Kw) :=
  match unpackVal cmd with
  | some (f, .tup args, kw) =>
      match replicatedCall 0 args kw with
      | .localRun a k => some (f, a, k)
      | .replicate _ _ => none
  | _ => none

/-- which decorator wraps the method -/
inductive Dec where
  | replicated
  | replicatedSync (dtimeout : Val)

/-- one call of a replicated method by an application thread -/
structure CallSpec where
  dec : Dec
  func : Nat
  args : List Val
  kw : Kw

def planOf (sp : CallSpec) : Plan :=
  match sp.dec with
  | .replicated => replicatedCall sp.func sp.args sp.kw
  | .replicatedSync d => replicatedSyncCall d sp.func sp.args sp.kw

/-! ## Threads, queue entries, events -/

/-- identity of a call = (caller thread, position in that thread's program) -/
structure CallId where
  t : Nat
  k : Nat
  deriving DecidableEq, Repr

/-- identity of a command in the queue: built by a local call, or received from another node -/
inductive CmdRef where
  | call (c : CallId)
  | foreign (k : Nat)
  deriving DecidableEq, Repr

/-- `FAIL_REASON` -/
inductive Fail where
  | success | queueFull | missingLeader | discarded | notLeader | leaderChanged | requestDenied
  deriving DecidableEq, Repr

def Fail.code : Fail → Nat
  | .success => 0 | .queueFull => 1 | .missingLeader => 2 | .discarded => 3
  | .notLeader => 4 | .leaderChanged => 5 | .requestDenied => 6

/-- the `callback` argument of `_applyCommand` -/
inductive CbRef where
  | none                            -- `None`
  | user (c : CallId)               -- the function the caller of call `c` passed as `callback=`
  | ares (c : CallId)               -- `asyncResult.onResult` of the `AsyncResult` made for call `c`
  | remote (node req : Nat)         -- `(node, request_id)`: command forwarded by another node
  deriving DecidableEq, Repr

/-- does this callback belong to call `c`? -/
def CbRef.isFor (cb : CbRef) (c : CallId) : Bool :=
  match cb with
  | .user c' => c' == c
  | .ares c' => c' == c
  | _ => false

def Mode.cbRef (m : Mode) (c : CallId) : CbRef :=
  match m with
  | .nocb => .none
  | .user => .user c
  | .sync _ => .ares c

def Mode.hasCb : Mode → Bool
  | .nocb => false
  | _ => true

/-- `(command, callback)` as put into the queue -/
structure Entry where
  cmd : CmdRef
  cb : CbRef
  deriving DecidableEq, Repr

/-- how a synchronous call ends -/
inductive Outcome where
  | value (r : Option Nat)     -- `return asyncResult.result`
  | raised (e : Fail)          -- `raise SyncObjException(asyncResult.error)`
  | timeout                    -- `raise SyncObjException('Timeout')`
  deriving DecidableEq, Repr

/-- `if not res: Timeout; if not error == 0: raise error; return result` (after the wait returned true) -/
def outcomeOf (res : Option Nat) (err : Fail) : Outcome :=
  if err = .success then .value res else .raised err

/-- body of an `apply_command_response` -/
inductive Resp where
  | ok (idx term : Nat)
  | err (e : Fail)
  deriving DecidableEq, Repr

/-- observable events, newest first in `Sys.hist` -/
inductive Ev where
  | localRun (c : CallId)                              -- `_doApply` path: body executed by the caller
  | enq (c : CallId)                                   -- caller's `put_nowait` succeeded
  | full (c : CallId)                                  -- caller's `put_nowait` raised `Full`
  | renq (k : Nat)                                     -- tick thread enqueued a forwarded command
  | rfull (k : Nat)                                    -- … or found the queue full
  | deq (m : CmdRef)                                   -- `get_nowait` returned this command
  | appended (m : CmdRef) (idx term : Nat)             -- leader: `raftLog.add(command, idx, term)`
  | forwarded (m : CmdRef) (req : Option Nat)          -- follower: `apply_command` sent to the leader
  | dropped (m : CmdRef) (why : Fail)                  -- dispatch refused it (denied / no leader / not leader)
  | sent (node req : Nat) (body : Resp)                -- `apply_command_response` to a requesting node
  | fired (c : CallId) (res : Option Nat) (err : Fail) -- callback of call `c` invoked with `(res, err)`
  | ret (c : CallId) (o : Outcome)                     -- synchronous call `c` returned / raised
  deriving DecidableEq, Repr

inductive Phase where
  | start      -- about to resolve the function id and build the command
  | built      -- command (and `AsyncResult`) built; about to `put_nowait`
  | waiting    -- sync call: put done, blocked in `asyncResult.event.wait(timeout)`
  deriving DecidableEq, Repr

/-- an application thread: a fixed program of calls, a program counter -/
structure Thread where
  prog : List CallSpec
  next : Nat
  phase : Phase

/-- `AsyncResult` -/
structure ARes where
  result : Option Nat
  error : Option Fail
  flag : Bool
  deriving DecidableEq, Repr

def ARes.blank : ARes := ⟨none, none, false⟩

/-- where a registered callback waits inside the core -/
inductive PendKey where
  | commit (idx term : Nat)     -- `commandsWaitingCommit[idx].append((term, callback))`
  | reply (req : Nat)           -- `commandsWaitingReply[req] = callback`
  deriving DecidableEq, Repr

structure Pend where
  key : PendKey
  e : Entry
  deriving DecidableEq, Repr

/-- what one iteration of `_checkCommandsToApply` reads from the node (owned by the core) -/
structure Env where
  hasLeader : Bool        -- `raftLeader is not None`
  isLeader : Bool         -- `raftState == LEADER`
  waitLeader : Bool       -- `conf.commandsWaitLeader`
  denied : Bool           -- a membership request that `__changeCluster` refuses
  idx : Nat               -- `getCurrentLogIndex() + 1`
  term : Nat              -- `raftCurrentTerm`
  deriving DecidableEq, Repr

/-- global state -/
structure Sys where
  q : FastQueue Entry
  thr : Nat → Thread
  ars : CallId → ARes
  pend : List Pend
  counter : Nat               -- `commandsLocalCounter`
  resultOf : CmdRef → Nat     -- the free state machine: the value applying this command returns
  hist : List Ev

def upd {β : Type} (f : Nat → β) (t : Nat) (v : β) : Nat → β := fun i => if i = t then v else f i

def updC {β : Type} (f : CallId → β) (c : CallId) (v : β) : CallId → β := fun i => if i = c then v else f i

/-- invoke a callback with `(res, err)`; `__callErrCallback` for the tuple form -/
def Sys.invoke (s : Sys) (cb : CbRef) (res : Option Nat) (err : Fail) : Sys :=
  match cb with
  | .none => s
  | .user c => { s with hist := .fired c res err :: s.hist }
  | .ares c => { s with ars := updC s.ars c ⟨res, some err, true⟩, hist := .fired c res err :: s.hist }
  | .remote n r => { s with hist := .sent n r (.err err) :: s.hist }

/-- the current call of thread `t` and its plan -/
def Thread.cur (th : Thread) (t : Nat) : Option (CallId × Plan) :=
  match th.prog[th.next]? with
  | none => none
  | some sp => some (⟨t, th.next⟩, planOf sp)

def Sys.current (s : Sys) (t : Nat) : Option (CallId × Plan) := (s.thr t).cur t

def Thread.advance (th : Thread) : Thread := { th with next := th.next + 1, phase := .start }

/-- phase `start`: resolve + build (thread-local) -/
def Sys.startStep (s : Sys) (t : Nat) : Option Sys :=
  match s.current t with
  | none => none
  | some (c, .localRun _ _) =>
      some { s with thr := upd s.thr t (s.thr t).advance, hist := .localRun c :: s.hist }
  | some (_, .replicate _ _) =>
      some { s with thr := upd s.thr t { s.thr t with phase := .built } }

/-- after `applier(...)` returned: async calls return `None` at once, sync calls block -/
def Sys.afterPut (s : Sys) (t : Nat) (mode : Mode) : Sys :=
  match mode with
  | .sync _ => { s with thr := upd s.thr t { s.thr t with phase := .waiting } }
  | _ => { s with thr := upd s.thr t (s.thr t).advance }

/-- `_applyCommand(command, callback)`: `put_nowait`; on `Full`, `__callErrCallback(QUEUE_FULL, callback)`
runs in the calling thread (nobody else holds that callback).  `okEv` / `fullEv` are the ghost events. -/
def Sys.applyCommand (s : Sys) (e : Entry) (okEv fullEv : Ev) : Sys :=
  match s.q.putNowait e with
  | some q' => { s with q := q', hist := okEv :: s.hist }
  | none => ({ s with hist := fullEv :: s.hist } : Sys).invoke e.cb none .queueFull

/-- phase `built`: the wrapper calls `_applyCommand` with the packed command and the call's callback
(`None`, the user's function, or the call's own `AsyncResult.onResult`) -/
def Sys.putStep (s : Sys) (t : Nat) : Option Sys :=
  match s.current t with
  | some (c, .replicate _ mode) =>
      some ((s.applyCommand ⟨.call c, mode.cbRef c⟩ (.enq c) (.full c)).afterPut t mode)
  | _ => none

/-- phase `waiting`, `event.wait` returned true: read `error`, `result` -/
def Sys.waitStep (s : Sys) (t : Nat) : Option Sys :=
  match s.current t with
  | some (c, .replicate _ (.sync _)) =>
      let a := s.ars c
      if a.flag then
        some { s with thr := upd s.thr t (s.thr t).advance,
                      hist := .ret c (outcomeOf a.result (a.error.getD .success)) :: s.hist }
      else none
  | _ => none

/-- phase `waiting`, `event.wait(timeout)` returned false (only with a timeout, only while not set) -/
def Sys.timeoutStep (s : Sys) (t : Nat) : Option Sys :=
  if (s.thr t).phase = .waiting then
    match s.current t with
    | some (c, .replicate _ (.sync tmo)) =>
        if tmo.isSome && !(s.ars c).flag then
          some { s with thr := upd s.thr t (s.thr t).advance, hist := .ret c .timeout :: s.hist }
        else none
    | _ => none
  else none

def Sys.callStep (s : Sys) (t : Nat) : Option Sys :=
  match (s.thr t).phase with
  | .start => s.startStep t
  | .built => s.putStep t
  | .waiting => s.waitStep t

/-- `commandsWaitingReply[req] = callback` (dict store: an old entry under the same key is lost) -/
def regReply (pend : List Pend) (req : Nat) (e : Entry) : List Pend :=
  pend.filter (fun p => p.key != .reply req) ++ [⟨.reply req, e⟩]

/-- dispatch of one dequeued `(command, callback)` — the body of the loop of `_checkCommandsToApply` -/
def Sys.dispatch (s : Sys) (env : Env) (e : Entry) : Sys :=
  if env.isLeader then
    if !env.denied then
      let s := { s with hist := .appended e.cmd env.idx env.term :: s.hist }
      match e.cb with
      | .remote n r => { s with hist := .sent n r (.ok env.idx env.term) :: s.hist }
      | .none => s
      | _ => { s with pend := s.pend ++ [⟨.commit env.idx env.term, e⟩] }
    else
      let s := { s with hist := .dropped e.cmd .requestDenied :: s.hist }
      match e.cb with
      | .remote n r => { s with hist := .sent n r (.err .requestDenied) :: s.hist }
      | cb => s.invoke cb none .requestDenied
  else if env.hasLeader then
    match e.cb with
    | .remote n r =>
        { s with hist := .sent n r (.err .notLeader) :: .dropped e.cmd .notLeader :: s.hist }
    | .none => { s with hist := .forwarded e.cmd none :: s.hist }
    | _ =>
        { s with counter := s.counter + 1,
                 pend := regReply s.pend (s.counter + 1) e,
                 hist := .forwarded e.cmd (some (s.counter + 1)) :: s.hist }
  else
    ({ s with hist := .dropped e.cmd .missingLeader :: s.hist } : Sys).invoke e.cb none .missingLeader

/-- one iteration of the loop of `_checkCommandsToApply`; `none` = the loop breaks -/
def Sys.tick (s : Sys) (env : Env) : Option Sys :=
  if !env.hasLeader && env.waitLeader then none
  else
    match s.q.getNowait with
    | none => none
    | some (e, q') => some (({ s with q := q', hist := .deq e.cmd :: s.hist } : Sys).dispatch env e)

/-- the core answers a registered callback: `(result of its command, SUCCESS)` or `(None, err)` -/
def Sys.answer (s : Sys) (j : Nat) (err : Fail) : Option Sys :=
  match s.pend[j]? with
  | none => none
  | some p =>
      let res := if err = .success then some (s.resultOf p.e.cmd) else none
      some (({ s with pend := s.pend.eraseIdx j } : Sys).invoke p.e.cb res err)

/-- the `callback` of a forwarded command: `(node, request_id)` or `None` -/
def cbOfOpt : Option (Nat × Nat) → CbRef
  | some (n, r) => .remote n r
  | none => .none

/-- tick thread, `__onMessageReceived('apply_command')`: `_applyCommand(command, (node, req) | None)` -/
def Sys.remotePut (s : Sys) (k : Nat) (cb : Option (Nat × Nat)) : Sys :=
  s.applyCommand ⟨.foreign k, cbOfOpt cb⟩ (.renq k) (.rfull k)

/-- scheduler choices = atomic actions -/
inductive Label where
  | call (t : Nat)                              -- caller thread `t` performs its next action
  | timeout (t : Nat)                           -- the wait of thread `t` times out
  | tick (env : Env)                            -- tick thread: one dequeue + dispatch
  | answer (j : Nat) (err : Fail)               -- core answers the `j`-th registered callback
  | remotePut (k : Nat) (cb : Option (Nat × Nat))
  deriving Repr

def Sys.step (s : Sys) : Label → Option Sys
  | .call t => s.callStep t
  | .timeout t => s.timeoutStep t
  | .tick env => s.tick env
  | .answer j err => s.answer j err
  | .remotePut k cb => some (s.remotePut k cb)

/-- run a schedule; `none` when a chosen action is not enabled -/
def Sys.exec (s : Sys) : List Label → Option Sys
  | [] => some s
  | l :: ls => match s.step l with
    | none => none
    | some s' => s'.exec ls

/-- like `exec` but skipping actions that are not enabled (used by the driver for random schedules) -/
def Sys.execSkip (s : Sys) : List Label → Sys × List Bool
  | [] => (s, [])
  | l :: ls => match s.step l with
    | none => let (s', bs) := s.execSkip ls; (s', false :: bs)
    | some s1 => let (s', bs) := s1.execSkip ls; (s', true :: bs)

/-- initial state: empty queue of size `maxSize`, thread `i` runs `progs[i]`; `counter0` is the start
value of `commandsLocalCounter` (`random.getrandbits(48)` in `SyncObj.__init__`: request ids of one
process run do not collide with those of an earlier run) -/
def Sys.init (maxSize : Nat) (progs : List (List CallSpec)) (resultOf : CmdRef → Nat) (counter0 : Nat) : Sys where
  q := ⟨[], maxSize⟩
  thr := fun i => ⟨progs.getD i [], 0, .start⟩
  ars := fun _ => ARes.blank
  pend := []
  counter := counter0
  resultOf := resultOf
  hist := []


/-! ## The wake-up pipe (`pipe_notifier.py`, used when `appendEntriesUseBatch = False`)

`_applyCommand` = `put_nowait` then `PipeNotifier.notify()` (one byte written to a non-blocking pipe;
since the repair D67 a full pipe — EAGAIN — is ignored: a wake-up is pending anyway).  The tick thread
loops `_checkCommandsToApply` (process the queue) … `_poller.poll(timeToWait)`; when the pipe is readable
the poller calls `__onNewNotification`, which reads the pipe empty.  A poll with nothing readable sleeps
(up to `timeToWait`). -/

/-- where the tick thread is in its loop -/
inductive TickPhase where
  | process      -- about to run `_checkCommandsToApply`
  | poll         -- about to run `_poller.poll`
  deriving DecidableEq, Repr

structure Wake where
  queue : FastQueue Nat
  pipe : Nat            -- bytes in the pipe
  cap : Nat             -- pipe capacity in bytes (one byte per notify)
  chunk : Nat           -- `0`: the code as it is (`while os.read(fd, 1024): pass` reads everything); `n > 0`: one `os.read(fd, n)`
  phase : TickPhase
  -- ghost
  owing : Nat           -- callers that have `put` and not yet called `notify`
  freshPuts : Nat       -- successful puts since the pipe was last read
  sinceProc : Nat       -- successful puts since the last `_checkCommandsToApply`
  leftover : Nat        -- what the last `_checkCommandsToApply` itself left in the queue (time budget, no leader)

inductive WOut where
  | ok | queueFull | error
  deriving DecidableEq, Repr

/-- `PipeNotifier.notify`: `os.write(fd, b'o')`, EAGAIN ignored.  `acc` is the kernel's answer for a pipe
that is neither empty nor full: a pipe whose tail page has no room refuses a byte although fewer than
`cap` bytes are unread (only reachable when the reader leaves bytes behind); an EMPTY pipe always takes
the byte, a full one never. -/
def pipeNotify (pipe cap : Nat) (acc : Bool) : Nat × WOut :=
  if pipe = 0 ∨ (acc = true ∧ pipe < cap) then (pipe + 1, .ok) else (pipe, .ok)

/-- the unrepaired `notify` (before D67): EAGAIN escapes as `BlockingIOError` -/
def pipeNotifyPinned (pipe cap : Nat) : Nat × WOut := if pipe < cap then (pipe + 1, .ok) else (pipe, .error)

/-- `__onNewNotification`: what is left in the pipe -/
def pipeDrain (chunk : Nat) (pipe : Nat) : Nat := if chunk = 0 then 0 else pipe - min pipe chunk

inductive WLabel where
  | put (v : Nat)          -- a caller: `commandsQueue.put_nowait`
  | notify (acc : Bool)    -- a caller: `pipeNotifier.notify()` (after its put); `acc`: see `pipeNotify`
  | process (k : Nat)      -- tick thread: `_checkCommandsToApply` dequeues (up to) `k` commands
  | poll                   -- tick thread: `_poller.poll`: reads the pipe when it is readable
  deriving Repr

def Wake.step (w : Wake) : WLabel → Wake × WOut
  | .put v =>
      match w.queue.putNowait v with
      | none => (w, .queueFull)                -- `Queue.Full`: `notify` is skipped, QUEUE_FULL goes to the callback
      | some q' => ({ w with queue := q', owing := w.owing + 1, freshPuts := w.freshPuts + 1,
                             sinceProc := w.sinceProc + 1 }, .ok)
  | .notify acc =>
      let r := pipeNotify w.pipe w.cap acc
      ({ w with pipe := r.1, owing := w.owing - 1 }, r.2)
  | .process k =>
      let rest := w.queue.items.drop k
      ({ w with queue := { w.queue with items := rest }, phase := .poll, sinceProc := 0, leftover := rest.length }, .ok)
  | .poll =>
      if w.pipe > 0 then ({ w with pipe := pipeDrain w.chunk w.pipe, freshPuts := 0, phase := .process }, .ok)
      else ({ w with phase := .process }, .ok)

def Wake.run (w : Wake) : List WLabel → Wake × List WOut
  | [] => (w, [])
  | l :: ls =>
      let r := w.step l
      let rr := r.1.run ls
      (rr.1, r.2 :: rr.2)

def Wake.init (maxSize cap : Nat) (chunk : Nat) : Wake :=
  ⟨⟨[], maxSize⟩, 0, cap, chunk, .process, 0, 0, 0, 0⟩

/-- the tick thread is about to sleep in `poll` although nobody is going to wake it -/
def Wake.sleeps (w : Wake) : Bool := w.phase == .poll && w.pipe == 0 && w.owing == 0

end PSO.Queue
