/-!
# Handler-level model of the send side, the command-queue dispatch and the membership gate
of one PySyncObj node (`pysyncobj/syncobj.py`, tree with repairs D1–D4, D5, D7)

Executable, import-free.  Mirrors, statement by statement,

* `__getEntries`, `__getPrevLogIndexTerm`, `__deleteEntriesFrom`
* `__sendAppendEntries` for ONE destination (`sendLoop`) and for all of them (`sendAll`): batching by
  `appendEntriesBatchSizeBytes`, the `start/process/finish` chunking of a single over-sized entry, the
  snapshot branch (the serializer's answers are an input), `nextIndex` bookkeeping, the wall-clock
  cut-off (`budget`), the `node not in connectedNodes` exits (`dropAfter`; repair D65: also after a chunk burst), the one-batch probing of a destination that has not confirmed the preceding entry (repair D62)
* the regular branch of the `append_entries` handler (`followerAppend`): chunk reassembly into
  `__recvTransmission`, prev check, conflict-only truncation with membership rollback, append,
  membership apply, `next_node_idx` reply
* `_applyCommand` (`submit`), `_checkCommandsToApply` (`checkCommands`), the `apply_command` /
  `apply_command_response` handlers, `__onLeaderChanged`, `__callErrCallback`
* `__changeCluster`, `__doChangeCluster`, `__parseChangeClusterRequest`, `_removeNodeFromCluster`
  (admin path), `__updateClusterConfiguration` (snapshot restore of the member set), the application of a
  membership entry in `__doApplyCommand` (`reapplyAtCommit`: a no-op since repair D6), the start-up fold of the
  journal's membership entries (`journalFold`), the cluster written into a dump (`clusterAt`, repair D63).

A command is `(kind, id, size)`; `size` is the byte length of the command string (type byte included),
`ovh` is the pickle overhead δ of the log entry holding it: `len(pickle.dumps(entry)) = size + ovh`
(measured on the real side by really pickling; the theorems hold for every δ ≥ 1).
Partial operations of the code (`log[-1]` on an empty journal, dict lookups, `int < None`, `'' + bytes`,
unpickling a truncated string, the `assert` in the response handler) return `Except.error`.
-/
namespace PSO.NodeSend

/-! ## vocabulary -/

inductive Kind
  | noop | regular | version
  | add (n : Nat) | rem (n : Nat)
  | memOther                      -- MEMBERSHIP command whose request type is neither 'add' nor 'rem'
deriving DecidableEq, Repr, Inhabited

structure Cmd where
  kind : Kind
  id   : Nat
  size : Nat
  ovh  : Nat := 1
deriving DecidableEq, Repr, Inhabited

structure Entry where
  cmd  : Cmd
  idx  : Nat
  term : Nat
deriving DecidableEq, Repr, Inhabited

/-- length of `pickle.dumps(entry)` -/
def Entry.plen (e : Entry) : Nat := e.cmd.size + e.cmd.ovh

inductive Err
  | indexError | keyError | typeError | assertionError | unpickle
deriving DecidableEq, Repr, Inhabited

inductive Label | start | process | finish
deriving DecidableEq, Repr, Inhabited

inductive FailReason
  | queueFull | missingLeader | notLeader | leaderChanged | requestDenied
deriving DecidableEq, Repr, Inhabited

def FailReason.code : FailReason → Nat
  | .queueFull => 1 | .missingLeader => 2 | .notLeader => 4 | .leaderChanged => 5 | .requestDenied => 6

inductive Msg
  | append (term commit : Nat) (prev : Option (Nat × Nat)) (entries : List Entry)
  | chunk (label : Label) (pos len : Nat) (entry : Entry) (term commit : Nat) (prev : Option (Nat × Nat))
  | snap (term commit : Nat) (data : Option Bool)            -- serializer answer: none | some isLast
  | applyCommand (cmd : Cmd) (reqId : Option Nat)
  | response (reqId : Nat) (res : Except FailReason (Nat × Nat))   -- ok (log_idx, log_term)
  | nextNodeIdx (next : Nat) (reset success : Bool) (term : Nat)
deriving Repr

inductive Out
  | send (dst : Nat) (m : Msg)
  | callback (cb : Nat) (reason : FailReason)
  | addNode (n : Nat)
  | dropNode (n : Nat)
deriving Repr

/-! ## association lists standing for the dicts -/

abbrev Map := List (Nat × Nat)

def Map.get? (m : Map) (k : Nat) : Option Nat := (m.find? (fun p => p.1 == k)).map (·.2)
def Map.del (m : Map) (k : Nat) : Map := m.filter (fun p => p.1 != k)
def Map.put (m : Map) (k v : Nat) : Map := (k, v) :: m.del k

/-! ## log access -/

def firstIdx? (log : List Entry) : Option Nat := log.head?.map (·.idx)
def lastIdx? (log : List Entry) : Option Nat := log.getLast?.map (·.idx)

/-- the byte-budget cut of `__getEntries`: entries until the cumulative command size reaches `maxB`
(`>=`), the entry that reaches it included; the first entry always included. -/
def takeBytes (maxB : Nat) : Nat → List Entry → List Entry
  | _, [] => []
  | acc, e :: rest => if maxB ≤ acc + e.cmd.size then [e] else e :: takeBytes maxB (acc + e.cmd.size) rest

/-- `__getEntries(fromIDx, count, maxSizeBytes)`; `none` = `IndexError` of `self.__raftLog[0]` on an empty journal -/
def getEntries (log : List Entry) (frm : Option Nat) (count : Option Nat) (maxB : Option Nat) : Option (List Entry) :=
  match log with
  | [] => none
  | e0 :: _ =>
    match frm with
    | none => some []
    | some f =>
      if f < e0.idx then some []
      else
        let r := match count with
          | none => log.drop (f - e0.idx)
          | some c => (log.drop (f - e0.idx)).take c
        some (match maxB with | none => r | some m => takeBytes m 0 r)

/-- `__getPrevLogIndexTerm(nextNodeIndex)`: outer `none` = IndexError, inner `none` = `(None, None)` -/
def getPrev (log : List Entry) (next : Nat) : Option (Option (Nat × Nat)) :=
  match getEntries log (some (next - 1)) (some 1) none with
  | none => none
  | some [] => some none
  | some (e :: _) => some (some (next - 1, e.term))

/-- `__deleteEntriesFrom(fromIDx)` -/
def deleteFrom (log : List Entry) (frm : Nat) : Option (List Entry) :=
  match log with
  | [] => none
  | e0 :: _ => if frm < e0.idx then some log else some (log.take (frm - e0.idx))

/-! ## chunking of one over-sized entry (C11) -/

def nChunks (B E : Nat) : Nat := (E + B - 1) / B

/-- label of the chunk at byte position `pos`; `ruleLen` is the length the `finish` test compares with:
the repaired code uses the length of the pickled entry, the pinned code used the command length (D7). -/
def labelAt (ruleLen B pos : Nat) : Label :=
  if pos = 0 then .start else if ruleLen ≤ pos + B then .finish else .process

/-- `for pos in xrange(0, E, B)`: (label, pos, length of `entry[pos:pos+B]`) -/
def chunkSpansWith (ruleLen B E : Nat) : List (Label × Nat × Nat) :=
  (List.range (nChunks B E)).map fun k => (labelAt ruleLen B (k * B), k * B, min B (E - k * B))

/-- the chunk list of the repaired code -/
def chunkSpans (B E : Nat) : List (Label × Nat × Nat) := chunkSpansWith E B E

def slice {α : Type} (data : List α) (pos len : Nat) : List α := (data.drop pos).take len

/-- chunks with their payload -/
def chunksOf {α : Type} (B : Nat) (data : List α) : List (Label × List α) :=
  (chunkSpans B data.length).map fun c => (c.1, slice data c.2.1 c.2.2)

/-- Receiver side of the transmission: `buf = none` is the initial `''` (a `str`: `'' + bytes` raises
TypeError).  Returns the new buffer and, for `finish`, the completed byte string. -/
def recvChunk {α : Type} (buf : Option (List α)) (l : Label) (data : List α) :
    Except Err (Option (List α) × Option (List α)) :=
  match l with
  | .start => .ok (some data, none)
  | .process => match buf with
    | none => .error .typeError
    | some b => .ok (some (b ++ data), none)
  | .finish => match buf with
    | none => .error .typeError
    | some b => .ok (none, some (b ++ data))

/-- feed a chunk list to the receiver; result: final buffer and the byte strings completed on the way -/
def recvAll {α : Type} : Option (List α) → List (Label × List α) → Except Err (Option (List α) × List (List α))
  | buf, [] => .ok (buf, [])
  | buf, (l, d) :: rest =>
    match recvChunk buf l d with
    | .error e => .error e
    | .ok (buf', done) =>
      match recvAll buf' rest with
      | .error e => .error e
      | .ok (b, ds) => .ok (b, done.toList ++ ds)

/-! ### the abstract pickled entry used by the node-level model: byte `i` of entry `e` is `(e, i)` -/

abbrev PByte := Entry × Nat

def pickleEntry (e : Entry) : List PByte := (List.range e.plen).map fun i => (e, i)

/-- `pickle.loads`: succeeds iff the string starts with a complete pickle (trailing bytes are ignored) -/
def unpickleEntry (b : List PByte) : Option Entry :=
  match b with
  | [] => none
  | (e, _) :: _ => if b.take e.plen = pickleEntry e then some e else none

/-! ## the send loop for one destination -/

/-- what one iteration of the `while` sends -/
inductive Batch
  | regular (prev : Option (Nat × Nat)) (entries : List Entry)
  | chunked (prev : Option (Nat × Nat)) (e : Entry)
  | snapshot (ans : Option Bool)
deriving Repr

def Batch.entries : Batch → List Entry
  | .regular _ es => es
  | .chunked _ e => [e]
  | .snapshot _ => []

def Batch.prev : Batch → Option (Nat × Nat)
  | .regular p _ => p
  | .chunked p _ => p
  | .snapshot _ => none

/-- messages of one batch -/
def render (B term commit : Nat) : Batch → List Msg
  | .regular prev es => [Msg.append term commit prev es]
  | .chunked prev e => (chunkSpans B e.plen).map fun c => Msg.chunk c.1 c.2.1 c.2.2 e term commit prev
  | .snapshot ans => [Msg.snap term commit ans]

/-- One iteration body up to (not including) the sends: the batch and the new `nextIndex[node]`. -/
def iterBatch (B : Nat) (log : List Entry) (next : Nat) (ans : Option Bool) : Except Err (Batch × Nat) :=
  match firstIdx? log, lastIdx? log with
  | some first, some last =>
    if first < next then
      match getPrev log next with
      | none => .error .indexError
      | some prev =>
        if next ≤ last then
          match getEntries log (some next) none (some B) with
          | none => .error .indexError
          | some es =>
            match es.getLast? with
            | none => .error .indexError          -- entries[-1] of an empty list
            | some l =>
              match es with
              | [e] => if B ≤ e.cmd.size then .ok (.chunked prev e, l.idx + 1)
                       else .ok (.regular prev es, l.idx + 1)
              | _ => .ok (.regular prev es, l.idx + 1)
        else .ok (.regular prev [], next)
    else .ok (.snapshot ans, next)               -- nextIndex of a final chunk is set after the send
  | _, _ => .error .indexError

/-- still connected after `sent` calls of `transport.send`? (`dropAfter = some d`: the d-th call drops) -/
def stillConnected (dropAfter : Option Nat) (sent : Nat) : Bool :=
  match dropAfter with
  | none => true
  | some d => decide (sent < d)

/-- messages of a chunk burst actually handed to the transport: the `for` stops after the first send
that finds the node disconnected -/
def sendBurst (dropAfter : Option Nat) : Nat → List Msg → List Msg × Nat
  | sent, [] => ([], sent)
  | sent, m :: rest =>
    if stillConnected dropAfter (sent + 1) then
      let r := sendBurst dropAfter (sent + 1) rest
      (m :: r.1, r.2)
    else ([m], sent + 1)

structure SendRes where
  batches : List Batch
  msgs    : List Msg
  next    : Nat
  budget  : Option Nat
  sent    : Nat
  snap    : List (Option Bool)
  spin    : Bool                 -- the model's fuel ran out: the real loop would spin until the clock cuts it
deriving Repr

structure SendCfg where
  B : Nat
  term : Nat
  commit : Nat
  dropAfter : Option Nat := none
  matchIdx : Option Nat := none      -- `self.__raftMatchIndex[node]` of the destination (`none`: no such key)

/-- repair D62: `probing = prevLogIdx is None or self.__raftMatchIndex[node] < prevLogIdx`, evaluated at the
first regular batch of the call (`decided` = it was already evaluated, to False: a probing run ends at once) -/
def probeDecision (c : SendCfg) (decided : Bool) (prev : Option (Nat × Nat)) : Except Err Bool :=
  if decided then .ok false
  else
    match prev with
    | none => .ok true
    | some (pi, _) =>
      match c.matchIdx with
      | none => .error .keyError
      | some m => .ok (decide (m < pi))

/-- `budget`: `none` = the clock never cuts; `some b` = the `delta > appendEntriesPeriod` test is true
from the b-th iteration (counted over all destinations of one call) on. -/
def budgetDone : Option Nat → Bool
  | none => false
  | some b => decide (b ≤ 1)

def budgetNext : Option Nat → Option Nat
  | none => none
  | some b => some (b - 1)

/-- the `while nextNodeIndex <= currentLogIndex or sendSingle or sendingSerialized` loop; `decided` = the
probing question was already answered (with "no") in an earlier iteration of this call -/
def sendLoop (c : SendCfg) (log : List Entry) : (fuel : Nat) → (next : Nat) → (sendSingle sendingSer : Bool) →
    (snap : List (Option Bool)) → (budget : Option Nat) → (sent : Nat) → (decided : Bool) → Except Err SendRes
  | 0, next, _, _, snap, budget, sent, _ => .ok ⟨[], [], next, budget, sent, snap, true⟩
  | fuel + 1, next, sendSingle, sendingSer, snap, budget, sent, decided =>
    match lastIdx? log with
    | none => .error .indexError
    | some last =>
      if next ≤ last || sendSingle || sendingSer then
        let ans := snap.head?.join
        match iterBatch c.B log next ans with
        | .error e => .error e
        | .ok (b, next') =>
          let all := render c.B c.term c.commit b
          match b with
          | .chunked prev _ =>
            match probeDecision c decided prev with
            | .error e => .error e
            | .ok probing =>
              -- a drop inside the burst leaves the `for` and then (repair D65) the `while` as well
              let (ms, sent') := sendBurst c.dropAfter sent all
              if !stillConnected c.dropAfter sent' then .ok ⟨[b], ms, next', budget, sent', snap, false⟩
              else if probing then .ok ⟨[b], ms, next', budget, sent', snap, false⟩
              else if budgetDone budget then .ok ⟨[b], ms, next', budgetNext budget, sent', snap, false⟩
              else
                match sendLoop c log fuel next' false false snap (budgetNext budget) sent' true with
                | .error e => .error e
                | .ok r => .ok { r with batches := b :: r.batches, msgs := ms ++ r.msgs }
          | .regular prev _ =>
            match probeDecision c decided prev with
            | .error e => .error e
            | .ok probing =>
              if !stillConnected c.dropAfter (sent + 1) then .ok ⟨[b], all, next', budget, sent + 1, snap, false⟩
              else if probing then .ok ⟨[b], all, next', budget, sent + 1, snap, false⟩
              else if budgetDone budget then .ok ⟨[b], all, next', budgetNext budget, sent + 1, snap, false⟩
              else
                match sendLoop c log fuel next' false false snap (budgetNext budget) (sent + 1) true with
                | .error e => .error e
                | .ok r => .ok { r with batches := b :: r.batches, msgs := all ++ r.msgs }
          | .snapshot a =>
            -- the break on disconnect comes BEFORE nextIndex / sendingSerialized are updated
            if !stillConnected c.dropAfter (sent + 1) then .ok ⟨[b], all, next, budget, sent + 1, snap.tail, false⟩
            else
              let ser := match a with | some false => true | _ => false
              -- isLast: self.__raftNextIndex[node] = self.__raftLog[1][1] + 1
              let nxt : Option Nat := match a with
                | some true => (match log with | _ :: e1 :: _ => some (e1.idx + 1) | _ => none)
                | _ => some next'
              match nxt with
              | none => .error .indexError
              | some next'' =>
                if budgetDone budget then .ok ⟨[b], all, next'', budgetNext budget, sent + 1, snap.tail, false⟩
                else
                  match sendLoop c log fuel next'' false ser snap.tail (budgetNext budget) (sent + 1) decided with
                  | .error e => .error e
                  | .ok r => .ok { r with batches := b :: r.batches, msgs := all ++ r.msgs }
      else .ok ⟨[], [], next, budget, sent, snap, false⟩

/-- fuel that suffices whenever the loop makes progress (every iteration consumes an entry, a serializer
answer, or is the single empty heartbeat) -/
def sendFuel (log : List Entry) (snap : List (Option Bool)) : Nat := log.length + snap.length + 2

/-- `__sendAppendEntries` restricted to one connected destination -/
def sendOne (c : SendCfg) (log : List Entry) (next : Nat) (snap : List (Option Bool)) (budget : Option Nat) :
    Except Err SendRes :=
  sendLoop c log (sendFuel log snap + c.dropAfter.getD 0 + budget.getD 0) next true false snap budget 0 false

/-! ## node state -/

inductive Role | follower | candidate | leader
deriving DecidableEq, Repr, Inhabited

inductive Cb
  | none
  | loc (id : Nat)                    -- a callable of this process
  | remote (node reqId : Nat)         -- (requestNode, requestID) of a forwarded command
deriving DecidableEq, Repr, Inhabited

structure Conf where
  batch      : Nat := 65536
  useBatch   : Bool := true
  dynMember  : Bool := false
  waitLeader : Bool := true
  queueMax   : Nat := 100000
deriving Repr

structure Node where
  self        : Option Nat := some 0
  role        : Role := .follower
  term        : Nat := 0
  leader      : Option Nat := none
  log         : List Entry := []
  commit      : Nat := 1
  lastApplied : Nat := 1
  members     : List Nat := []          -- __otherNodes
  readonly    : List Nat := []
  connected   : List Nat := []
  nextIndex   : Map := []
  matchIndex  : Map := []
  queue       : List (Cmd × Cb) := []
  waitCommit  : List (Nat × Nat × Nat) := []   -- (idx, term, callback) in insertion order
  waitReply   : Map := []                      -- request id ↦ callback
  localCounter : Nat := 0
  noopIdx     : Option Nat := none
  changeIdx   : Option Nat := none
  recvBuf     : Option (List PByte) := none
deriving Repr

/-! ## membership -/

/-- `__parseChangeClusterRequest` -/
def parseChange : Kind → Option Kind
  | .add n => some (.add n)
  | .rem n => some (.rem n)
  | .memOther => some .memOther
  | _ => none

/-- target node and direction of `__doChangeCluster(request, reverse)`: `some (n, adding)` -/
def changeDir (k : Kind) (reverse : Bool) : Option (Nat × Bool) :=
  match k with
  | .add n => some (n, !reverse)
  | .rem n => some (n, reverse)
  | _ => none

/-- effect of `__doChangeCluster` on the member list alone: new list and the returned flag -/
def memStep (self : Option Nat) (m : List Nat) (k : Kind) (reverse : Bool) : List Nat × Bool :=
  match changeDir k reverse with
  | none => (m, false)
  | some (n, true) => if self = some n ∨ n ∈ m then (m, false) else (m ++ [n], true)
  | some (n, false) => if self = some n ∨ n ∉ m then (m, false) else (m.erase n, true)

/-- `__doChangeCluster(request, reverse)` -/
def doChange (s : Node) (k : Kind) (reverse : Bool) : Except Err (Node × Bool × List Out) :=
  match changeDir k reverse with
  | none => .ok (s, false, [])
  | some (n, adding) =>
    let (m', changed) := memStep s.self s.members k reverse
    if !changed then .ok (s, false, [])
    else if adding then
      match lastIdx? s.log with
      | none => .error .indexError
      | some last =>
        .ok ({ s with members := m', nextIndex := s.nextIndex.put n (last + 1), matchIndex := s.matchIndex.put n 0 },
             true, [.addNode n])
    else
      .ok ({ s with members := m', nextIndex := s.nextIndex.del n, matchIndex := s.matchIndex.del n },
           true, [.dropNode n])

/-- `__changeCluster(request)`: the leader-side gate (with repair D5 the index of the accepted entry is
recorded by the caller) -/
def changeCluster (s : Node) (k : Kind) : Except Err (Node × Bool × List Out) :=
  match s.noopIdx with
  | none => .error .typeError                       -- `int < None`
  | some noop =>
    if s.lastApplied < noop then .ok (s, false, [])
    else
      let ci := match s.changeIdx with
        | some c => if c ≤ s.lastApplied then none else some c
        | none => none
      let s1 := { s with changeIdx := ci }
      match ci with
      | some _ => .ok (s1, false, [])
      | none => doChange s1 k false

/-- membership entries of a list of log entries, applied (or, `reverse`, rolled back) one after another -/
def applyChanges (s : Node) (reverse : Bool) : List Entry → Except Err (Node × List Out)
  | [] => .ok (s, [])
  | e :: rest =>
    match parseChange e.cmd.kind with
    | none => applyChanges s reverse rest
    | some k =>
      match doChange s k reverse with
      | .error err => .error err
      | .ok (s1, _, o1) =>
        match applyChanges s1 reverse rest with
        | .error err => .error err
        | .ok (s2, o2) => .ok (s2, o1 ++ o2)

/-- the member set defined by the membership commands of a log over a base configuration -/
def foldConfig (self : Option Nat) (base : List Nat) (log : List Entry) : List Nat :=
  log.foldl (fun m e => (memStep self m e.cmd.kind false).1) base

/-- `__updateClusterConfiguration(newNodes)` as called by `__loadDumpFile` (self already filtered out) -/
def updateClusterConfiguration (s : Node) (newNodes : List Nat) : Except Err (Node × List Out) :=
  let nn := newNodes.eraseDups
  let toRemove := s.members.filter (fun n => !nn.contains n)
  let toAdd := nn.filter (fun n => !s.members.contains n)
  match lastIdx? s.log with
  | none => if toAdd.isEmpty then
      .ok ({ s with members := nn,
                    nextIndex := toRemove.foldl Map.del s.nextIndex,
                    matchIndex := toRemove.foldl Map.del s.matchIndex },
           toRemove.map Out.dropNode)
    else .error .indexError
  | some last =>
    let ni := toRemove.foldl Map.del s.nextIndex
    let mi := toRemove.foldl Map.del s.matchIndex
    .ok ({ s with members := nn,
                  nextIndex := toAdd.foldl (fun m n => m.put n (last + 1)) ni,
                  matchIndex := toAdd.foldl (fun m n => m.put n 0) mi },
         toRemove.map Out.dropNode ++ toAdd.map Out.addNode)

/-- snapshot restore as far as log and member set are concerned (`__loadDumpFile`, install branch):
the journal becomes the two entries of the dump, the member set the dump's cluster without self -/
def restoreSnapshot (s : Node) (prevE lastE : Entry) (cluster : List Nat) (dyn : Bool) : Except Err (Node × List Out) :=
  let s1 := { s with log := [prevE, lastE], lastApplied := lastE.idx }
  if dyn then updateClusterConfiguration s1 (cluster.filter (fun n => s.self ≠ some n))
  else .ok (s1, [])

/-- `__doApplyCommand` on a membership entry (repair D6): the entry is skipped like NO_OP — cluster changes take
effect when they enter the log, applying them again would undo a later change already in the log -/
def reapplyAtCommit (s : Node) (_e : Entry) : Except Err (Node × List Out) := .ok (s, [])

/-- first tick after a start (`_onTick`, `__needLoadDumpFile` block, repair D6): every membership entry of the
journal is carried out on the member set the node was started with -/
def journalFold (dyn : Bool) (s : Node) : Except Err (Node × List Out) :=
  if dyn then
    match s.log with
    | [] => .error .indexError                      -- self.__raftLog[0]
    | _ :: _ => applyChanges s false s.log
  else .ok (s, [])

/-- one step of taking a later entry's change back out of the dump's cluster (repair D63):
`add X` → `cluster.discard(X)`, `rem X` → `cluster.add(X)`, entries naming the node itself skipped -/
def unStep (self : Option Nat) (c : List Nat) (k : Kind) : List Nat :=
  match k with
  | .add n => if self = some n then c else c.filter (fun x => x != n)
  | .rem n => if self = some n then c else if c.contains n then c else c ++ [n]
  | _ => c

/-- the cluster `__tryLogCompaction` writes into a dump labelled with `lastApplied` (repair D63):
`otherNodes | {self}` with the changes of all entries after `lastApplied` taken back out, last entry first -/
def clusterAt (self : Option Nat) (members : List Nat) (log : List Entry) (lastApplied : Nat) : Option (List Nat) :=
  match getEntries log (some (lastApplied + 1)) none none with
  | none => none
  | some es => some (es.reverse.foldl (fun c e => unStep self c e.cmd.kind) (members ++ self.toList))

/-- `_removeNodeFromCluster` (admin message): removing the node itself is denied before anything is queued -/
def adminRemoveDenied (s : Node) (n : Nat) : Bool := decide (s.self = some n)

/-! ## all destinations -/

def dests (s : Node) : List Nat := s.members ++ s.readonly.filter (fun n => !s.members.contains n)

/-- `__sendAppendEntries()`; the serializer's answers per destination are an input -/
def sendAllLoop (B : Nat) (snapOf : Nat → List (Option Bool)) : List Nat → Node → Option Nat → Except Err (Node × List Out × Option Nat)
  | [], s, budget => .ok (s, [], budget)
  | d :: ds, s, budget =>
    if !s.connected.contains d then sendAllLoop B snapOf ds s budget
    else
      match s.nextIndex.get? d with
      | none => .error .keyError
      | some next =>
        match sendOne ⟨B, s.term, s.commit, none, s.matchIndex.get? d⟩ s.log next (snapOf d) budget with
        | .error e => .error e
        | .ok r =>
          let s1 := { s with nextIndex := if r.next = next then s.nextIndex else s.nextIndex.put d r.next }
          match sendAllLoop B snapOf ds s1 r.budget with
          | .error e => .error e
          | .ok (s2, o2, b2) => .ok (s2, r.msgs.map (Out.send d) ++ o2, b2)

def sendAll (cfg : Conf) (snapOf : Nat → List (Option Bool)) (s : Node) (budget : Option Nat) : Except Err (Node × List Out) :=
  match sendAllLoop cfg.batch snapOf (dests s) s budget with
  | .error e => .error e
  | .ok (s', o, _) => .ok (s', o)

/-! ## queue: submit and dispatch -/

/-- `__callErrCallback(err, callback)` -/
def errCallback (r : FailReason) : Cb → List Out
  | .none => []
  | .loc id => [.callback id r]
  | .remote node req => [.send node (.response req (.error r))]

/-- `_applyCommand(command, callback)`: `FastQueue.put_nowait` raises Full iff `len > maxSize` -/
def submit (cfg : Conf) (s : Node) (cmd : Cmd) (cb : Cb) : Node × List Out :=
  if cfg.queueMax < s.queue.length then (s, errCallback .queueFull cb)
  else ({ s with queue := s.queue ++ [(cmd, cb)] }, [])

/-- outcome class of one dispatched queue item (guard-outcome counter of the correspondence) -/
inductive Branch
  | appendLocal | appendRemote | denied | forward | notLeader | missingLeader
deriving DecidableEq, Repr

/-- the `REQUEST_DENIED` answer of the leader branch -/
def deniedOut : Cb → List Out
  | .none => []
  | .loc id => [.callback id .requestDenied]
  | .remote node reqId => [.send node (.response reqId (.error .requestDenied))]

/-- leader branch, accepted command: `raftLog.add`, record the change index (repair D5), register the
callback / answer the requester -/
def leaderAccept (s1 : Node) (cmd : Cmd) (cb : Cb) (idx term : Nat) (isReq : Bool) : Node × List Out × Branch :=
  let s2 := { s1 with log := s1.log ++ [⟨cmd, idx, term⟩],
                      changeIdx := if isReq then some idx else s1.changeIdx }
  match cb with
  | .none => (s2, [], .appendLocal)
  | .loc id => ({ s2 with waitCommit := s2.waitCommit ++ [(idx, term, id)] }, [], .appendLocal)
  | .remote node reqId => (s2, [.send node (.response reqId (.ok (idx, term)))], .appendRemote)

/-- `changeClusterRequest is None or self.__changeCluster(changeClusterRequest)` -/
def gateOf (cfg : Conf) (s : Node) (cmd : Cmd) : Except Err (Node × Bool × List Out) :=
  match (if cfg.dynMember then parseChange cmd.kind else none) with
  | none => .ok (s, true, [])
  | some k => changeCluster s k

def isRequest (cfg : Conf) (cmd : Cmd) : Bool := cfg.dynMember && (parseChange cmd.kind).isSome

/-- branch `self.__raftState == LEADER` -/
def leaderDispatch (cfg : Conf) (s : Node) (cmd : Cmd) (cb : Cb) : Except Err (Node × List Out × Branch) :=
  match lastIdx? s.log with
  | none => .error .indexError
  | some last =>
    match gateOf cfg s cmd with
    | .error e => .error e
    | .ok (s1, true, o1) =>
      let (s3, o3, br) := leaderAccept s1 cmd cb (last + 1) s.term (isRequest cfg cmd)
      if cfg.useBatch then .ok (s3, o1 ++ o3, br)
      else
        match sendAll cfg (fun _ => []) s3 none with
        | .error e => .error e
        | .ok (s4, o4) => .ok (s4, o1 ++ o3 ++ o4, br)
    | .ok (s1, false, o1) => .ok (s1, o1 ++ deniedOut cb, .denied)

/-- branches `elif self.__raftLeader is not None` / `else` -/
def followerDispatch (s : Node) (cmd : Cmd) (cb : Cb) : Node × List Out × Branch :=
  match s.leader with
  | some l =>
    match cb with
    | .remote node reqId => (s, [.send node (.response reqId (.error .notLeader))], .notLeader)
    | .none => (s, [.send l (.applyCommand cmd none)], .forward)
    | .loc id =>
      let c := s.localCounter + 1
      ({ s with localCounter := c, waitReply := s.waitReply.put c id },
       [.send l (.applyCommand cmd (some c))], .forward)
  | none => (s, errCallback .missingLeader cb, .missingLeader)

/-- one iteration body of `_checkCommandsToApply` after `get_nowait` -/
def dispatchOne (cfg : Conf) (s : Node) (cmd : Cmd) (cb : Cb) : Except Err (Node × List Out × Branch) :=
  if s.role = .leader then leaderDispatch cfg s cmd cb
  else .ok (followerDispatch s cmd cb)

/-- the `while` of `_checkCommandsToApply` over the queued items; `budget = some k`: the clock allows k
iterations -/
def checkLoop (cfg : Conf) : Option Nat → Node → List (Cmd × Cb) → Except Err (Node × List Out × List Branch)
  | _, s, [] => .ok ({ s with queue := [] }, [], [])
  | budget, s, (c, cb) :: rest =>
    if budget = some 0 then .ok ({ s with queue := (c, cb) :: rest }, [], [])
    else if s.leader.isNone && cfg.waitLeader then .ok ({ s with queue := (c, cb) :: rest }, [], [])
    else
      match dispatchOne cfg s c cb with
      | .error e => .error e
      | .ok (s1, o1, br) =>
        match checkLoop cfg (budgetNext budget) s1 rest with
        | .error e => .error e
        | .ok (s2, o2, brs) => .ok (s2, o1 ++ o2, br :: brs)

def checkCommands (cfg : Conf) (budget : Option Nat) (s : Node) : Except Err (Node × List Out × List Branch) :=
  checkLoop cfg budget s s.queue

/-- `__onLeaderChanged` -/
def insertSorted (p : Nat × Nat) : Map → Map
  | [] => [p]
  | q :: rest => if p.1 ≤ q.1 then p :: q :: rest else q :: insertSorted p rest

def sortByKey (m : Map) : Map := m.foldr insertSorted []

def onLeaderChanged (s : Node) : Node × List Out :=
  ({ s with waitReply := [] }, (sortByKey s.waitReply).map fun p => Out.callback p.2 .leaderChanged)

/-- `apply_command` message from `node` -/
def recvApplyCommand (cfg : Conf) (s : Node) (node : Nat) (cmd : Cmd) (reqId : Option Nat) : Node × List Out :=
  match reqId with
  | some r => submit cfg s cmd (.remote node r)
  | none => submit cfg s cmd .none

/-- `apply_command_response` message -/
def recvResponse (s : Node) (reqId : Nat) (res : Except FailReason (Nat × Nat)) : Except Err (Node × List Out) :=
  match s.waitReply.get? reqId with
  | none => .ok (s, [])
  | some cb =>
    let s1 := { s with waitReply := s.waitReply.del reqId }
    match res with
    | .error r => .ok (s1, [.callback cb r])
    | .ok (idx, term) =>
      if s.lastApplied < idx then .ok ({ s1 with waitCommit := s1.waitCommit ++ [(idx, term, cb)] }, [])
      else .error .assertionError

/-! ## follower side of `append_entries` (regular branch) -/

/-- number of leading new entries that are already in the log with the same term
(`while matched < len(newEntries) and matched + 1 < len(prevEntries) and …`) -/
def matchedCount : List Entry → List Entry → Nat
  | p :: ps, n :: ns => if p.term = n.term then matchedCount ps ns + 1 else 0
  | _, _ => 0

structure AppendMsg where
  prev     : Option (Nat × Nat)              -- (prevLogIdx, prevLogTerm); `none` = both None
  entries  : List Entry := []
  chunk    : Option (Label × List PByte) := none

/-- chunk reassembly of the `append_entries` handler: `ok none` = the handler returned after the chunk reply,
`ok (some es)` = the entries to merge.  The state is returned also when an exception escapes (the buffer
assignment of a failing `finish` stays). -/
def faChunk (s : Node) (m : AppendMsg) : Node × Except Err (Option (List Entry)) :=
  match m.chunk with
  | none => (s, .ok (some m.entries))
  | some (l, data) =>
    match recvChunk s.recvBuf l data with
    | .error e => (s, .error e)
    | .ok (buf', none) => ({ s with recvBuf := buf' }, .ok none)
    | .ok (_, some bytes) =>
      match unpickleEntry bytes with
      | none => ({ s with recvBuf := some bytes }, .error .unpickle)
      | some e => ({ s with recvBuf := none }, .ok (some [e]))

/-- after the prev check: keep matching entries, roll back + delete a conflicting suffix, append, apply the
membership entries, acknowledge -/
def faMerge (cfg : Conf) (s0 : Node) (src prevIdx : Nat) (prest newEntries : List Entry) : Node × Except Err (List Out) :=
  let lastNew := prevIdx + newEntries.length
  let matched := matchedCount prest newEntries
  let new' := newEntries.drop matched
  let old' := prest.drop matched                      -- prevEntries[matched:][1:]
  -- rollback + truncate
  let r1 : Except Err (Node × List Out) :=
    if old' ≠ [] ∧ new' ≠ [] then
      let rb := if cfg.dynMember then applyChanges s0 true old'.reverse else .ok (s0, [])
      match rb with
      | .error e => .error e
      | .ok (s1, o1) =>
        match deleteFrom s1.log (prevIdx + matched + 1) with
        | none => .error .indexError
        | some log' => .ok ({ s1 with log := log' }, o1)
    else .ok (s0, [])
  match r1 with
  | .error e => (s0, .error e)
  | .ok (s1, o1) =>
    let s2 := { s1 with log := s1.log ++ new' }
    let r2 := if cfg.dynMember then applyChanges s2 false new' else .ok (s2, [])
    match r2 with
    | .error e => (s2, .error e)
    | .ok (s3, o2) =>
      (s3, .ok (o1 ++ o2 ++ [.send src (.nextNodeIdx (lastNew + 1) false true s3.term)]))

/-- from `if 'prevLogIdx' in message:` to the `next_node_idx` reply. -/
def followerAppend (cfg : Conf) (s : Node) (src : Nat) (m : AppendMsg) : Node × Except Err (List Out) :=
  match faChunk s m with
  | (s0, .error e) => (s0, .error e)
  | (s0, .ok none) =>
    match lastIdx? s0.log with
    | none => (s0, .error .indexError)
    | some last => (s0, .ok [.send src (.nextNodeIdx (last + 1) false false s0.term)])
  | (s0, .ok (some newEntries)) =>
    match getEntries s0.log (m.prev.map (·.1)) none none with
    | none => (s0, .error .indexError)
    | some [] =>
      match lastIdx? s0.log with
      | none => (s0, .error .indexError)
      | some last => (s0, .ok [.send src (.nextNodeIdx (last + 1) true false s0.term)])
    | some (p0 :: prest) =>
      let prevIdx := (m.prev.map (·.1)).getD 0
      let prevTerm := (m.prev.map (·.2)).getD 0
      if p0.term ≠ prevTerm then (s0, .ok [.send src (.nextNodeIdx prevIdx true false s0.term)])
      else faMerge cfg s0 src prevIdx prest newEntries

/-- the `AppendMsg` a follower sees for a wire message of the send loop -/
def toAppendMsg : Msg → Option AppendMsg
  | .append _ _ prev es => some { prev := prev, entries := es }
  | .chunk l pos len e _ _ prev => some { prev := prev, chunk := some (l, slice (pickleEntry e) pos len) }
  | _ => none

/-- a follower consuming a list of `append_entries` messages in order -/
def followerRunA (cfg : Conf) (src : Nat) : Node → List AppendMsg → Except Err (Node × List Out)
  | s, [] => .ok (s, [])
  | s, am :: rest =>
    match followerAppend cfg s src am with
    | (_, .error e) => .error e
    | (s1, .ok o1) =>
      match followerRunA cfg src s1 rest with
      | .error e => .error e
      | .ok (s2, o2) => .ok (s2, o1 ++ o2)

/-- a follower consuming the wire messages of a send run in order (C11 `entry_intact`) -/
def followerRun (cfg : Conf) (src : Nat) (s : Node) (msgs : List Msg) : Except Err (Node × List Out) :=
  followerRunA cfg src s (msgs.filterMap toAppendMsg)

/-! ## several send runs, each answered by the follower (repair D62: probe, then pipeline) -/

/-- `next_node_idx` of the last success acknowledgement among a follower's outputs -/
def ackNext : List Out → Option Nat
  | [] => none
  | o :: rest =>
    match ackNext rest with
    | some n => some n
    | none =>
      match o with
      | .send _ (.nextNodeIdx n _ true _) => some n
      | _ => none

/-- leader side of a success `next_node_idx` (handler in `__onMessageReceived`): `matchIndex` is raised to
`next_node_idx - 1` and `nextIndex` follows; otherwise both stay (success acknowledgements of one run carry
increasing indices, so the last one decides) -/
def onAck (next m : Nat) (ack : Option Nat) : Nat × Nat :=
  match ack with
  | some n => if m < n - 1 then (n, n - 1) else (next, m)
  | none => (next, m)

/-- `k` rounds of: one `__sendAppendEntries` run to the destination (full, no cut-off), the follower consumes the
messages in order, the leader processes the acknowledgement.  Returns the follower, the leader's
`nextIndex` / `matchIndex` for it, and the batches sent in all rounds. -/
def deliverRounds (cfg : Conf) (src : Nat) (c : SendCfg) (log : List Entry) :
    (k : Nat) → (next m : Nat) → Node → Except Err (Node × Nat × Nat × List Batch)
  | 0, next, m, s => .ok (s, next, m, [])
  | k + 1, next, m, s =>
    match sendOne { c with matchIdx := some m } log next [] none with
    | .error e => .error e
    | .ok r =>
      match followerRun cfg src s r.msgs with
      | .error e => .error e
      | .ok (s', o) =>
        let (next', m') := onAck r.next m (ackNext o)
        match deliverRounds cfg src c log k next' m' s' with
        | .error e => .error e
        | .ok (s2, n2, m2, bs) => .ok (s2, n2, m2, r.batches ++ bs)

/-! ## the whole `append_entries` handler: envelope around `followerAppend` / the snapshot install

`if message['type'] == 'append_entries' and message['term'] >= self.__raftCurrentTerm:` … to the
`setRaftCommitIndex` at the end.  `votedFor` / `votesCount` are not fields of `Node`; they travel in `Extra`
(names and argument order as in the first transcription in `PSO/Proofs/BridgeFollower.lean`). -/

/-- fields of the real node that `Node` does not carry -/
structure Extra where
  votedFor : Option Nat
  votes : Nat
deriving Repr

/-- node state after the head of the handler: `__onLeaderChanged()` when the leader changes (`waitReply` cleared),
`__raftLeader = node`, a higher term adopted, `__setState(FOLLOWER)` -/
def envState (s : Node) (src term : Nat) : Node :=
  { s with waitReply := if s.leader = some src then s.waitReply else []
           leader := some src
           term := if s.term < term then term else s.term
           role := .follower }

/-- `votedFor = None` when a higher term is adopted -/
def envExtra (x : Extra) (s : Node) (term : Nat) : Extra := if s.term < term then { x with votedFor := none } else x

/-- the LEADER_CHANGED callbacks of `__onLeaderChanged()` -/
def envOuts (s : Node) (src : Nat) : List Out := if s.leader = some src then [] else (onLeaderChanged s).2

/-- `if lastNewIdx is not None and leaderCommitIndex > commit: commit = max(commit, min(leaderCommitIndex, lastNewIdx))`;
`lastNewIdx` is set exactly when the success reply `next_node_idx = lastNewIdx + 1` was sent -/
def envCommit (s2 : Node) (leaderCommit : Nat) (outs : List Out) : Nat :=
  match ackNext outs with
  | some nx => if s2.commit < leaderCommit then max s2.commit (min leaderCommit (nx - 1)) else s2.commit
  | none => s2.commit

/-- the handler for a message that carries `prevLogIdx` (regular batch, heartbeat, chunk): term test, head
(`envState`, `envExtra`, `envOuts`), regular branch (`followerAppend`), commit index (`envCommit`) -/
def appendEntriesEnv (cfg : Conf) (x : Extra) (s : Node) (src term leaderCommit : Nat) (m : AppendMsg) :
    Extra × Node × Except Err (List Out) :=
  if term < s.term then (x, s, .ok [])
  else
    match followerAppend cfg (envState s src term) src m with
    | (s2, .error e) => (envExtra x s term, s2, .error e)
    | (s2, .ok outs) =>
      (envExtra x s term, { s2 with commit := envCommit s2 leaderCommit outs }, .ok (envOuts s src ++ outs))

/-- what the `serialized` field of a snapshot message amounts to -/
inductive SnapMsg
  | none                                                    -- `serialized: None`
  | notLast                                                 -- `setTransmissionData` returns False (not the last chunk)
  | complete (prevE lastE : Entry) (cluster : List Nat)     -- last chunk: the dump (two entries, cluster) is loaded
  | broken                                                  -- last chunk, but `deserialize` raises (swallowed by `__loadDumpFile`)

/-- stable insertion by index -/
def insertByIdx (p : Nat × Nat × Nat) : List (Nat × Nat × Nat) → List (Nat × Nat × Nat)
  | [] => [p]
  | q :: r => if p.1 < q.1 then p :: q :: r else q :: insertByIdx p r

/-- callbacks of `commandsWaitingCommit` at indices the installed snapshot covers are answered LEADER_CHANGED
(repair D61), in index order -/
def coveredCallbacks (s : Node) (upTo : Nat) : Node × List Out :=
  let hit := s.waitCommit.filter (fun p => p.1 ≤ upTo)
  let sorted := hit.foldl (fun acc p => insertByIdx p acc) []
  ({ s with waitCommit := s.waitCommit.filter (fun p => !(p.1 ≤ upTo)) },
   sorted.map fun p => Out.callback p.2.2 .leaderChanged)

/-- `__loadDumpFile(clearJournal=True)`: returns the state, the outputs and the returned index (`none` = an
exception was swallowed).  Repair D4: a snapshot the node has applied, or whose last entry it holds, is not
installed. -/
def installSnapshot (cfg : Conf) (s : Node) (prevE lastE : Entry) (cluster : List Nat) : Node × List Out × Option Nat :=
  match getEntries s.log (some lastE.idx) (some 1) none with
  | none => (s, [], none)                                    -- IndexError on an empty journal, swallowed
  | some own =>
    let holds := match own with | e :: _ => e.term == lastE.term | [] => false
    if lastE.idx ≤ s.lastApplied || holds then (s, [], some lastE.idx)
    else
      let s1 := { s with log := [prevE, lastE], lastApplied := lastE.idx }
      let (s2, o2) := coveredCallbacks s1 lastE.idx
      if cfg.dynMember then
        match updateClusterConfiguration s2 (cluster.filter (fun n => s.self ≠ some n)) with
        | .error _ => (s2, o2, none)
        | .ok (s3, o3) => (s3, o2 ++ o3, some lastE.idx)
      else (s2, o2, some lastE.idx)

/-- the D4 guard of `__loadDumpFile(clearJournal=True)` alone: the node has applied the snapshot's position or holds
its last entry (then the received snapshot is dropped, `finishIncoming(False)`, and acknowledged) -/
def snapGuardKeeps (s : Node) (lastE : Entry) : Bool :=
  match getEntries s.log (some lastE.idx) (some 1) none with
  | none => false
  | some own => decide (lastE.idx ≤ s.lastApplied) || (match own with | e :: _ => e.term == lastE.term | [] => false)

/-- repair D70: a completely received snapshot replaces the stored one only when the node installs it, and the
node installs it only when storing succeeded (`finishIncoming(True)`).  A complete snapshot whose storing FAILS
behaves like `.complete` when the guard keeps the node's own state (storing is never attempted), and like `.broken`
otherwise (`__loadDumpFile` returns None, nothing is installed, no reply).  `s0` = the state after the head of the
handler (`envState`). -/
def snapStoreFails (s0 : Node) (prevE lastE : Entry) (cluster : List Nat) : SnapMsg :=
  if snapGuardKeeps s0 lastE then .complete prevE lastE cluster else .broken

/-- any `append_entries` message -/
inductive EnvMsg
  | regular (m : AppendMsg)
  | snapshot (d : SnapMsg)

/-- side observations of the handler that are not node state: the election deadline was re-armed, the journal was
told to store (term, vote), the journal was told the commit index (`setRaftCommitIndex` at the end: not reached
after a `return` or an exception) -/
structure EnvObs where
  deadlineReset : Bool := false
  storedTermVote : Option (Nat × Option Nat) := none
  storedCommit : Option Nat := none
deriving Repr

/-- **The `append_entries` handler of `__onMessageReceived`, every kind of message.** -/
def appendMsgEnv (cfg : Conf) (x : Extra) (s : Node) (src term leaderCommit : Nat) (k : EnvMsg) :
    Extra × Node × Except Err (List Out) × EnvObs :=
  if term < s.term then (x, s, .ok [], {})
  else
    let tv : Option (Nat × Option Nat) := if s.term < term then some (term, none) else none
    match k with
    | .regular m =>
      let (x', s', r) := appendEntriesEnv cfg x s src term leaderCommit m
      -- the end of the handler is reached exactly when a success reply was sent
      let reached := match r with | .ok outs => (ackNext outs).isSome | .error _ => false
      (x', s', r, { deadlineReset := true, storedTermVote := tv, storedCommit := if reached then some s'.commit else none })
    | .snapshot d =>
      let s0 := envState s src term
      let (s1, o1, idx) : Node × List Out × Option Nat := match d with
        | .complete prevE lastE cluster => installSnapshot cfg s0 prevE lastE cluster
        | _ => (s0, [], none)
      let o2 : List Out := match idx with
        | some i => [.send src (.nextNodeIdx (i + 1) false true s1.term)]
        | none => []
      let c := match idx with
        | some i => if s1.commit < leaderCommit then max s1.commit (min leaderCommit i) else s1.commit
        | none => s1.commit
      (envExtra x s term, { s1 with commit := c }, .ok (envOuts s src ++ o1 ++ o2),
       { deadlineReset := true, storedTermVote := tv, storedCommit := some c })

/-! ## kill + start of a journaled node (`SyncObj.__init__` on an existing journal file, then the first tick) -/

/-- `votedFor` / `votesCount` after a restart: `__votedForNodeId` is read back from the journal's meta
(`getTermAndVote`, repair D16: stored at once by `setTermAndVote`), `__votesCount = 0` -/
def restartExtra (x : Extra) : Extra := { x with votes := 0 }

/-- **A journaled node is killed and started again** (`dynamicMembershipChange = False`).
`s` = the node before the kill: `s.log` = what the journal file holds (never empty for a node that has run: the
constructor writes the initial NO_OP into an empty journal), `s.term` = `raftCurrentTerm` of the journal's meta
(together with `votedFor`, see `restartExtra`), `s.self` / `s.members` = the constructor's arguments.
`storedCommit` = `raftCommitIndex` of the journal's meta (`getRaftCommitIndex`: written by `onOneSecondTimer`, so an
earlier value of the commit index, 1 if never written).  `dump` = the two entries `(data[2], data[1])` of the dump file,
`none` = no dump file.

`__init__`: FOLLOWER, leader None, `__raftLastApplied = 1`, `__raftNextIndex = {}`, `__raftMatchIndex = {}`, empty
queue / waiting tables, `__noopIDx = __changeClusterIDx = None`, empty receive buffer, no connections yet.
First `_onTick`, `__loadDumpFile(clearJournal=False)` (repairs D14/D60): when the journal holds the dump's two entries
(`__getEntries(data[2][1], 2) == [data[2], data[1]]`) only the entries BEFORE them are dropped
(`__deleteEntriesTo(data[2][1])`) — everything after the dump is KEPT; otherwise the journal is replaced by the two
entries; `__raftLastApplied = data[1][1]`.  The commit index is not touched. -/
def restartNode (s : Node) (storedCommit : Nat) (dump : Option (Entry × Entry)) : Node :=
  let s0 : Node := { self := s.self, members := s.members, term := s.term, log := s.log, commit := storedCommit }
  match dump with
  | none => s0
  | some (prevE, lastE) =>
    let log1 : List Entry :=
      match getEntries s.log (some prevE.idx) (some 2) none, firstIdx? s.log with
      | some [a, b], some f => if a = prevE ∧ b = lastE then s.log.drop (prevE.idx - f) else s.log
      | _, _ => s.log
    let log2 : List Entry :=
      match log1 with
      | a :: b :: _ => if a = prevE ∧ b = lastE then log1 else [prevE, lastE]
      | _ => [prevE, lastE]
    { s0 with log := log2, lastApplied := lastE.idx }

end PSO.NodeSend
