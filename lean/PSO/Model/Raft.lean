/-!
# Protocol model of PySyncObj's replication core (`Proto` layer of DESIGN.md §4)

Executable, import-free.  `step` is what the theorems in `PSO/Proofs/Raft*.lean` quantify over and
what `Driver/Core.lean` executes when the harness validates traces of the REAL cluster against it
(every real handler execution is mapped to actions of this model; the action's guard must hold and
the abstract state of the real node must equal the model state afterwards).

Nodes `0 … N-1` are the voters; any node id `≥ N` is a read-only node (observer): it can receive
appends and snapshots, adopt terms and apply, but no action lets it time out, vote, lead or appear in a
quorum (`IsQuorum` only contains ids `< N`).

Positions are 0-based: position 0 is the initial no-op entry `(NO_OP, idx 1, term 0)` that every
PySyncObj log starts with, so *real index = position + 1*.  Logs are ghost-complete (compaction only
drops applied entries and is invisible here; snapshot installation is the action `recvSnapshot`).

The protocol is the one run by the code after the repairs D1–D4 (see DESIGN.md §1.3):
conflict-only truncation, commit bounded by the verified prefix, terms in acknowledgements, guarded
snapshot install.
-/
namespace PSO.Raft

structure Entry where
  term : Nat
  cmd  : Nat            -- opaque command id (0 = no-op)
deriving DecidableEq, Repr, Inhabited

def sentinel : Entry := ⟨0, 0⟩

inductive Role | follower | candidate | leader
deriving DecidableEq, Repr, Inhabited

structure NodeSt where
  term     : Nat := 0
  votedFor : Option Nat := none
  role     : Role := .follower
  votes    : Nat := 0
  log      : List Entry := [sentinel]
  commit   : Nat := 0
  applied  : Nat := 0
  matchIdx : Nat → Nat := fun _ => 0

inductive Msg
  | reqVote (t cand dst lastIdx lastTerm : Nat)
  | vote (t voter cand : Nat)
  | append (t ldr dst prev prevTerm : Nat) (es : List Entry) (commit : Nat)
  | ack (t flw ldr idx : Nat)
  | snapshot (t ldr dst k kTerm commit : Nat) (pfx : List Entry)   -- pfx: the sender's log up to position k (ghost-complete)
deriving DecidableEq, Repr

/-- Ghost history (monotone; never read by a guard). -/
structure Ghost where
  voted    : Nat → Nat → Option Nat := fun _ _ => none      -- term → voter → candidate
  termLog  : Nat → List Entry := fun t => if t = 0 then [sentinel] else []
  leaderOf : Nat → Option Nat := fun _ => none               -- the node that won the term
  electors : Nat → List Nat := fun _ => []                    -- quorum that elected the leader of a term
  counted  : Nat → Nat → List Nat := fun _ _ => []            -- term → candidate → voters counted so far
  acked    : Nat → Nat → Nat := fun _ _ => 0                  -- term → node → highest confirmed position

structure State where
  nodes : Nat → NodeSt := fun _ => {}
  msgs  : List Msg := []
  g     : Ghost := {}

inductive Action
  | timeout (n : Nat) (dsts : List Nat)
  | recvReqVote (n : Nat) (m : Msg)
  | recvVote (n : Nat) (m : Msg)
  | clientAppend (n : Nat) (cmd : Nat)
  | sendAppend (n dst prev k c : Nat)
  | recvAppend (n : Nat) (m : Msg)
  | recvAck (n : Nat) (m : Msg)
  | advanceCommit (n i : Nat)
  | stepDown (n : Nat)
  | apply (n : Nat)
  | observeTerm (n t : Nat)
  | sendSnapshot (n dst k c : Nat)
  | recvSnapshot (n : Nat) (m : Msg)
  | lose (m : Msg)
  | restart (n c a : Nat)
deriving Repr

/-! ## pure protocol functions (shared with the handler-level model) -/

def lastTerm (l : List Entry) : Nat := (l.getLast?.getD sentinel).term

def termAt (l : List Entry) (i : Nat) : Nat := (l[i]?.getD sentinel).term

/-- Follower-side merge of `es` (the leader's entries for positions `prev+1 …`) into `log`:
entries already present with the same term are kept, the log is cut at the first conflicting
position, the rest is appended (syncobj.py, regular `append_entries` branch after repair D1). -/
def mergeEntries (log : List Entry) (prev : Nat) : List Entry → List Entry
  | [] => log
  | e :: rest =>
    match log[prev + 1]? with
    | none => log.take (prev + 1) ++ (e :: rest)
    | some x => if x.term = e.term then mergeEntries log (prev + 1) rest
                else log.take (prev + 1) ++ (e :: rest)

/-- The candidate's log is at least as up to date as the voter's (`request_vote` handler). -/
def upToDate (candLastTerm candLastIdx : Nat) (log : List Entry) : Bool :=
  !(candLastTerm < lastTerm log) &&
  !(candLastTerm == lastTerm log && candLastIdx < log.length - 1)

/-- `count > (len(otherNodes) + 1) / 2` with Python's true division. -/
def isMajority (N count : Nat) : Bool := decide (N < 2 * count)

def others (N n : Nat) : List Nat := (List.range N).filter (· ≠ n)

def matchCount (N n : Nat) (matchIdx : Nat → Nat) (i : Nat) : Nat :=
  1 + ((others N n).filter (fun m => decide (i ≤ matchIdx m))).length

/-! ## state update helpers -/

def setNode (s : State) (n : Nat) (ns : NodeSt) : State :=
  { s with nodes := fun m => if m = n then ns else s.nodes m }

def upd2 {α} (f : Nat → Nat → α) (a b : Nat) (v : α) : Nat → Nat → α :=
  fun x y => if x = a ∧ y = b then v else f x y

def upd1 {α} (f : Nat → α) (a : Nat) (v : α) : Nat → α :=
  fun x => if x = a then v else f x

/-- A node that wins its election (`__onBecomeLeader`): reset match indices, append the no-op of the
new term. Ghost: the term's log starts as the leader's log, the electors are recorded. -/
def becomeLeader (s : State) (n : Nat) (ns : NodeSt) : State :=
  let log' := ns.log ++ [⟨ns.term, 0⟩]
  let ns' := { ns with role := .leader, matchIdx := fun _ => 0, log := log' }
  let s' := setNode s n ns'
  { s' with g := { s'.g with
      termLog := upd1 s'.g.termLog ns.term log'
      leaderOf := upd1 s'.g.leaderOf ns.term (some n)
      electors := upd1 s'.g.electors ns.term (n :: s'.g.counted ns.term n)
      acked := upd2 s'.g.acked ns.term n (log'.length - 1) } }

/-- Common head of the `append_entries` handler: adopt the sender's term, become follower. -/
def adoptTerm (ns : NodeSt) (t : Nat) : NodeSt :=
  if ns.term < t then { ns with term := t, votedFor := none, role := .follower }
  else { ns with role := .follower }

/-- Head of the `request_vote` handler: a higher term makes the node a follower of that term. -/
def bumpTerm (ns : NodeSt) (t : Nat) : NodeSt :=
  if ns.term < t then { ns with term := t, votedFor := none, role := .follower } else ns

/-! ## the transition function -/

def step (N : Nat) (s : State) : Action → Option State
  | .timeout n dsts =>
    let ns := s.nodes n
    if n < N ∧ ns.role ≠ .leader ∧ (∀ d ∈ dsts, d < N ∧ d ≠ n) then
      let t := ns.term + 1
      let ns' := { ns with term := t, votedFor := some n, votes := 1, role := .candidate }
      let reqs := dsts.map (fun d => Msg.reqVote t n d (ns.log.length - 1) (lastTerm ns.log))
      let s1 : State := { (setNode s n ns') with
        msgs := s.msgs ++ reqs,
        g := { s.g with voted := upd2 s.g.voted t n (some n) } }
      if isMajority N 1 then some (becomeLeader s1 n ns') else some s1
    else none
  | .recvReqVote n m =>
    match m with
    | .reqVote t cand dst li lt =>
      if n < N ∧ dst = n ∧ cand < N ∧ cand ≠ n ∧ m ∈ s.msgs then
        let ns := s.nodes n
        let ns1 := bumpTerm ns t
        let msgs' := s.msgs.erase m
        if ns1.role ≠ .leader ∧ ns1.term ≤ t ∧ upToDate lt li ns1.log ∧ ns1.votedFor = none then
          let ns2 := { ns1 with votedFor := some cand }
          some { (setNode s n ns2) with
            msgs := msgs' ++ [Msg.vote t n cand],
            g := { s.g with voted := upd2 s.g.voted t n (some cand) } }
        else some { (setNode s n ns1) with msgs := msgs' }
      else none
    | _ => none
  | .recvVote n m =>
    match m with
    | .vote t voter cand =>
      if n < N ∧ cand = n ∧ m ∈ s.msgs then
        let ns := s.nodes n
        let msgs' := s.msgs.erase m
        if ns.role = .candidate ∧ t = ns.term then
          let ns' := { ns with votes := ns.votes + 1 }
          let s1 : State := { (setNode s n ns') with
            msgs := msgs',
            g := { s.g with counted := upd2 s.g.counted t n (voter :: s.g.counted t n) } }
          if isMajority N ns'.votes then some (becomeLeader s1 n ns') else some s1
        else some { s with msgs := msgs' }
      else none
    | _ => none
  | .clientAppend n cmd =>
    let ns := s.nodes n
    if n < N ∧ ns.role = .leader then
      let log' := ns.log ++ [⟨ns.term, cmd⟩]
      let s' := setNode s n { ns with log := log' }
      some { s' with g := { s'.g with
        termLog := upd1 s'.g.termLog ns.term log'
        acked := upd2 s'.g.acked ns.term n (log'.length - 1) } }
    else none
  | .sendAppend n dst prev k c =>
    -- `c` is the commit index written into the message: the node's commit index or (right after a
    -- restart, when the stored commit index is older than the dump) a smaller, earlier value
    let ns := s.nodes n
    if n < N ∧ dst ≠ n ∧ ns.role = .leader ∧ prev < ns.log.length ∧ c ≤ ns.commit then
      let es := (ns.log.drop (prev + 1)).take k
      some { s with msgs := s.msgs ++ [Msg.append ns.term n dst prev (termAt ns.log prev) es c] }
    else none
  | .recvAppend n m =>
    match m with
    | .append t ldr dst prev prevTerm es c =>
      if dst = n ∧ m ∈ s.msgs then
        let ns := s.nodes n
        let msgs' := s.msgs.erase m
        if t < ns.term then some { s with msgs := msgs' }
        else
          let ns1 := adoptTerm ns t
          if prev < ns1.log.length ∧ termAt ns1.log prev = prevTerm then
            let log' := mergeEntries ns1.log prev es
            let last := prev + es.length
            let commit' := if ns1.commit < c then max ns1.commit (min c last) else ns1.commit
            let ns2 := { ns1 with log := log', commit := commit' }
            some { (setNode s n ns2) with
              msgs := msgs' ++ [Msg.ack t n ldr last],
              g := { s.g with acked := upd2 s.g.acked t n (max (s.g.acked t n) last) } }
          else some { (setNode s n ns1) with msgs := msgs' }
      else none
    | _ => none
  | .recvAck n m =>
    match m with
    | .ack t flw ldr idx =>
      if n < N ∧ ldr = n ∧ m ∈ s.msgs then
        let ns := s.nodes n
        let msgs' := s.msgs.erase m
        if ns.role = .leader ∧ t = ns.term ∧ ns.matchIdx flw < idx then
          some { (setNode s n { ns with matchIdx := upd1 ns.matchIdx flw idx }) with msgs := msgs' }
        else some { s with msgs := msgs' }
      else none
    | _ => none
  | .advanceCommit n i =>
    let ns := s.nodes n
    if n < N ∧ ns.role = .leader ∧ ns.commit < i ∧ i < ns.log.length ∧ termAt ns.log i = ns.term
        ∧ isMajority N (matchCount N n ns.matchIdx i) then
      some (setNode s n { ns with commit := i })
    else none
  | .stepDown n =>
    let ns := s.nodes n
    if n < N ∧ ns.role = .leader then some (setNode s n { ns with role := .follower }) else none
  | .apply n =>
    let ns := s.nodes n
    if ns.applied < ns.commit then some (setNode s n { ns with applied := ns.applied + 1 }) else none
  | .observeTerm n t =>
    let ns := s.nodes n
    if ns.term ≤ t then some (setNode s n (adoptTerm ns t)) else none
  | .sendSnapshot n dst k c =>
    let ns := s.nodes n
    if n < N ∧ dst ≠ n ∧ ns.role = .leader ∧ k ≤ ns.applied ∧ k < ns.log.length ∧ c ≤ ns.commit then
      some { s with msgs := s.msgs ++ [Msg.snapshot ns.term n dst k (termAt ns.log k) c (ns.log.take (k + 1))] }
    else none
  | .recvSnapshot n m =>
    match m with
    | .snapshot t ldr dst k kTerm c pfx =>
      if dst = n ∧ m ∈ s.msgs then
        let ns := s.nodes n
        let msgs' := s.msgs.erase m
        if t < ns.term then some { s with msgs := msgs' }
        else
          let ns1 := adoptTerm ns t
          let commit' := if ns1.commit < c then max ns1.commit (min c k) else ns1.commit
          let keep := decide (k ≤ ns1.applied) || (decide (k < ns1.log.length) && decide (termAt ns1.log k = kTerm))
          let ns2 := if keep then { ns1 with commit := commit' }
                     else { ns1 with log := pfx, applied := k, commit := max commit' k }
          some { (setNode s n ns2) with
            msgs := msgs' ++ [Msg.ack t n ldr k],
            g := { s.g with acked := upd2 s.g.acked t n (max (s.g.acked t n) k) } }
      else none
    | _ => none
  | .lose m => if m ∈ s.msgs then some { s with msgs := s.msgs.erase m } else none
  | .restart n c a =>
    -- kill + restart of a journaled node (with the term/vote persistence repair D16): term, vote and
    -- log survive; role, vote count and leader bookkeeping are lost; the commit index falls back to a
    -- stored earlier value `c`, the applied index to the position `a` of the dump file (or 0).
    let ns := s.nodes n
    if a ≤ c ∧ c ≤ ns.commit then
      some (setNode s n { ns with role := .follower, votes := 0, matchIdx := fun _ => 0, commit := c, applied := a })
    else none

def init : State := {}

/-- Run a list of actions; `none` as soon as one is not enabled. -/
def run (N : Nat) : State → List Action → Option State
  | s, [] => some s
  | s, a :: as => match step N s a with
    | some s' => run N s' as
    | none => none

/-- Reachable states (the quantifier of the safety theorems). -/
inductive Reachable (N : Nat) : State → Prop
  | init : Reachable N init
  | step {s s' a} : Reachable N s → step N s a = some s' → Reachable N s'

end PSO.Raft
