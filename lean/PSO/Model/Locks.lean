/-!
# Model of the replicated lock manager (`pysyncobj/batteries.py`, `_ReplLockManagerImpl`, `ReplLockManager`)

Transcription of the code *with the repair D19* (`fixes/D19-lock-time-monotone.diff`): a lock's time
never moves backwards when its holder re-acquires / prolongs with an older stamp.  The pinned
(unrepaired) behaviour is kept as `Cfg.mono = false`, so that the counterexample theorem of
`Props/C16.lean` is a statement about the same functions.

* ids of locks and clients are `Nat` (the harness numbers the strings it uses);
* time is `Nat` (the harness patches `time.time` to integers, `autoUnlockTime` is an integer), and every
  comparison `x - y > U` / `x - y < U` of the code is written subtraction-free (`y + U < x`,
  `x < y + U`), which is the same predicate on integers also when `x < y` (lock time ahead of the stamp);
* the lock table `self.__locks` (a dict) is a finite map, modelled as a function
  `lockId → Option (clientId × time)`; nothing in the code depends on dict order
  (`prolongate` treats every entry independently).
-/
namespace PSO.Locks

/-- `autoUnlockTime` and the variant: `mono = true` is the repaired code, `false` the pinned code. -/
structure Cfg where
  U : Nat
  mono : Bool := true
  deriving Repr, DecidableEq

/-- `self.__locks`: lockID ↦ (clientID, time of acquisition / last prolongation). -/
abbrev Table := Nat → Option (Nat × Nat)

def Table.empty : Table := fun _ => none

/-- `self.__locks[l] = v` -/
def Table.set (s : Table) (l : Nat) (v : Nat × Nat) : Table := fun l' => if l' = l then some v else s l'

/-- `del self.__locks[l]` -/
def Table.del (s : Table) (l : Nat) : Table := fun l' => if l' = l then none else s l'

/-- `currentTime - lockTime > self.__autoUnlockTime` -/
def expired (U lockTime currentTime : Nat) : Bool := decide (lockTime + U < currentTime)

/-- the time written for a lock the client already holds.  Repaired code: `max(currentTime, lockTime)`;
pinned code: `currentTime`. -/
def newTime (cfg : Cfg) (currentTime lockTime : Nat) : Nat :=
  if cfg.mono then max currentTime lockTime else currentTime

/-- `_ReplLockManagerImpl.acquire(lockID, clientID, currentTime)`: new table and return value. -/
def acquire (cfg : Cfg) (s : Table) (l c t : Nat) : Table × Bool :=
  -- existingLock = self.__locks.get(lockID); auto-unlock old lock
  let existing : Option (Nat × Nat) :=
    match s l with
    | some (c0, t0) => if expired cfg.U t0 t then none else some (c0, t0)
    | none => none
  match existing with
  | none => (s.set l (c, t), true)
  | some (c0, t0) =>
    if c0 = c then (s.set l (c, newTime cfg t t0), true)
    else (s, false)

/-- `_ReplLockManagerImpl.prolongate(clientID, currentTime)`: every entry is treated independently. -/
def prolongate (cfg : Cfg) (s : Table) (c t : Nat) : Table := fun l =>
  match s l with
  | none => none
  | some (c0, t0) =>
    if expired cfg.U t0 t then none
    else if c0 = c then some (c, newTime cfg t t0)
    else some (c0, t0)

/-- `_ReplLockManagerImpl.release(lockID, clientID)` -/
def release (s : Table) (l c : Nat) : Table :=
  match s l with
  | some (c0, _) => if c0 = c then s.del l else s
  | none => s

/-- `_ReplLockManagerImpl.isAcquired(lockID, clientID, currentTime)`:
`currentTime - lockTime < self.__autoUnlockTime`. -/
def isAcquired (cfg : Cfg) (s : Table) (l c now : Nat) : Bool :=
  match s l with
  | some (c0, t0) => c0 = c && decide (now < t0 + cfg.U)
  | none => false

/-- The replicated commands of the lock manager as they appear in the Raft log. -/
inductive Cmd where
  | acquire (l c t : Nat)
  | prolongate (c t : Nat)
  | release (l c : Nat)
  deriving DecidableEq, Repr

/-- the client time stamp carried by a command (`release` carries none). -/
def Cmd.stamp? : Cmd → Option Nat
  | .acquire _ _ t => some t
  | .prolongate _ t => some t
  | .release _ _ => none

def Cmd.client : Cmd → Nat
  | .acquire _ c _ => c
  | .prolongate c _ => c
  | .release _ c => c

/-- apply one command; second component = return value of the replicated method (`acquire` only). -/
def applyRes (cfg : Cfg) (s : Table) : Cmd → Table × Option Bool
  | .acquire l c t => let r := acquire cfg s l c t; (r.1, some r.2)
  | .prolongate c t => (prolongate cfg s c t, none)
  | .release l c => (release s l c, none)

def apply (cfg : Cfg) (s : Table) (cmd : Cmd) : Table := (applyRes cfg s cmd).1

/-- replica state after a prefix of the common command log (C01: every replica is such a state). -/
def stateAfter (cfg : Cfg) (log : List Cmd) : Table := log.foldl (apply cfg) Table.empty

/-! ## Snapshots (`SyncObjConsumer._serialize` / `_deserialize`)

`_serialize()` returns the instance attributes created after `SyncObjConsumer.__init__` ran -- for
`_ReplLockManagerImpl` these are `__locks` and `__autoUnlockTime` --, SyncObj pickles them into the dump;
`_deserialize(data)` assigns every attribute of `data` to the receiving instance (whatever it held). -/

/-- what `_serialize()` hands to the dump: the lock table and the auto-unlock time. -/
structure Snapshot where
  locks : Table
  U : Nat

def serialize (cfg : Cfg) (s : Table) : Snapshot := { locks := s, U := cfg.U }

/-- `_deserialize(snap)` on an instance that currently has configuration `cfg'` and table `s'`. -/
def deserialize (snap : Snapshot) (cfg' : Cfg) (_s' : Table) : Cfg × Table :=
  ({ cfg' with U := snap.U }, snap.locks)

/-- a replica rebuilt from another replica's snapshot (restart from a dump file, follower caught up by the
leader's snapshot): the receiving instance was created with `cfg'` and holds `s'`. -/
def rebuild (cfg : Cfg) (s : Table) (cfg' : Cfg) (s' : Table) : Cfg × Table :=
  deserialize (serialize cfg s) cfg' s'

/-! ## The client wrapper `ReplLockManager` -/

/-- `__selfID`, `__lastProlongateTime`. -/
structure Client where
  self : Nat
  lastProlong : Nat := 0
  deriving Repr, DecidableEq

/-- `acquireTime - attemptTime > self.__autoUnlockTime / 2.0` -/
def late (U attemptTime acquireTime : Nat) : Bool := decide (U + 2 * attemptTime < 2 * acquireTime)

/-- first half of `tryAcquire`: `attemptTime = time.time()`; submit `acquire(lockID, selfID, attemptTime)`. -/
def Client.tryAcquireCmd (c : Client) (l attemptTime : Nat) : Cmd := .acquire l c.self attemptTime

/-- second half of `tryAcquire` (sync path after the call returned or raised, async path inside
`asyncCallback`): `res` is the value delivered for the `acquire` command (`none` = `None`, delivered with an
error code / an exception in the sync path), `acquireTime = time.time()` is read only when `res` is truthy.
`outcomeOpen`: the failure reported is one after which the command may still be committed -- `Timeout` of the
sync call, `LEADER_CHANGED` on either path (every other error code means the command never entered a log).
`comp = true` is the code with `fixes/D73-failed-acquire-compensating-release.diff` (a failure with an open
outcome submits a compensating `release`), `comp = false` the code before it.
Result: the value handed to the caller / the user callback (`none` also stands for the exception the sync call
re-raises), and the commands submitted. -/
def Client.tryAcquireFinish (cfg : Cfg) (c : Client) (l attemptTime acquireTime : Nat) (res : Option Bool)
    (outcomeOpen : Bool := false) (comp : Bool := true) : Option Bool × List Cmd :=
  if res = some true then
    if late cfg.U attemptTime acquireTime then (some false, [.release l c.self])
    else (some true, [])
  else if outcomeOpen && comp then (res, [.release l c.self])
  else (res, [])

/-- one pass of the loop body of `_autoAcquireThread` after `time.sleep(0.1)`.
`n1`, `n2`, `n3` are the three successive readings of `time.time()` (guard, `__lastProlongateTime`,
stamp of the command).  `time.time() - last < float(U) / 4.0` ⇒ skip. -/
def Client.tick (cfg : Cfg) (c : Client) (hasSyncObj hasLeader : Bool) (n1 n2 n3 : Nat) : Client × List Cmd :=
  if 4 * n1 < cfg.U + 4 * c.lastProlong then (c, [])
  else if !hasSyncObj then (c, [])
  else if hasLeader then ({ c with lastProlong := n2 }, [.prolongate c.self n3])
  else (c, [])

/-- `ReplLockManager.isAcquired(lockID)` evaluated on the client's replica `s` at time `now`. -/
def Client.isAcquired (cfg : Cfg) (c : Client) (s : Table) (l now : Nat) : Bool :=
  Locks.isAcquired cfg s l c.self now

/-- `ReplLockManager.release(lockID)` -/
def Client.releaseCmd (c : Client) (l : Nat) : Cmd := .release l c.self

end PSO.Locks
