import PSO.Model.PyContainers
/-!
# Model of `pysyncobj/batteries.py` (ReplCounter, ReplList, ReplDict, ReplSet, ReplQueue,
ReplPriorityQueue) — the tree with `fixes/D12-batteries-pop-default-and-full.diff` and
`fixes/D20-replset-pop-deterministic.diff` applied (/repo bfd6ade, 56b6cb5).

One operation type per battery = its public methods with their optional arguments (`Option` =
argument omitted).  Two interpreters per battery:

* `Repl*.step`  — the battery: the method body transcribed (parameter defaults, `maxsize` tests,
  `try/except`, `assert`, the `heapq` calls) over the primitive container calls of `PSO.Py`;
  what a method applied with `_doApply=True` does on one replica.
* `Ref*.step`   — the Python container the battery mimics, given the same call: `int`, `list`,
  `dict`, `set`, `queue.Queue(maxsize)` (non-blocking calls; `Full` ↦ `False`, `Empty` ↦ default —
  the documented battery interface), `queue.PriorityQueue(maxsize)` seen as a sorted multiset.

`harness/corr/batteries_ops.py` diffs `Repl*.step` against the real batteries and `Ref*.step`
against the real builtins; `PSO.C15` proves the two interpreters agree on all op sequences.
-/
namespace PSO.Batteries
open PSO.Py

/-- run an operation sequence, collecting results -/
def runOps {σ ο : Type} (step : σ → ο → σ × Res) : σ → List ο → σ × List Res
  | s, [] => (s, [])
  | s, o :: os =>
    let (s1, r) := step s o
    let (s2, rs) := runOps step s1 os
    (s2, r :: rs)

/-- pickled attribute dictionary of a consumer (`SyncObjConsumer._serialize`) -/
abbrev AttrDict := List (String × Val)

def attr (d : AttrDict) (name : String) : Option Val :=
  match d with
  | [] => .none
  | (k, v) :: r => if k = name then some v else attr r name

/-! ## ReplCounter ↔ int -/

inductive CounterOp
  | set (v : Int) | add (v : Int) | sub (v : Int) | inc | get
  deriving DecidableEq, Repr

namespace ReplCounter
structure State where
  counter : Int
  deriving DecidableEq, Repr

/-- `self.__counter = int()` -/
def init : State := ⟨0⟩

def step (s : State) : CounterOp → State × Res
  | .set v => let s' : State := ⟨v⟩; (s', .ok (.int s'.counter))
  | .add v => let s' : State := ⟨s.counter + v⟩; (s', .ok (.int s'.counter))
  | .sub v => let s' : State := ⟨s.counter - v⟩; (s', .ok (.int s'.counter))
  | .inc => let s' : State := ⟨s.counter + 1⟩; (s', .ok (.int s'.counter))
  | .get => (s, .ok (.int s.counter))

def contents (s : State) : Val := .int s.counter
def serialize (s : State) : AttrDict := [("_ReplCounter__counter", .int s.counter)]
def deserialize (d : AttrDict) (s : State) : State :=
  match attr d "_ReplCounter__counter" with
  | some (.int c) => ⟨c⟩
  | _ => s
end ReplCounter

namespace RefCounter
/-- `x = v` / `x += v` / `x -= v` / `x += 1` / `x` on a Python int, result = the new value -/
def step (c : Int) : CounterOp → Int × Res
  | .set v => (PyInt.set c v, .ok (.int (PyInt.set c v)))
  | .add v => (PyInt.iadd c v, .ok (.int (PyInt.iadd c v)))
  | .sub v => (PyInt.isub c v, .ok (.int (PyInt.isub c v)))
  | .inc => (PyInt.iadd c 1, .ok (.int (PyInt.iadd c 1)))
  | .get => (c, .ok (.int c))
end RefCounter

/-! ## ReplList ↔ list -/

inductive ListOp
  | reset (v : Val)
  | set (p : Int) (v : Int)
  | append (v : Int)
  | extend (o : List Int)
  | insert (p : Int) (v : Int)
  | remove (v : Int)
  | pop (p : Option Int)
  | sort (reverse : Option Bool)
  | index (v : Int)
  | count (v : Int)
  | get (p : Int)
  | getitem (p : Int)
  | setitem (p : Int) (v : Int)
  | len
  | rawData
  deriving DecidableEq, Repr

namespace ReplList
structure State where
  data : List Int
  deriving DecidableEq, Repr

def init : State := ⟨[]⟩

def step (s : State) : ListOp → State × Res
  | .reset v =>                       -- assert isinstance(newData, list); self.__data = newData
    match v with
    | .list l => (⟨l⟩, .ok .none)
    | _ => (s, .err .AssertionError)
  | .set p v =>                       -- self.__data[position] = newValue
    match PyList.setitem s.data p v with
    | .ok d => (⟨d⟩, .ok .none)
    | .error e => (s, .err e)
  | .append v => (⟨PyList.append s.data v⟩, .ok .none)
  | .extend o => (⟨PyList.extend s.data o⟩, .ok .none)
  | .insert p v => (⟨PyList.insert s.data p v⟩, .ok .none)
  | .remove v =>
    match PyList.remove s.data v with
    | .ok d => (⟨d⟩, .ok .none)
    | .error e => (s, .err e)
  | .pop p =>                         -- def pop(self, position=-1): return self.__data.pop(position)
    let position := p.getD (-1)
    match PyList.pop s.data position with
    | .ok (x, d) => (⟨d⟩, .ok (.int x))
    | .error e => (s, .err e)
  | .sort r =>                        -- def sort(self, reverse=False): self.__data.sort(reverse=reverse)
    let reverse := r.getD false
    (⟨PyList.sort s.data reverse⟩, .ok .none)
  | .index v =>
    match PyList.index s.data v with
    | .ok i => (s, .ok (.int i))
    | .error e => (s, .err e)
  | .count v => (s, .ok (.int (PyList.count s.data v)))
  | .get p =>
    match PyList.getitem s.data p with
    | .ok x => (s, .ok (.int x))
    | .error e => (s, .err e)
  | .getitem p =>
    match PyList.getitem s.data p with
    | .ok x => (s, .ok (.int x))
    | .error e => (s, .err e)
  | .setitem p v =>
    match PyList.setitem s.data p v with
    | .ok d => (⟨d⟩, .ok .none)
    | .error e => (s, .err e)
  | .len => (s, .ok (.int s.data.length))
  | .rawData => (s, .ok (.list s.data))

def contents (s : State) : Val := .list s.data
def serialize (s : State) : AttrDict := [("_ReplList__data", .list s.data)]
def deserialize (d : AttrDict) (s : State) : State :=
  match attr d "_ReplList__data" with
  | some (.list l) => ⟨l⟩
  | _ => s
end ReplList

namespace RefList
/-- the builtin `list` given the same call: `x = v` (a list), `x[p] = v`, `x.append(v)`,
`x.extend(o)`, `x.insert(p, v)`, `x.remove(v)`, `x.pop()` / `x.pop(p)`, `x.sort()` /
`x.sort(reverse=r)`, `x.index(v)`, `x.count(v)`, `x[p]`, `len(x)`, `x`. -/
def step (l : List Int) : ListOp → List Int × Res
  | .reset (.list n) => (n, .ok .none)
  | .reset _ => (l, .err .AssertionError)
  | .set p v | .setitem p v =>
    match PyList.setitem l p v with
    | .ok d => (d, .ok .none)
    | .error e => (l, .err e)
  | .append v => (PyList.append l v, .ok .none)
  | .extend o => (PyList.extend l o, .ok .none)
  | .insert p v => (PyList.insert l p v, .ok .none)
  | .remove v =>
    match PyList.remove l v with
    | .ok d => (d, .ok .none)
    | .error e => (l, .err e)
  | .pop .none =>
    match PyList.pop0 l with
    | .ok (x, d) => (d, .ok (.int x))
    | .error e => (l, .err e)
  | .pop (some p) =>
    match PyList.pop l p with
    | .ok (x, d) => (d, .ok (.int x))
    | .error e => (l, .err e)
  | .sort .none => (PyList.sort l false, .ok .none)
  | .sort (some r) => (PyList.sort l r, .ok .none)
  | .index v =>
    match PyList.index l v with
    | .ok i => (l, .ok (.int i))
    | .error e => (l, .err e)
  | .count v => (l, .ok (.int (PyList.count l v)))
  | .get p | .getitem p =>
    match PyList.getitem l p with
    | .ok x => (l, .ok (.int x))
    | .error e => (l, .err e)
  | .len => (l, .ok (.int l.length))
  | .rawData => (l, .ok (.list l))
end RefList

/-! ## ReplDict ↔ dict -/

inductive DictOp
  | reset (v : Val)
  | setitem (k v : Int)
  | set (k v : Int)
  | setdefault (k d : Int)
  | update (o : List (Int × Int))
  | pop (k : Int) (d : Option Int)
  | clear
  | getitem (k : Int)
  | get (k : Int) (d : Option Int)
  | len
  | contains (k : Int)
  | keys
  | values
  | items
  | rawData
  deriving DecidableEq, Repr

namespace ReplDict
structure State where
  data : PyDict.D
  deriving DecidableEq, Repr

def init : State := ⟨[]⟩

def step (s : State) : DictOp → State × Res
  | .reset v =>                       -- assert isinstance(newData, dict); self.__data = newData
    match v with
    | .dict d => (⟨PyDict.ofPairs d⟩, .ok .none)
    | _ => (s, .err .AssertionError)
  | .setitem k v => (⟨PyDict.setitem s.data k v⟩, .ok .none)
  | .set k v => (⟨PyDict.setitem s.data k v⟩, .ok .none)
  | .setdefault k d =>
    let (r, d') := PyDict.setdefault s.data k d
    (⟨d'⟩, .ok (.int r))
  | .update o => (⟨PyDict.update s.data o⟩, .ok .none)
  | .pop k d =>                       -- def pop(self, key, default=None): return self.__data.pop(key, default)
    let (r, d') := PyDict.popDefault s.data k d
    (⟨d'⟩, .ok r)
  | .clear => (⟨[]⟩, .ok .none)
  | .getitem k =>
    match PyDict.getitem s.data k with
    | .ok v => (s, .ok (.int v))
    | .error e => (s, .err e)
  | .get k d => (s, .ok (PyDict.get s.data k d))
  | .len => (s, .ok (.int s.data.length))
  | .contains k => (s, .ok (.bool (PyDict.contains s.data k)))
  | .keys => (s, .ok (.list (PyDict.keys s.data)))
  | .values => (s, .ok (.list (PyDict.values s.data)))
  | .items => (s, .ok (.dict s.data))
  | .rawData => (s, .ok (.dict s.data))

def contents (s : State) : Val := .dict s.data
def serialize (s : State) : AttrDict := [("_ReplDict__data", .dict s.data)]
def deserialize (d : AttrDict) (s : State) : State :=
  match attr d "_ReplDict__data" with
  | some (.dict l) => ⟨l⟩
  | _ => s
end ReplDict

namespace RefDict
/-- the builtin `dict` given the same call (`pop`/`get` always with the default, `None` when
omitted: the documented battery signature). -/
def step (m : PyDict.D) : DictOp → PyDict.D × Res
  | .reset (.dict d) => (PyDict.ofPairs d, .ok .none)
  | .reset _ => (m, .err .AssertionError)
  | .setitem k v | .set k v => (PyDict.setitem m k v, .ok .none)
  | .setdefault k d => ((PyDict.setdefault m k d).2, .ok (.int (PyDict.setdefault m k d).1))
  | .update o => (PyDict.update m o, .ok .none)
  | .pop k d => ((PyDict.popDefault m k d).2, .ok (PyDict.popDefault m k d).1)
  | .clear => ([], .ok .none)
  | .getitem k =>
    match PyDict.getitem m k with
    | .ok v => (m, .ok (.int v))
    | .error e => (m, .err e)
  | .get k d => (m, .ok (PyDict.get m k d))
  | .len => (m, .ok (.int m.length))
  | .contains k => (m, .ok (.bool (PyDict.contains m k)))
  | .keys => (m, .ok (.list (PyDict.keys m)))
  | .values => (m, .ok (.list (PyDict.values m)))
  | .items | .rawData => (m, .ok (.dict m))
end RefDict

/-! ## ReplSet ↔ set -/

inductive SetOp
  | reset (v : Val)
  | add (x : Int)
  | remove (x : Int)
  | discard (x : Int)
  | pop
  | clear
  | update (o : List Int)
  | rawData
  | len
  | contains (x : Int)
  deriving DecidableEq, Repr

namespace ReplSet
structure State where
  data : PySet.S
  deriving DecidableEq, Repr

def init : State := ⟨[]⟩

/-- The battery relative to an arbitrary rule `choose` by which `pop` picks its element as a function of
the abstract set.  (Before the D20 repair `pop` was `self.__data.pop()`, whose choice is NOT such a
function; kept for the generic theorems and the counterexample.) -/
def stepWith (choose : PySet.S → Int) (s : State) : SetOp → State × Res
  | .reset v =>                       -- assert isinstance(newData, set); self.__data = newData
    match v with
    | .set l => (⟨PySet.ofList l⟩, .ok .none)
    | _ => (s, .err .AssertionError)
  | .add x => (⟨PySet.add x s.data⟩, .ok .none)
  | .remove x =>
    match PySet.remove s.data x with
    | .ok d => (⟨d⟩, .ok .none)
    | .error e => (s, .err e)
  | .discard x => (⟨PySet.discard s.data x⟩, .ok .none)
  | .pop =>
    match PySet.pop choose s.data with
    | .ok (x, d) => (⟨d⟩, .ok (.int x))
    | .error e => (s, .err e)
  | .clear => (⟨[]⟩, .ok .none)
  | .update o => (⟨PySet.update s.data o⟩, .ok .none)
  | .rawData => (s, .ok (.set s.data))
  | .len => (s, .ok (.int s.data.length))
  | .contains x => (s, .ok (.bool (PySet.contains s.data x)))

/-- The battery as it is (D20 repaired):
```
def pop(self):
    if not self.__data: raise KeyError('pop from an empty set')
    item = min(self.__data, key=lambda x: (type(x).__name__, repr(x)))
    self.__data.remove(item)
    return item
``` -/
def step (s : State) : SetOp → State × Res
  | .pop =>
    if s.data.isEmpty then (s, .err .KeyError)
    else
      let item := PySet.minRepr s.data
      match PySet.remove s.data item with
      | .ok d => (⟨d⟩, .ok (.int item))
      | .error e => (s, .err e)
  | o => stepWith PySet.minRepr s o

def contents (s : State) : Val := .set s.data
def serialize (s : State) : AttrDict := [("_ReplSet__data", .set s.data)]
def deserialize (d : AttrDict) (s : State) : State :=
  match attr d "_ReplSet__data" with
  | some (.set l) => ⟨l⟩
  | _ => s
end ReplSet

namespace RefSet
/-- the builtin `set` given the same call -/
def step (choose : PySet.S → Int) (m : PySet.S) : SetOp → PySet.S × Res
  | .reset (.set l) => (PySet.ofList l, .ok .none)
  | .reset _ => (m, .err .AssertionError)
  | .add x => (PySet.add x m, .ok .none)
  | .remove x =>
    match PySet.remove m x with
    | .ok d => (d, .ok .none)
    | .error e => (m, .err e)
  | .discard x => (PySet.discard m x, .ok .none)
  | .pop =>
    match PySet.pop choose m with
    | .ok (x, d) => (d, .ok (.int x))
    | .error e => (m, .err e)
  | .clear => ([], .ok .none)
  | .update o => (PySet.update m o, .ok .none)
  | .rawData => (m, .ok (.set m))
  | .len => (m, .ok (.int m.length))
  | .contains x => (m, .ok (.bool (PySet.contains m x)))
end RefSet

/-! ## ReplQueue ↔ bounded FIFO; ReplPriorityQueue ↔ bounded heap -/

inductive QueueOp
  | qsize | empty | len | full
  | put (x : Int)
  | get (d : Option Int)
  deriving DecidableEq, Repr

namespace ReplQueue
structure State where
  maxsize : Nat
  data : List Int
  deriving DecidableEq, Repr

/-- `ReplQueue(maxsize=0)` -/
def init (maxsize : Option Nat) : State := ⟨maxsize.getD 0, []⟩

def step (s : State) : QueueOp → State × Res
  | .qsize => (s, .ok (.int s.data.length))
  | .empty => (s, .ok (.bool (s.data.length == 0)))
  | .len => (s, .ok (.int s.data.length))
  | .full =>                          -- return 0 < self.__maxsize <= len(self.__data)   (D12 repaired)
    (s, .ok (.bool (decide (0 < s.maxsize) && decide (s.maxsize ≤ s.data.length))))
  | .put x =>                         -- if self.__maxsize and len(self.__data) >= self.__maxsize: return False
    if s.maxsize ≠ 0 ∧ s.data.length ≥ s.maxsize then (s, .ok (.bool false))
    else ({ s with data := PyDeque.append s.data x }, .ok (.bool true))
  | .get d =>                         -- try: return self.__data.popleft()  except: return default
    match PyDeque.popleft s.data with
    | .ok (x, r) => ({ s with data := r }, .ok (.int x))
    | .error _ => (s, .ok (optVal d))

def contents (s : State) : Val := .list s.data
def serialize (s : State) : AttrDict :=
  [("_ReplQueue__maxsize", .int s.maxsize), ("_ReplQueue__data", .list s.data)]
def deserialize (d : AttrDict) (s : State) : State :=
  let s1 : State := match attr d "_ReplQueue__maxsize" with
    | some (.int m) => { s with maxsize := m.toNat }
    | _ => s
  match attr d "_ReplQueue__data" with
  | some (.list l) => { s1 with data := l }
  | _ => s1
end ReplQueue

namespace RefQueue
/-- `queue.Queue(maxsize)`: `qsize()`, `empty()`, `full()`, `put_nowait(x)` (`Full` ↦ `False`,
else `True`), `get_nowait()` (`Empty` ↦ the default) -/
def step (q : PyQueue.Q) : QueueOp → PyQueue.Q × Res
  | .qsize | .len => (q, .ok (.int q.data.length))
  | .empty => (q, .ok (.bool q.data.isEmpty))
  | .full => (q, .ok (.bool (PyQueue.full q)))
  | .put x =>
    match PyQueue.putNowait q x with
    | .ok q' => (q', .ok (.bool true))
    | .error _ => (q, .ok (.bool false))
  | .get d =>
    match PyQueue.getNowait q with
    | .ok (x, q') => (q', .ok (.int x))
    | .error _ => (q, .ok (optVal d))
end RefQueue

namespace ReplPriorityQueue
structure State where
  maxsize : Nat
  /-- the heap array (`self.__data`, a Python list maintained by `heapq`) -/
  data : List Int
  deriving DecidableEq, Repr

def init (maxsize : Option Nat) : State := ⟨maxsize.getD 0, []⟩

def step (s : State) : QueueOp → State × Res
  | .qsize => (s, .ok (.int s.data.length))
  | .empty => (s, .ok (.bool (s.data.length == 0)))
  | .len => (s, .ok (.int s.data.length))
  | .full => (s, .ok (.bool (decide (0 < s.maxsize) && decide (s.maxsize ≤ s.data.length))))
  | .put x =>
    if s.maxsize ≠ 0 ∧ s.data.length ≥ s.maxsize then (s, .ok (.bool false))
    else ({ s with data := PyHeap.heappush s.data x }, .ok (.bool true))
  | .get d =>                         -- if not self.__data: return default; return heapq.heappop(self.__data)
    if s.data.isEmpty then (s, .ok (optVal d))
    else match PyHeap.heappop s.data with
      | .ok (x, h) => ({ s with data := h }, .ok (.int x))
      | .error e => (s, .err e)

def contents (s : State) : Val := .list s.data
def serialize (s : State) : AttrDict :=
  [("_ReplPriorityQueue__maxsize", .int s.maxsize), ("_ReplPriorityQueue__data", .list s.data)]
def deserialize (d : AttrDict) (s : State) : State :=
  let s1 : State := match attr d "_ReplPriorityQueue__maxsize" with
    | some (.int m) => { s with maxsize := m.toNat }
    | _ => s
  match attr d "_ReplPriorityQueue__data" with
  | some (.list l) => { s1 with data := l }
  | _ => s1
end ReplPriorityQueue

namespace RefPQ
/-- `queue.PriorityQueue(maxsize)` seen from outside: a bounded multiset kept as an ascending list;
`put_nowait` (`Full` ↦ `False`), `get_nowait` = the smallest item (`Empty` ↦ default). -/
def step (q : PyQueue.Q) : QueueOp → PyQueue.Q × Res
  | .qsize | .len => (q, .ok (.int q.data.length))
  | .empty => (q, .ok (.bool q.data.isEmpty))
  | .full => (q, .ok (.bool (PyQueue.full q)))
  | .put x =>
    if PyQueue.full q then (q, .ok (.bool false))
    else ({ q with data := PyHeap.insertAsc x q.data }, .ok (.bool true))
  | .get d =>
    match q.data with
    | [] => (q, .ok (optVal d))
    | x :: r => ({ q with data := r }, .ok (.int x))
end RefPQ

end PSO.Batteries
