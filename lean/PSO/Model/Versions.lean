/-!
# Model of the code-version logic of `pysyncobj/syncobj.py` (property C17)

Transcription (import-free, executable) of

* method enumeration in `SyncObj.__init__` (`syncobj.py:211-246`): `idToMethod`, `methodToID`,
  `selfCodeVersion`;
* the `_vN` names made by the decorators `replicated` / `replicated_sync` (`:1513-1523`, `:1547-1557`):
  `mkName`;
* `__onSetCodeVersion` / `_getFuncName` (`:404-435`): `walk`, `resolveVer`, `funcName`, `nameTable`;
* `setCodeVersion` guards (`:342-357`): `setCodeVersion`;
* the apply loop `__applyLogEntries` + `__doApplyCommand` (`:653-679`, `:815-852`) as far as versions are
  concerned: `applyEntry`, `applyBatch`, `applyLogEntries`;
* the version part of `__tryLogCompaction` / `__loadDumpFile` (`:1367-1382`, `:1384-1415`): `takeDump`, `loadDump`.

The model is of the REPAIRED code (`/verif/fixes/D10-*.diff`, `D11-*.diff`, `D21-*.diff`, `D22-*.diff`, and the
repairs D4 / D9 of the replication core as far as they touch these functions):
 D10: an unsupported VERSION entry stops the batch and keeps its subscribers;
 D11: after a dump is loaded the name table is rebuilt for the restored enabled version;
 D21: a node whose enabled version (restored from a dump) exceeds its own code version applies nothing;
 D22: with a user serializer the enabled version is stored next to the internal dump data and restored;
 D9: an exception from `_idToMethod[funcID](...)` - here: `KeyError` for an unknown id - is logged and becomes the
     result of the command; the entry counts as applied and the batch goes on;
 D61: loading a dump answers the callbacks of the commands it covers with `(None, LEADER_CHANGED)`;
 D82: the callbacks a dump load answers run last, in the state with the restored version and its name table;
 D71: a VERSION entry below the enabled version changes nothing (the enabled version never goes down), its
      result is the refusal.

Names are lists of Unicode code points (`List Nat`) ordered like Python `str`; versions are `Nat`
(`ver=` is passed through `int()`; negative versions are outside the property and outside the model).
-/
namespace PSO.Versions

/-! ## Names -/

abbrev Name := List Nat

/-- Python `str.__lt__`: lexicographic by code point, a proper prefix is smaller. -/
def nameLt : Name → Name → Bool
  | [], [] => false
  | [], _ :: _ => true
  | _ :: _, [] => false
  | a :: as, b :: bs => a < b || (a == b && nameLt as bs)

/-- Decimal digits, least significant first, as code points. -/
def digitsRev (n : Nat) : List Nat :=
  if n < 10 then [48 + n] else (48 + n % 10) :: digitsRev (n / 10)
decreasing_by omega

/-- `str(n)` as code points. -/
def digits (n : Nat) : List Nat := (digitsRev n).reverse

/-- `func.__name__ + '_v' + str(ver)` (`syncobj.py:1520`, `:1554`, and `:432`). -/
def mkName (orig : Name) (v : Nat) : Name := orig ++ (95 :: 118 :: digits v)

/-! ## Class definitions, method descriptors, ids -/

/-- One `@replicated(ver=v) def orig(...)` (or `replicated_sync`) on object `obj`:
`obj = 0` is the `SyncObj` subclass itself, `obj = k+1` is consumer number `k`. -/
structure Decl where
  obj : Nat
  orig : Name
  ver : Nat
deriving DecidableEq, Repr, Inhabited

/-- The tuple `(ver, consumerNum, method)` of `methodsToEnumerate` (`syncobj.py:226`, `:234`). -/
structure Desc where
  ver : Nat
  obj : Nat
  name : Name
deriving DecidableEq, Repr, Inhabited

def Decl.desc (d : Decl) : Desc := ⟨d.ver, d.obj, mkName d.orig d.ver⟩

/-- Python tuple ordering `(ver, consumerNum, name) <= (ver', consumerNum', name')`. -/
def Desc.le (a b : Desc) : Bool :=
  a.ver < b.ver || (a.ver == b.ver && (a.obj < b.obj || (a.obj == b.obj && !nameLt b.name a.name)))

/-- `sorted(methodsToEnumerate)` (`syncobj.py:237`). -/
def sortDescs (l : List Desc) : List Desc := l.mergeSort Desc.le

/-- A class definition = the versioned replicated methods of the object and of its consumers. -/
abbrev ClassDef := List Decl

def methodsToEnumerate (cls : ClassDef) : List Desc := cls.map Decl.desc

/-- `_idToMethod`: position = method id. -/
def idToMethod (cls : ClassDef) : List Desc := sortDescs (methodsToEnumerate cls)

/-- An attribute other than a `_vN` copy that is bound to a replicated function and whose name differs from the
function's `origName`: an alias (`alias = f`) or the name-mangled attribute of a private method (`def __priv` is the
attribute `_Cls__priv`, `origName` `__priv`). It passes the `m != origName` filter of the enumeration
(`syncobj.py:215-217`, `:229-231`) and is enumerated under its attribute name with the `ver` of the function it is bound
to (the LAST definition). Known finding D86: such entries move when a higher version is added. -/
structure Alias where
  obj : Nat
  attr : Name
  ver : Nat
deriving DecidableEq, Repr, Inhabited

def Alias.desc (a : Alias) : Desc := ⟨a.ver, a.obj, a.attr⟩

/-- A class definition with its aliases / private methods spelled out. -/
structure ClassX where
  decls : ClassDef
  aliases : List Alias
deriving DecidableEq, Repr, Inhabited

/-- The classes the rest of the model (and the property theorems) are about: no alias, no name-mangled private
replicated method. -/
def NoAliasOrPrivate (c : ClassX) : Bool := c.aliases.isEmpty

/-- `_idToMethod` of a class with aliases: the extra attributes are sorted in with everything else. -/
def idToMethodX (c : ClassX) : List Desc :=
  sortDescs (methodsToEnumerate c.decls ++ c.aliases.map Alias.desc)

/-- `_methodToID[name]` / `_methodToID[(id(consumer), name)]`: keyed by object and method name. -/
def methodToID (cls : ClassDef) (obj : Nat) (name : Name) : Option Nat :=
  (idToMethod cls).findIdx? (fun d => d.obj == obj && d.name == name)

/-- `__selfCodeVersion` = highest version present in the code (0 for no methods). -/
def selfCodeVersion (cls : ClassDef) : Nat :=
  (idToMethod cls).foldl (fun m d => max m d.ver) 0

/-! ## Name table (`__onSetCodeVersion`, `_getFuncName`) -/

/-- Key of `funcVersions` / `__currentVersionFuncNames`: original name on object `obj`. -/
structure Key where
  obj : Nat
  orig : Name
deriving DecidableEq, Repr, Inhabited

def Decl.key (d : Decl) : Key := ⟨d.obj, d.orig⟩

/-- `funcVersions[key]` (a set). -/
def versionsOf (cls : ClassDef) (k : Key) : List Nat :=
  ((cls.filter (fun d => d.key == k)).map Decl.ver).eraseDups

/-- `sorted(list(versions))`. -/
def sortedVersions (cls : ClassDef) (k : Key) : List Nat :=
  (versionsOf cls k).mergeSort (fun a b => decide (a ≤ b))

/-- The loop `for v in versions: if v > newVersion: break; table[key] = ..._v<v>` (`syncobj.py:428-432`);
`acc` is the entry written so far. -/
def walk (newVersion : Nat) : List Nat → Option Nat → Option Nat
  | [], acc => acc
  | v :: vs, acc => if v > newVersion then acc else walk newVersion vs (some v)

/-- Version of the implementation that `key` resolves to when the table was built for `e`. -/
def resolveVer (cls : ClassDef) (e : Nat) (k : Key) : Option Nat :=
  walk e (sortedVersions cls k) none

/-- `_getFuncName(key)`; `none` = `KeyError`. -/
def funcName (cls : ClassDef) (e : Nat) (k : Key) : Option Name :=
  (resolveVer cls e k).map (mkName k.orig)

def keys (cls : ClassDef) : List Key := (cls.map Decl.key).eraseDups

/-- `__currentVersionFuncNames` after `__onSetCodeVersion(e)`. -/
def nameTable (cls : ClassDef) (e : Nat) : List (Key × Name) :=
  (keys cls).filterMap (fun k => (funcName cls e k).map (fun n => (k, n)))

/-- The id a call `obj.orig(...)` puts into the log (`newFunc` of the decorator, `syncobj.py:1475-1483`). -/
def callId (cls : ClassDef) (e : Nat) (k : Key) : Option Nat :=
  match funcName cls e k with
  | none => none
  | some nm => methodToID cls k.obj nm

/-! ## Node state and the apply loop -/

inductive Cmd where
  | noop
  | membership
  | version (v : Nat)
  | regular (funcId : Nat) (arg : Nat)
  | other (t : Nat)
deriving DecidableEq, Repr, Inhabited

structure Entry where
  cmd : Cmd
  idx : Nat
  term : Nat
deriving DecidableEq, Repr, Inhabited

structure Node where
  cls : ClassDef
  /-- `__enabledCodeVersion` -/
  enabled : Nat
  /-- the version `__currentVersionFuncNames` was last built for -/
  tableVer : Nat
  lastApplied : Nat
  commit : Nat
  log : List Entry
  /-- `__commandsWaitingCommit`: log index ↦ [(term, callback id)] -/
  waiting : List (Nat × List (Nat × Nat))
deriving DecidableEq, Repr, Inhabited

/-- Result of `__doApplyCommand` as the subscribers' callbacks see it. -/
inductive Res where
  /-- `None` (no-op, membership, VERSION and unknown-type entries) -/
  | none
  /-- the value the user implementation `d` returned for argument `arg` -/
  | value (d : Desc) (arg : Nat)
  /-- the `KeyError(funcID)` from `_idToMethod[funcID]`, caught and RETURNED as the result (repair D9) -/
  | keyError (fid : Nat)
  /-- `Exception('wrong version, enabled version is <enabled>, requested version is <req>')` returned for a VERSION
  entry below the enabled version (repair D71) -/
  | lowerVersion (enabled req : Nat)
deriving DecidableEq, Repr, Inhabited

inductive Ev where
  /-- user implementation `d` executed for the entry at `idx` -/
  | ran (idx : Nat) (d : Desc) (arg : Nat)
  /-- subscriber callback: `(res, SUCCESS)` when `ok`, `(None, DISCARDED)` otherwise -/
  | callback (cb : Nat) (res : Res) (ok : Bool)
  /-- `conf.onCodeVersionChanged(old, new)`; `hookEnabled` / `hookTableVer` = what the hook sees when it runs:
  `getCodeVersion()` and the version the name table was built for (a call issued from the hook resolves with it) -/
  | versionChanged (old new : Nat) (hookEnabled hookTableVer : Nat)
  /-- `SyncObjExceptionWrongVer` caught and logged -/
  | wrongVer (self req : Nat)
  /-- `KeyError` from `_idToMethod[funcID]`: caught in `__doApplyCommand`, logged, returned as the result (D9) -/
  | unknownId (idx id : Nat)
  /-- gate D21: enabled version not supported by this code -/
  | blocked (enabled self : Nat)
  /-- subscriber callback `(None, FAIL_REASON.LEADER_CHANGED)`: the command's index is covered by a loaded dump,
  its outcome is not known to this node (repair D61 of `__loadDumpFile`); `seenEnabled` / `seenTableVer` = what the
  callback sees when it runs: `getCodeVersion()` and the version the name table was built for (repair D82: the callbacks
  are answered LAST, after `__onSetCodeVersion(enabled)`, so a call re-submitted from one resolves with the snapshot's table) -/
  | callbackOpen (cb : Nat) (seenEnabled seenTableVer : Nat)
deriving DecidableEq, Repr, Inhabited

def initNode (cls : ClassDef) : Node :=
  { cls, enabled := 0, tableVer := 0, lastApplied := 1, commit := 1,
    log := [⟨.noop, 1, 0⟩], waiting := [] }

/-- `__getEntries(fromIdx, count)` (`syncobj.py:1062-1070`). -/
def getEntries (log : List Entry) (fromIdx count : Nat) : List Entry :=
  match log with
  | [] => []
  | e0 :: _ => if fromIdx < e0.idx then [] else (log.drop (fromIdx - e0.idx)).take count

def popWaiting (w : List (Nat × List (Nat × Nat))) (idx : Nat) :
    List (Nat × Nat) × List (Nat × List (Nat × Nat)) :=
  match w.find? (fun p => p.1 == idx) with
  | none => ([], w)
  | some p => (p.2, w.filter (fun q => q.1 != idx))

def fireCallbacks (subs : List (Nat × Nat)) (term : Nat) (res : Res) : List Ev :=
  subs.map (fun s => if s.1 == term then Ev.callback s.2 res true else Ev.callback s.2 .none false)

/-- One iteration of the `for entry in entries` loop. The `Bool` says whether the loop goes on. -/
def applyEntry (n : Node) (e : Entry) : Node × List Ev × Bool :=
  let (subs, w') := popWaiting n.waiting e.idx
  let done (n' : Node) (evs : List Ev) (res : Res) : Node × List Ev × Bool :=
    ({ n' with waiting := w', lastApplied := n'.lastApplied + 1 }, evs ++ fireCallbacks subs e.term res, true)
  match e.cmd with
  | .version v =>
    if selfCodeVersion n.cls < v then
      -- WrongVer: logged, subscribers kept (the entry is retried on the next tick), batch stops (D10)
      (n, [Ev.wrongVer (selfCodeVersion n.cls) v], false)
    else if v < n.enabled then
      -- repair D71: `setCodeVersion` only sees the version applied so far on the requester, so a lower request can
      -- follow a higher one in the log; the enabled version never goes down: no switch, no table rebuild, no hook,
      -- the refusal is the command's result; the entry is consumed like any other
      done n [] (.lowerVersion n.enabled v)
    else
      -- statement order of `__doApplyCommand`: enabled version, then the name table, then the user's hook
      let n1 := { n with enabled := v }            -- self.__enabledCodeVersion = ver
      let n2 := { n1 with tableVer := v }          -- self.__onSetCodeVersion(ver)
      done n2 [Ev.versionChanged n.enabled v n2.enabled n2.tableVer] .none   -- callback(oldVer, ver)
  | .regular fid arg =>
    match (idToMethod n.cls)[fid]? with
    | none => done n [Ev.unknownId e.idx fid] (.keyError fid)
    | some d => done n [Ev.ran e.idx d arg] (.value d arg)
  | _ => done n [] .none

def applyBatch (n : Node) : List Entry → Node × List Ev
  | [] => (n, [])
  | e :: es =>
    match applyEntry n e with
    | (n', evs, true) => let (n'', evs') := applyBatch n' es; (n'', evs ++ evs')
    | (n', evs, false) => (n', evs)

/-- `__applyLogEntries` (`syncobj.py:653-679`). -/
def applyLogEntries (n : Node) : Node × List Ev :=
  if n.enabled > selfCodeVersion n.cls then (n, [Ev.blocked n.enabled (selfCodeVersion n.cls)])
  else if n.commit > n.lastApplied then
    applyBatch n (getEntries n.log (n.lastApplied + 1) (n.commit - n.lastApplied))
  else (n, [])

/-- What can happen to a node between / at ticks, as far as the apply loop is concerned. -/
inductive Op where
  /-- `_onTick` reaches `__applyLogEntries` -/
  | tick
  /-- the replication core moved `__raftCommitIndex` -/
  | setCommit (c : Nat)
  /-- the replication core appended entries to `__raftLog` -/
  | append (es : List Entry)
  /-- a callback was registered in `__commandsWaitingCommit[idx]` -/
  | subscribe (idx term cb : Nat)
deriving Repr, Inhabited

def addWaiting (w : List (Nat × List (Nat × Nat))) (idx : Nat) (sub : Nat × Nat) : List (Nat × List (Nat × Nat)) :=
  if w.any (fun p => p.1 == idx) then w.map (fun p => if p.1 == idx then (p.1, p.2 ++ [sub]) else p)
  else w ++ [(idx, [sub])]

def step (n : Node) : Op → Node × List Ev
  | .tick => applyLogEntries n
  | .setCommit c => ({ n with commit := c }, [])
  | .append es => ({ n with log := n.log ++ es }, [])
  | .subscribe idx term cb => ({ n with waiting := addWaiting n.waiting idx (term, cb) }, [])

def run (n : Node) : List Op → Node × List Ev
  | [] => (n, [])
  | o :: os => let (n', evs) := step n o; let (n'', evs') := run n' os; (n'', evs ++ evs')

/-! ## `setCodeVersion` -/

inductive SetVer where
  /-- `Exception('wrong version, current version is …')` -/
  | tooHigh (self req : Nat)
  /-- `Exception('wrong version, enabled version is …')` -/
  | tooLow (enabled req : Nat)
  /-- the VERSION command is queued -/
  | queued (v : Nat)
deriving DecidableEq, Repr, Inhabited

def setCodeVersion (n : Node) (v : Nat) : SetVer :=
  if v > selfCodeVersion n.cls then .tooHigh (selfCodeVersion n.cls) v
  else if v < n.enabled then .tooLow n.enabled v
  else .queued v

/-! ## Dump and load -/

structure Dump where
  /-- the enabled code version carried by the dump: inside the pickled object state (default serializer) or
  as fifth element of the internal data (user serializer, repair D22); `none` = a user-serializer dump
  written before that repair (four elements) -/
  enabled : Option Nat
  /-- `data[2]` -/
  prev : Entry
  /-- `data[1]` -/
  last : Entry
deriving DecidableEq, Repr, Inhabited

/-- The version-relevant part of `__tryLogCompaction` once it decides to serialize. -/
def takeDump (n : Node) : Option Dump :=
  match getEntries n.log (n.lastApplied - 1) 2 with
  | [p, l] => some { enabled := some n.enabled, prev := p, last := l }
  | _ => none

/-- `__loadDumpFile(clearJournal=True)` (a snapshot received from the leader) returns at once, leaving log and state
alone, when the snapshot's last entry is already applied or already in the log with the same term (repair D4 of the
replication core, `syncobj.py` "keep log and state"). -/
def skipsInstall (n : Node) (d : Dump) (clearJournal : Bool) : Bool :=
  clearJournal && (decide (d.last.idx ≤ n.lastApplied) ||
    (match getEntries n.log d.last.idx 1 with
     | e :: _ => e.term == d.last.term
     | [] => false))

/-- The entries of `__commandsWaitingCommit` a dump with last index `la` covers, in the order
`sorted(idx for idx in waiting if idx <= la)` (repair D61). -/
def coveredWaiting (w : List (Nat × List (Nat × Nat))) (la : Nat) : List (Nat × List (Nat × Nat)) :=
  (w.filter (fun p => decide (p.1 ≤ la))).mergeSort (fun a b => decide (a.1 ≤ b.1))

/-- `__loadDumpFile(clearJournal)` (repaired: name table for the restored version; subscribers of covered
indices are taken off the waiting list). -/
def loadDump (n : Node) (d : Dump) (clearJournal : Bool) : Node :=
  if skipsInstall n d clearJournal then n else
  let enabled := d.enabled.getD n.enabled
  let keep := !clearJournal && n.log.length ≥ 2 && n.log[0]? == some d.prev && n.log[1]? == some d.last
  { n with enabled := enabled, tableVer := enabled, lastApplied := d.last.idx,
           log := if keep then n.log else [d.prev, d.last],
           waiting := n.waiting.filter (fun p => !decide (p.1 ≤ d.last.idx)) }

/-- What `__loadDumpFile` makes observable: `callback(None, LEADER_CHANGED)` for every subscriber of a covered index,
by ascending index, then in registration order. The early return (`skipsInstall`) happens before and resolves nothing. -/
def loadDumpEvents (n : Node) (d : Dump) (clearJournal : Bool) : List Ev :=
  if skipsInstall n d clearJournal then [] else
  -- statement order of `__loadDumpFile`: state restored, log, lastApplied, covered subscribers taken off the list,
  -- member set, name table rebuilt - and only then the callbacks: they run in the final state `n'`
  let n' := loadDump n d clearJournal
  (coveredWaiting n.waiting d.last.idx).flatMap (fun p => p.2.map (fun s => Ev.callbackOpen s.2 n'.enabled n'.tableVer))

/-- Second phase of `__tryLogCompaction` (the serializer reported SUCCESS for dump `d`):
`__deleteEntriesTo(serializeID)` with `serializeID = d.prev.idx` (`syncobj.py:1337-1340`, `:1125-1130`). -/
def finishCompaction (n : Node) (d : Dump) : Node :=
  match n.log with
  | [] => n
  | e0 :: _ => if d.prev.idx < e0.idx then n else { n with log := n.log.drop (d.prev.idx - e0.idx) }

end PSO.Versions
