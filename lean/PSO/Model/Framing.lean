import PSO.Model.Basic

/-!
# Model of `pysyncobj/tcp_connection.py` (`TcpConnection`): framing, partial I/O, disconnects

Executable, import-free transcription of

* `send` (lines 141-149): `frame = struct.pack('i', len(data)) + data`, `data = zlib.compress(pickle.dumps(m))`
* `disconnect` (154-171), `connect` (114-139)
* `__processConnection` (176-225), `__processConnectionTimeout` (227-230)
* `__trySendBuffer` / `__processSend` (232-254)
* `__tryReadBuffer` / `__processRead` (256-275)
* `__processParseMessage` (277-300) **with the repair `fixes/D13-negative-frame-length.diff`**
  (`if l < 0: self.disconnect(); return None`).  The pinned, unrepaired function is kept next to it as
  `parseOnePinned` (Python slice semantics for a negative length) for the counterexample theorem and the
  witness replay.

What is a parameter (`Cfg`): `enc`/`dec` (= `zlib.compress(pickle.dumps(.),3)` and
`pickle.loads(zlib.decompress(.))` with every exception mapped to `none`), which messages make the
`onMessageReceived` callback call `conn.disconnect()`, and the read time-out.  (Repairs modelled besides D13:
D53 `__processConnection`, D75 sentinel for "no frame" — `None` is an ordinary message —, D76 WRITE interest
re-armed by `__trySendBuffer`.)

The environment (socket, poller, clock) is an oracle carried by the events: every `socket.send` answers
with a `SendRes`, every `socket.recv` with a `RecvRes`, `getsockopt(SO_ERROR)` with a `Bool`, the clock
with `now`.  A script that runs out answers EAGAIN (this is also what the harness' fake socket does).

Fields `wire`, `delivered`, `nDisc`, `pollMask` are the *observation log*: what the fake socket accepted,
the `onMessageReceived` calls, the number of `onDisconnected` calls, the last event mask the connection
asked the poller for (`none` = unsubscribed).  No code path reads them.
-/
namespace PSO.Framing

/-! ## bytes -/

/-- `struct.unpack('I', b[:4])` on a little-endian machine (0 when fewer than 4 bytes; never used then). -/
def leU32 : Bytes → Nat
  | b0 :: b1 :: b2 :: b3 :: _ => b0.toNat + 256 * b1.toNat + 65536 * b2.toNat + 16777216 * b3.toNat
  | _ => 0

/-- `struct.unpack('i', b[:4])[0]`: signed 32 bit, little endian. -/
def leInt32 (b : Bytes) : Int :=
  if leU32 b < 2147483648 then (leU32 b : Int) else (leU32 b : Int) - 4294967296

/-- `struct.pack('i', n)` for `0 ≤ n < 2^31` (for larger `n` Python raises `struct.error`, see `send`). -/
def le32 (n : Nat) : Bytes :=
  [UInt8.ofNat (n % 256), UInt8.ofNat (n / 256 % 256), UInt8.ofNat (n / 65536 % 256),
   UInt8.ofNat (n / 16777216 % 256)]

/-- One frame on the wire: length field followed by the payload. -/
def frame (p : Bytes) : Bytes := le32 p.length ++ p

/-! ## state -/

inductive CState where
  | disconnected | connecting | connected
  deriving DecidableEq, Repr, Inhabited

structure Cfg (Msg : Type) where
  /-- `zlib.compress(pickle.dumps(m), 3)` -/
  enc : Msg → Bytes
  /-- decoding of the `l` bytes named by the length field, `none` = any exception.  With the repair D83 the
  bytes must be consumed exactly: `zlib.decompressobj()` must reach `eof` with no `unused_data`, and
  `pickle.load` must exhaust the decompressed stream (the unrepaired `pickle.loads(zlib.decompress(p))` ignored
  trailing bytes).  Still a parameter: in the driver a table computed with the real zlib/pickle in that strict
  way; in the theorems `StrictDec` where exactness matters. -/
  dec : Bytes → Option Msg
  /-- `onMessageReceived(m)` calls `conn.disconnect()` -/
  cbDisc : Msg → Bool
  /-- `timeout` constructor argument (same unit as `now`) -/
  timeout : Nat

structure Conn (Msg : Type) where
  state : CState
  rbuf : Bytes
  wbuf : Bytes
  lastRead : Nat
  /-- observation: event mask last subscribed for the connection's descriptor (READ=1, WRITE=2, ERROR=4) -/
  pollMask : Option Nat
  /-- observation: bytes the socket accepted since the socket was created -/
  wire : Bytes
  /-- observation: `onMessageReceived` calls, oldest first -/
  delivered : List Msg
  /-- observation: number of `onDisconnected` calls -/
  nDisc : Nat

/-- answer of one `socket.send(buf)` -/
inductive SendRes where
  | ret (k : Int)   -- returned k (k > len(buf) behaves like len(buf): `buf[k:]` is empty)
  | again           -- EAGAIN / EWOULDBLOCK
  | err             -- any other socket.error
  deriving Repr, Inhabited

/-- answer of one `socket.recv(n)` followed (when it did not raise) by `getsockopt(SO_ERROR)` -/
inductive RecvRes where
  | data (bs : Bytes) (soErr : Bool)   -- bs = [] is end-of-stream
  | again
  | err
  deriving Repr, Inhabited

/-- one call `__processConnection(descr, eventType)` by the poller -/
structure PollEv where
  descrOk : Bool        -- descr == fileno the connection was subscribed with
  rd : Bool             -- eventType & READ
  wr : Bool             -- eventType & WRITE
  er : Bool             -- eventType & ERROR
  now : Nat
  soErr : Bool          -- getsockopt(SO_ERROR) at line 191
  onConnDisc : Bool     -- the onConnected callback calls disconnect()
  sends : List SendRes
  recvs : List RecvRes
  deriving Repr, Inhabited

inductive Ev (Msg : Type) where
  | send (m : Msg) (now : Nat) (sends : List SendRes)
  | poll (e : PollEv)
  | disconnect
  | connect (ok : Bool) (now : Nat)

variable {Msg : Type}

/-- `TcpConnection(poller, socket=s, ...)` (`sock = true`) or without a socket. -/
def Conn.init (sock : Bool) (now : Nat) : Conn Msg :=
  { state := if sock then .connected else .disconnected, rbuf := [], wbuf := [], lastRead := now,
    pollMask := if sock then some 7 else none, wire := [], delivered := [], nDisc := 0 }

/-! ## disconnect / connect -/

/-- `disconnect()` (154-171). `fileno is not None` iff the state is not DISCONNECTED. -/
def disconnect (c : Conn Msg) : Conn Msg :=
  { c with state := .disconnected, rbuf := [], wbuf := [], pollMask := none,
           nDisc := if c.state = .disconnected then c.nDisc else c.nDisc + 1 }

/-- `connect(host, port)` (114-139) with `host` not None; `ok = false`: `socket.connect` raised an error
other than EINPROGRESS/EWOULDBLOCK.  A new socket object: the observation `wire` starts again. -/
def connect (c : Conn Msg) (ok : Bool) (now : Nat) : Conn Msg :=
  { c with state := if ok then .connecting else .disconnected, rbuf := [], wbuf := [], lastRead := now,
           pollMask := if ok then some 7 else none, wire := [] }

/-- `__processConnectionTimeout` (227-230) -/
def timeoutCheck (cfg : Cfg Msg) (c : Conn Msg) (now : Nat) : Conn Msg :=
  if now > c.lastRead + cfg.timeout then disconnect c else c

/-! ## writer -/

/-- `while self.__processSend(): pass` (236-254) -/
def sendLoop (c : Conn Msg) : List SendRes → Conn Msg
  | [] => c
  | r :: rest =>
    if c.wbuf = [] then c else
    match r with
    | .ret k =>
      if k < 0 then disconnect c
      else if k = 0 then c
      else sendLoop { c with wbuf := c.wbuf.drop k.toNat, wire := c.wire ++ c.wbuf.take k.toNat } rest
    | .again => c
    | .err => disconnect c

/-- `__trySendBuffer` (232-237), with the repair D76: when the socket did not take everything and the
connection is CONNECTED, the descriptor is (re)subscribed with READ|WRITE|ERROR, so that a WRITE event
continues the flush (the WRITE branch drops the interest again once the buffer is empty). -/
def trySend (cfg : Cfg Msg) (c : Conn Msg) (now : Nat) (sends : List SendRes) : Conn Msg :=
  let c := timeoutCheck cfg c now
  if c.state = .disconnected then c
  else
    let c := sendLoop c sends
    if c.wbuf ≠ [] ∧ c.state = .connected then { c with pollMask := some 7 } else c

/-- `send(message)` (141-149).  A payload of 2^31 bytes or more makes `struct.pack('i', …)` raise
`struct.error` out of `send` (to the caller, not the event loop) before the buffer is touched. -/
def send (cfg : Cfg Msg) (c : Conn Msg) (m : Msg) (now : Nat) (sends : List SendRes) : Conn Msg :=
  if (cfg.enc m).length < 2147483648 then
    trySend cfg { c with wbuf := c.wbuf ++ frame (cfg.enc m) } now sends
  else c

/-! ## reader -/

/-- `while self.__processRead(): pass` (257-258, 261-275) -/
def recvLoop (c : Conn Msg) : List RecvRes → Conn Msg
  | [] => c
  | .again :: _ => c
  | .err :: _ => disconnect c
  | .data bs soErr :: rest =>
    if soErr then disconnect c
    else if bs = [] then disconnect c
    else recvLoop { c with rbuf := c.rbuf ++ bs } rest

/-- outcome of one `__processParseMessage` on a buffer -/
inductive Parse (Msg : Type) where
  | wait                            -- return None, nothing changed
  | bad                             -- disconnect(), return None
  | msg (m : Msg) (rest : Bytes)    -- buffer := rest, return m
  deriving Repr

/-- `__processParseMessage` (277-300), repaired (D13): a negative length field disconnects. -/
def parseOne (dec : Bytes → Option Msg) (rb : Bytes) : Parse Msg :=
  if rb.length < 4 then .wait
  else if leInt32 rb < 0 then .bad
  else if (rb.length : Int) - 4 < leInt32 rb then .wait
  else match dec ((rb.drop 4).take (leInt32 rb).toNat) with
    | none => .bad
    | some m => .msg m (rb.drop (4 + (leInt32 rb).toNat))

theorem parseOne_msg_length {dec : Bytes → Option Msg} {rb : Bytes} {m : Msg} {rest : Bytes}
    (h : parseOne dec rb = .msg m rest) : rest.length < rb.length := by
  unfold parseOne at h
  split at h
  · cases h
  · split at h
    · cases h
    · split at h
      · cases h
      · split at h
        · cases h
        · cases h
          simp only [List.length_drop]
          omega

/-- the `while True:` loop of `__processConnection` (218-225), with the repair D75: "no complete frame" is a
private sentinel object, so every unpickled value — Python's `None` included — is delivered (`.wait`/`.bad` are
the sentinel, `.msg` is a message whatever its value). -/
def parseLoop (cfg : Cfg Msg) (c : Conn Msg) : Conn Msg :=
  match _h : parseOne cfg.dec c.rbuf with
  | .wait => c
  | .bad => disconnect c
  | .msg m rest =>
    let c' := { c with rbuf := rest, delivered := c.delivered ++ [m] }
    if cfg.cbDisc m then disconnect c' else parseLoop cfg c'
termination_by c.rbuf.length
decreasing_by exact parseOne_msg_length ‹_›

/-- READ branch of `__processConnection` (213-225) -/
def readPart (cfg : Cfg Msg) (c : Conn Msg) (now : Nat) (recvs : List RecvRes) : Conn Msg :=
  let c := recvLoop c recvs
  let c := { c with lastRead := now }
  if c.state = .disconnected then c else parseLoop cfg c

/-- WRITE branch of `__processConnection` (204-211) -/
def writePart (cfg : Cfg Msg) (c : Conn Msg) (now : Nat) (sends : List SendRes) : Conn Msg :=
  let c := trySend cfg c now sends
  if c.state = .disconnected then c
  else { c with pollMask := some (if c.wbuf = [] then 5 else 7) }

/-- `__processConnection(descr, eventType)` (176-225), as of the repair D53 (/repo 7627273).

The handler remembers `sock = self.__socket` at entry and, after the time-out check, after `__trySendBuffer`,
after `__tryReadBuffer` and after every delivered message, returns when `self.__socket is not sock`.
In this model that test is written `state = .disconnected`, which is the same thing for every behaviour the
model has: past the descriptor test `fileno` is not None, hence the socket is not None (both are set and
cleared together by `__init__`/`connect`/`disconnect`), and the only operation that runs inside the handler
and changes the socket or the state is `disconnect()` (directly, or from a callback: `cbDisc`, `onConnDisc`),
which sets `__socket = None` and `state = DISCONNECTED` together.  A callback that *re-connects* from inside
the handler (new socket, state CONNECTING — the situation D53 is about) is outside this component's event
alphabet; it belongs to the transport component (C14).  The harness checks the two facts used here on the real
object after every event (`fileno is None` iff DISCONNECTED; `fileno` set implies socket set). -/
def poll (cfg : Cfg Msg) (c : Conn Msg) (e : PollEv) : Conn Msg :=
  if !e.descrOk || c.state = .disconnected then c
  else if e.er then disconnect c
  else
    let c := timeoutCheck cfg c e.now
    if c.state = .disconnected then c
    else if (e.rd || e.wr) && e.soErr then disconnect c
    else if (e.rd || e.wr) && c.state = .connecting then
      -- D53: the state becomes CONNECTED and the clock is refreshed BEFORE onConnected() runs; no re-check after it
      let c := { c with state := .connected, lastRead := e.now }
      if e.onConnDisc then disconnect c else c
    else
      let c := if e.wr then writePart cfg c e.now e.sends else c
      if c.state = .disconnected then c
      else if e.rd then readPart cfg c e.now e.recvs else c

def step (cfg : Cfg Msg) (c : Conn Msg) : Ev Msg → Conn Msg
  | .send m now sends => send cfg c m now sends
  | .poll e => poll cfg c e
  | .disconnect => disconnect c
  | .connect ok now => connect c ok now

def run (cfg : Cfg Msg) (c : Conn Msg) (evs : List (Ev Msg)) : Conn Msg :=
  evs.foldl (step cfg) c

/-! ## an `onDisconnected` callback that dials again at once (what `TCPTransport._onDisconnected` does)

In the code the callback runs INSIDE `disconnect()`, i.e. in the middle of whatever handler noticed the loss
(`send`, `__trySendBuffer`, `__tryReadBuffer`, the parse loop, `__processConnection`), calls `connect()` — new
socket, buffers reset, state CONNECTING or DISCONNECTED — and may `send()` on the new connection (the connect is
in flight: `socket.send` answers EAGAIN, the frames wait in the write buffer).  Every handler returns right after
`disconnect()` without touching the object again (the loops stop on `return False`, D53's `self.__socket is not
sock` tests, D76's post-loop test sees CONNECTING), so the callback's effect is placed AFTER the handler's:
`stepCb`.  That this placement is what the real nested execution does is not assumed but run: the
correspondence installs exactly this callback on the real object and compares after every event. -/

structure DiscCb (Msg : Type) where
  /-- outcome of the `connect()` the callback calls (`false`: refused at once) -/
  ok : Bool
  /-- messages it sends right after `connect()` -/
  msgs : List Msg

/-- body of the callback, run at time `now` on the just disconnected object -/
def afterDisc (cfg : Cfg Msg) (cb : DiscCb Msg) (now : Nat) (c : Conn Msg) : Conn Msg :=
  cb.msgs.foldl (fun c m => send cfg c m now []) (connect c cb.ok now)

/-- the clock reading during an event (`disconnect()` called by the application carries none: `clock`) -/
def evTime (clock : Nat) : Ev Msg → Nat
  | .send _ now _ => now
  | .poll e => e.now
  | .connect _ now => now
  | .disconnect => clock

/-- one event on an object whose `onDisconnected` callback is `cb` (`none`: a callback that leaves the object
alone); the callback fires iff the event lost a connection, i.e. iff `nDisc` went up -/
def stepCb (cfg : Cfg Msg) (cb : Option (DiscCb Msg)) (clock : Nat) (c : Conn Msg) (ev : Ev Msg) : Conn Msg :=
  match cb with
  | some cb =>
    if (step cfg c ev).nDisc = c.nDisc + 1 then afterDisc cfg cb (evTime clock ev) (step cfg c ev)
    else step cfg c ev
  | none => step cfg c ev

def runCb (cfg : Cfg Msg) (cb : Option (DiscCb Msg)) : Nat → Conn Msg → List (Ev Msg) → Conn Msg
  | _, c, [] => c
  | clock, c, ev :: evs => runCb cfg cb (evTime clock ev) (stepCb cfg cb clock c ev) evs

/-! ## the unrepaired `send` (no re-arming of the WRITE interest), for the D76 counterexample -/

/-- `__trySendBuffer` before the repair D76 -/
def trySendPinned (cfg : Cfg Msg) (c : Conn Msg) (now : Nat) (sends : List SendRes) : Conn Msg :=
  let c := timeoutCheck cfg c now
  if c.state = .disconnected then c else sendLoop c sends

/-- `send(message)` before the repair D76 -/
def sendPinned (cfg : Cfg Msg) (c : Conn Msg) (m : Msg) (now : Nat) (sends : List SendRes) : Conn Msg :=
  if (cfg.enc m).length < 2147483648 then
    trySendPinned cfg { c with wbuf := c.wbuf ++ frame (cfg.enc m) } now sends
  else c

/-! ## the pinned (unrepaired) parse function, for the D13 counterexample -/

/-- Python `b[i:j]` for arbitrary integers `i`, `j`. -/
def pySlice (b : Bytes) (i j : Int) : Bytes :=
  let n : Int := b.length
  let norm (k : Int) : Nat := (if k < 0 then (if k + n < 0 then 0 else k + n) else (if k > n then n else k)).toNat
  (b.take (norm j)).drop (norm i)

/-- `__processParseMessage` as pinned: no check of the sign of the length field. -/
def parseOnePinned (dec : Bytes → Option Msg) (rb : Bytes) : Parse Msg :=
  if rb.length < 4 then .wait
  else if (rb.length : Int) - 4 < leInt32 rb then .wait
  else match dec (pySlice rb 4 (4 + leInt32 rb)) with
    | none => .bad
    | some m => .msg m (pySlice rb (4 + leInt32 rb) rb.length)

end PSO.Framing
