/-!
# Specifications of the Python containers the batteries mimic (import-free, executable)

Values are (unbounded) integers.  Every function here is the semantics of ONE builtin call as
CPython 3.12 performs it (argument normalisation, error kind, no state change on error).  These
functions are what `harness/corr/batteries_ops.py` diffs against the real builtins
(`int`, `list`, `dict`, `set`, `collections.deque`/`queue.Queue`, `heapq`/`queue.PriorityQueue`).
-/
namespace PSO.Py

/-- Exception classes that can escape a container call (plus the two `queue` signals). -/
inductive Err
  | IndexError | ValueError | KeyError | TypeError | AssertionError | Full | Empty
  deriving DecidableEq, Repr, Inhabited

/-- Python values that occur as arguments and results in the C15 domain. -/
inductive Val
  | none
  | int (i : Int)
  | bool (b : Bool)
  | list (l : List Int)
  /-- insertion-ordered items of a dict -/
  | dict (d : List (Int × Int))
  /-- a set, canonically: strictly increasing list -/
  | set (s : List Int)
  deriving DecidableEq, Repr, Inhabited

/-- Outcome of one call: a value or the class of the exception raised. -/
inductive Res
  | ok (v : Val)
  | err (e : Err)
  deriving DecidableEq, Repr, Inhabited

/-- `default` argument of `pop`/`get`: omitted or `None` ↦ `None`, else the int. -/
def optVal : Option Int → Val
  | .none => .none
  | .some i => .int i

/-! ## int -/
namespace PyInt
def set (_ : Int) (v : Int) : Int := v
def iadd (c v : Int) : Int := c + v
def isub (c v : Int) : Int := c - v
end PyInt

/-! ## list -/
namespace PyList

/-- CPython index normalisation for `l[i]`, `l[i] = v`, `l.pop(i)`:
`if i < 0: i += n`, then valid iff `0 <= i < n`. -/
def normIdx (n : Nat) (i : Int) : Option Nat :=
  let j : Int := if i < 0 then i + (n : Int) else i
  if 0 ≤ j ∧ j < (n : Int) then some j.toNat else .none

/-- `l[i]` -/
def getitem (l : List Int) (i : Int) : Except Err Int :=
  match normIdx l.length i with
  | some j => .ok (l.getD j 0)
  | .none => .error .IndexError

/-- `l[i] = v` -/
def setitem (l : List Int) (i : Int) (v : Int) : Except Err (List Int) :=
  match normIdx l.length i with
  | some j => .ok (l.set j v)
  | .none => .error .IndexError

def append (l : List Int) (v : Int) : List Int := l ++ [v]

def extend (l other : List Int) : List Int := l ++ other

/-- `list.insert`: `if i < 0: i += n; if i < 0: i = 0`; `if i > n: i = n`. -/
def insertPos (n : Nat) (i : Int) : Nat :=
  let j : Int := if i < 0 then i + (n : Int) else i
  if j < 0 then 0 else if j > (n : Int) then n else j.toNat

def insert (l : List Int) (i : Int) (v : Int) : List Int :=
  let p := insertPos l.length i
  l.take p ++ v :: l.drop p

/-- `l.remove(v)`: first occurrence, `ValueError` when absent. -/
def remove (l : List Int) (v : Int) : Except Err (List Int) :=
  if v ∈ l then .ok (l.erase v) else .error .ValueError

/-- `l.pop()` (no argument): `IndexError` on the empty list, else the last element. -/
def pop0 (l : List Int) : Except Err (Int × List Int) :=
  match l.getLast? with
  | .none => .error .IndexError
  | some x => .ok (x, l.dropLast)

/-- `l.pop(i)`: `IndexError` on the empty list or an invalid index. -/
def pop (l : List Int) (i : Int) : Except Err (Int × List Int) :=
  if l.length = 0 then .error .IndexError else
  match normIdx l.length i with
  | some j => .ok (l.getD j 0, l.eraseIdx j)
  | .none => .error .IndexError

/-- insertion into a list sorted w.r.t. `lt` (strict "comes before"), after all non-greater
elements: stable. -/
def insertSorted (lt : Int → Int → Bool) (x : Int) : List Int → List Int
  | [] => [x]
  | y :: ys => if lt x y then x :: y :: ys else y :: insertSorted lt x ys

def insertionSort (lt : Int → Int → Bool) : List Int → List Int
  | [] => []
  | x :: xs => insertSorted lt x (insertionSort lt xs)

/-- `l.sort(reverse=r)`: ascending, or descending when `r`.  (Stability is not observable on
ints without a `key`, which `ReplList.sort` does not offer.) -/
def sort (l : List Int) (reverse : Bool) : List Int :=
  if reverse then insertionSort (fun a b => decide (b < a)) l
  else insertionSort (fun a b => decide (a < b)) l

/-- `l.index(v)` -/
def index (l : List Int) (v : Int) : Except Err Nat :=
  if v ∈ l then .ok (l.idxOf v) else .error .ValueError

def count (l : List Int) (v : Int) : Nat := l.count v

end PyList

/-! ## dict: insertion-ordered association list with distinct keys -/
namespace PyDict

abbrev D := List (Int × Int)

def lookup (d : D) (k : Int) : Option Int :=
  match d with
  | [] => .none
  | (k', v) :: r => if k' = k then some v else lookup r k

def contains (d : D) (k : Int) : Bool := (lookup d k).isSome

/-- `d[k] = v`: an existing key keeps its position, a new key goes last. -/
def setitem (d : D) (k v : Int) : D :=
  match d with
  | [] => [(k, v)]
  | (k', v') :: r => if k' = k then (k, v) :: r else (k', v') :: setitem r k v

/-- `del d[k]` when present (no-op otherwise; callers test presence first). -/
def delete (d : D) (k : Int) : D :=
  match d with
  | [] => []
  | (k', v') :: r => if k' = k then r else (k', v') :: delete r k

/-- `dict(pairs)` / `d.update(pairs)`: left to right. -/
def update (d : D) (other : List (Int × Int)) : D :=
  other.foldl (fun acc kv => setitem acc kv.1 kv.2) d

def ofPairs (ps : List (Int × Int)) : D := update [] ps

/-- `d[k]` -/
def getitem (d : D) (k : Int) : Except Err Int :=
  match lookup d k with
  | some v => .ok v
  | .none => .error .KeyError

/-- `d.get(k, default)` (`default` omitted = `None`) -/
def get (d : D) (k : Int) (dflt : Option Int) : Val :=
  match lookup d k with
  | some v => .int v
  | .none => optVal dflt

/-- `d.pop(k, default)` with a default given (possibly `None`): never raises. -/
def popDefault (d : D) (k : Int) (dflt : Option Int) : Val × D :=
  match lookup d k with
  | some v => (.int v, delete d k)
  | .none => (optVal dflt, d)

/-- `d.setdefault(k, default)` -/
def setdefault (d : D) (k dflt : Int) : Int × D :=
  match lookup d k with
  | some v => (v, d)
  | .none => (dflt, setitem d k dflt)

def keys (d : D) : List Int := d.map (·.1)
def values (d : D) : List Int := d.map (·.2)

end PyDict

/-! ## set: canonical representation = strictly increasing list

Equality of abstract sets is equality of representations, so any function of the representation
is a function of the abstract set.  `set.pop()` returns "an arbitrary element": it is specified
relative to a choice function `choose` of the abstract set (see D20: CPython's choice is NOT a
function of the abstract set; it depends on the hash-table layout and the pop finger). -/
namespace PySet

abbrev S := List Int

def add (x : Int) : S → S
  | [] => [x]
  | y :: ys => if x < y then x :: y :: ys else if x = y then y :: ys else y :: add x ys

def ofList (l : List Int) : S := l.foldl (fun acc x => add x acc) []

def contains (s : S) (x : Int) : Bool := decide (x ∈ s)

def discard (s : S) (x : Int) : S := s.erase x

def remove (s : S) (x : Int) : Except Err S :=
  if x ∈ s then .ok (s.erase x) else .error .KeyError

def update (s : S) (other : List Int) : S := other.foldl (fun acc x => add x acc) s

/-- sort key of `min(data, key=lambda x: (type(x).__name__, repr(x)))` on ints: the type name is the
same for all elements, so the key is `repr(x)`, the decimal string, compared as Python compares
strings: lexicographically by code point, a proper prefix first (`'-1' < '-2' < '0' < '10' < '100' < '2'`).
Represented as the list of code points (`'-'` = 45, digits 48..57). -/
def reprKey (i : Int) : List Nat :=
  match i with
  | .ofNat n => (Nat.toDigits 10 n).map Char.toNat
  | .negSucc n => 45 :: (Nat.toDigits 10 (n + 1)).map Char.toNat

/-- `min(s, key=reprKey)`: the first element with the smallest key (keys of distinct ints differ, so
the iteration order does not matter); 0 on the empty set (never used: callers test emptiness) -/
def minRepr : S → Int
  | [] => 0
  | x :: xs => xs.foldl (fun m y => if reprKey y < reprKey m then y else m) x

/-! ### members beyond ints: the order by which `ReplSet.pop` chooses (`batteries._valueKey`, repair D85)

```
def _valueKey(x):
    if isinstance(x, (frozenset, set)): return (type(x).__name__, sorted(_valueKey(y) for y in x))
    if isinstance(x, tuple):            return (type(x).__name__, [_valueKey(y) for y in x])
    return (type(x).__name__, repr(x))
```
A set-valued member is given by an ENUMERATION of its members (the iteration order of its own hash table, which
differs between equal values); its key sorts the member keys, so it does not depend on the enumeration. -/

/-- code points of an ASCII string (type names) -/
def codes (s : String) : List Nat := s.toList.map Char.toNat

/-- a set member: int; any other atom (None, bool, str, ...) given by its type name and its repr; tuple; frozenset
given by an enumeration of its members -/
inductive Member
  | int (i : Int)
  | atom (ty r : List Nat)
  | tup (l : List Member)
  | fset (l : List Member)
  deriving Repr, Inhabited

/-- the sort key: `(type name, repr)` or `(type name, [keys])` -/
inductive Key
  | leaf (ty r : List Nat)
  | node (ty : List Nat) (ks : List Key)
  deriving Repr, Inhabited

/-- three-way lexicographic comparison of code-point lists (Python `str` comparison) -/
def cmpNats : List Nat → List Nat → Ordering
  | [], [] => .eq
  | [], _ :: _ => .lt
  | _ :: _, [] => .gt
  | a :: as, b :: bs => if a < b then .lt else if b < a then .gt else cmpNats as bs

mutual
/-- three-way comparison of two keys as Python compares the tuples `(str, str)` / `(str, list)`: type name first,
then the second component (keys with equal type names always have the same shape; leaf before node otherwise) -/
def Key.cmp : Key → Key → Ordering
  | .leaf t r, .leaf t' r' => (cmpNats t t').then (cmpNats r r')
  | .leaf t _, .node t' _ => (cmpNats t t').then .lt
  | .node t _, .leaf t' _ => (cmpNats t t').then .gt
  | .node t ks, .node t' ks' => (cmpNats t t').then (Key.cmpList ks ks')
/-- Python's list comparison: the first position where the lists differ decides; a proper prefix is smaller -/
def Key.cmpList : List Key → List Key → Ordering
  | [], [] => .eq
  | [], _ :: _ => .lt
  | _ :: _, [] => .gt
  | a :: as, b :: bs => (Key.cmp a b).then (Key.cmpList as bs)
end

/-- Python's `<` on keys -/
def Key.lt (a b : Key) : Bool := Key.cmp a b == .lt

/-- insertion sort w.r.t. a strict order given as a Boolean function (`sorted(...)`; stable) -/
def insertBy {α : Type} (lt : α → α → Bool) (x : α) : List α → List α
  | [] => [x]
  | y :: ys => if lt x y then x :: y :: ys else y :: insertBy lt x ys

def isortBy {α : Type} (lt : α → α → Bool) : List α → List α
  | [] => []
  | x :: xs => insertBy lt x (isortBy lt xs)

mutual
def valueKey : Member → Key
  | .int i => .leaf (codes "int") (reprKey i)
  | .atom ty r => .leaf ty r
  | .tup l => .node (codes "tuple") (valueKeys l)
  | .fset l => .node (codes "frozenset") (isortBy Key.lt (valueKeys l))
def valueKeys : List Member → List Key
  | [] => []
  | m :: ms => valueKey m :: valueKeys ms
end

/-- `min(enumeration, key=k)`: the first element with the smallest key, for ANY enumeration of the set's members
(= iteration order of the hash table) -/
def pickMinBy {α κ : Type} (lt : κ → κ → Bool) (k : α → κ) : List α → Option α
  | [] => .none
  | x :: xs => some (xs.foldl (fun m y => if lt (k y) (k m) then y else m) x)

/-- the member `ReplSet.pop` removes, given the hash table's iteration order -/
def chooseMember (l : List Member) : Option Member := pickMinBy Key.lt valueKey l

/-- index (in the enumeration) of the member chosen -/
def chooseIdx (l : List Member) : Option Nat :=
  match l with
  | [] => .none
  | x :: xs =>
    some ((xs.foldl (fun (acc : Nat × Key × Nat) y =>
      let ky := valueKey y
      if Key.lt ky acc.2.1 then (acc.2.2, ky, acc.2.2 + 1) else (acc.1, acc.2.1, acc.2.2 + 1)) (0, valueKey x, 1)).1)

/-- `s.pop()` relative to a choice function; a choice outside the set falls back to the head so the
function is total (`KeyError` on the empty set). -/
def pop (choose : S → Int) (s : S) : Except Err (Int × S) :=
  match s with
  | [] => .error .KeyError
  | h :: _ =>
    let c := choose s
    let x := if c ∈ s then c else h
    .ok (x, s.erase x)

end PySet

/-! ## collections.deque (the two calls `ReplQueue` uses) -/
namespace PyDeque

def append (d : List Int) (x : Int) : List Int := d ++ [x]

/-- `d.popleft()`: `IndexError` on the empty deque -/
def popleft (d : List Int) : Except Err (Int × List Int) :=
  match d with
  | [] => .error .IndexError
  | x :: r => .ok (x, r)

end PyDeque

/-! ## bounded FIFO (`queue.Queue(maxsize)` with the non-blocking calls) -/
namespace PyQueue

structure Q where
  maxsize : Nat
  data : List Int
  deriving DecidableEq, Repr

/-- `Queue.full()`: `0 < maxsize <= qsize()` -/
def full (q : Q) : Bool := decide (0 < q.maxsize ∧ q.maxsize ≤ q.data.length)

/-- `put_nowait`: `Full` when bounded and full -/
def putNowait (q : Q) (x : Int) : Except Err Q :=
  if full q then .error .Full else .ok { q with data := q.data ++ [x] }

/-- `get_nowait`: `Empty` when empty, else the oldest item -/
def getNowait (q : Q) : Except Err (Int × Q) :=
  match q.data with
  | [] => .error .Empty
  | x :: r => .ok (x, { q with data := r })

end PyQueue

/-! ## heapq (pure-Python `heappush`/`heappop`/`_siftdown`/`_siftup` of CPython 3.12 transcribed;
the heap is the Python list, `List.getD`/`List.set` = indexing) -/
namespace PyHeap

/-- the `while pos > startpos` loop of `_siftdown`, then `heap[pos] = newitem` -/
def siftdown (heap : List Int) (startpos pos : Nat) (newitem : Int) : List Int :=
  if pos > startpos then
    let parentpos := (pos - 1) / 2          -- (pos - 1) >> 1
    let parent := heap.getD parentpos 0
    if newitem < parent then
      siftdown (heap.set pos parent) startpos parentpos newitem
    else heap.set pos newitem
  else heap.set pos newitem
termination_by pos
decreasing_by omega

/-- the `while childpos < endpos` loop of `_siftup`: bubbles the smaller child up until a leaf;
returns the heap and the final `pos`. -/
def siftupLoop (heap : List Int) (endpos pos : Nat) : List Int × Nat :=
  let childpos := 2 * pos + 1
  if childpos < endpos then
    let rightpos := childpos + 1
    let childpos' :=
      if rightpos < endpos ∧ ¬ (heap.getD childpos 0 < heap.getD rightpos 0) then rightpos else childpos
    siftupLoop (heap.set pos (heap.getD childpos' 0)) endpos childpos'
  else (heap, pos)
termination_by endpos - pos
decreasing_by all_goals (split <;> omega)

/-- `_siftup(heap, pos)` -/
def siftup (heap : List Int) (pos : Nat) : List Int :=
  let endpos := heap.length
  let startpos := pos
  let newitem := heap.getD pos 0
  let (heap', pos') := siftupLoop heap endpos pos
  siftdown heap' startpos pos' newitem

/-- `heapq.heappush(heap, item)` -/
def heappush (heap : List Int) (item : Int) : List Int :=
  let heap := heap ++ [item]
  siftdown heap 0 (heap.length - 1) (heap.getD (heap.length - 1) 0)

/-- `heapq.heappop(heap)`; `IndexError` on the empty heap -/
def heappop (heap : List Int) : Except Err (Int × List Int) :=
  match heap.getLast? with
  | .none => .error .IndexError
  | some lastelt =>
    let heap := heap.dropLast
    if heap.length ≠ 0 then
      let returnitem := heap.getD 0 0
      let heap := heap.set 0 lastelt
      .ok (returnitem, siftup heap 0)
    else .ok (lastelt, heap)

/-- abstract bounded priority queue (`queue.PriorityQueue` seen from outside): sorted list -/
def insertAsc (x : Int) : List Int → List Int
  | [] => [x]
  | y :: ys => if x ≤ y then x :: y :: ys else y :: insertAsc x ys

end PyHeap

end PSO.Py
