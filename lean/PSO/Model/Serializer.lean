import PSO.Model.Basic

/-! # Model of `pysyncobj/serializer.py` (+ `atomic_replace.py`) — the byte / transfer / dump-file layer of C09

One `Ser` value mirrors one `Serializer` object: *both* roles (a node sends its snapshot as leader and
receives one as follower with the same object).  What is opaque in the code is opaque here:
`gzip(pickle(data))` is just a byte string, handed in as the list of pieces in which it is written
(`pieces.flatten` = the image; every split is allowed, so OS-level buffering / partial writes are covered).

File names: `dump` = `fileName`, `tmp` = `fileName + '.tmp'` (dump write), `tmp1` = `fileName + '.1.tmp'`
(incoming transfer).  In memory mode (`fileName is None`) the same three slots stand for
`__inMemorySerializedData` (`dump`) and the bytes object `__incomingTransmissionFile` (`tmp1`, present iff
`incOpen`); `tmp` is unused.  `rename` (= `atomicReplace` = `os.rename`) is one atomic primitive: assumption.

A transmission (`__transmissions[node]`) is `(data, off)`: `data` = the bytes object (memory) or the content
of the inode the open handle refers to (file; nobody writes a dump in place, a renamed-over inode keeps its
content), `off` = `'transmitted'` = file position.
-/
namespace PSO.Serializer

-- ------------------------------------------------------------------------------------------------
-- primitive file operations (so that "crash after k primitive operations" is expressible)
-- ------------------------------------------------------------------------------------------------

inductive FName | dump | tmp | tmp1 | snap
  deriving DecidableEq, Repr

structure FS where
  dump : Option Bytes := none
  tmp  : Option Bytes := none
  tmp1 : Option Bytes := none
  /-- memory mode only: the bytes object `__incomingSnapshot` (in file mode that is the file `tmp1` itself) -/
  snap : Option Bytes := none
  deriving DecidableEq, Repr

def FS.get (fs : FS) : FName → Option Bytes
  | .dump => fs.dump | .tmp => fs.tmp | .tmp1 => fs.tmp1 | .snap => fs.snap

def FS.set (fs : FS) (f : FName) (v : Option Bytes) : FS :=
  match f with
  | .dump => { fs with dump := v } | .tmp => { fs with tmp := v } | .tmp1 => { fs with tmp1 := v }
  | .snap => { fs with snap := v }

inductive FsOp
  /-- `open(name, 'wb')`: create or truncate -/
  | openW (f : FName)
  /-- one primitive write through the open handle (append) -/
  | write (f : FName) (b : Bytes)
  /-- `close` (content unchanged: every primitive write is already in the file) -/
  | close (f : FName)
  /-- `os.rename(src, dst)`: atomic; a missing source raises and changes nothing -/
  | rename (src dst : FName)
  /-- `os.remove(name)` (a missing file raises `OSError`, which the caller ignores) -/
  | remove (f : FName)
  deriving DecidableEq, Repr

def FS.apply (fs : FS) : FsOp → FS
  | .openW f => fs.set f (some [])
  | .write f b => match fs.get f with
    | some c => fs.set f (some (c ++ b))
    | none => fs                       -- (never produced: every write follows an openW)
  | .close _ => fs
  | .rename s d => match fs.get s with
    | some c => (fs.set d (some c)).set s none
    | none => fs
  | .remove f => fs.set f none

def FS.run (fs : FS) (ops : List FsOp) : FS := ops.foldl FS.apply fs

/-- The file system a process killed after `k` primitive operations of `ops` leaves behind. -/
def FS.crashAt (fs : FS) (ops : List FsOp) (k : Nat) : FS := fs.run (ops.take k)

/-- What the writer of a dump does (in fork mode: the child): tmp is opened, written piecewise, closed, then renamed
over the dump.  `fail = true`: an exception ends the writing (the `with` still closes), no rename. -/
def dumpWriteOps (pieces : List Bytes) (fail : Bool) : List FsOp :=
  [.openW .tmp] ++ pieces.map (.write .tmp) ++ [.close .tmp] ++ (if fail then [] else [.rename .tmp .dump])

/-- Primitive operations of `serialize` in file mode (D84 repair): first a left-over `<dump>.tmp` is removed (by the
calling process, before a fork), so that the new temporary file is a new inode that no orphaned writer of an earlier
incarnation holds open; then the dump write. -/
def serializeOps (pieces : List Bytes) (fail : Bool) : List FsOp :=
  .remove .tmp :: dumpWriteOps pieces fail

-- ------------------------------------------------------------------------------------------------
-- the Serializer object
-- ------------------------------------------------------------------------------------------------

inductive Mode | memory | file
  deriving DecidableEq, Repr

/-- `__pid`: `0` / `-1` / `-2` / pid of a running fork child -/
inductive Pid | idle | doneOk | doneFail | child
  deriving DecidableEq, Repr

/-- `SERIALIZER_STATE` -/
inductive Status | notSerializing | serializing | success | failed
  deriving DecidableEq, Repr

structure Trans where
  data : Bytes
  off  : Nat
  deriving DecidableEq, Repr

structure Chunk where
  data    : Bytes
  isFirst : Bool
  isLast  : Bool
  deriving DecidableEq, Repr

/-- the fork child: primitive operations it still has to perform, and its exit status -/
structure Child where
  ops : List FsOp
  ok  : Bool
  deriving DecidableEq, Repr

structure Ser where
  mode    : Mode
  fork    : Bool := false          -- `__useFork`
  batch   : Nat                    -- `__transmissionBatchSize`
  pid     : Pid := .idle
  curId   : Nat := 0               -- `__currentID`
  fs      : FS := {}
  trans   : List (Nat × Trans) := []   -- `__transmissions` (key = destination node)
  incOpen : Bool := false          -- `__incomingTransmissionFile is not None`
  incSnap : Bool := false          -- `__incomingSnapshot is not None` (a completely received, not yet installed snapshot)
  child   : Option Child := none
  /-- remaining operations of a dump writer forked by an EARLIER incarnation of the node (D84): it survived the kill of
  its parent; with the repair it never opens, removes or renames anything any more -/
  orphan  : Option (List FsOp) := none
  /-- the file the orphan holds open is still the one at `<dump>.tmp` (no later incarnation has started a dump yet) -/
  orphLinked : Bool := false
  deriving DecidableEq, Repr

def tlookup (n : Nat) : List (Nat × Trans) → Option Trans
  | [] => none
  | (k, t) :: r => if k = n then some t else tlookup n r

def terase (n : Nat) (l : List (Nat × Trans)) : List (Nat × Trans) := l.filter (fun p => p.1 ≠ n)

def tinsert (n : Nat) (t : Trans) (l : List (Nat × Trans)) : List (Nat × Trans) := (n, t) :: terase n l

/-- what the code calls the "in-memory case" of `checkSerializing` (line 36) -/
def Ser.memBranch (s : Ser) : Bool := s.mode == .memory || !s.fork

/-- `serialize(data, id)`; `pieces` = the encoded image as written, `fail` = encoding raises.
Returns `raised = true` when the exception escapes (memory mode only, lines 70-73 are outside the `try`). -/
def Ser.serialize (s : Ser) (id : Nat) (pieces : List Bytes) (fail : Bool) : Ser × Bool :=
  if s.pid ≠ .idle then (s, false) else
  let s := { s with curId := id }
  match s.mode with
  | .memory =>
    if fail then (s, true)
    else ({ s with fs := s.fs.set .dump (some pieces.flatten), pid := .doneOk }, false)
  | .file =>
    -- the left-over tmp file is removed by the caller; from here on an orphan's file is not the one at `<dump>.tmp`
    let fs1 := s.fs.apply (.remove .tmp)
    if s.fork then
      ({ s with fs := fs1, orphLinked := false, pid := .child, child := some ⟨dumpWriteOps pieces fail, !fail⟩ }, false)
    else
      -- tmp was just created by `openW`, so the rename (when reached) cannot fail
      ({ s with fs := fs1.run (dumpWriteOps pieces fail), orphLinked := false,
                pid := if fail then .doneFail else .doneOk }, false)

/-- one primitive operation of the fork child (it shares the file system, nothing else) -/
def Ser.childStep (s : Ser) : Ser :=
  match s.child with
  | some ⟨op :: rest, ok⟩ => { s with fs := s.fs.apply op, child := some ⟨rest, ok⟩ }
  | _ => s

/-- the fork child is killed (signal) or exits with a non-zero status before finishing: it performs nothing more,
and `waitpid` will report a non-zero wait status -/
def Ser.childKill (s : Ser) : Ser :=
  match s.child with
  | some ⟨_ :: _, _⟩ => { s with child := some ⟨[], false⟩ }
  | _ => s

/-- `checkSerializing()`; `checker` = result of the user's `serializeChecker` when one is configured -/
def Ser.checkSerializing (s : Ser) (checker : Option Status) : Ser × Status × Option Nat :=
  match checker with
  | some st =>
    let s' := if st = .success ∨ st = .failed then { s with pid := .idle } else s
    (s', st, some s.curId)
  | none =>
    if s.memBranch then
      match s.pid with
      | .doneOk => ({ s with pid := .idle, trans := [] }, .success, some s.curId)
      | .doneFail => ({ s with pid := .idle, trans := [] }, .failed, some s.curId)
      | _ => (s, .notSerializing, none)
    else
      match s.pid with
      | .idle => (s, .notSerializing, none)
      | _ =>
        match s.child with
        | some ⟨[], true⟩ => ({ s with pid := .idle, trans := [], child := none }, .success, some s.curId)
        | some ⟨[], false⟩ => ({ s with pid := .idle, child := none }, .failed, some s.curId)
        | some _ => (s, .serializing, some s.curId)
        | none => ({ s with pid := .idle }, .failed, some s.curId)     -- waitpid raises OSError

/-- the chunk read at offset `o` of `d` with batch size `c` -/
def chunkAt (c : Nat) (d : Bytes) (o : Nat) : Chunk :=
  let data := (d.drop o).take c
  ⟨data, o == 0, data.isEmpty⟩

/-- the transmission a call `getTransmissionData(node)` continues, or the one it opens
(`open(fileName)` / the reference to the bytes; `none`: there is no dump, the open fails) -/
def Ser.cur (s : Ser) (n : Nat) : Option Trans :=
  match tlookup n s.trans with
  | some t => some t
  | none => s.fs.dump.map (fun d => ⟨d, 0⟩)

/-- `getTransmissionData(node)`; `none` = the method returns `None` -/
def Ser.getTransmissionData (s : Ser) (n : Nat) : Ser × Option Chunk :=
  if s.pid ≠ .idle then (s, none) else
  match s.cur n with
  | none => (s, none)
  | some t =>
    let ch := chunkAt s.batch t.data t.off
    let trans' := if ch.isLast then terase n s.trans
                  else tinsert n ⟨t.data, t.off + ch.data.length⟩ s.trans
    ({ s with trans := trans' }, some ch)

/-- `cancelTransmisstion(node)` -/
def Ser.cancel (s : Ser) (n : Nat) : Ser := { s with trans := terase n s.trans }

/-- primitive operations of `setTransmissionData` on an accepted chunk (in memory mode the same operations on the
bytes object).  `wasOpen`: a handle of an abandoned transfer is still open and is closed before the file is truncated.
The last chunk only closes the file: the complete transfer stays in `<dump>.1.tmp` (memory mode: the buffer becomes
the separate object `__incomingSnapshot`, written here as a rename to the slot `snap`) until `finishIncoming`. -/
def receiveOps (mode : Mode) (wasOpen : Bool) (c : Chunk) : List FsOp :=
  (if c.isFirst then (if wasOpen then [.close .tmp1] else []) ++ [.openW .tmp1] else []) ++ [.write .tmp1 c.data]
    ++ (if c.isLast then [.close .tmp1] ++ (match mode with | .memory => [.rename .tmp1 .snap] | .file => []) else [])

/-- the primitive operations a call `setTransmissionData(chunk)` performs (none when it is refused) -/
def Ser.acceptOps (s : Ser) : Option Chunk → List FsOp
  | none => []
  | some c => if !c.isFirst && !s.incOpen then [] else receiveOps s.mode s.incOpen c

/-- `setTransmissionData(chunk)`; the `Bool` is the return value (`True` = a complete snapshot has been received;
it is NOT the stored snapshot yet, D70) -/
def Ser.setTransmissionData (s : Ser) (c? : Option Chunk) : Ser × Bool :=
  match c? with
  | none => (s, false)
  | some c =>
    if !c.isFirst && !s.incOpen then (s, false) else
    ({ s with fs := s.fs.run (receiveOps s.mode s.incOpen c), incOpen := !c.isLast,
              incSnap := c.isLast || s.incSnap }, c.isLast)

/-- where the completely received snapshot lives -/
def Ser.snapSlot (s : Ser) : FName := match s.mode with | .memory => .snap | .file => .tmp1

/-- what `deserialize(incoming=True)` reads: the received snapshot when there is one, else the stored one -/
def Ser.incoming (s : Ser) : Option Bytes := if s.incSnap then s.fs.get s.snapSlot else s.fs.dump

/-- primitive operations of `finishIncoming(accept)` -/
def Ser.finishOps (s : Ser) (accept : Bool) : List FsOp :=
  if !s.incSnap then [] else if accept then [.rename s.snapSlot .dump] else [.remove s.snapSlot]

/-- `finishIncoming(accept)`: the received snapshot becomes the stored one (after a running fork child of an own,
older dump was killed and reaped: D66) or is thrown away.  Returns `False` only when the rename fails. -/
def Ser.finishIncoming (s : Ser) (accept : Bool) : Ser × Bool :=
  if !s.incSnap then (s, true) else
  let stop := accept && s.mode == .file && s.fork && s.pid == .child
  ({ s with fs := s.fs.run (s.finishOps accept), incSnap := false,
            pid := if stop then .idle else s.pid, child := if stop then none else s.child },
   !accept || (s.fs.get s.snapSlot).isSome)

/-- what `deserialize()` reads (`none` = no data / no file: the call raises) -/
def Ser.stored (s : Ser) : Option Bytes := s.fs.dump

/-- a process restart on the same files: only the files survive (memory mode: nothing) — and, in file mode, a fork
child that was writing a dump: it is not killed with its parent (D84).  With the repair the orphan exits at once when it
has not opened its file yet (`__exitIfOrphan` at its start) and exits instead of renaming at the end; what is left of
its operations are writes to / the close of the file it holds open. -/
def Ser.restart (s : Ser) : Ser :=
  { mode := s.mode, fork := s.fork, batch := s.batch,
    fs := match s.mode with | .memory => {} | .file => s.fs,
    orphan := match s.mode, s.child with
      | .file, some ⟨ops, _⟩ =>
        if ops.any (fun o => o == .openW .tmp) then none
        else some (ops.filter (fun o => match o with | .write .tmp _ => true | .close .tmp => true | _ => false))
      | _, _ => s.orphan,
    orphLinked := match s.mode, s.child with
      | .file, some ⟨ops, _⟩ => !(ops.any (fun o => o == .openW .tmp))
      | _, _ => s.orphLinked }

/-- one primitive operation of the orphaned writer: it reaches the file system only while its file is still the one at
`<dump>.tmp` -/
def Ser.orphanStep (s : Ser) : Ser :=
  match s.orphan with
  | some (op :: rest) => { s with fs := if s.orphLinked then s.fs.apply op else s.fs, orphan := some rest }
  | _ => s

def Ser.orphanRun (s : Ser) : Nat → Ser
  | 0 => s
  | n + 1 => Ser.orphanRun s.orphanStep n

-- ------------------------------------------------------------------------------------------------
-- whole transfers
-- ------------------------------------------------------------------------------------------------

/-- the send burst of `__sendAppendEntries` lines 1221-1241 for one node: chunks are produced until the
last one (or `None`), at most `budget` of them (the wall-clock cut-off) -/
def Ser.burst (s : Ser) (n : Nat) : Nat → Ser × List (Option Chunk)
  | 0 => (s, [])
  | b + 1 =>
    match s.getTransmissionData n with
    | (s', none) => (s', [none])
    | (s', some ch) =>
      if ch.isLast then (s', [some ch])
      else let r := Ser.burst s' n b; (r.1, some ch :: r.2)

/-- feed a list of messages to a receiver; collects the return values -/
def Ser.feed (r : Ser) : List (Option Chunk) → Ser × List Bool
  | [] => (r, [])
  | c :: cs =>
    let (r', b) := r.setTransmissionData c
    let res := Ser.feed r' cs
    (res.1, b :: res.2)

/-- all primitive operations performed while the messages are fed, in order -/
def Ser.feedOps (r : Ser) : List (Option Chunk) → List FsOp
  | [] => []
  | c :: cs => r.acceptOps c ++ Ser.feedOps (r.setTransmissionData c).1 cs

-- ------------------------------------------------------------------------------------------------
-- one sender, one receiver, one connection: the system `interrupted_safe` is about
-- ------------------------------------------------------------------------------------------------

structure Link where
  snd  : Ser
  rcv  : Ser
  /-- `serialized` fields of the snapshot messages in flight on the current connection (FIFO) -/
  chan : List (Option Chunk) := []
  /-- ghost: every byte string the sender's store has held -/
  held : List Bytes := []
  /-- ghost: the received snapshot (what `deserialize(incoming=True)` reads) after every `setTransmissionData` that
  returned `True` -/
  completed : List Bytes := []
  deriving Repr

/-- the destination key under which the sender of a `Link` files this receiver -/
def peer : Nat := 0

inductive Ev
  /-- leader sends one snapshot message to the peer -/
  | send
  /-- leader sends a burst with the given budget -/
  | burst (budget : Nat)
  /-- leader sends a snapshot message to some *other* node `n + 1` (its transmission is independent) -/
  | sendOther (n : Nat)
  /-- the head of the channel reaches the follower's install branch; when it completes a transfer,
      `__loadDumpFile(clearJournal=True)` follows: `fin = some accept` = it calls `finishIncoming(accept)` (the
      decision belongs to the replication core), `none` = it raised before (undecodable bytes) -/
  | deliver (fin : Option Bool)
  /-- the connection is replaced: everything in flight is lost (deliver first what did arrive).
      `cancels` = the sender is told (`__onNodeDisconnected` / `__onNodeConnected` with the D18 repair);
      the pinned code corresponds to `cancels = false`. -/
  | reconnect (cancels : Bool)
  /-- `cancelTransmisstion(peer)` from the send loop -/
  | cancel
  /-- sender: `serialize` of a new snapshot -/
  | serialize (id : Nat) (pieces : List Bytes) (fail : Bool)
  /-- sender: `checkSerializing` -/
  | check (checker : Option Status)
  /-- sender: one primitive operation of its fork child -/
  | childStep
  /-- sender: its store is replaced by a snapshot it received from a third node -/
  | sndInstall (d : Bytes)
  /-- follower: own compaction (`serialize`, `checkSerializing`, fork child) while a transfer may be open -/
  | rcvSerialize (id : Nat) (pieces : List Bytes) (fail : Bool)
  | rcvCheck (checker : Option Status)
  | rcvChildStep
  /-- follower process is killed and restarted (connection is replaced too) -/
  | rcvRestart (cancels : Bool)
  deriving Repr

def Link.noteHeld (l : Link) : Link :=
  match l.snd.fs.dump with
  | some d => { l with held := d :: l.held }
  | none => l

def Link.step (l : Link) : Ev → Link
  | .send =>
    let (s', c) := l.snd.getTransmissionData peer
    { l with snd := s', chan := l.chan ++ [c] }
  | .burst b =>
    let (s', cs) := l.snd.burst peer b
    { l with snd := s', chan := l.chan ++ cs }
  | .sendOther n =>
    { l with snd := (l.snd.getTransmissionData (n + 1)).1 }
  | .deliver fin =>
    match l.chan with
    | [] => l
    | c :: rest =>
      let (r', done) := l.rcv.setTransmissionData c
      let comp := if done then (match r'.incoming with | some d => d :: l.completed | none => l.completed)
                  else l.completed
      let r'' := if done then (match fin with | some accept => (r'.finishIncoming accept).1 | none => r') else r'
      { l with rcv := r'', chan := rest, completed := comp }
  | .reconnect cancels =>
    { l with chan := [], snd := if cancels then l.snd.cancel peer else l.snd }
  | .cancel => { l with snd := l.snd.cancel peer }
  | .serialize id pieces fail =>
    ({ l with snd := (l.snd.serialize id pieces fail).1 }).noteHeld
  | .check ck => { l with snd := (l.snd.checkSerializing ck).1 }
  | .childStep => ({ l with snd := l.snd.childStep }).noteHeld
  | .sndInstall d =>
    ({ l with snd := ((l.snd.feed [some ⟨d, true, false⟩, some ⟨[], false, true⟩]).1.finishIncoming true).1 }).noteHeld
  | .rcvSerialize id pieces fail => { l with rcv := (l.rcv.serialize id pieces fail).1 }
  | .rcvCheck ck => { l with rcv := (l.rcv.checkSerializing ck).1 }
  | .rcvChildStep => { l with rcv := l.rcv.childStep }
  | .rcvRestart cancels =>
    { l with rcv := l.rcv.restart, chan := [], snd := if cancels then l.snd.cancel peer else l.snd }

def Link.run (l : Link) (evs : List Ev) : Link := evs.foldl Link.step l

/-- initial link: two fresh `Serializer` objects (any mode / fork flag / batch sizes) -/
def Link.init (sm rm : Mode) (sf rf : Bool) (sb rb : Nat) : Link :=
  { snd := { mode := sm, fork := sf, batch := sb }, rcv := { mode := rm, fork := rf, batch := rb } }

/-- an event of the *repaired* code: every replacement of the connection cancels the transmission -/
def Ev.repaired : Ev → Bool
  | .reconnect c => c
  | .rcvRestart c => c
  | _ => true

end PSO.Serializer
