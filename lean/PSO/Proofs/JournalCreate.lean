import PSO.Proofs.JournalRun
/-! Creation of the journal file (`ResizableFile.__init__` on a missing / zero-length file, D74) and
its kill points. -/
namespace PSO.Journal

theorem zeros_add (a b : Nat) : zeros (a + b) = zeros a ++ zeros b := by
  simp [zeros, List.replicate_append_replicate]

/-- `openCore` when the file still has to grow to `INITIAL_SIZE` and then satisfies the invariant. -/
theorem openCore_grow_of_DInv {d : Disk} {es} (ver : Bytes) (p0 : List Prim)
    (h0 : d.file.length ≠ 0) (h1 : d.file.length < INITIAL_SIZE)
    (h : DInv (resizeFile d.file INITIAL_SIZE) es) :
    openCore ver d p0 = .ok ({ disk := { d with file := resizeFile d.file INITIAL_SIZE }, entries := es,
                                cur := 40 + encLen es, mci := d.metaFile, metaSaved := true, ver := ver },
                              p0 ++ [.resize INITIAL_SIZE]) := by
  obtain ⟨hl, hv, hsz⟩ := h
  have hh := hl.rdHdr hv.1
  obtain ⟨pre, g, hp, hf⟩ := hl
  have hs := scan_layout es (pre ++ leEnc 4 (40 + encLen es)) g (resizeFile d.file INITIAL_SIZE) 40
    (40 + encLen es) hf (by simp [hp]) rfl hv.1 hv.2
  simp only [openCore, h0, if_false, h1, if_true, applyPrims, List.foldl_cons, List.foldl_nil, applyPrim,
    LAST_RECORD_OFFSET_OFFSET, hh, FIRST_RECORD_OFFSET, hs]

/-- `openCore` on a file whose header word is at most 40: an empty journal. -/
theorem openCore_small_word {d : Disk} (ver : Bytes) (p0 : List Prim)
    (h0 : d.file.length ≠ 0) (h1 : d.file.length < INITIAL_SIZE) {w : Nat} (hw : w ≤ 40)
    (hr : rdU32 (resizeFile d.file INITIAL_SIZE) 36 = some w) :
    openCore ver d p0 = .ok ({ disk := { d with file := resizeFile d.file INITIAL_SIZE }, entries := [],
                                cur := 40, mci := d.metaFile, metaSaved := true, ver := ver },
                              p0 ++ [.resize INITIAL_SIZE]) := by
  have hs : scan (resizeFile d.file INITIAL_SIZE) w 40 = .ok ([], 40) := by
    rw [scan]; simp [show ¬ 40 < w by omega]
  simp only [openCore, h0, if_false, h1, if_true, applyPrims, List.foldl_cons, List.foldl_nil, applyPrim,
    LAST_RECORD_OFFSET_OFFSET, hr, FIRST_RECORD_OFFSET, hs]

/-- Opening a missing / zero-length journal file creates it: exactly `create ver` (on that disk). -/
theorem openDisk_empty (ver : Bytes) (hver : ver.length ≤ 8) (d : Disk) (h : d.file.length = 0) :
    openDisk ver d = .ok ({ disk := { d with file := resizeFile (defaultHeader ver) INITIAL_SIZE },
                            entries := [], cur := 40, mci := d.metaFile, metaSaved := true, ver := ver },
                          createPrims ver ++ [.resize INITIAL_SIZE]) := by
  have hlen := defaultHeader_length ver hver
  have hd := DInv_fresh ver hver
  simp only [openDisk, h, if_true]
  have := openCore_grow_of_DInv (d := applyPrims d (createPrims ver)) (es := []) ver (createPrims ver)
    (by simp [createPrims, applyPrim, hlen]) (by simp [createPrims, applyPrim, hlen, INITIAL_SIZE])
    (by simpa [createPrims, applyPrim] using hd)
  simpa [createPrims, applyPrim, encLen] using this

/-- The header word of a torn default header, after the zero fill to `INITIAL_SIZE`, is 0 or 40. -/
theorem torn_header_word (pre : Bytes) (hp : pre.length = 36) (t : Nat) (ht : 0 < t) :
    ∃ w, w ≤ 40 ∧ rdU32 (resizeFile ((pre ++ leEnc 4 40).take t) INITIAL_SIZE) 36 = some w := by
  by_cases h36 : t ≤ 36
  · refine ⟨0, by omega, ?_⟩
    have htk : (pre ++ leEnc 4 40).take t = pre.take t := List.take_append_of_le_length (by omega)
    have hl : (pre.take t).length = t := by simp; omega
    rw [htk, resizeFile_ge (by rw [hl]; simp [INITIAL_SIZE]; omega), hl]
    have hz : zeros (INITIAL_SIZE - t) = zeros (36 - t) ++ (zeros 4 ++ zeros 984) := by
      rw [← zeros_add, ← zeros_add]; congr 1; simp [INITIAL_SIZE]; omega
    have hsplit : pre.take t ++ zeros (INITIAL_SIZE - t) = (pre.take t ++ zeros (36 - t)) ++ zeros 4 ++ zeros 984 := by
      rw [hz]; simp [List.append_assoc]
    have := rd_at (off := 36) (n := 4) hsplit (by simp [zeros, hp]; omega) (by simp [zeros])
    simp only [rdU32, this]
    decide
  · refine ⟨40, by omega, ?_⟩
    have hm : ∃ m, t = 36 + m ∧ 0 < m := ⟨t - 36, by omega, by omega⟩
    obtain ⟨m, rfl, hm0⟩ := hm
    have htk : (pre ++ leEnc 4 40).take (36 + m) = pre ++ (leEnc 4 40).take m := by
      rw [List.take_append, List.take_of_length_le (by omega)]; congr 2; omega
    have key : ∃ g, resizeFile (pre ++ (leEnc 4 40).take m) INITIAL_SIZE = pre ++ leEnc 4 40 ++ g := by
      have h4 : m = 1 ∨ m = 2 ∨ m = 3 ∨ 4 ≤ m := by omega
      rcases h4 with rfl | rfl | rfl | h4
      · refine ⟨zeros 984, ?_⟩
        rw [resizeFile_ge (by simp [hp, INITIAL_SIZE, leEnc])]
        have : INITIAL_SIZE - (pre ++ (leEnc 4 40).take 1).length = 3 + 984 := by simp [hp, INITIAL_SIZE, leEnc]
        rw [this, zeros_add]
        have e : (leEnc 4 40).take 1 ++ zeros 3 = leEnc 4 40 := by decide
        rw [← e]; simp [List.append_assoc]
      · refine ⟨zeros 984, ?_⟩
        rw [resizeFile_ge (by simp [hp, INITIAL_SIZE, leEnc])]
        have : INITIAL_SIZE - (pre ++ (leEnc 4 40).take 2).length = 2 + 984 := by simp [hp, INITIAL_SIZE, leEnc]
        rw [this, zeros_add]
        have e : (leEnc 4 40).take 2 ++ zeros 2 = leEnc 4 40 := by decide
        rw [← e]; simp [List.append_assoc]
      · refine ⟨zeros 984, ?_⟩
        rw [resizeFile_ge (by simp [hp, INITIAL_SIZE, leEnc])]
        have : INITIAL_SIZE - (pre ++ (leEnc 4 40).take 3).length = 1 + 984 := by simp [hp, INITIAL_SIZE, leEnc]
        rw [this, zeros_add]
        have e : (leEnc 4 40).take 3 ++ zeros 1 = leEnc 4 40 := by decide
        rw [← e]; simp [List.append_assoc]
      · refine ⟨zeros 984, ?_⟩
        rw [List.take_of_length_le (by simp; omega), resizeFile_ge (by simp [hp, INITIAL_SIZE])]
        congr 1; simp [hp, INITIAL_SIZE]
    obtain ⟨g, hg⟩ := key
    rw [htk, hg]
    have := rd_at (off := 36) (n := 4) (A := pre) (B := leEnc 4 40) (C := g) rfl hp (by simp)
    simp only [rdU32, this]
    decide

theorem defaultHeader_split (ver : Bytes) (hver : ver.length ≤ 8) :
    ∃ pre, pre.length = 36 ∧ defaultHeader ver = pre ++ leEnc 4 40 := by
  have hn : (padTo APP_NAME NAME_SIZE).length = 24 := by decide
  have hvl : (padTo ver VERSION_SIZE).length = 8 := by simp [padTo, zeros, VERSION_SIZE]; omega
  exact ⟨padTo APP_NAME NAME_SIZE ++ padTo ver VERSION_SIZE ++ leEnc 4 1, by simp [hn, hvl],
    by simp [defaultHeader, FIRST_RECORD_OFFSET]⟩

/-- A journal file that holds any prefix of the default header (what a kill at any point of the
creation leaves) opens as an empty journal. -/
theorem openDisk_header_prefix (ver : Bytes) (hver : ver.length ≤ 8) (d : Disk) (t : Nat)
    (hf : d.file = (defaultHeader ver).take t) :
    ∃ j ps, openDisk ver d = .ok (j, ps) ∧ j.entries = [] ∧ j.cur = 40 ∧ j.mci = d.metaFile := by
  by_cases h0 : d.file.length = 0
  · exact ⟨_, _, openDisk_empty ver hver d h0, rfl, rfl, rfl⟩
  · obtain ⟨pre, hp, hsplit⟩ := defaultHeader_split ver hver
    have hlen := defaultHeader_length ver hver
    have ht : 0 < t := by
      rcases Nat.eq_zero_or_pos t with rfl | h
      · rw [hf] at h0; simp at h0
      · exact h
    have hsmall : d.file.length < INITIAL_SIZE := by
      rw [hf, List.length_take, hlen]; simp [INITIAL_SIZE]; omega
    obtain ⟨w, hw, hr⟩ := torn_header_word pre hp t ht
    rw [← hsplit, ← hf] at hr
    simp only [openDisk, h0, if_false]
    exact ⟨_, _, openCore_small_word ver [] h0 hsmall hw hr, rfl, rfl, rfl⟩

end PSO.Journal
