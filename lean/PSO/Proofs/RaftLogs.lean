import PSO.Proofs.RaftLists

/-! # `InvL` (logs, term logs, messages) is an inductive invariant (given `InvE`) -/
namespace PSO.Raft

/-- How a node may change in a step that touches neither its log nor makes it a candidate/leader. -/
def NodeL (a b : NodeSt) : Prop :=
  b.log = a.log ∧ a.term ≤ b.term ∧ ((b.role = a.role ∧ b.term = a.term) ∨ b.role = .follower)

theorem NodeL.refl (a : NodeSt) : NodeL a a := ⟨rfl, Nat.le_refl _, Or.inl ⟨rfl, rfl⟩⟩

theorem nodeL_setNode {s : State} {n : Nat} {ns' : NodeSt} (h : NodeL (s.nodes n) ns') :
    ∀ k, NodeL (s.nodes k) ((setNode s n ns').nodes k) := by
  intro k
  by_cases hk : k = n
  · subst hk; simpa using h
  · rw [setNode_nodes_ne _ _ hk]; exact NodeL.refl _

theorem invL_frame {N : Nat} {s s' : State} (h : InvL N s)
    (htl : s'.g.termLog = s.g.termLog) (hl : s'.g.leaderOf = s.g.leaderOf)
    (hm : ∀ m ∈ s'.msgs, m.isLogMsg = true → m ∈ s.msgs)
    (hn : ∀ n, NodeL (s.nodes n) (s'.nodes n)) : InvL N s' := by
  constructor
  · intro n; rw [(hn n).1]; exact h.log_sent n
  · rw [htl]; exact h.tl_zero
  · rw [htl]; exact h.tl_sent
  · rw [htl, hl]; exact h.tl_ldr
  · rw [hl]; exact h.ldr_pos
  · intro n hr
    rcases (hn n).2.2 with ⟨hr', ht⟩ | hf
    · rw [hl, ht]; exact h.cand_not_ldr n (hr' ▸ hr)
    · rw [hf] at hr; cases hr
  · rw [htl]; exact h.tl_terms
  · rw [htl]; exact h.tl_l2
  · intro n j hj; rw [(hn n).1] at hj ⊢; rw [htl]; exact h.log_l2 n j hj
  · intro n e he; rw [(hn n).1] at he
    exact Nat.le_trans (h.log_terms n e he) (hn n).2.1
  · intro n hr
    rcases (hn n).2.2 with ⟨hr', ht⟩ | hf
    · rw [(hn n).1, ht, htl]; exact h.ldr_log n (hr' ▸ hr)
    · rw [hf] at hr; cases hr
  · intro t l d prev pt es c hmem
    rw [htl]; exact h.msg_append t l d prev pt es c (hm _ hmem rfl)
  · intro t l d k kt c pfx hmem
    rw [htl]; exact h.msg_snap t l d k kt c pfx (hm _ hmem rfl)
  · intro t c d li lt hmem
    exact Nat.le_trans (h.msg_reqVote_le t c d li lt (hm _ hmem rfl)) (hn c).2.1
  · intro t c d li lt hmem hr ht
    rcases (hn c).2.2 with ⟨hr', ht'⟩ | hf
    · rw [(hn c).1]; exact h.msg_reqVote t c d li lt (hm _ hmem rfl) (hr' ▸ hr) (ht' ▸ ht)
    · rw [hf] at hr; cases hr

end PSO.Raft

namespace PSO.Raft

theorem mem_erase_append_nonlog {msgs : List Msg} {x v m : Msg} (hv : v.isLogMsg = false)
    (hm : m ∈ msgs.erase x ++ [v]) (hl : m.isLogMsg = true) : m ∈ msgs := by
  rcases List.mem_append.mp hm with h | h
  · exact List.mem_of_mem_erase h
  · simp at h; subst h; rw [hv] at hl; cases hl

theorem nodeL_adopt (ns : NodeSt) (t : Nat) (ht : ns.term ≤ t) : NodeL ns (adoptTerm ns t) := by
  unfold adoptTerm NodeL
  split
  · exact ⟨rfl, by simp; omega, Or.inr rfl⟩
  · exact ⟨rfl, Nat.le_refl _, Or.inr rfl⟩

theorem nodeL_bump (ns : NodeSt) (t : Nat) : NodeL ns (bumpTerm ns t) := by
  unfold bumpTerm NodeL
  split
  · exact ⟨rfl, by simp; omega, Or.inr rfl⟩
  · exact ⟨rfl, Nat.le_refl _, Or.inl ⟨rfl, rfl⟩⟩

theorem nodeL_of_eq {a b c : NodeSt} (h : NodeL a b) (h1 : c.log = b.log) (h2 : c.term = b.term)
    (h3 : c.role = b.role) : NodeL a c := by
  unfold NodeL at *; rw [h1, h2, h3]; exact h

theorem invL_recvReqVote {N s s' n m} (h : InvL N s) (hs : step N s (.recvReqVote n m) = some s') : InvL N s' := by
  simp only [step] at hs
  split at hs
  · split at hs
    · split at hs
      · injection hs with hs; subst hs
        refine invL_frame h rfl rfl ?_ ?_
        · intro m hm hl; exact mem_erase_append_nonlog rfl hm hl
        · exact nodeL_setNode (nodeL_of_eq (nodeL_bump _ _) rfl rfl rfl)
      · injection hs with hs; subst hs
        refine invL_frame h rfl rfl ?_ ?_
        · intro m hm _; exact List.mem_of_mem_erase hm
        · exact nodeL_setNode (nodeL_bump _ _)
    · cases hs
  · cases hs

theorem invL_recvAck {N s s' n m} (h : InvL N s) (hs : step N s (.recvAck n m) = some s') : InvL N s' := by
  simp only [step] at hs
  split at hs
  · split at hs
    · split at hs
      · injection hs with hs; subst hs
        refine invL_frame h rfl rfl ?_ ?_
        · intro m hm _; exact List.mem_of_mem_erase hm
        · exact nodeL_setNode ⟨rfl, Nat.le_refl _, Or.inl ⟨rfl, rfl⟩⟩
      · injection hs with hs; subst hs
        refine invL_frame h rfl rfl ?_ ?_
        · intro m hm _; exact List.mem_of_mem_erase hm
        · intro k; exact NodeL.refl _
    · cases hs
  · cases hs

theorem invL_advanceCommit {N s s' n i} (h : InvL N s) (hs : step N s (.advanceCommit n i) = some s') : InvL N s' := by
  simp only [step] at hs
  split at hs
  · injection hs with hs; subst hs
    refine invL_frame h rfl rfl (fun m hm _ => hm) ?_
    exact nodeL_setNode ⟨rfl, Nat.le_refl _, Or.inl ⟨rfl, rfl⟩⟩
  · cases hs

theorem invL_apply {N s s' n} (h : InvL N s) (hs : step N s (.apply n) = some s') : InvL N s' := by
  simp only [step] at hs
  split at hs
  · injection hs with hs; subst hs
    refine invL_frame h rfl rfl (fun m hm _ => hm) ?_
    exact nodeL_setNode ⟨rfl, Nat.le_refl _, Or.inl ⟨rfl, rfl⟩⟩
  · cases hs

theorem invL_stepDown {N s s' n} (h : InvL N s) (hs : step N s (.stepDown n) = some s') : InvL N s' := by
  simp only [step] at hs
  split at hs
  · injection hs with hs; subst hs
    refine invL_frame h rfl rfl (fun m hm _ => hm) ?_
    exact nodeL_setNode ⟨rfl, Nat.le_refl _, Or.inr rfl⟩
  · cases hs

theorem invL_observeTerm {N s s' n t} (h : InvL N s) (hs : step N s (.observeTerm n t) = some s') : InvL N s' := by
  simp only [step] at hs
  split at hs
  · rename_i hg
    injection hs with hs; subst hs
    refine invL_frame h rfl rfl (fun m hm _ => hm) ?_
    exact nodeL_setNode (nodeL_adopt _ _ hg)
  · cases hs

theorem invL_lose {N s s' m} (h : InvL N s) (hs : step N s (.lose m) = some s') : InvL N s' := by
  simp only [step] at hs
  split at hs
  · injection hs with hs; subst hs
    refine invL_frame h rfl rfl ?_ (fun k => NodeL.refl _)
    intro m hm _; exact List.mem_of_mem_erase hm
  · cases hs

end PSO.Raft

namespace PSO.Raft

theorem take_ne_nil_of_lt {X : List Entry} {j : Nat} (hj : j < X.length) : X.take (j + 1) ≠ [] := by
  intro h
  have := congrArg List.length h
  simp only [List.length_take, List.length_nil] at this; omega

theorem termAt_append_left {L : List Entry} {j : Nat} (hj : j < L.length) (ys : List Entry) :
    termAt (L ++ ys) j = termAt L j := by
  unfold termAt; rw [List.getElem?_append_left hj]

theorem termAt_append_last (L : List Entry) (e : Entry) : termAt (L ++ [e]) L.length = e.term := by
  unfold termAt; simp

/-- The leader of term `t` (new or old) appends one entry of its own term. -/
theorem invL_extend {N : Nat} {s s' : State} {n t c : Nat} {L : List Entry} (h : InvL N s)
    (htpos : 0 < t) (hterm : (s.nodes n).term = t) (hlog : (s.nodes n).log = L)
    (hcase : s.g.termLog t = L ∨ s.g.termLog t = [])
    (huniq : ∀ k, k ≠ n → (s.nodes k).role = .leader → (s.nodes k).term ≠ t)
    (hnodes_n : (s'.nodes n).log = L ++ [⟨t, c⟩] ∧ (s'.nodes n).term = t ∧ (s'.nodes n).role = .leader)
    (hnodes : ∀ k, k ≠ n → s'.nodes k = s.nodes k)
    (hmsgs : s'.msgs = s.msgs)
    (htl : s'.g.termLog = upd1 s.g.termLog t (L ++ [⟨t, c⟩]))
    (hldr : s'.g.leaderOf = upd1 s.g.leaderOf t (some n)) : InvL N s' := by
  have hLne : L ≠ [] := by
    intro hL; have := h.log_sent n; rw [hlog, hL] at this; cases this
  have hL0 : L[0]? = some sentinel := by have := h.log_sent n; rwa [hlog] at this
  -- agreement with a term log survives the update
  have hkeep : ∀ (X : List Entry) (j : Nat), j < X.length → ∀ u, Agree X (s.g.termLog u) j →
      Agree X (s'.g.termLog u) j := by
    intro X j hj u hag
    rw [htl]; simp only [upd1]
    split
    · rename_i hu; subst hu
      rcases hcase with hc | hc
      · rw [hc] at hag; exact agree_append_right hag hj _
      · rw [hc] at hag; exact absurd hag (by unfold Agree; rw [List.take_nil]; exact take_ne_nil_of_lt hj)
    · exact hag
  have hnewlog : ∀ j, j < (L ++ [(⟨t, c⟩ : Entry)]).length →
      Agree (L ++ [⟨t, c⟩]) (s'.g.termLog (termAt (L ++ [⟨t, c⟩]) j)) j := by
    intro j hj
    simp at hj
    by_cases hjl : j < L.length
    · rw [termAt_append_left hjl]
      have h1 : Agree L (s.g.termLog (termAt L j)) j := by
        have := h.log_l2 n j (by rw [hlog]; exact hjl); rwa [hlog] at this
      have h2 := hkeep L j hjl _ h1
      exact (agree_append_left hjl _).trans h2
    · have : j = L.length := by omega
      subst this
      rw [termAt_append_last]; simp only [htl, upd1, if_true]; exact Agree.refl _ _
  constructor
  · intro k
    by_cases hk : k = n
    · subst hk; rw [hnodes_n.1]; rw [List.getElem?_append_left (List.length_pos_of_ne_nil hLne)]; exact hL0
    · rw [hnodes k hk]; exact h.log_sent k
  · rw [htl]; simp only [upd1]; rw [if_neg (by omega)]; exact h.tl_zero
  · intro u hu
    rw [htl] at hu ⊢; simp only [upd1] at hu ⊢
    split
    · rw [List.getElem?_append_left (List.length_pos_of_ne_nil hLne)]; exact hL0
    · rename_i hne; rw [if_neg hne] at hu; exact h.tl_sent u hu
  · intro u hu
    rw [htl, hldr]; simp only [upd1]
    split
    · simp
    · exact h.tl_ldr u hu
  · intro l; rw [hldr]; simp only [upd1]; rw [if_neg (by omega)]; exact h.ldr_pos l
  · intro k hr
    by_cases hk : k = n
    · subst hk; rw [hnodes_n.2.2] at hr; cases hr
    · rw [hnodes k hk] at hr ⊢
      rw [hldr]; simp only [upd1]
      split
      · intro heq; injection heq with heq; exact hk heq.symm
      · exact h.cand_not_ldr k hr
  · intro u e he
    rw [htl] at he; simp only [upd1] at he
    split at he
    · rename_i hu; subst hu
      rcases List.mem_append.mp he with he | he
      · rcases hcase with hc | hc
        · exact h.tl_terms u e (by rw [hc]; exact he)
        · have := h.log_terms n e (by rw [hlog]; exact he); rw [hterm] at this; exact this
      · simp at he; subst he; exact Nat.le_refl _
    · exact h.tl_terms u e he
  · intro u j hj
    rw [htl] at hj; simp only [upd1] at hj
    by_cases hu : u = t
    · subst hu; rw [if_pos rfl] at hj
      have : s'.g.termLog u = L ++ [⟨u, c⟩] := by rw [htl]; simp [upd1]
      rw [this]; exact hnewlog j hj
    · rw [if_neg hu] at hj
      have : s'.g.termLog u = s.g.termLog u := by rw [htl]; simp [upd1, hu]
      rw [this]; exact hkeep _ j hj _ (h.tl_l2 u j hj)
  · intro k j hj
    by_cases hk : k = n
    · subst hk; rw [hnodes_n.1] at hj ⊢; exact hnewlog j hj
    · rw [hnodes k hk] at hj ⊢; exact hkeep _ j hj _ (h.log_l2 k j hj)
  · intro k e he
    by_cases hk : k = n
    · subst hk; rw [hnodes_n.1] at he; rw [hnodes_n.2.1]
      rcases List.mem_append.mp he with he | he
      · have := h.log_terms k e (by rw [hlog]; exact he); rwa [hterm] at this
      · simp at he; subst he; exact Nat.le_refl _
    · rw [hnodes k hk] at he ⊢; exact h.log_terms k e he
  · intro k hr
    by_cases hk : k = n
    · subst hk; rw [hnodes_n.1, hnodes_n.2.1, htl]; simp [upd1]
    · rw [hnodes k hk] at hr ⊢
      have hne := huniq k hk hr
      rw [htl]; simp only [upd1]; rw [if_neg hne]; exact h.ldr_log k hr
  · intro u l d prev pt es cc hmem
    rw [hmsgs] at hmem
    obtain ⟨h1, h2, h3, h4⟩ := h.msg_append u l d prev pt es cc hmem
    by_cases hu : u = t
    · subst hu
      have htlu : s'.g.termLog u = L ++ [⟨u, c⟩] := by rw [htl]; simp [upd1]
      rcases hcase with hc | hc
      · rw [hc] at h1 h2 h3
        rw [htlu]
        refine ⟨by simp; omega, by rw [termAt_append_left h1]; exact h2, ?_, h4⟩
        rw [List.drop_append_of_le_length (by omega)]
        exact h3.trans (List.prefix_append _ _)
      · rw [hc] at h1; simp at h1
    · have : s'.g.termLog u = s.g.termLog u := by rw [htl]; simp [upd1, hu]
      rw [this]; exact ⟨h1, h2, h3, h4⟩
  · intro u l d k kt cc pfx hmem
    rw [hmsgs] at hmem
    obtain ⟨h1, h2, h3, h5⟩ := h.msg_snap u l d k kt cc pfx hmem
    by_cases hu : u = t
    · subst hu
      have htlu : s'.g.termLog u = L ++ [⟨u, c⟩] := by rw [htl]; simp [upd1]
      rcases hcase with hc | hc
      · rw [hc] at h1 h2 h3
        rw [htlu]
        refine ⟨by simp; omega, ?_, by rw [termAt_append_left h1]; exact h3, h5⟩
        rw [List.take_append_of_le_length (by omega)]; exact h2
      · rw [hc] at h1; simp at h1
    · have : s'.g.termLog u = s.g.termLog u := by rw [htl]; simp [upd1, hu]
      rw [this]; exact ⟨h1, h2, h3, h5⟩
  · intro u cd d li lt hmem
    rw [hmsgs] at hmem
    have := h.msg_reqVote_le u cd d li lt hmem
    by_cases hk : cd = n
    · subst hk; rw [hnodes_n.2.1]; rwa [hterm] at this
    · rw [hnodes cd hk]; exact this
  · intro u cd d li lt hmem hr ht
    rw [hmsgs] at hmem
    by_cases hk : cd = n
    · subst hk; rw [hnodes_n.2.2] at hr; cases hr
    · rw [hnodes cd hk] at hr ht ⊢; exact h.msg_reqVote u cd d li lt hmem hr ht

end PSO.Raft

namespace PSO.Raft

theorem invL_clientAppend {N s s' n cmd} (h : InvL N s) (he : InvE N s)
    (hs : step N s (.clientAppend n cmd) = some s') : InvL N s' := by
  simp only [step] at hs
  split at hs
  · rename_i hg
    injection hs with hs; subst hs
    have hll := h.ldr_log n hg.2
    have hpos := (he.self_vote n (by rw [hg.2]; decide)).2.2
    refine invL_extend (n := n) (t := (s.nodes n).term) (c := cmd) (L := (s.nodes n).log) h hpos rfl rfl
      (Or.inl hll.symm) ?_ ⟨by simp, by simp, by simp [hg.2]⟩ (fun k hk => by simp [setNode, hk]) rfl rfl ?_
    · intro k hk hr ht
      exact hk (leaders_unique he hr hg.2 ht)
    · funext u; simp only [upd1, setNode_g]
      split
      · rename_i hu; subst hu; exact (he.ldr_of n hg.2)
      · rfl
  · cases hs

theorem invL_becomeLeader {N : Nat} {s : State} {n : Nat} {ns : NodeSt} (h : InvL N s) (he : InvE N s)
    (hn : s.nodes n = ns) (hr : ns.role = .candidate) (hmaj : isMajority N ns.votes = true) :
    InvL N (becomeLeader s n ns) := by
  have hpos := (he.self_vote n (by rw [hn, hr]; decide)).2.2
  -- nobody led this term before
  have hnone : s.g.leaderOf ns.term = none := by
    cases hl : s.g.leaderOf ns.term with
    | none => rfl
    | some l =>
      exfalso
      have he' := invE_becomeLeader he hn hr hmaj
      -- old quorum voted l, new quorum voted n
      obtain ⟨hq, hqv, _, _⟩ := he.el_quorum _ _ hl
      have hq' := he'.el_quorum ns.term n (by simp [becomeLeader, upd1])
      obtain ⟨hq2, hqv2, _, _⟩ := hq'
      obtain ⟨x, hx1, hx2⟩ := quorum_inter hq hq2
      have h1 := hqv x hx1
      have h2 := hqv2 x hx2
      simp only [becomeLeader, setNode_g] at h2
      rw [h1] at h2; injection h2 with h2; subst h2
      exact h.cand_not_ldr l (by rw [hn]; exact hr) (by rw [hn]; exact hl)
  have htl : s.g.termLog ns.term = [] := (h.tl_ldr _ (by rw [hn] at hpos; exact hpos)).mpr hnone
  refine invL_extend (n := n) (t := ns.term) (c := 0) (L := ns.log) h (by rw [hn] at hpos; exact hpos)
    (by rw [hn]) (by rw [hn]) (Or.inr htl) ?_ ?_ ?_ rfl rfl rfl
  · intro k _ hrk ht
    have := he.ldr_of k hrk; rw [ht, hnone] at this; cases this
  · simp [becomeLeader]
  · intro k hk; simp [becomeLeader, setNode, hk]

theorem invL_sendAppend {N s s' n dst prev k c} (h : InvL N s) (he : InvE N s)
    (hs : step N s (.sendAppend n dst prev k c) = some s') : InvL N s' := by
  simp only [step] at hs
  split at hs
  · rename_i hg
    obtain ⟨_, _, hrole, hprev, _⟩ := hg
    injection hs with hs; subst hs
    have hll := h.ldr_log n hrole
    have hpos := (he.self_vote n (by rw [hrole]; decide)).2.2
    refine { h with msg_append := ?_, msg_snap := ?_, msg_reqVote_le := ?_, msg_reqVote := ?_ }
    · intro t l d p pt es c hmem
      rcases List.mem_append.mp hmem with hmem | hmem
      · exact h.msg_append t l d p pt es c hmem
      · simp at hmem
        obtain ⟨rfl, rfl, rfl, rfl, rfl, rfl, rfl⟩ := hmem
        rw [← hll]
        exact ⟨hprev, rfl, List.take_prefix _ _, hpos⟩
    · intro t l d kk kt c pfx hmem
      rcases List.mem_append.mp hmem with hmem | hmem
      · exact h.msg_snap t l d kk kt c pfx hmem
      · simp at hmem
    · intro t c d li lt hmem
      rcases List.mem_append.mp hmem with hmem | hmem
      · exact h.msg_reqVote_le t c d li lt hmem
      · simp at hmem
    · intro t c d li lt hmem
      rcases List.mem_append.mp hmem with hmem | hmem
      · exact h.msg_reqVote t c d li lt hmem
      · simp at hmem
  · cases hs

theorem invL_sendSnapshot {N s s' n dst k c} (h : InvL N s) (he : InvE N s)
    (hs : step N s (.sendSnapshot n dst k c) = some s') : InvL N s' := by
  simp only [step] at hs
  split at hs
  · rename_i hg
    obtain ⟨_, _, hrole, hka, hkl, _⟩ := hg
    injection hs with hs; subst hs
    have hll := h.ldr_log n hrole
    have hpos := (he.self_vote n (by rw [hrole]; decide)).2.2
    refine { h with msg_append := ?_, msg_snap := ?_, msg_reqVote_le := ?_, msg_reqVote := ?_ }
    · intro t l d p pt es c hmem
      rcases List.mem_append.mp hmem with hmem | hmem
      · exact h.msg_append t l d p pt es c hmem
      · simp at hmem
    · intro t l d kk kt c pfx hmem
      rcases List.mem_append.mp hmem with hmem | hmem
      · exact h.msg_snap t l d kk kt c pfx hmem
      · simp at hmem
        obtain ⟨rfl, rfl, rfl, rfl, rfl, rfl, rfl⟩ := hmem
        rw [← hll]
        exact ⟨hkl, rfl, rfl, hpos⟩
    · intro t c d li lt hmem
      rcases List.mem_append.mp hmem with hmem | hmem
      · exact h.msg_reqVote_le t c d li lt hmem
      · simp at hmem
    · intro t c d li lt hmem
      rcases List.mem_append.mp hmem with hmem | hmem
      · exact h.msg_reqVote t c d li lt hmem
      · simp at hmem
  · cases hs

end PSO.Raft

namespace PSO.Raft

theorem invL_timeout_core {N : Nat} {s : State} {n : Nat} {dsts : List Nat} (h : InvL N s) (he : InvE N s)
    (hnN : n < N) (hrole : (s.nodes n).role ≠ .leader) :
    InvL N { (setNode s n { (s.nodes n) with term := (s.nodes n).term + 1, votedFor := some n, votes := 1, role := .candidate }) with msgs := s.msgs ++ dsts.map (fun d => Msg.reqVote ((s.nodes n).term + 1) n d ((s.nodes n).log.length - 1) (lastTerm (s.nodes n).log)), g := { s.g with voted := upd2 s.g.voted ((s.nodes n).term + 1) n (some n) } } := by
  have hlog : ∀ k, ((setNode s n { (s.nodes n) with term := (s.nodes n).term + 1, votedFor := some n, votes := 1, role := .candidate }).nodes k).log = (s.nodes k).log := by
    intro k; by_cases hk : k = n
    · subst hk; simp
    · rw [setNode_nodes_ne _ _ hk]
  have hterm : ∀ k, (s.nodes k).term ≤ ((setNode s n { (s.nodes n) with term := (s.nodes n).term + 1, votedFor := some n, votes := 1, role := .candidate }).nodes k).term := by
    intro k; by_cases hk : k = n
    · subst hk; simp
    · rw [setNode_nodes_ne _ _ hk]
  constructor
  · intro k; show (((setNode s n _).nodes k).log)[0]? = _; rw [hlog]; exact h.log_sent k
  · exact h.tl_zero
  · exact h.tl_sent
  · exact h.tl_ldr
  · exact h.ldr_pos
  · intro k hr
    by_cases hk : k = n
    · subst hk
      simp only [setNode_nodes_self, setNode_g]
      intro hl; have := he.ldr_le _ _ hl; omega
    · simp only [setNode_nodes_ne _ _ hk, setNode_g] at hr ⊢; exact h.cand_not_ldr k hr
  · exact h.tl_terms
  · exact h.tl_l2
  · intro k j hj
    show Agree ((setNode s n _).nodes k).log _ j
    have hj' : j < (s.nodes k).log.length := by rw [← hlog k]; exact hj
    rw [hlog]; exact h.log_l2 k j hj'
  · intro k e hmem
    have hmem' : e ∈ (s.nodes k).log := by rw [← hlog k]; exact hmem
    exact Nat.le_trans (h.log_terms k e hmem') (hterm k)
  · intro k hr
    by_cases hk : k = n
    · subst hk; simp at hr
    · simp only [setNode_nodes_ne _ _ hk, setNode_g] at hr ⊢; exact h.ldr_log k hr
  · intro t l d p pt es c hmem
    rcases List.mem_append.mp hmem with hmem | hmem
    · exact h.msg_append t l d p pt es c hmem
    · obtain ⟨d', _, hd⟩ := List.mem_map.mp hmem; cases hd
  · intro t l d kk kt c pfx hmem
    rcases List.mem_append.mp hmem with hmem | hmem
    · exact h.msg_snap t l d kk kt c pfx hmem
    · obtain ⟨d', _, hd⟩ := List.mem_map.mp hmem; cases hd
  · intro t c d li lt hmem
    rcases List.mem_append.mp hmem with hmem | hmem
    · exact Nat.le_trans (h.msg_reqVote_le t c d li lt hmem) (hterm c)
    · obtain ⟨d', _, hd⟩ := List.mem_map.mp hmem
      injection hd with h1 h2 h3 h4 h5; subst h1 h2; simp
  · intro t c d li lt hmem0 hr ht
    have hmem1 := List.mem_append.mp hmem0
    rcases hmem1 with hmem | hmem
    · by_cases hk : c = n
      · subst hk
        have := h.msg_reqVote_le t c d li lt hmem
        simp only [setNode_nodes_self] at ht; omega
      · simp only [setNode_nodes_ne _ _ hk] at hr ht ⊢
        exact h.msg_reqVote t c d li lt hmem hr ht
    · obtain ⟨d', _, hd⟩ := List.mem_map.mp hmem
      injection hd with h1 h2 h3 h4 h5; subst h1 h2 h4 h5; simp

theorem invL_timeout {N s s' n dsts} (h : InvL N s) (he : InvE N s)
    (hs : step N s (.timeout n dsts) = some s') : InvL N s' := by
  simp only [step] at hs
  split at hs
  · rename_i hg
    have hecore := invE_timeout_core (dsts := dsts) he hg.1 hg.2.1
    have hcore := invL_timeout_core (dsts := dsts) h he hg.1 hg.2.1
    split at hs
    · rename_i hmaj
      injection hs with hs; subst hs
      exact invL_becomeLeader hcore hecore (by simp [setNode]) rfl hmaj
    · injection hs with hs; subst hs; exact hcore
  · cases hs

theorem invL_recvVote {N s s' n m} (h : InvL N s) (he : InvE N s)
    (hs : step N s (.recvVote n m) = some s') : InvL N s' := by
  have he' := invE_step he hs
  simp only [step] at hs
  split at hs
  · rename_i t voter cand
    split at hs
    · rename_i hg
      obtain ⟨hnN, rfl, hmem⟩ := hg
      split at hs
      · rename_i hc
        obtain ⟨hrole, rfl⟩ := hc
        have hcoreL : InvL N { (setNode s cand { (s.nodes cand) with votes := (s.nodes cand).votes + 1 }) with
            msgs := s.msgs.erase (Msg.vote (s.nodes cand).term voter cand),
            g := { s.g with counted := upd2 s.g.counted (s.nodes cand).term cand (voter :: s.g.counted (s.nodes cand).term cand) } } := by
          refine invL_frame h rfl rfl ?_ ?_
          · intro m hm _; exact List.mem_of_mem_erase hm
          · exact nodeL_setNode ⟨rfl, Nat.le_refl _, Or.inl ⟨rfl, rfl⟩⟩
        split at hs
        · rename_i hmaj
          injection hs with hs; subst hs
          -- InvE of the core state: re-derive from the step with the majority test false is not available; use invE_recvVote's structure
          have hcoreE : InvE N { (setNode s cand { (s.nodes cand) with votes := (s.nodes cand).votes + 1 }) with
              msgs := s.msgs.erase (Msg.vote (s.nodes cand).term voter cand),
              g := { s.g with counted := upd2 s.g.counted (s.nodes cand).term cand (voter :: s.g.counted (s.nodes cand).term cand) } } :=
            invE_recvVote_core (voter := voter) he hnN hmem hrole
          exact invL_becomeLeader hcoreL hcoreE (by simp [setNode]) hrole hmaj
        · injection hs with hs; subst hs; exact hcoreL
      · injection hs with hs; subst hs
        refine invL_frame h rfl rfl ?_ (fun k => NodeL.refl _)
        intro m hm _; exact List.mem_of_mem_erase hm
    · cases hs
  · cases hs

end PSO.Raft

namespace PSO.Raft

/-- A follower replaces its log by `newlog` (append merge or snapshot install). -/
theorem invL_setLog {N : Nat} {s s' : State} {n : Nat} (h : InvL N s)
    (htl : s'.g.termLog = s.g.termLog) (hl : s'.g.leaderOf = s.g.leaderOf)
    (hm : ∀ m ∈ s'.msgs, m.isLogMsg = true → m ∈ s.msgs)
    (hnodes : ∀ k, k ≠ n → s'.nodes k = s.nodes k)
    (hrole : (s'.nodes n).role = .follower) (hterm : (s.nodes n).term ≤ (s'.nodes n).term)
    (h0 : (s'.nodes n).log[0]? = some sentinel)
    (hl2 : ∀ j, j < (s'.nodes n).log.length →
      Agree (s'.nodes n).log (s.g.termLog (termAt (s'.nodes n).log j)) j)
    (hterms : ∀ e ∈ (s'.nodes n).log, e.term ≤ (s'.nodes n).term) : InvL N s' := by
  constructor
  · intro k; by_cases hk : k = n
    · subst hk; exact h0
    · rw [hnodes k hk]; exact h.log_sent k
  · rw [htl]; exact h.tl_zero
  · rw [htl]; exact h.tl_sent
  · rw [htl, hl]; exact h.tl_ldr
  · rw [hl]; exact h.ldr_pos
  · intro k hr; by_cases hk : k = n
    · subst hk; rw [hrole] at hr; cases hr
    · rw [hnodes k hk] at hr ⊢; rw [hl]; exact h.cand_not_ldr k hr
  · rw [htl]; exact h.tl_terms
  · rw [htl]; exact h.tl_l2
  · intro k j hj; by_cases hk : k = n
    · subst hk; rw [htl]; exact hl2 j hj
    · rw [hnodes k hk] at hj ⊢; rw [htl]; exact h.log_l2 k j hj
  · intro k e he; by_cases hk : k = n
    · subst hk; exact hterms e he
    · rw [hnodes k hk] at he ⊢; exact h.log_terms k e he
  · intro k hr; by_cases hk : k = n
    · subst hk; rw [hrole] at hr; cases hr
    · rw [hnodes k hk] at hr ⊢; rw [htl]; exact h.ldr_log k hr
  · intro t l d prev pt es c hmem
    rw [htl]; exact h.msg_append t l d prev pt es c (hm _ hmem rfl)
  · intro t l d k kt c pfx hmem
    rw [htl]; exact h.msg_snap t l d k kt c pfx (hm _ hmem rfl)
  · intro t c d li lt hmem
    have := h.msg_reqVote_le t c d li lt (hm _ hmem rfl)
    by_cases hk : c = n
    · subst hk; omega
    · rw [hnodes c hk]; exact this
  · intro t c d li lt hmem hr ht
    by_cases hk : c = n
    · subst hk; rw [hrole] at hr; cases hr
    · rw [hnodes c hk] at hr ht ⊢; exact h.msg_reqVote t c d li lt (hm _ hmem rfl) hr ht

theorem adoptTerm_term {ns : NodeSt} {t : Nat} (h : ¬ t < ns.term) : (adoptTerm ns t).term = t := by
  unfold adoptTerm; split
  · rfl
  · simp; omega

@[simp] theorem adoptTerm_role (ns : NodeSt) (t : Nat) : (adoptTerm ns t).role = .follower := by
  unfold adoptTerm; split <;> rfl
@[simp] theorem adoptTerm_log (ns : NodeSt) (t : Nat) : (adoptTerm ns t).log = ns.log := by
  unfold adoptTerm; split <;> rfl
@[simp] theorem adoptTerm_commit (ns : NodeSt) (t : Nat) : (adoptTerm ns t).commit = ns.commit := by
  unfold adoptTerm; split <;> rfl
@[simp] theorem adoptTerm_applied (ns : NodeSt) (t : Nat) : (adoptTerm ns t).applied = ns.applied := by
  unfold adoptTerm; split <;> rfl

/-- Equal terms at a position mean equal prefixes (log matching between a node log and a term log). -/
theorem invL_H {N : Nat} {s : State} (h : InvL N s) (n t : Nat) :
    ∀ p, p < (s.nodes n).log.length → p < (s.g.termLog t).length →
      termAt (s.nodes n).log p = termAt (s.g.termLog t) p → Agree (s.nodes n).log (s.g.termLog t) p := by
  intro p hp1 hp2 heq
  have h1 := h.log_l2 n p hp1
  have h2 := h.tl_l2 t p hp2
  rw [heq] at h1
  exact h1.trans h2.symm

theorem invL_recvAppend {N s s' n m} (h : InvL N s) (hs : step N s (.recvAppend n m) = some s') : InvL N s' := by
  simp only [step] at hs
  split at hs
  · rename_i t ldr dst prev prevTerm es c
    split at hs
    · rename_i hg
      obtain ⟨rfl, hmem⟩ := hg
      split at hs
      · injection hs with hs; subst hs
        refine invL_frame h rfl rfl ?_ (fun k => NodeL.refl _)
        intro m hm _; exact List.mem_of_mem_erase hm
      · rename_i hnlt
        split at hs
        · rename_i hchk
          injection hs with hs; subst hs
          simp only [adoptTerm_log] at hchk
          obtain ⟨hp1, hp2, hp3, hp4⟩ := h.msg_append _ _ _ _ _ _ _ hmem
          have H := invL_H h dst t
          have H0 : Agree (s.nodes dst).log (s.g.termLog t) prev := H prev hchk.1 hp1 (by rw [hchk.2, hp2])
          obtain ⟨ha, hb⟩ := merge_agree (s.g.termLog t) es (s.nodes dst).log prev H0 hchk.1 hp3 H
          have hTlen : prev + es.length < (s.g.termLog t).length := by
            obtain ⟨tl, htl⟩ := hp3
            have := congrArg List.length htl
            simp at this; omega
          have hnewlen : prev + es.length < (mergeEntries (s.nodes dst).log prev es).length :=
            ha.symm.length_lt hTlen
          refine invL_setLog (n := dst) h rfl rfl ?_ (fun k hk => by simp [setNode, hk]) (by simp) ?_ ?_ ?_ ?_
          · intro m hm hl; exact mem_erase_append_nonlog rfl hm hl
          · simp [adoptTerm_term hnlt]; omega
          · simp only [setNode_nodes_self, adoptTerm_log]
            rw [ha.getElem? (Nat.zero_le _)]
            exact h.tl_sent t (by intro hnil; rw [hnil] at hp1; simp at hp1)
          · simp only [setNode_nodes_self, adoptTerm_log]
            intro j hj
            by_cases hjl : j ≤ prev + es.length
            · have hag := ha.mono hjl
              rw [hag.termAt (Nat.le_refl _)]
              exact hag.trans (h.tl_l2 t j (hag.length_lt hj))
            · rcases hb with hb | hb
              · rw [hb] at hj ⊢; exact h.log_l2 dst j hj
              · omega
          · simp only [setNode_nodes_self, adoptTerm_log, adoptTerm_term hnlt]
            intro e he
            rcases mem_merge he with he | he
            · have := h.log_terms dst e he; omega
            · exact h.tl_terms t e (List.mem_of_mem_drop (hp3.subset he))
        · injection hs with hs; subst hs
          refine invL_frame h rfl rfl ?_ ?_
          · intro m hm _; exact List.mem_of_mem_erase hm
          · exact nodeL_setNode (nodeL_adopt _ _ (by omega))
    · cases hs
  · cases hs

theorem invL_recvSnapshot {N s s' n m} (h : InvL N s) (hs : step N s (.recvSnapshot n m) = some s') : InvL N s' := by
  simp only [step] at hs
  split at hs
  · rename_i t ldr dst k kTerm c pfx
    split at hs
    · rename_i hg
      obtain ⟨rfl, hmem⟩ := hg
      split at hs
      · injection hs with hs; subst hs
        refine invL_frame h rfl rfl ?_ (fun k => NodeL.refl _)
        intro m hm _; exact List.mem_of_mem_erase hm
      · rename_i hnlt
        injection hs with hs; subst hs
        obtain ⟨hk1, hk2, hk3, hk5⟩ := h.msg_snap _ _ _ _ _ _ _ hmem
        split
        · -- keep the log
          refine invL_frame h rfl rfl ?_ ?_
          · intro m hm hl; exact mem_erase_append_nonlog rfl hm hl
          · exact nodeL_setNode (nodeL_of_eq (nodeL_adopt _ _ (by omega)) rfl rfl rfl)
        · -- install the prefix
          have hTne : s.g.termLog t ≠ [] := by intro hnil; rw [hnil] at hk1; simp at hk1
          refine invL_setLog (n := dst) h rfl rfl ?_ (fun k hk => by simp [setNode, hk]) (by simp) ?_ ?_ ?_ ?_
          · intro m hm hl; exact mem_erase_append_nonlog rfl hm hl
          · simp [adoptTerm_term hnlt]; omega
          · simp only [setNode_nodes_self]; rw [hk2]
            rw [List.getElem?_take]; simp; exact h.tl_sent t hTne
          · simp only [setNode_nodes_self]; rw [hk2]
            intro j hj
            have hjk : j ≤ k := by simp at hj; omega
            have hag : Agree ((s.g.termLog t).take (k + 1)) (s.g.termLog t) j := by
              unfold Agree; rw [List.take_take]; congr 1; omega
            rw [hag.termAt (Nat.le_refl _)]
            exact hag.trans (h.tl_l2 t j (by omega))
          · simp only [setNode_nodes_self, adoptTerm_term hnlt]; rw [hk2]
            intro e he; exact h.tl_terms t e (List.mem_of_mem_take he)
    · cases hs
  · cases hs

end PSO.Raft

namespace PSO.Raft

theorem invL_init (N : Nat) : InvL N init := by
  constructor <;> simp [init, Agree, termAt, sentinel]
  · intro t ht; omega
  · intro t j hj
    by_cases ht : t = 0
    · subst ht; simp at hj ⊢; subst hj; simp
    · simp [ht] at hj

end PSO.Raft

namespace PSO.Raft

theorem invA_setNode {s : State} {n : Nat} {ns : NodeSt} (h : InvA s) (hn : ns.applied ≤ ns.commit) :
    InvA (setNode s n ns) := by
  intro k; by_cases hk : k = n
  · subst hk; simpa using hn
  · rw [setNode_nodes_ne _ _ hk]; exact h k

theorem invA_becomeLeader {s : State} {n : Nat} {ns : NodeSt} (h : InvA s) (hn : ns.applied ≤ ns.commit) :
    InvA (becomeLeader s n ns) := by
  intro k; simp only [becomeLeader, setNode]; by_cases hk : k = n
  · subst hk; simpa using hn
  · simp [hk]; exact h k

theorem invA_step {N : Nat} {s s' : State} {a : Action} (h : InvA s) (hL : InvL N s)
    (hs : step N s a = some s') : InvA s' := by
  cases a with
  | timeout n dsts =>
    simp only [step] at hs
    split at hs
    · split at hs
      · injection hs with hs; subst hs
        exact invA_becomeLeader (s := {(setNode s n _) with msgs := _, g := _}) (invA_setNode h (h n)) (h n)
      · injection hs with hs; subst hs; exact invA_setNode h (h n)
    · cases hs
  | recvReqVote n m =>
    simp only [step] at hs
    split at hs
    · split at hs
      · have hb : ∀ t, (bumpTerm (s.nodes n) t).applied ≤ (bumpTerm (s.nodes n) t).commit := by
          intro t; unfold bumpTerm; split <;> exact h n
        split at hs
        · injection hs with hs; subst hs; exact invA_setNode h (hb _)
        · injection hs with hs; subst hs; exact invA_setNode h (hb _)
      · cases hs
    · cases hs
  | recvVote n m =>
    simp only [step] at hs
    split at hs
    · split at hs
      · split at hs
        · split at hs
          · injection hs with hs; subst hs
            exact invA_becomeLeader (s := {(setNode s n _) with msgs := _, g := _}) (invA_setNode h (h n)) (h n)
          · injection hs with hs; subst hs; exact invA_setNode h (h n)
        · injection hs with hs; subst hs; exact h
      · cases hs
    · cases hs
  | clientAppend n cmd =>
    simp only [step] at hs
    split at hs
    · injection hs with hs; subst hs; exact invA_setNode h (h n)
    · cases hs
  | sendAppend n dst prev k c =>
    simp only [step] at hs
    split at hs
    · injection hs with hs; subst hs; exact h
    · cases hs
  | recvAppend n m =>
    simp only [step] at hs
    split at hs
    · split at hs
      · split at hs
        · injection hs with hs; subst hs; exact h
        · split at hs
          · injection hs with hs; subst hs
            apply invA_setNode h
            simp only [adoptTerm_applied, adoptTerm_commit]
            have := h n
            split <;> omega
          · injection hs with hs; subst hs
            exact invA_setNode h (by simp; exact h n)
      · cases hs
    · cases hs
  | recvAck n m =>
    simp only [step] at hs
    split at hs
    · split at hs
      · split at hs
        · injection hs with hs; subst hs; exact invA_setNode h (h n)
        · injection hs with hs; subst hs; exact h
      · cases hs
    · cases hs
  | advanceCommit n i =>
    simp only [step] at hs
    split at hs
    · rename_i hg
      injection hs with hs; subst hs
      exact invA_setNode h (by have := h n; simp; omega)
    · cases hs
  | stepDown n =>
    simp only [step] at hs
    split at hs
    · injection hs with hs; subst hs; exact invA_setNode h (h n)
    · cases hs
  | apply n =>
    simp only [step] at hs
    split at hs
    · rename_i hg
      injection hs with hs; subst hs
      exact invA_setNode h (by simp; omega)
    · cases hs
  | observeTerm n t =>
    simp only [step] at hs
    split at hs
    · injection hs with hs; subst hs; exact invA_setNode h (by simp; exact h n)
    · cases hs
  | sendSnapshot n dst k c =>
    simp only [step] at hs
    split at hs
    · injection hs with hs; subst hs; exact h
    · cases hs
  | recvSnapshot n m =>
    simp only [step] at hs
    split at hs
    · rename_i t ldr dst k kTerm c pfx
      split at hs
      · rename_i hg
        split at hs
        · injection hs with hs; subst hs; exact h
        · injection hs with hs; subst hs
          apply invA_setNode h
          have := h n
          split
          · simp only [adoptTerm_applied, adoptTerm_commit]; split <;> omega
          · simp only [adoptTerm_commit]; omega
      · cases hs
    · cases hs
  | lose m =>
    simp only [step] at hs
    split at hs
    · injection hs with hs; subst hs; exact h
    · cases hs
  | restart n c a =>
    simp only [step] at hs
    split at hs
    · rename_i hg
      injection hs with hs; subst hs
      exact invA_setNode h (by simpa using hg.1)
    · cases hs

end PSO.Raft

namespace PSO.Raft

theorem invL_restart {N s s' n c a} (h : InvL N s) (hs : step N s (.restart n c a) = some s') : InvL N s' := by
  simp only [step] at hs
  split at hs
  · injection hs with hs; subst hs
    refine invL_frame h rfl rfl (fun m hm _ => hm) ?_
    exact nodeL_setNode ⟨rfl, Nat.le_refl _, Or.inr rfl⟩
  · cases hs

theorem invL_step {N : Nat} {s s' : State} {a : Action} (h : InvL N s) (he : InvE N s) (ha : InvA s)
    (hs : step N s a = some s') : InvL N s' := by
  cases a with
  | timeout n dsts => exact invL_timeout h he hs
  | recvReqVote n m => exact invL_recvReqVote h hs
  | recvVote n m => exact invL_recvVote h he hs
  | clientAppend n cmd => exact invL_clientAppend h he hs
  | sendAppend n dst prev k c => exact invL_sendAppend h he hs
  | recvAppend n m => exact invL_recvAppend h hs
  | recvAck n m => exact invL_recvAck h hs
  | advanceCommit n i => exact invL_advanceCommit h hs
  | stepDown n => exact invL_stepDown h hs
  | apply n => exact invL_apply h hs
  | observeTerm n t => exact invL_observeTerm h hs
  | sendSnapshot n dst k c => exact invL_sendSnapshot h he hs
  | recvSnapshot n m => exact invL_recvSnapshot h hs
  | lose m => exact invL_lose h hs
  | restart n c a => exact invL_restart h hs

theorem invELA_reachable {N : Nat} {s : State} (h : Reachable N s) : InvE N s ∧ InvL N s ∧ InvA s := by
  induction h with
  | init => exact ⟨invE_init N, invL_init N, fun n => by simp [init]⟩
  | step _ hs ih => exact ⟨invE_step ih.1 hs, invL_step ih.2.1 ih.1 ih.2.2 hs, invA_step ih.2.2 ih.2.1 hs⟩

/-- Log matching (C04, last sentence): same position and term ⇒ identical logs up to that position. -/
theorem log_matching {N : Nat} {s : State} (h : InvL N s) (a b p : Nat)
    (hpa : p < (s.nodes a).log.length) (hpb : p < (s.nodes b).log.length)
    (ht : termAt (s.nodes a).log p = termAt (s.nodes b).log p) :
    (s.nodes a).log.take (p + 1) = (s.nodes b).log.take (p + 1) := by
  have h1 := h.log_l2 a p hpa
  have h2 := h.log_l2 b p hpb
  rw [ht] at h1
  exact h1.trans h2.symm

end PSO.Raft
