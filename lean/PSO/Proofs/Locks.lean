import PSO.Model.Locks

/-!
# Lemmas about the lock manager model (`PSO.Locks`) used by `Props/C16.lean`

Vocabulary of the property statement (`ClocksAgree`, `NotReleasedBy`, `MonotoneStamps`), point-wise
characterisations of the four operations, the one-step invariants and their lifting over command logs.
-/
namespace PSO.Locks

/-! ## Vocabulary -/

/-- the stamp of `cmd` (if it has one) is a reading of the common clock taken not after `now`. -/
def Cmd.stampLE (cmd : Cmd) (now : Nat) : Prop :=
  match cmd.stamp? with
  | some t => t ≤ now
  | none => True

instance (cmd : Cmd) (now : Nat) : Decidable (cmd.stampLE now) := by
  unfold Cmd.stampLE; split <;> infer_instance

/-- "client clocks agree": every stamp in `cmds` was read from the one common clock before the command
was submitted, hence is `≤ now` for the instant `now` at which we look at the replicas. -/
def ClocksAgree (now : Nat) (cmds : List Cmd) : Prop := ∀ cmd ∈ cmds, cmd.stampLE now

instance (now : Nat) (cmds : List Cmd) : Decidable (ClocksAgree now cmds) := by
  unfold ClocksAgree; infer_instance

/-- client `a` has not asked to release lock `l` (no `release l a` among `cmds`). -/
def NotReleasedBy (l a : Nat) (cmds : List Cmd) : Prop := Cmd.release l a ∉ cmds

instance (l a : Nat) (cmds : List Cmd) : Decidable (NotReleasedBy l a cmds) := by
  unfold NotReleasedBy; infer_instance

/-- the stamps of a log, in log order -/
def stamps (cmds : List Cmd) : List Nat := cmds.filterMap Cmd.stamp?

/-- in log order the stamps are non-decreasing. -/
def MonotoneStamps (log : List Cmd) : Prop := (stamps log).Pairwise (· ≤ ·)

instance (log : List Cmd) : Decidable (MonotoneStamps log) := by
  unfold MonotoneStamps; infer_instance

/-- continue from state `s` with the commands `cmds`. -/
def run (cfg : Cfg) (s : Table) (cmds : List Cmd) : Table := cmds.foldl (apply cfg) s

theorem stateAfter_eq_run (cfg : Cfg) (log : List Cmd) : stateAfter cfg log = run cfg Table.empty log := rfl

theorem run_append (cfg : Cfg) (s : Table) (xs ys : List Cmd) :
    run cfg s (xs ++ ys) = run cfg (run cfg s xs) ys := by
  simp [run, List.foldl_append]

theorem run_cons (cfg : Cfg) (s : Table) (x : Cmd) (xs : List Cmd) :
    run cfg s (x :: xs) = run cfg (apply cfg s x) xs := rfl

theorem stateAfter_append (cfg : Cfg) (xs ys : List Cmd) :
    stateAfter cfg (xs ++ ys) = run cfg (stateAfter cfg xs) ys := by
  simp [stateAfter, run, List.foldl_append]

/-- a longer prefix of the log = the shorter prefix followed by the entries in between. -/
theorem take_split (log : List Cmd) {p₁ p₂ : Nat} (h : p₁ ≤ p₂) :
    log.take p₂ = log.take p₁ ++ (log.take p₂).drop p₁ := by
  have := (List.take_append_drop p₁ (log.take p₂)).symm
  rw [List.take_take, Nat.min_eq_left h] at this
  exact this

/-! ## Point-wise behaviour of the operations -/

theorem newTime_ge (cfg : Cfg) (t t0 : Nat) (h : cfg.mono = true ∨ t0 ≤ t) : t0 ≤ newTime cfg t t0 := by
  unfold newTime
  rcases h with h | h
  · simp [h]; omega
  · split <;> omega

theorem newTime_cases (cfg : Cfg) (t t0 : Nat) : newTime cfg t t0 = t ∨ newTime cfg t t0 = t0 := by
  unfold newTime
  split
  · rcases Nat.le_total t t0 with h | h
    · right; exact Nat.max_eq_right h
    · left; exact Nat.max_eq_left h
  · left; rfl

theorem set_get (s : Table) (l l' : Nat) (v : Nat × Nat) :
    s.set l v l' = if l' = l then some v else s l' := rfl

theorem del_get (s : Table) (l l' : Nat) : s.del l l' = if l' = l then none else s l' := rfl

/-- `acquire` on a free lock. -/
theorem acquire_free (cfg : Cfg) (s : Table) (l c t : Nat) (h : s l = none) :
    acquire cfg s l c t = (s.set l (c, t), true) := by
  unfold acquire
  simp [h]

/-- `acquire` on a lock whose time is more than `U` before the stamp: granted to anybody. -/
theorem acquire_expired (cfg : Cfg) (s : Table) (l c c0 t t0 : Nat) (h : s l = some (c0, t0))
    (he : t0 + cfg.U < t) : acquire cfg s l c t = (s.set l (c, t), true) := by
  unfold acquire
  simp [h, expired, he]

/-- `acquire` by the holder, not expired: time refreshed. -/
theorem acquire_holder (cfg : Cfg) (s : Table) (l c t t0 : Nat) (h : s l = some (c, t0))
    (he : ¬ t0 + cfg.U < t) : acquire cfg s l c t = (s.set l (c, newTime cfg t t0), true) := by
  unfold acquire
  simp [h, expired, he]

/-- `acquire` by somebody else, not expired: refused, nothing changes. -/
theorem acquire_refused (cfg : Cfg) (s : Table) (l c c0 t t0 : Nat) (h : s l = some (c0, t0))
    (he : ¬ t0 + cfg.U < t) (hc : c0 ≠ c) : acquire cfg s l c t = (s, false) := by
  unfold acquire
  simp [h, expired, he, hc]

/-- `acquire` touches only its own lock id. -/
theorem acquire_get_ne (cfg : Cfg) (s : Table) {l l' : Nat} (c t : Nat) (h : l' ≠ l) :
    (acquire cfg s l c t).1 l' = s l' := by
  cases hs : s l with
  | none => simp [acquire_free cfg s l c t hs, set_get, h]
  | some v =>
    obtain ⟨c0, t0⟩ := v
    by_cases he : t0 + cfg.U < t
    · simp [acquire_expired cfg s l c c0 t t0 hs he, set_get, h]
    · by_cases hc : c0 = c
      · subst hc
        simp [acquire_holder cfg s l c0 t t0 hs he, set_get, h]
      · simp [acquire_refused cfg s l c c0 t t0 hs he hc]

theorem prolongate_get (cfg : Cfg) (s : Table) (c t l : Nat) :
    prolongate cfg s c t l =
      match s l with
      | none => none
      | some (c0, t0) =>
        if expired cfg.U t0 t then none
        else if c0 = c then some (c, newTime cfg t t0) else some (c0, t0) := rfl

theorem release_get_ne (s : Table) {l l' : Nat} (c : Nat) (h : l' ≠ l) : release s l c l' = s l' := by
  unfold release
  cases hs : s l with
  | none => rfl
  | some v =>
    obtain ⟨c0, t0⟩ := v
    by_cases hc : c0 = c <;> simp [hc, del_get, h]

theorem release_holder (s : Table) (l c t0 : Nat) (h : s l = some (c, t0)) : release s l c = s.del l := by
  unfold release
  simp [h]

/-- releasing a lock one does not hold has no effect (on any table). -/
theorem release_non_holder (s : Table) (l c : Nat) (h : ∀ t0, s l ≠ some (c, t0)) : release s l c = s := by
  unfold release
  split
  · next c0 t0 heq =>
    split
    · next hc => subst hc; exact absurd heq (h t0)
    · rfl
  · rfl

theorem isAcquired_iff (cfg : Cfg) (s : Table) (l c now : Nat) :
    isAcquired cfg s l c now = true ↔ ∃ t0, s l = some (c, t0) ∧ now < t0 + cfg.U := by
  unfold isAcquired
  split
  · next c0 t0 heq =>
    constructor
    · intro h
      simp at h
      exact ⟨t0, by rw [heq, h.1], h.2⟩
    · rintro ⟨t1, h1, h2⟩
      rw [heq] at h1
      cases h1
      simp [h2]
  · next heq =>
    constructor
    · intro h; cases h
    · rintro ⟨t1, h1, _⟩; rw [heq] at h1; cases h1

/-! ## One-step invariant behind mutual exclusion

While a client `a` "considers the lock held" (entry `(a, ta)` with `now < ta + U`), no command whose
stamp is a reading of the common clock `≤ now` can take the entry away from `a`, except `a`'s own
`release`; and the entry's time does not decrease -- unconditionally for the repaired code
(`cfg.mono`), and for the pinned code provided the command's stamp is `≥ ta`. -/

/-- the stamp of `cmd` (if any) is at least `ta`. -/
def Cmd.stampGE (cmd : Cmd) (ta : Nat) : Prop :=
  match cmd.stamp? with
  | some t => ta ≤ t
  | none => True

theorem Cmd.stampLE_mono {cmd : Cmd} {n m : Nat} (h : cmd.stampLE n) (hnm : n ≤ m) : cmd.stampLE m := by
  unfold Cmd.stampLE at *
  split
  · next t ht => rw [ht] at h; exact Nat.le_trans h hnm
  · trivial

/-- the general form: a held lock `(a, ta)` survives every command stamped not later than `ta + U` (i.e. not
an expiry) other than `a`'s own release -- in particular every command with an arbitrarily *old* stamp. -/
theorem kept_step (cfg : Cfg) (s : Table) (l a ta : Nat) (cmd : Cmd)
    (h : s l = some (a, ta)) (hs : cmd.stampLE (ta + cfg.U))
    (hr : cmd ≠ .release l a) (hm : cfg.mono = true ∨ cmd.stampGE ta) :
    ∃ ta', ta ≤ ta' ∧ (ta' = ta ∨ cmd.stamp? = some ta') ∧ apply cfg s cmd l = some (a, ta') := by
  cases cmd with
  | acquire l' c t =>
    have hs' : t ≤ ta + cfg.U := hs
    have hm' : cfg.mono = true ∨ ta ≤ t := hm
    by_cases hl : l' = l
    · subst hl
      have he : ¬ ta + cfg.U < t := by omega
      by_cases hc : a = c
      · subst hc
        refine ⟨newTime cfg t ta, newTime_ge cfg t ta hm', ?_, ?_⟩
        · rcases newTime_cases cfg t ta with h1 | h1
          · right; simp [Cmd.stamp?, h1]
          · left; exact h1
        · simp [apply, applyRes, acquire_holder cfg s l' a t ta h he, set_get]
      · exact ⟨ta, Nat.le_refl _, Or.inl rfl, by
          simp [apply, applyRes, acquire_refused cfg s l' c a t ta h he hc, h]⟩
    · refine ⟨ta, Nat.le_refl _, Or.inl rfl, ?_⟩
      have : l ≠ l' := fun e => hl e.symm
      simp [apply, applyRes, acquire_get_ne cfg s c t this, h]
  | prolongate c t =>
    have hs' : t ≤ ta + cfg.U := hs
    have hm' : cfg.mono = true ∨ ta ≤ t := hm
    have he : ¬ ta + cfg.U < t := by omega
    by_cases hc : a = c
    · subst hc
      refine ⟨newTime cfg t ta, newTime_ge cfg t ta hm', ?_, ?_⟩
      · rcases newTime_cases cfg t ta with h1 | h1
        · right; simp [Cmd.stamp?, h1]
        · left; exact h1
      · simp [apply, applyRes, prolongate_get, h, expired, he]
    · exact ⟨ta, Nat.le_refl _, Or.inl rfl, by
        simp [apply, applyRes, prolongate_get, h, expired, he, hc]⟩
  | release l' c =>
    refine ⟨ta, Nat.le_refl _, Or.inl rfl, ?_⟩
    by_cases hl : l' = l
    · subst hl
      have hc : c ≠ a := fun e => hr (by rw [e])
      have : ∀ t0, s l' ≠ some (c, t0) := by
        intro t0 e
        rw [h] at e
        injection e with e
        injection e with e1 _
        exact hc e1.symm
      simp [apply, applyRes, release_non_holder s l' c this, h]
    · have : l ≠ l' := fun e => hl e.symm
      simp [apply, applyRes, release_get_ne s c this, h]

theorem held_step (cfg : Cfg) (s : Table) (l a ta now : Nat) (cmd : Cmd)
    (h : s l = some (a, ta)) (hnow : now < ta + cfg.U) (hs : cmd.stampLE now)
    (hr : cmd ≠ .release l a) (hm : cfg.mono = true ∨ cmd.stampGE ta) :
    ∃ ta', ta ≤ ta' ∧ (ta' = ta ∨ cmd.stamp? = some ta') ∧ apply cfg s cmd l = some (a, ta') :=
  kept_step cfg s l a ta cmd h (Cmd.stampLE_mono hs (Nat.le_of_lt hnow)) hr hm

/-- lifting of `kept_step`, repaired code: as long as no command is stamped later than the *initial* lock
time + U and the holder does not release, he stays the holder (the lock time only grows). -/
theorem kept_run (cfg : Cfg) (hm : cfg.mono = true) (cmds : List Cmd) :
    ∀ (s : Table) (l a ta bound : Nat), s l = some (a, ta) → bound ≤ ta + cfg.U →
      ClocksAgree bound cmds → NotReleasedBy l a cmds →
      ∃ ta', ta ≤ ta' ∧ run cfg s cmds l = some (a, ta') := by
  induction cmds with
  | nil => intro s l a ta bound h _ _ _; exact ⟨ta, Nat.le_refl _, h⟩
  | cons cmd rest ih =>
    intro s l a ta bound h hb hs hr
    have hs1 : cmd.stampLE (ta + cfg.U) := Cmd.stampLE_mono (hs cmd (List.mem_cons_self ..)) hb
    have hr1 : cmd ≠ .release l a := fun e => hr (by rw [e]; exact List.mem_cons_self ..)
    obtain ⟨t1, hle, _, h1⟩ := kept_step cfg s l a ta cmd h hs1 hr1 (Or.inl hm)
    have hs2 : ClocksAgree bound rest := fun c hc => hs c (List.mem_cons_of_mem _ hc)
    have hr2 : NotReleasedBy l a rest := fun hc => hr (List.mem_cons_of_mem _ hc)
    obtain ⟨t2, hle2, h2⟩ := ih (apply cfg s cmd) l a t1 bound h1 (by omega) hs2 hr2
    exact ⟨t2, by omega, by rw [run_cons]; exact h2⟩

/-- lifting of `held_step` over a list of commands, repaired code: no hypothesis on the order of stamps. -/
theorem held_run (cfg : Cfg) (hm : cfg.mono = true) (cmds : List Cmd) :
    ∀ (s : Table) (l a ta now : Nat), s l = some (a, ta) → now < ta + cfg.U →
      ClocksAgree now cmds → NotReleasedBy l a cmds →
      ∃ ta', ta ≤ ta' ∧ run cfg s cmds l = some (a, ta') := by
  induction cmds with
  | nil => intro s l a ta now h _ _ _; exact ⟨ta, Nat.le_refl _, h⟩
  | cons cmd rest ih =>
    intro s l a ta now h hnow hs hr
    have hs1 : cmd.stampLE now := hs cmd (List.mem_cons_self ..)
    have hr1 : cmd ≠ .release l a := fun e => hr (by rw [e]; exact List.mem_cons_self ..)
    obtain ⟨t1, hle, _, h1⟩ := held_step cfg s l a ta now cmd h hnow hs1 hr1 (Or.inl hm)
    have hs2 : ClocksAgree now rest := fun c hc => hs c (List.mem_cons_of_mem _ hc)
    have hr2 : NotReleasedBy l a rest := fun hc => hr (List.mem_cons_of_mem _ hc)
    obtain ⟨t2, hle2, h2⟩ := ih (apply cfg s cmd) l a t1 now h1 (by omega) hs2 hr2
    exact ⟨t2, by omega, by rw [run_cons]; exact h2⟩

theorem stamps_cons (cmd : Cmd) (rest : List Cmd) :
    stamps (cmd :: rest) = match cmd.stamp? with
      | some t => t :: stamps rest
      | none => stamps rest := by
  unfold stamps
  rw [List.filterMap_cons]
  split <;> simp_all

/-- lifting of `held_step`, pinned code: the stamps that follow are non-decreasing and `≥ ta`. -/
theorem held_run_pinned (cfg : Cfg) (cmds : List Cmd) :
    ∀ (s : Table) (l a ta now : Nat), s l = some (a, ta) → now < ta + cfg.U →
      ClocksAgree now cmds → NotReleasedBy l a cmds → (ta :: stamps cmds).Pairwise (· ≤ ·) →
      ∃ ta', ta ≤ ta' ∧ run cfg s cmds l = some (a, ta') := by
  induction cmds with
  | nil => intro s l a ta now h _ _ _ _; exact ⟨ta, Nat.le_refl _, h⟩
  | cons cmd rest ih =>
    intro s l a ta now h hnow hs hr hp
    have hs1 : cmd.stampLE now := hs cmd (List.mem_cons_self ..)
    have hr1 : cmd ≠ .release l a := fun e => hr (by rw [e]; exact List.mem_cons_self ..)
    have hs2 : ClocksAgree now rest := fun c hc => hs c (List.mem_cons_of_mem _ hc)
    have hr2 : NotReleasedBy l a rest := fun hc => hr (List.mem_cons_of_mem _ hc)
    rw [stamps_cons] at hp
    have hge : cmd.stampGE ta := by
      unfold Cmd.stampGE
      split
      · next t ht =>
        rw [ht] at hp
        exact (List.pairwise_cons.mp hp).1 t (List.mem_cons_self ..)
      · trivial
    obtain ⟨t1, hle, hcase, h1⟩ := held_step cfg s l a ta now cmd h hnow hs1 hr1 (Or.inr hge)
    have hp2 : (t1 :: stamps rest).Pairwise (· ≤ ·) := by
      rcases hcase with e | e
      · subst e
        split at hp
        · exact List.Pairwise.sublist (List.Sublist.cons_cons _ (List.sublist_cons_self ..)) hp
        · exact hp
      · rw [e] at hp
        exact (List.pairwise_cons.mp hp).2
    obtain ⟨t2, hle2, h2⟩ := ih (apply cfg s cmd) l a t1 now h1 (by omega) hs2 hr2 hp2
    exact ⟨t2, by omega, by rw [run_cons]; exact h2⟩

/-! ## Only `acquire` gives a lock -/

/-- one step: a client that does not hold `l` does not hold it after any command other than its own
`acquire` of `l`. -/
theorem not_held_step (cfg : Cfg) (s : Table) (l c : Nat) (cmd : Cmd)
    (h : ∀ t, s l ≠ some (c, t)) (hn : ∀ t, cmd ≠ .acquire l c t) :
    ∀ t, apply cfg s cmd l ≠ some (c, t) := by
  intro t ht
  cases cmd with
  | acquire l' c' t' =>
    by_cases hl : l = l'
    · subst hl
      have hc : c' ≠ c := fun e => hn t' (by rw [e])
      simp only [apply, applyRes] at ht
      cases hs : s l with
      | none =>
        rw [acquire_free cfg s l c' t' hs] at ht
        simp [set_get] at ht
        exact hc ht.1
      | some v =>
        obtain ⟨c0, t0⟩ := v
        by_cases he : t0 + cfg.U < t'
        · rw [acquire_expired cfg s l c' c0 t' t0 hs he] at ht
          simp [set_get] at ht
          exact hc ht.1
        · by_cases hc0 : c0 = c'
          · subst hc0
            rw [acquire_holder cfg s l c0 t' t0 hs he] at ht
            simp [set_get] at ht
            exact hc ht.1
          · rw [acquire_refused cfg s l c' c0 t' t0 hs he hc0] at ht
            exact h t ht
    · simp only [apply, applyRes] at ht
      rw [acquire_get_ne cfg s c' t' hl] at ht
      exact h t ht
  | prolongate c' t' =>
    simp only [apply, applyRes, prolongate_get] at ht
    cases hs : s l with
    | none => simp [hs] at ht
    | some v =>
      obtain ⟨c0, t0⟩ := v
      have hc0 : c0 ≠ c := fun e => h t0 (by rw [hs, e])
      simp only [hs] at ht
      split at ht
      · cases ht
      · split at ht
        · next hcc =>
          injection ht with ht
          injection ht with h1 _
          exact hc0 (hcc.trans h1)
        · injection ht with ht
          injection ht with h1 _
          exact hc0 h1
  | release l' c' =>
    simp only [apply, applyRes] at ht
    by_cases hl : l = l'
    · subst hl
      cases hs : s l with
      | none => rw [release_non_holder s l c' (by simp [hs])] at ht; exact h t ht
      | some v =>
        obtain ⟨c0, t0⟩ := v
        by_cases hc : c0 = c'
        · subst hc
          rw [release_holder s l c0 t0 hs] at ht
          simp [del_get] at ht
        · rw [release_non_holder s l c' (by intro t1 e; rw [hs] at e; injection e with e; injection e with e1 _; exact hc e1)] at ht
          exact h t ht
    · rw [release_get_ne s c' hl] at ht
      exact h t ht

theorem not_held_run (cfg : Cfg) (cmds : List Cmd) :
    ∀ (s : Table) (l c : Nat), (∀ t, s l ≠ some (c, t)) → (∀ t, Cmd.acquire l c t ∉ cmds) →
      ∀ t, run cfg s cmds l ≠ some (c, t) := by
  induction cmds with
  | nil => intro s l c h _; exact h
  | cons x xs ih =>
    intro s l c h hn
    rw [run_cons]
    exact ih _ l c (not_held_step cfg s l c x h (fun t e => hn t (by rw [e]; exact List.mem_cons_self ..)))
      (fun t hm => hn t (List.mem_cons_of_mem _ hm))

/-- after its own `release` a client does not hold the lock. -/
theorem release_not_held (s : Table) (l c : Nat) : ∀ t, release s l c l ≠ some (c, t) := by
  intro t ht
  cases hs : s l with
  | none => rw [release_non_holder s l c (by simp [hs]), hs] at ht; cases ht
  | some v =>
    obtain ⟨c0, t0⟩ := v
    by_cases hc : c0 = c
    · subst hc
      rw [release_holder s l c0 t0 hs] at ht
      simp [del_get] at ht
    · rw [release_non_holder s l c (by intro t1 e; rw [hs] at e; injection e with e; injection e with e1 _; exact hc e1), hs] at ht
      injection ht with ht
      injection ht with h1 _
      exact hc h1

/-! ## Every lock time is a stamp of its holder -/

/-- one step: an entry after the step is an old entry or carries the stamp and client of the command. -/
theorem entry_step (cfg : Cfg) (s : Table) (cmd : Cmd) (l c t : Nat)
    (h : apply cfg s cmd l = some (c, t)) :
    s l = some (c, t) ∨ (cmd.client = c ∧ cmd.stamp? = some t) := by
  cases cmd with
  | acquire l' c' t' =>
    by_cases hl : l = l'
    · subst hl
      simp only [apply, applyRes] at h
      cases hs : s l with
      | none =>
        rw [acquire_free cfg s l c' t' hs] at h
        simp [set_get] at h
        right; simp [Cmd.client, Cmd.stamp?, h.1, h.2]
      | some v =>
        obtain ⟨c0, t0⟩ := v
        by_cases he : t0 + cfg.U < t'
        · rw [acquire_expired cfg s l c' c0 t' t0 hs he] at h
          simp [set_get] at h
          right; simp [Cmd.client, Cmd.stamp?, h.1, h.2]
        · by_cases hc : c0 = c'
          · subst hc
            rw [acquire_holder cfg s l c0 t' t0 hs he] at h
            simp [set_get] at h
            rcases newTime_cases cfg t' t0 with e | e
            · right; simp [Cmd.client, Cmd.stamp?, ← h.1, ← h.2, e]
            · left; rw [← h.1, ← h.2, e]
          · rw [acquire_refused cfg s l c' c0 t' t0 hs he hc] at h
            left; rw [← hs]; exact h
    · left
      simp only [apply, applyRes] at h
      rw [acquire_get_ne cfg s c' t' hl] at h
      exact h
  | prolongate c' t' =>
    simp only [apply, applyRes, prolongate_get] at h
    cases hs : s l with
    | none => simp [hs] at h
    | some v =>
      obtain ⟨c0, t0⟩ := v
      simp only [hs] at h
      split at h
      · cases h
      · split at h
        · next hc =>
          subst hc
          injection h with h
          injection h with h1 h2
          rcases newTime_cases cfg t' t0 with e | e
          · right; simp [Cmd.client, Cmd.stamp?, ← h1, ← h2, e]
          · left; rw [← h1, ← h2, e]
        · left; exact h
  | release l' c' =>
    left
    simp only [apply, applyRes] at h
    by_cases hl : l = l'
    · subst hl
      cases hs : s l with
      | none => rw [release_non_holder s l c' (by simp [hs])] at h; rw [← hs]; exact h
      | some v =>
        obtain ⟨c0, t0⟩ := v
        by_cases hc : c0 = c'
        · subst hc
          rw [release_holder s l c0 t0 hs] at h
          simp [del_get] at h
        · rw [release_non_holder s l c' (by intro t1 e; rw [hs] at e; injection e with e; injection e with e1 _; exact hc e1)] at h
          rw [← hs]; exact h
    · rw [release_get_ne s c' hl] at h
      exact h

/-- an entry after running `cmds` from `s` is an entry of `s` or carries client and stamp of one of `cmds`. -/
theorem run_entry (cfg : Cfg) (cmds : List Cmd) :
    ∀ (s : Table) (l c t : Nat), run cfg s cmds l = some (c, t) →
      s l = some (c, t) ∨ ∃ cmd ∈ cmds, cmd.client = c ∧ cmd.stamp? = some t := by
  induction cmds with
  | nil => intro s l c t h; exact Or.inl h
  | cons x xs ih =>
    intro s l c t h
    rw [run_cons] at h
    rcases ih _ l c t h with h1 | ⟨cmd, hm, hc⟩
    · rcases entry_step cfg s x l c t h1 with h2 | h2
      · exact Or.inl h2
      · exact Or.inr ⟨x, List.mem_cons_self .., h2⟩
    · exact Or.inr ⟨cmd, List.mem_cons_of_mem _ hm, hc⟩

/-- invariant over logs: the time of an entry `(c, t)` is the stamp of a command of `c` in the log. -/
theorem entry_time_is_stamp (cfg : Cfg) (log : List Cmd) (l c t : Nat)
    (h : stateAfter cfg log l = some (c, t)) : ∃ cmd ∈ log, cmd.client = c ∧ cmd.stamp? = some t := by
  rcases run_entry cfg log Table.empty l c t h with h1 | h1
  · simp [Table.empty] at h1
  · exact h1

end PSO.Locks
