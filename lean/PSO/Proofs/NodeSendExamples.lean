import PSO.Proofs.NodeSendCallbacks

/-! # Non-vacuity of the node-local C02 / C10 theorems: concrete states satisfying their hypotheses -/
namespace PSO.NodeSend

def exLog : List Entry := [⟨⟨.noop, 0, 1, 54⟩, 1, 0⟩, ⟨⟨.noop, 0, 1, 54⟩, 2, 1⟩, ⟨⟨.regular, 5, 20, 54⟩, 3, 1⟩]

/-- a leader of {0,1,2} whose own no-op (index 2) is applied -/
def exLeader : Node :=
  { self := some 0, role := .leader, term := 1, leader := some 0, log := exLog, commit := 3, lastApplied := 3,
    members := [1, 2], connected := [1, 2], nextIndex := [(1, 4), (2, 4)], matchIndex := [(1, 3), (2, 3)],
    noopIdx := some 2, queue := [(⟨.add 3, 7, 80, 56⟩, .loc 41), (⟨.add 4, 8, 80, 56⟩, .loc 42)] }

def exConf : Conf := { dynMember := true, batch := 100 }

/-- `gate`: the first request passes (entry 4 appended, `changeIdx = 4`, member 3 added) … -/
example : ∃ s' o, leaderDispatch exConf exLeader ⟨.add 3, 7, 80, 56⟩ (.loc 41) = .ok (s', o, .appendLocal) ∧
    s'.changeIdx = some 4 ∧ s'.members = [1, 2, 3] ∧ s'.waitCommit = [(4, 1, 41)] := ⟨_, _, rfl, rfl, rfl, rfl⟩

/-- … and draining the queue refuses the second one back to back: one `REQUEST_DENIED`, one entry appended. -/
example : ∃ s' brs, checkCommands exConf none exLeader =
      .ok (s', [.addNode 3, .callback 42 .requestDenied], brs) ∧ brs = [.appendLocal, .denied] ∧
    s'.log.length = 4 ∧ s'.members = [1, 2, 3] := ⟨_, _, rfl, rfl, rfl, rfl⟩

example : isRequest exConf ⟨.add 3, 7, 80, 56⟩ = true := rfl
example : GateInv exLeader := by
  intro e he hm
  simp [exLeader, exLog] at he
  rcases he with h | h | h <;> subst h <;> simp [isMembership, parseChange] at hm

/-- `MInv` holds of the example leader over its initial configuration -/
example : MInv [1, 2] exLeader :=
  ⟨⟨by decide, by intro n h; cases h; decide⟩, ⟨by decide, by intro n h; cases h; decide⟩,
   by intro x; simp [exLeader, exLog, foldConfig, memStep, changeDir],
   by simp [exLeader, exLog, Eff, EffStep, changeDir]⟩

/-- majorities: {1,2} of {0,1,2} and {2,3,0} of {3,0,1,2} -/
example : IsMajorityOf [1, 2] [0, 1, 2] ∧ IsMajorityOf [2, 3, 0] (3 :: [0, 1, 2]) := by
  refine ⟨⟨by decide, by decide, by decide⟩, ⟨by decide, by decide, by decide⟩⟩

/-- `callback_at_most_once_local`: a run with a submission, a drain, a leader change -/
example : ∃ s' o, evRun exConf exLeader [.submit ⟨.regular, 9, 10, 54⟩ (.loc 43), .check none, .leaderChanged] = .ok (s', o) ∧
    cbIds o = [42] ∧ (submitted [Ev.submit ⟨.regular, 9, 10, 54⟩ (.loc 43), .check none, .leaderChanged] ++ pendingIds exLeader).Nodup :=
  ⟨_, _, rfl, rfl, by decide⟩

/-- a follower forwarding with a callback, then the leader's answer arrives -/
def exFollower : Node :=
  { self := some 1, role := .follower, term := 1, leader := some 0, log := exLog, commit := 3, lastApplied := 3,
    members := [0, 2], queue := [(⟨.regular, 9, 10, 54⟩, .loc 50)] }

example : ∃ s' o, evRun exConf exFollower [.check none, .response 1 (.ok (4, 1))] = .ok (s', o) ∧
    o = [.send 0 (.applyCommand ⟨.regular, 9, 10, 54⟩ (some 1))] ∧ s'.waitCommit = [(4, 1, 50)] ∧ s'.waitReply = [] :=
  ⟨_, _, rfl, rfl, rfl, rfl⟩

/-- failure path: a follower without leader (commandsWaitLeader off) reports MISSING_LEADER and appends nothing -/
example : dispatchOne exConf { exFollower with leader := none } ⟨.regular, 9, 10, 54⟩ (.loc 50) =
    .ok ({ exFollower with leader := none }, [.callback 50 .missingLeader], .missingLeader) := rfl

end PSO.NodeSend
