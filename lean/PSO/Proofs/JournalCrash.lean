import PSO.Proofs.JournalLayout
/-! Crash points: `crashDisk` over primitive lists, compositional reasoning. -/
namespace PSO.Journal

@[simp] theorem applyPrims_nil (d : Disk) : applyPrims d [] = d := rfl
@[simp] theorem applyPrims_cons (d : Disk) (p : Prim) (ps : List Prim) :
    applyPrims d (p :: ps) = applyPrims (applyPrim d p) ps := rfl
theorem applyPrims_append (d : Disk) (a b : List Prim) :
    applyPrims d (a ++ b) = applyPrims (applyPrims d a) b := by
  simp [applyPrims, List.foldl_append]

@[simp] theorem crashDisk_nil (d : Disk) (k t : Nat) : crashDisk d [] k t = d := by
  simp [crashDisk]

@[simp] theorem crashDisk_cons_zero (d : Disk) (p : Prim) (ps : List Prim) (t : Nat) :
    crashDisk d (p :: ps) 0 t = tornPrim d p t := by
  simp [crashDisk]

@[simp] theorem crashDisk_cons_succ (d : Disk) (p : Prim) (ps : List Prim) (k t : Nat) :
    crashDisk d (p :: ps) (k + 1) t = crashDisk (applyPrim d p) ps k t := by
  simp [crashDisk]

theorem crashDisk_all (d : Disk) (ps : List Prim) (k t : Nat) (h : ps.length ≤ k) :
    crashDisk d ps k t = applyPrims d ps := by
  induction ps generalizing d k with
  | nil => simp
  | cons p ps ih =>
    cases k with
    | zero => simp at h
    | succ k => simp at h; simp [ih _ _ h]

theorem crashDisk_append_zero (d : Disk) (a b : List Prim) (t : Nat) (h : a ≠ []) :
    crashDisk d (a ++ b) 0 t = crashDisk d a 0 t := by
  cases a with
  | nil => exact absurd rfl h
  | cons p a => simp

/-- `Q` holds of the disk at every crash point of `ps` started on `d` (including "completed"). -/
def CrashAll (Q : Disk → Prop) (d : Disk) (ps : List Prim) : Prop := ∀ k t, Q (crashDisk d ps k t)

theorem CrashAll.nil {Q d} (h : Q d) : CrashAll Q d [] := fun k t => by simpa using h

theorem CrashAll.cons {Q d p ps} (h0 : ∀ t, Q (tornPrim d p t)) (h1 : CrashAll Q (applyPrim d p) ps) :
    CrashAll Q d (p :: ps) := by
  intro k t
  cases k with
  | zero => simpa using h0 t
  | succ k => simpa using h1 k t

theorem CrashAll.append {Q d a b} (h0 : CrashAll Q d a) (h1 : CrashAll Q (applyPrims d a) b) :
    CrashAll Q d (a ++ b) := by
  induction a generalizing d with
  | nil => simpa using h1
  | cons p a ih =>
    apply CrashAll.cons
    · intro t; simpa using h0 0 t
    · apply ih
      · intro k t; simpa using h0 (k + 1) t
      · simpa using h1

theorem CrashAll.mono {Q Q' : Disk → Prop} {d ps} (h : CrashAll Q d ps) (hq : ∀ d, Q d → Q' d) :
    CrashAll Q' d ps := fun k t => hq _ (h k t)

theorem CrashAll.final {Q d ps} (h : CrashAll Q d ps) : Q (applyPrims d ps) := by
  have := h ps.length 0
  rwa [crashDisk_all _ _ _ _ (Nat.le_refl _)] at this

/-- The header word store is atomic. -/
theorem tornPrim_hdr (d : Disk) (bs : Bytes) (hb : bs.length = 4) (t : Nat) :
    tornPrim d (.store 36 bs) t = d := by
  simp [tornPrim, atomicStore, hb]

theorem tornPrim_record (d : Disk) (off : Nat) (bs : Bytes) (hb : 4 < bs.length) (t : Nat) :
    tornPrim d (.store off bs) t = { d with file := storeAt d.file off (bs.take t) } := by
  have : ¬ bs.length ≤ 4 := by omega
  simp [tornPrim, atomicStore, this]

end PSO.Journal
