import PSO.Proofs.BridgeVote
import PSO.Proofs.RaftProgressBasic

/-!
# Bridge, part 2: the leader branch of `_onTick` (commit advance, fallback) and `__applyLogEntries`
-/
namespace PSO.Bridge
open PSO
open PSO.NodeTick
open PSO.Raft (Role isMajority)

/-! ## commit advance -/

/-- the guard of `PSO.Raft.Action.advanceCommit n i` on a node state -/
def CommitGuard (N n : Nat) (ns : Raft.NodeSt) (i : Nat) : Prop :=
  n < N ∧ ns.role = .leader ∧ ns.commit < i ∧ i < ns.log.length ∧ Raft.termAt ns.log i = ns.term ∧
    isMajority N (Raft.matchCount N n ns.matchIdx i) = true

/-- **A commit advance of the tick satisfies the guard of `advanceCommit`.**  Voters `0 … N−1`, this node is
voter `n`, its log is well formed, its commit index is a real index (`≥ 1`): if the leader branch computes a
new commit index `r ≠ commit`, then `advanceCommit n (r − 1)` is enabled on the abstraction. -/
theorem nextCommit_guard (s : NodeState) (N n : Nat) (hn : n < N) (hoth : s.others = Raft.others N n)
    (hwf : WFLog s.log) (hl : s.role = .leader) (hc : 1 ≤ s.commit) (h : nextCommit s ≠ s.commit) :
    CommitGuard N n (absNode s) (nextCommit s - 1) := by
  obtain ⟨hmaj, hterm, hlt, _⟩ := nextCommit_spec s h
  obtain ⟨h1, h2, h3⟩ := termAt_abs hwf hterm
  have hN : s.others.length + 1 = N := by
    rw [hoth, Raft.others_length hn]; omega
  refine ⟨hn, hl, ?_, ?_, h3, ?_⟩
  · show s.commit - 1 < nextCommit s - 1
    omega
  · show nextCommit s - 1 < (absLog s.log).length
    rw [absLog_length]; omega
  · rw [hN, hoth, commitCount_abs N n s.matchIndex (by omega)] at hmaj
    exact hmaj

/-! ## the leader branch as a whole -/

/-- `leaderPhase` on the abstraction: the commit position becomes `nextCommit − 1` (unchanged when the loop finds
nothing), the role becomes follower iff the fallback count is not a majority; no model message. -/
theorem leaderPhase_abs (c : Config) (s : NodeState) (n now : Nat) (hl : s.role = .leader) :
    absNode (leaderPhase c s now).1 =
      { absNode s with
          commit := nextCommit s - 1
          role := if isMajority (s.others.length + 1) (freshCount s.others s.lastResponse now c.fallbackT) = true
                  then .leader else .follower } ∧
    absOuts n (leaderPhase c s now).2 = [] := by
  rw [leaderPhase_eq, if_pos hl]
  split
  · refine ⟨?_, rfl⟩
    apply nodeSt_ext <;> first | rfl | exact hl
  · refine ⟨?_, ?_⟩
    · apply nodeSt_ext <;> rfl
    · simp only []
      split <;> rfl

theorem leaderPhase_idle (c : Config) (s : NodeState) (now : Nat) (hl : s.role ≠ .leader) :
    leaderPhase c s now = (s, []) := by
  rw [leaderPhase_eq, if_neg hl]

/-! ## `__applyLogEntries` -/

theorem getEntries_length_le (log : List Entry) (frm count : Nat) : (getEntries log frm count).length ≤ count := by
  unfold getEntries
  split
  · simp
  · exact List.length_take_le _ _

theorem length_takeWhile_le' {α : Type} (p : α → Bool) (l : List α) : (l.takeWhile p).length ≤ l.length := by
  induction l with
  | nil => simp
  | cons a t ih =>
    rw [List.takeWhile_cons]
    split
    · simp only [List.length_cons]; omega
    · simp

theorem applyEntries_applied_le (c : Config) (s : NodeState) (now : Nat) :
    (applyEntries c s now).1.lastApplied ≤ max s.lastApplied s.commit := by
  unfold applyEntries
  split
  · exact Nat.le_max_left _ _
  · split
    · next hlt =>
      rw [(applyLoop_applied_sm c now _ s).1]
      have h1 : (applicable c (getEntries s.log (s.lastApplied + 1) (s.commit - s.lastApplied))).length ≤
          (getEntries s.log (s.lastApplied + 1) (s.commit - s.lastApplied)).length := by
        unfold applicable
        exact length_takeWhile_le' _ _
      have h2 := getEntries_length_le s.log (s.lastApplied + 1) (s.commit - s.lastApplied)
      omega
    · exact Nat.le_max_left _ _

/-- **`__applyLogEntries` refines `k` × `apply`** (node level), `k` = the number of entries applied: on the
abstraction only `applied` moves, by `k`, and stays `≤ commit` (so each of the `k` model steps is enabled). -/
theorem applyEntries_abs (c : Config) (s : NodeState) (now : Nat) (hm : NoMembership s.log)
    (h1 : 1 ≤ s.lastApplied) :
    absNode (applyEntries c s now).1 =
      { absNode s with applied := (absNode s).applied + ((applyEntries c s now).1.lastApplied - s.lastApplied) } ∧
    ((applyEntries c s now).1.lastApplied - s.lastApplied = 0 ∨
      (absNode s).applied + ((applyEntries c s now).1.lastApplied - s.lastApplied) ≤ (absNode s).commit) := by
  have hf := applyEntries_frame c s now
  have hv := applyEntries_voterFrame c s now hm
  have hle := applyEntries_applied_le c s now
  have hge := hf.applied
  refine ⟨?_, ?_⟩
  · apply nodeSt_ext
    · exact hf.term
    · exact hf.votedFor
    · exact hf.role
    · exact hf.votes
    · show absLog _ = absLog _
      rw [hf.log]
    · show _ - 1 = _ - 1
      rw [hf.commit]
    · show (applyEntries c s now).1.lastApplied - 1 = s.lastApplied - 1 + _
      omega
    · show absMatch _ = absMatch _
      rw [hv.matchIndex]
  · show _ ∨ s.lastApplied - 1 + _ ≤ s.commit - 1
    omega

theorem readyPhase_abs (s : NodeState) : absNode (readyPhase s).1 = absNode s := by
  rcases readyPhase_fst s with h | h
  · rw [h]
  · rw [h]; rfl

/-! ## running `k` × `apply` in the protocol model -/

theorem run_apply (N n : Nat) : ∀ (k : Nat) (S : Raft.State), (k = 0 ∨ (S.nodes n).applied + k ≤ (S.nodes n).commit) →
    ∃ S', Raft.run N S (List.replicate k (.apply n)) = some S' ∧
      S'.nodes n = { S.nodes n with applied := (S.nodes n).applied + k } ∧
      (∀ j, j ≠ n → S'.nodes j = S.nodes j) ∧ S'.msgs = S.msgs := by
  intro k
  induction k with
  | zero => intro S _; exact ⟨S, rfl, rfl, fun _ _ => rfl, rfl⟩
  | succ k ih =>
    intro S h
    have hk : (S.nodes n).applied + (k + 1) ≤ (S.nodes n).commit := by
      rcases h with h | h
      · omega
      · exact h
    have hg : (S.nodes n).applied < (S.nodes n).commit := by omega
    simp only [List.replicate_succ, Raft.run, step_apply N S n hg]
    obtain ⟨S', hr, h1, h2, h3⟩ := ih (Raft.setNode S n { S.nodes n with applied := (S.nodes n).applied + 1 })
      (by right; rw [setNode_self]; show (S.nodes n).applied + 1 + k ≤ (S.nodes n).commit; omega)
    refine ⟨S', hr, ?_, ?_, ?_⟩
    · rw [h1, setNode_self]
      apply nodeSt_ext <;> first | rfl | (show (S.nodes n).applied + 1 + k = (S.nodes n).applied + (k + 1); omega)
    · intro j hj; rw [h2 j hj, setNode_ne _ _ _ _ hj]
    · rw [h3]; rfl

end PSO.Bridge
