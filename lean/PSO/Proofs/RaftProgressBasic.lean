import PSO.Proofs.RaftTheorems

/-!
# Progress (C05), part 1: running action lists, enabledness of single actions

`step_*` lemmas: under the action's guard (stated as hypotheses) the step is enabled and the fields of
the successor state are as listed.  They are the "every step is a guard check" part of the progress
theorems of `RaftProgress*.lean`.
-/
namespace PSO.Raft

/-! ## running lists -/

theorem run_append {N : Nat} : ∀ (as bs : List Action) (s : State),
    run N s (as ++ bs) = (run N s as).bind (fun s' => run N s' bs) := by
  intro as
  induction as with
  | nil => intro bs s; simp [run]
  | cons a as ih =>
    intro bs s
    simp only [List.cons_append, run]
    cases step N s a with
    | none => simp
    | some s1 => simp [ih]

theorem run_append_some {N : Nat} {as bs : List Action} {s s1 s2 : State}
    (h1 : run N s as = some s1) (h2 : run N s1 bs = some s2) : run N s (as ++ bs) = some s2 := by
  rw [run_append, h1]; simpa using h2

theorem run_cons_some {N : Nat} {a : Action} {as : List Action} {s s1 s2 : State}
    (h1 : step N s a = some s1) (h2 : run N s1 as = some s2) : run N s (a :: as) = some s2 := by
  simp only [run, h1]; exact h2

theorem run_one {N : Nat} {a : Action} {s s1 : State} (h1 : step N s a = some s1) :
    run N s [a] = some s1 := run_cons_some h1 rfl

/-- Fault actions: a node restart (memory lost) and the loss of a message. -/
def Action.isFault : Action → Bool
  | .restart .. => true
  | .lose .. => true
  | _ => false

/-- A continuation that needs no fault: no restart, no message loss. -/
def NoFault (as : List Action) : Prop := ∀ a ∈ as, a.isFault = false

theorem NoFault.nil : NoFault [] := fun _ h => by cases h
theorem NoFault.append {as bs : List Action} (h1 : NoFault as) (h2 : NoFault bs) : NoFault (as ++ bs) := by
  intro a ha
  rcases List.mem_append.mp ha with h | h
  · exact h1 a h
  · exact h2 a h
theorem NoFault.cons {a : Action} {as : List Action} (h1 : a.isFault = false) (h2 : NoFault as) :
    NoFault (a :: as) := by
  intro b hb
  rcases List.mem_cons.mp hb with h | h
  · subst h; exact h1
  · exact h2 b h
theorem NoFault.flatMap {l : List Nat} {f : Nat → List Action} (h : ∀ d ∈ l, NoFault (f d)) :
    NoFault (l.flatMap f) := by
  intro a ha
  obtain ⟨d, hd, had⟩ := List.mem_flatMap.mp ha
  exact h d hd a had
theorem NoFault.replicate {k : Nat} {a : Action} (h : a.isFault = false) : NoFault (List.replicate k a) := by
  intro b hb
  rw [(List.mem_replicate.mp hb).2]; exact h

theorem NoFault.noRestart {as : List Action} (h : NoFault as) : NoRestart as := by
  intro a ha n c a' heq
  have := h a ha
  subst heq
  simp [Action.isFault] at this

/-- Run a block of actions for every `d` of a list, maintaining an invariant indexed by the list of
nodes still to be served. -/
theorem run_foreach {N : Nat} (I : List Nat → State → Prop)
    (hstep : ∀ d rest s, I (d :: rest) s → ∃ as s', NoFault as ∧ run N s as = some s' ∧ I rest s') :
    ∀ (l : List Nat) (s : State), I l s → ∃ as s', NoFault as ∧ run N s as = some s' ∧ I [] s' := by
  intro l
  induction l with
  | nil => intro s h; exact ⟨[], s, NoFault.nil, rfl, h⟩
  | cons d rest ih =>
    intro s h
    obtain ⟨as1, s1, hn1, hr1, hI1⟩ := hstep d rest s h
    obtain ⟨as2, s2, hn2, hr2, hI2⟩ := ih s1 hI1
    exact ⟨as1 ++ as2, s2, hn1.append hn2, run_append_some hr1 hr2, hI2⟩

theorem mem_erase_snoc {m x : Msg} {l : List Msg} (hx : x ∈ l) : x ∈ (l ++ [m]).erase m := by
  by_cases hm : m ∈ l
  · rw [List.erase_append_left _ hm]
    by_cases hxm : x = m
    · subst hxm; simp
    · exact List.mem_append_left _ ((List.mem_erase_of_ne hxm).mpr hx)
  · rw [List.erase_append_right _ hm]
    exact List.mem_append_left _ hx

/-! ## the other voters -/

theorem others_length_aux (c : Nat) : ∀ n, (others n c).length = if c < n then n - 1 else n := by
  intro n
  induction n with
  | zero => simp [others]
  | succ n ih =>
    unfold others at ih ⊢
    rw [List.range_succ, List.filter_append, List.length_append, ih]
    have h3 : (List.filter (fun x => decide (x ≠ c)) [n]).length = if n = c then 0 else 1 := by
      by_cases h : n = c <;> simp [h]
    rw [h3]
    repeat' split
    all_goals omega

theorem others_length {N c : Nat} (h : c < N) : (others N c).length = N - 1 := by
  rw [others_length_aux, if_pos h]

theorem mem_others {N c d : Nat} : d ∈ others N c ↔ d < N ∧ d ≠ c := by
  simp [others]

theorem others_nodup (N c : Nat) : (others N c).Nodup :=
  List.Nodup.sublist List.filter_sublist List.nodup_range

/-! ## enabledness and effect of single actions -/

theorem step_sendAppend {N : Nat} {s : State} {n dst prev k c : Nat} (h1 : n < N) (h2 : dst ≠ n)
    (h3 : (s.nodes n).role = .leader) (h4 : prev < (s.nodes n).log.length) (h5 : c ≤ (s.nodes n).commit) :
    step N s (.sendAppend n dst prev k c) = some { s with msgs := s.msgs ++
      [Msg.append (s.nodes n).term n dst prev (termAt (s.nodes n).log prev)
        (((s.nodes n).log.drop (prev + 1)).take k) c] } := by
  simp only [step]; rw [if_pos ⟨h1, h2, h3, h4, h5⟩]

theorem step_sendSnapshot {N : Nat} {s : State} {n dst k c : Nat} (h1 : n < N) (h2 : dst ≠ n)
    (h3 : (s.nodes n).role = .leader) (h4 : k ≤ (s.nodes n).applied) (h5 : k < (s.nodes n).log.length)
    (h6 : c ≤ (s.nodes n).commit) :
    step N s (.sendSnapshot n dst k c) = some { s with msgs := s.msgs ++
      [Msg.snapshot (s.nodes n).term n dst k (termAt (s.nodes n).log k) c
        ((s.nodes n).log.take (k + 1))] } := by
  simp only [step]; rw [if_pos ⟨h1, h2, h3, h4, h5, h6⟩]

/-- An `append_entries` whose consistency check passes is merged and acknowledged. -/
theorem step_recvAppend_accept {N : Nat} {s : State} {n t ldr prev pt : Nat} {es : List Entry} {c : Nat}
    (hm : Msg.append t ldr n prev pt es c ∈ s.msgs) (ht : ¬ t < (s.nodes n).term)
    (hp : prev < (s.nodes n).log.length) (hpt : termAt (s.nodes n).log prev = pt) :
    ∃ s', step N s (.recvAppend n (.append t ldr n prev pt es c)) = some s' ∧
      (∀ x, x ≠ n → s'.nodes x = s.nodes x) ∧
      (s'.nodes n).log = mergeEntries (s.nodes n).log prev es ∧
      (s'.nodes n).term = t ∧ (s'.nodes n).role = .follower ∧
      (s'.nodes n).applied = (s.nodes n).applied ∧
      (s'.nodes n).commit = (if (s.nodes n).commit < c then max (s.nodes n).commit (min c (prev + es.length))
                              else (s.nodes n).commit) ∧
      s'.msgs = s.msgs.erase (.append t ldr n prev pt es c) ++ [Msg.ack t n ldr (prev + es.length)] ∧
      s'.g.acked t n = max (s.g.acked t n) (prev + es.length) := by
  simp only [step]
  rw [if_pos ⟨trivial, hm⟩, if_neg ht, if_pos ⟨by simpa using hp, by simpa using hpt⟩]
  refine ⟨_, rfl, fun x hx => by simp [setNode, hx], ?_, ?_, ?_, ?_, ?_, ?_, ?_⟩
  · simp
  · simp [adoptTerm_term ht]
  · simp
  · simp
  · simp
  · simp
  · simp [upd2]

/-- A rejected `append_entries` (position unknown or term mismatch) only adopts the term. -/
theorem step_recvAppend_reject {N : Nat} {s : State} {n t ldr prev pt : Nat} {es : List Entry} {c : Nat}
    (hm : Msg.append t ldr n prev pt es c ∈ s.msgs) (ht : ¬ t < (s.nodes n).term)
    (hrej : ¬ (prev < (s.nodes n).log.length ∧ termAt (s.nodes n).log prev = pt)) :
    ∃ s', step N s (.recvAppend n (.append t ldr n prev pt es c)) = some s' ∧
      (∀ x, x ≠ n → s'.nodes x = s.nodes x) ∧
      s'.nodes n = adoptTerm (s.nodes n) t ∧
      s'.msgs = s.msgs.erase (.append t ldr n prev pt es c) ∧ s'.g = s.g := by
  simp only [step]
  rw [if_pos ⟨trivial, hm⟩, if_neg ht, if_neg (by simpa using hrej)]
  exact ⟨_, rfl, fun x hx => by simp [setNode, hx], by simp, rfl, rfl⟩

/-- A stale `append_entries` (older term) is dropped. -/
theorem step_recvAppend_stale {N : Nat} {s : State} {n t ldr prev pt : Nat} {es : List Entry} {c : Nat}
    (hm : Msg.append t ldr n prev pt es c ∈ s.msgs) (ht : t < (s.nodes n).term) :
    step N s (.recvAppend n (.append t ldr n prev pt es c)) =
      some { s with msgs := s.msgs.erase (.append t ldr n prev pt es c) } := by
  simp only [step]
  rw [if_pos ⟨trivial, hm⟩, if_pos ht]

/-- The leader of the acknowledgement's term records it. -/
theorem step_recvAck {N : Nat} {s : State} {n t flw idx : Nat} (hn : n < N)
    (hm : Msg.ack t flw n idx ∈ s.msgs) (hr : (s.nodes n).role = .leader) (ht : t = (s.nodes n).term) :
    ∃ s' mi, step N s (.recvAck n (.ack t flw n idx)) = some s' ∧
      (∀ x, x ≠ n → s'.nodes x = s.nodes x) ∧
      s'.nodes n = { s.nodes n with matchIdx := mi } ∧ idx ≤ mi flw ∧
      (∀ x, x ≠ flw → mi x = (s.nodes n).matchIdx x) ∧ (s.nodes n).matchIdx flw ≤ mi flw ∧
      s'.msgs = s.msgs.erase (.ack t flw n idx) ∧ s'.g = s.g := by
  by_cases hlt : (s.nodes n).matchIdx flw < idx
  · simp only [step]
    rw [if_pos ⟨hn, trivial, hm⟩, if_pos ⟨hr, ht, hlt⟩]
    exact ⟨_, upd1 (s.nodes n).matchIdx flw idx, rfl, fun x hx => by simp [setNode, hx], by simp,
      by simp [upd1], fun x hx => by simp [upd1, hx], by simp [upd1]; omega, rfl, rfl⟩
  · simp only [step]
    rw [if_pos ⟨hn, trivial, hm⟩, if_neg (fun h => hlt h.2.2)]
    exact ⟨_, (s.nodes n).matchIdx, rfl, fun _ _ => rfl, rfl, by omega, fun _ _ => rfl, Nat.le_refl _, rfl, rfl⟩

theorem step_advanceCommit {N : Nat} {s : State} {n i : Nat} (h1 : n < N) (h2 : (s.nodes n).role = .leader)
    (h3 : (s.nodes n).commit < i) (h4 : i < (s.nodes n).log.length) (h5 : termAt (s.nodes n).log i = (s.nodes n).term)
    (h6 : isMajority N (matchCount N n (s.nodes n).matchIdx i) = true) :
    step N s (.advanceCommit n i) = some (setNode s n { s.nodes n with commit := i }) := by
  simp only [step]; rw [if_pos ⟨h1, h2, h3, h4, h5, h6⟩]

theorem step_apply {N : Nat} {s : State} {n : Nat} (h : (s.nodes n).applied < (s.nodes n).commit) :
    step N s (.apply n) = some (setNode s n { s.nodes n with applied := (s.nodes n).applied + 1 }) := by
  simp only [step]; rw [if_pos h]

theorem step_stepDown {N : Nat} {s : State} {n : Nat} (h1 : n < N) (h2 : (s.nodes n).role = .leader) :
    step N s (.stepDown n) = some (setNode s n { s.nodes n with role := .follower }) := by
  simp only [step]; rw [if_pos ⟨h1, h2⟩]

/-- `k` applications in a row. -/
theorem run_apply {N : Nat} (n : Nat) : ∀ (k : Nat) (s : State), (s.nodes n).applied + k ≤ (s.nodes n).commit →
    ∃ s', run N s (List.replicate k (.apply n)) = some s' ∧
      (∀ x, x ≠ n → s'.nodes x = s.nodes x) ∧
      s'.nodes n = { s.nodes n with applied := (s.nodes n).applied + k } ∧
      s'.msgs = s.msgs ∧ s'.g = s.g := by
  intro k
  induction k with
  | zero => intro s _; exact ⟨s, rfl, fun _ _ => rfl, rfl, rfl, rfl⟩
  | succ k ih =>
    intro s h
    have h1 := step_apply (N := N) (s := s) (n := n) (by omega)
    obtain ⟨s2, hr, hf, hn, hm, hg⟩ := ih (setNode s n { s.nodes n with applied := (s.nodes n).applied + 1 })
      (by simp; omega)
    refine ⟨s2, by rw [List.replicate_succ]; exact run_cons_some h1 hr, ?_, ?_, ?_, ?_⟩
    · intro x hx; rw [hf x hx]; simp [setNode, hx]
    · rw [hn]; simp; omega
    · rw [hm]; rfl
    · rw [hg]; rfl

/-! ### snapshots -/

theorem step_recvSnapshot {N : Nat} {s : State} {n t ldr k kt c : Nat} {pfx : List Entry}
    (hm : Msg.snapshot t ldr n k kt c pfx ∈ s.msgs) (ht : ¬ t < (s.nodes n).term) :
    ∃ s', step N s (.recvSnapshot n (.snapshot t ldr n k kt c pfx)) = some s' ∧
      (∀ x, x ≠ n → s'.nodes x = s.nodes x) ∧
      (s'.nodes n).term = t ∧ (s'.nodes n).role = .follower ∧
      ((k ≤ (s.nodes n).applied ∨ (k < (s.nodes n).log.length ∧ termAt (s.nodes n).log k = kt)) →
        (s'.nodes n).log = (s.nodes n).log ∧ (s'.nodes n).applied = (s.nodes n).applied ∧
        (s'.nodes n).commit = (if (s.nodes n).commit < c then max (s.nodes n).commit (min c k) else (s.nodes n).commit)) ∧
      (¬ (k ≤ (s.nodes n).applied ∨ (k < (s.nodes n).log.length ∧ termAt (s.nodes n).log k = kt)) →
        (s'.nodes n).log = pfx ∧ (s'.nodes n).applied = k ∧
        (s'.nodes n).commit = max (if (s.nodes n).commit < c then max (s.nodes n).commit (min c k) else (s.nodes n).commit) k) ∧
      Msg.ack t n ldr k ∈ s'.msgs ∧ k ≤ s'.g.acked t n := by
  simp only [step]
  rw [if_pos ⟨trivial, hm⟩, if_neg ht]
  refine ⟨_, rfl, fun x hx => by simp [setNode, hx], ?_, ?_, ?_, ?_, by simp, by simp [upd2]; omega⟩
  · simp only [setNode_nodes_self]
    split <;> simp [adoptTerm_term ht]
  · simp only [setNode_nodes_self]
    split <;> simp
  · intro hk
    simp only [setNode_nodes_self]
    rw [if_pos (by simpa using hk)]
    simp
  · intro hk
    simp only [setNode_nodes_self]
    rw [if_neg (by simpa using hk)]
    simp

/-! ### elections -/

@[simp] theorem becomeLeader_nodes_self (s : State) (n : Nat) (ns : NodeSt) :
    (becomeLeader s n ns).nodes n =
      { ns with role := .leader, matchIdx := fun _ => 0, log := ns.log ++ [⟨ns.term, 0⟩] } := by
  simp [becomeLeader, setNode]

theorem becomeLeader_nodes_ne (s : State) {n x : Nat} (ns : NodeSt) (h : x ≠ n) :
    (becomeLeader s n ns).nodes x = s.nodes x := by
  simp [becomeLeader, setNode, h]

@[simp] theorem becomeLeader_msgs (s : State) (n : Nat) (ns : NodeSt) : (becomeLeader s n ns).msgs = s.msgs := rfl

/-- An election timeout of a non-leader voter: new term, own vote, vote requests to `dsts`; a
single-voter cluster wins at once. -/
theorem step_timeout {N : Nat} {s : State} {n : Nat} {dsts : List Nat} (h1 : n < N)
    (h2 : (s.nodes n).role ≠ .leader) (h3 : ∀ d ∈ dsts, d < N ∧ d ≠ n) :
    ∃ s', step N s (.timeout n dsts) = some s' ∧
      (∀ x, x ≠ n → s'.nodes x = s.nodes x) ∧
      (s'.nodes n).term = (s.nodes n).term + 1 ∧
      (s'.nodes n).commit = (s.nodes n).commit ∧ (s'.nodes n).applied = (s.nodes n).applied ∧
      (∀ d ∈ dsts, Msg.reqVote ((s.nodes n).term + 1) n d ((s.nodes n).log.length - 1) (lastTerm (s.nodes n).log) ∈ s'.msgs) ∧
      (∀ x ∈ s.msgs, x ∈ s'.msgs) ∧
      ((isMajority N 1 = true ∧ (s'.nodes n).role = .leader ∧
          (s'.nodes n).log = (s.nodes n).log ++ [⟨(s.nodes n).term + 1, 0⟩]) ∨
       (isMajority N 1 = false ∧ (s'.nodes n).role = .candidate ∧ (s'.nodes n).log = (s.nodes n).log ∧
          (s'.nodes n).votes = 1)) := by
  simp only [step]
  rw [if_pos ⟨h1, h2, h3⟩]
  have hreq : ∀ d ∈ dsts, Msg.reqVote ((s.nodes n).term + 1) n d ((s.nodes n).log.length - 1) (lastTerm (s.nodes n).log) ∈
      s.msgs ++ dsts.map (fun d => Msg.reqVote ((s.nodes n).term + 1) n d ((s.nodes n).log.length - 1) (lastTerm (s.nodes n).log)) :=
    fun d hd => List.mem_append_right _ (List.mem_map.mpr ⟨d, hd, rfl⟩)
  cases hmaj : isMajority N 1 with
  | true =>
    simp only [if_true]
    refine ⟨_, rfl, fun x hx => ?_, by simp, by simp, by simp, ?_, ?_, Or.inl ⟨trivial, by simp, by simp⟩⟩
    · rw [becomeLeader_nodes_ne _ _ hx]; simp [setNode, hx]
    · intro d hd; simpa using hreq d hd
    · intro x hx; simp; exact Or.inl hx
  | false =>
    simp only [Bool.false_eq_true, if_false]
    refine ⟨_, rfl, fun x hx => by simp [setNode, hx], by simp, by simp, by simp, ?_, ?_, Or.inr ⟨trivial, by simp, by simp, by simp⟩⟩
    · intro d hd; simpa using hreq d hd
    · intro x hx; simp; exact Or.inl hx

/-- A voter in an older term grants its vote to an up-to-date candidate. -/
theorem step_recvReqVote_grant {N : Nat} {s : State} {n t cand li lt : Nat} (hn : n < N) (hc : cand < N)
    (hne : cand ≠ n) (hm : Msg.reqVote t cand n li lt ∈ s.msgs) (ht : (s.nodes n).term < t)
    (hup : upToDate lt li (s.nodes n).log = true) :
    ∃ s', step N s (.recvReqVote n (.reqVote t cand n li lt)) = some s' ∧
      (∀ x, x ≠ n → s'.nodes x = s.nodes x) ∧
      (s'.nodes n).term = t ∧ (s'.nodes n).role = .follower ∧ (s'.nodes n).log = (s.nodes n).log ∧
      (s'.nodes n).commit = (s.nodes n).commit ∧ (s'.nodes n).applied = (s.nodes n).applied ∧
      s'.msgs = s.msgs.erase (.reqVote t cand n li lt) ++ [Msg.vote t n cand] := by
  simp only [step]
  rw [if_pos ⟨hn, trivial, hc, hne, hm⟩]
  have hb : bumpTerm (s.nodes n) t = { s.nodes n with term := t, votedFor := none, role := .follower } := by
    unfold bumpTerm; rw [if_pos ht]
  rw [hb]
  rw [if_pos ⟨by simp, by simp, by simpa using hup, by simp⟩]
  exact ⟨_, rfl, fun x hx => by simp [setNode, hx], by simp, by simp, by simp, by simp, by simp, rfl⟩

/-- A vote delivered to its candidate is counted; at a majority the candidate becomes leader and
appends the no-op of its term; a node that is no longer candidate of that term drops the vote. -/
theorem step_recvVote {N : Nat} {s : State} {n t voter : Nat} (hn : n < N)
    (hm : Msg.vote t voter n ∈ s.msgs) :
    ∃ s', step N s (.recvVote n (.vote t voter n)) = some s' ∧
      (∀ x, x ≠ n → s'.nodes x = s.nodes x) ∧
      s'.msgs = s.msgs.erase (.vote t voter n) ∧
      (s'.nodes n).term = (s.nodes n).term ∧ (s'.nodes n).commit = (s.nodes n).commit ∧
      (s'.nodes n).applied = (s.nodes n).applied ∧
      (((s.nodes n).role = .candidate ∧ t = (s.nodes n).term ∧ isMajority N ((s.nodes n).votes + 1) = true ∧
          (s'.nodes n).role = .leader ∧ (s'.nodes n).log = (s.nodes n).log ++ [⟨(s.nodes n).term, 0⟩]) ∨
       ((s.nodes n).role = .candidate ∧ t = (s.nodes n).term ∧ isMajority N ((s.nodes n).votes + 1) = false ∧
          (s'.nodes n).role = .candidate ∧ (s'.nodes n).log = (s.nodes n).log ∧
          (s'.nodes n).votes = (s.nodes n).votes + 1) ∨
       (¬ ((s.nodes n).role = .candidate ∧ t = (s.nodes n).term) ∧ s'.nodes n = s.nodes n)) := by
  simp only [step]
  rw [if_pos ⟨hn, trivial, hm⟩]
  by_cases hc : (s.nodes n).role = .candidate ∧ t = (s.nodes n).term
  · rw [if_pos hc]
    cases hmaj : isMajority N ((s.nodes n).votes + 1) with
    | true =>
      simp only [if_true]
      refine ⟨_, rfl, fun x hx => ?_, by simp, by simp, by simp, by simp, Or.inl ⟨hc.1, hc.2, trivial, by simp, by simp⟩⟩
      rw [becomeLeader_nodes_ne _ _ hx]; simp [setNode, hx]
    | false =>
      simp only [Bool.false_eq_true, if_false]
      exact ⟨_, rfl, fun x hx => by simp [setNode, hx], by simp, by simp, by simp, by simp,
        Or.inr (Or.inl ⟨hc.1, hc.2, trivial, by simp [hc.1], by simp, by simp⟩)⟩
  · rw [if_neg hc]
    exact ⟨_, rfl, fun _ _ => rfl, rfl, rfl, rfl, rfl, Or.inr (Or.inr ⟨hc, rfl⟩)⟩

theorem step_clientAppend {N : Nat} {s : State} {n cmd : Nat} (h1 : n < N) (h2 : (s.nodes n).role = .leader) :
    ∃ s', step N s (.clientAppend n cmd) = some s' ∧
      (∀ x, x ≠ n → s'.nodes x = s.nodes x) ∧
      s'.nodes n = { s.nodes n with log := (s.nodes n).log ++ [⟨(s.nodes n).term, cmd⟩] } ∧
      s'.msgs = s.msgs := by
  simp only [step]
  rw [if_pos ⟨h1, h2⟩]
  exact ⟨_, rfl, fun x hx => by simp [setNode, hx], by simp, rfl⟩

end PSO.Raft
