import PSO.Proofs.Batteries
import PSO.Proofs.BatteriesHeap
/-!
C15 helper lemmas, second part: priority queue ↔ sorted multiset, FIFO order, bounds,
serialisation round trips.
-/
namespace PSO.Batteries
open PSO.Py PSO.Py.PyHeap

/-! ### sorted insertion (the abstract priority queue) -/
theorem insertAsc_perm (x : Int) (l : List Int) : (insertAsc x l).Perm (x :: l) := by
  induction l with
  | nil => exact List.Perm.refl _
  | cons y ys ih =>
    simp only [insertAsc]
    split
    · exact List.Perm.refl _
    · exact (List.Perm.cons y ih).trans (List.Perm.swap x y ys)

theorem insertAsc_sorted (x : Int) (l : List Int) (h : l.Pairwise (· ≤ ·)) :
    (insertAsc x l).Pairwise (· ≤ ·) := by
  induction l with
  | nil => simp [insertAsc]
  | cons y ys ih =>
    simp only [insertAsc]
    rw [List.pairwise_cons] at h
    split
    · rename_i hxy
      rw [List.pairwise_cons]
      refine ⟨?_, List.pairwise_cons.mpr h⟩
      intro z hz
      rcases List.mem_cons.mp hz with rfl | hz
      · exact hxy
      · exact Int.le_trans hxy (h.1 z hz)
    · rename_i hxy
      rw [List.pairwise_cons]
      refine ⟨?_, ih h.2⟩
      intro z hz
      have := (insertAsc_perm x ys).mem_iff.mp hz
      rcases List.mem_cons.mp this with rfl | hz
      · omega
      · exact h.1 z hz

/-! ### priority queue -/
/-- simulation relation battery (heap array) ↔ abstract bounded priority queue (ascending list) -/
def PQRel (s : ReplPriorityQueue.State) (q : PyQueue.Q) : Prop :=
  s.maxsize = q.maxsize ∧ IsHeap s.data ∧ s.data.Perm q.data ∧ q.data.Pairwise (· ≤ ·)

theorem pq_step (s : ReplPriorityQueue.State) (q : PyQueue.Q) (o : QueueOp) (h : PQRel s q) :
    PQRel (ReplPriorityQueue.step s o).1 (RefPQ.step q o).1 ∧
    (ReplPriorityQueue.step s o).2 = (RefPQ.step q o).2 := by
  obtain ⟨m, d⟩ := s
  obtain ⟨m', d'⟩ := q
  obtain ⟨h1, hheap, hperm, hsort⟩ := h
  simp only at h1 hheap hperm hsort
  subst h1
  have hlen : d.length = d'.length := hperm.length_eq
  cases o with
  | qsize => simp [ReplPriorityQueue.step, RefPQ.step, PQRel, *]
  | len => simp [ReplPriorityQueue.step, RefPQ.step, PQRel, *]
  | empty =>
    refine ⟨⟨rfl, hheap, hperm, hsort⟩, ?_⟩
    simp only [ReplPriorityQueue.step, RefPQ.step, hlen]
    cases d' <;> simp
  | full =>
    refine ⟨⟨rfl, hheap, hperm, hsort⟩, ?_⟩
    simp only [ReplPriorityQueue.step, RefPQ.step, PyQueue.full, hlen]
    simp [Bool.decide_and]
  | put x =>
    have e1 : ReplPriorityQueue.step ⟨m, d⟩ (.put x) =
        if (m ≠ 0 ∧ d.length ≥ m) then (⟨m, d⟩, .ok (.bool false))
        else (⟨m, heappush d x⟩, .ok (.bool true)) := rfl
    have e2 : RefPQ.step ⟨m, d'⟩ (.put x) =
        if PyQueue.full ⟨m, d'⟩ then (⟨m, d'⟩, .ok (.bool false))
        else (⟨m, insertAsc x d'⟩, .ok (.bool true)) := rfl
    by_cases hf : 0 < m ∧ m ≤ d'.length
    · have c1 : m ≠ 0 ∧ d.length ≥ m := by omega
      have c2 : PyQueue.full ⟨m, d'⟩ = true := by simp [PyQueue.full, hf]
      rw [e1, e2, if_pos c1, if_pos c2]
      exact ⟨⟨rfl, hheap, hperm, hsort⟩, rfl⟩
    · have c1 : ¬ (m ≠ 0 ∧ d.length ≥ m) := by omega
      have c2 : ¬ (PyQueue.full ⟨m, d'⟩ = true) := by simp [PyQueue.full]; omega
      rw [e1, e2, if_neg c1, if_neg c2]
      refine ⟨⟨rfl, heappush_isHeap d x hheap, ?_, insertAsc_sorted x d' hsort⟩, rfl⟩
      exact (heappush_perm d x).trans ((List.Perm.cons x hperm).trans (insertAsc_perm x d').symm)
  | get dflt =>
    cases d' with
    | nil =>
      have : d = [] := List.length_eq_zero_iff.mp (by simpa using hlen)
      subst this
      exact ⟨⟨rfl, hheap, hperm, hsort⟩, rfl⟩
    | cons y r =>
      have hne : d ≠ [] := by intro e; subst e; simp at hlen
      obtain ⟨x, h', hpop, _, hmin, hp, hh'⟩ := heappop_spec d hne hheap
      have hemp : d.isEmpty = false := by cases d <;> simp_all
      simp only [ReplPriorityQueue.step, RefPQ.step, hemp, hpop]
      -- the root is the head of the ascending list
      have hxy : x = y := by
        have hy : y ∈ d := hperm.mem_iff.mpr (List.mem_cons_self)
        have hx : x ∈ y :: r := hperm.mem_iff.mp (hp.mem_iff.mpr (List.mem_cons_self))
        have h1 : x ≤ y := hmin y hy
        have h2 : y ≤ x := by
          rcases List.mem_cons.mp hx with e | hx
          · omega
          · exact (List.pairwise_cons.mp hsort).1 x hx
        omega
      subst hxy
      refine ⟨⟨rfl, hh', ?_, (List.pairwise_cons.mp hsort).2⟩, rfl⟩
      exact List.Perm.cons_inv (hp.symm.trans hperm)

/-! ### FIFO order (ghost traces computed from the very `step`) -/
/-- items accepted by `put` (result `True`), in call order -/
def accepted : ReplQueue.State → List QueueOp → List Int
  | _, [] => []
  | s, o :: os =>
    (match o, (ReplQueue.step s o).2 with
      | .put x, .ok (.bool true) => [x]
      | _, _ => []) ++ accepted (ReplQueue.step s o).1 os

/-- items returned by `get` on a non-empty queue, in call order -/
def delivered : ReplQueue.State → List QueueOp → List Int
  | _, [] => []
  | s, o :: os =>
    (match o, s.data, (ReplQueue.step s o).2 with
      | .get _, _ :: _, .ok (.int y) => [y]
      | _, _, _ => []) ++ delivered (ReplQueue.step s o).1 os

theorem queue_put_reject (m : Nat) (d : List Int) (x : Int) (h : m ≠ 0 ∧ d.length ≥ m) :
    ReplQueue.step ⟨m, d⟩ (.put x) = (⟨m, d⟩, .ok (.bool false)) := by
  simp only [ReplQueue.step]; rw [if_pos h]

theorem queue_put_accept (m : Nat) (d : List Int) (x : Int) (h : ¬ (m ≠ 0 ∧ d.length ≥ m)) :
    ReplQueue.step ⟨m, d⟩ (.put x) = (⟨m, d ++ [x]⟩, .ok (.bool true)) := by
  simp only [ReplQueue.step]; rw [if_neg h]; rfl

theorem queue_get_nil (m : Nat) (dflt : Option Int) :
    ReplQueue.step ⟨m, []⟩ (.get dflt) = (⟨m, []⟩, .ok (optVal dflt)) := rfl

theorem queue_get_cons (m : Nat) (y : Int) (r : List Int) (dflt : Option Int) :
    ReplQueue.step ⟨m, y :: r⟩ (.get dflt) = (⟨m, r⟩, .ok (.int y)) := rfl

theorem fifo_order (ops : List QueueOp) (s : ReplQueue.State) :
    s.data ++ accepted s ops = delivered s ops ++ (runOps ReplQueue.step s ops).1.data := by
  induction ops generalizing s with
  | nil => simp [accepted, delivered, runOps_nil]
  | cons o os ih =>
    simp only [accepted, delivered, runOps_cons]
    obtain ⟨m, d⟩ := s
    cases o with
    | put x =>
      by_cases hf : m ≠ 0 ∧ d.length ≥ m
      · rw [queue_put_reject m d x hf]
        have ih' := ih ⟨m, d⟩
        cases d <;> simpa using ih'
      · rw [queue_put_accept m d x hf]
        have ih' := ih ⟨m, d ++ [x]⟩
        cases d <;> simpa [List.append_assoc] using ih'
    | get dflt =>
      cases d with
      | nil => rw [queue_get_nil]; simpa using ih ⟨m, []⟩
      | cons y r => rw [queue_get_cons]; simpa using ih ⟨m, r⟩
    | qsize => have ih' := ih ⟨m, d⟩; simp only [ReplQueue.step] at ih' ⊢; cases d <;> simpa using ih'
    | empty => have ih' := ih ⟨m, d⟩; simp only [ReplQueue.step] at ih' ⊢; cases d <;> simpa using ih'
    | len => have ih' := ih ⟨m, d⟩; simp only [ReplQueue.step] at ih' ⊢; cases d <;> simpa using ih'
    | full => have ih' := ih ⟨m, d⟩; simp only [ReplQueue.step] at ih' ⊢; cases d <;> simpa using ih'

/-! ### bounds -/
def QBounded (s : ReplQueue.State) : Prop := 0 < s.maxsize → s.data.length ≤ s.maxsize

theorem queue_step_maxsize (s : ReplQueue.State) (o : QueueOp) : (ReplQueue.step s o).1.maxsize = s.maxsize := by
  cases o <;> simp only [ReplQueue.step]
  · split <;> rfl
  · cases PyDeque.popleft s.data with
    | error e => rfl
    | ok p => rfl

theorem queue_step_bounded (s : ReplQueue.State) (o : QueueOp) (h : QBounded s) : QBounded (ReplQueue.step s o).1 := by
  intro hm
  rw [queue_step_maxsize] at hm ⊢
  have := h hm
  obtain ⟨m, d⟩ := s
  cases o with
  | put x =>
    simp only [ReplQueue.step]
    split
    · exact this
    · rename_i hn; simp only [PyDeque.append, List.length_append, List.length_singleton]; simp only at hm this; omega
  | get dflt =>
    cases d with
    | nil => simp [ReplQueue.step, PyDeque.popleft]
    | cons y r => simp only [ReplQueue.step, PyDeque.popleft]; simp only [List.length_cons] at this; omega
  | _ => exact this

theorem siftup_length (a : List Int) (pos : Nat) : (siftup a pos).length = a.length := by
  rw [siftup_eq, siftdown_length, siftupLoop_length]

theorem heappush_length (a : List Int) (x : Int) : (heappush a x).length = a.length + 1 := by
  simp [heappush, siftdown_length]

theorem heappop_length (a : List Int) (x : Int) (r : List Int) (h : heappop a = .ok (x, r)) :
    r.length + 1 = a.length := by
  rcases List.eq_nil_or_concat a with rfl | ⟨b, last, rfl⟩
  · simp [heappop] at h
  · rw [List.concat_eq_append] at *
    simp only [heappop, List.getLast?_append, List.getLast?_singleton, Option.some_or,
      List.dropLast_concat] at h
    split at h
    · injection h with h; injection h with _ h; subst h; simp [siftup_length]
    · injection h with h; injection h with _ h; subst h
      rename_i hb
      simp at hb ⊢

def PQBounded (s : ReplPriorityQueue.State) : Prop := 0 < s.maxsize → s.data.length ≤ s.maxsize

theorem pq_step_maxsize (s : ReplPriorityQueue.State) (o : QueueOp) :
    (ReplPriorityQueue.step s o).1.maxsize = s.maxsize := by
  cases o <;> simp only [ReplPriorityQueue.step]
  · split <;> rfl
  · split
    · rfl
    · cases heappop s.data with
      | error e => rfl
      | ok p => rfl

theorem pq_step_bounded (s : ReplPriorityQueue.State) (o : QueueOp) (h : PQBounded s) :
    PQBounded (ReplPriorityQueue.step s o).1 := by
  intro hm
  rw [pq_step_maxsize] at hm ⊢
  have := h hm
  obtain ⟨m, d⟩ := s
  cases o with
  | put x =>
    simp only [ReplPriorityQueue.step]
    split
    · exact this
    · rename_i hn; simp only [heappush_length]; simp only at hm this; omega
  | get dflt =>
    simp only [ReplPriorityQueue.step]
    split
    · exact this
    · cases hp : heappop d with
      | error e => exact this
      | ok p =>
        obtain ⟨x, r⟩ := p
        have := heappop_length d x r hp
        simp only at *; omega
  | _ => exact this

/-! ### serialisation round trips (pickle assumed to be the identity on values) -/
theorem counter_roundtrip (s f : ReplCounter.State) : ReplCounter.deserialize (ReplCounter.serialize s) f = s := by
  simp [ReplCounter.deserialize, ReplCounter.serialize, attr]
theorem list_roundtrip (s f : ReplList.State) : ReplList.deserialize (ReplList.serialize s) f = s := by
  simp [ReplList.deserialize, ReplList.serialize, attr]
theorem dict_roundtrip (s f : ReplDict.State) : ReplDict.deserialize (ReplDict.serialize s) f = s := by
  simp [ReplDict.deserialize, ReplDict.serialize, attr]
theorem set_roundtrip (s f : ReplSet.State) : ReplSet.deserialize (ReplSet.serialize s) f = s := by
  simp [ReplSet.deserialize, ReplSet.serialize, attr]
theorem queue_roundtrip (s f : ReplQueue.State) : ReplQueue.deserialize (ReplQueue.serialize s) f = s := by
  simp [ReplQueue.deserialize, ReplQueue.serialize, attr]
theorem pq_roundtrip (s f : ReplPriorityQueue.State) :
    ReplPriorityQueue.deserialize (ReplPriorityQueue.serialize s) f = s := by
  simp [ReplPriorityQueue.deserialize, ReplPriorityQueue.serialize, attr]

end PSO.Batteries
