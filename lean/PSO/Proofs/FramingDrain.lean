import PSO.Proofs.FramingDuplex

/-! The write buffer drains on its own (repair D76): whenever bytes are pending on an open connection the
descriptor is subscribed for WRITE, and every WRITE event on a socket that takes at least one byte shortens
the buffer, so `|wbuf|` such events empty it — without any further `send`. -/
namespace PSO.Framing

variable {Msg : Type}

/-- WRITE interest is registered whenever the poller has to come back for writing: while the connect is in
flight, and while bytes are pending on a CONNECTED connection -/
def Armed (c : Conn Msg) : Prop :=
  (c.state = .connecting → c.pollMask = some 7) ∧
  (c.state = .connected → c.wbuf ≠ [] → c.pollMask = some 7)

/-- `c'` is `c` disconnected, or has the same state, write buffer and subscription -/
def Keep (c c' : Conn Msg) : Prop :=
  c'.state = .disconnected ∨ (c'.state = c.state ∧ c'.wbuf = c.wbuf ∧ c'.pollMask = c.pollMask)

theorem Armed_of_disconnected {c : Conn Msg} (h : c.state = .disconnected) : Armed c := by
  constructor
  · intro h'; rw [h] at h'; cases h'
  · intro h'; rw [h] at h'; cases h'

theorem Keep.refl (c : Conn Msg) : Keep c c := Or.inr ⟨rfl, rfl, rfl⟩

theorem Keep.trans {a b c : Conn Msg} (h1 : Keep a b) (h2 : Keep b c) : Keep a c := by
  rcases h2 with h2 | ⟨s2, w2, p2⟩
  · exact Or.inl h2
  · rcases h1 with h1 | ⟨s1, w1, p1⟩
    · exact Or.inl (s2.trans h1)
    · exact Or.inr ⟨s2.trans s1, w2.trans w1, p2.trans p1⟩

theorem Keep.armed {c c' : Conn Msg} (h : Keep c c') (ha : Armed c) : Armed c' := by
  rcases h with h | ⟨s, w, p⟩
  · exact Armed_of_disconnected h
  · exact ⟨fun h' => by rw [p]; exact ha.1 (s ▸ h'), fun h' hw => by rw [p]; exact ha.2 (s ▸ h') (w ▸ hw)⟩

theorem Armed_disconnect (c : Conn Msg) : Armed (disconnect c) := Armed_of_disconnected rfl

theorem Keep_disconnect (c : Conn Msg) : Keep c (disconnect c) := Or.inl rfl

theorem Keep_timeoutCheck (cfg : Cfg Msg) (c : Conn Msg) (now : Nat) : Keep c (timeoutCheck cfg c now) := by
  unfold timeoutCheck; split
  · exact Keep_disconnect c
  · exact Keep.refl c

theorem Keep_recvLoop (r : List RecvRes) : ∀ c : Conn Msg, Keep c (recvLoop c r) := by
  induction r with
  | nil => intro c; exact Keep.refl c
  | cons x rest ih =>
    intro c
    cases x with
    | again => exact Keep.refl c
    | err => exact Keep_disconnect c
    | data bs so =>
      unfold recvLoop
      split
      · exact Keep_disconnect c
      · split
        · exact Keep_disconnect c
        · exact Keep.trans (Or.inr ⟨rfl, rfl, rfl⟩) (ih _)

theorem Keep_parseLoop (cfg : Cfg Msg) (c : Conn Msg) : Keep c (parseLoop cfg c) := by
  refine parseLoop_induct cfg (fun c c' => Keep c c') ?_ ?_ ?_ ?_ c
  · intro c _; exact Keep.refl c
  · intro c _; exact Keep_disconnect c
  · intro c m rest _ _; exact Or.inl rfl
  · intro c m rest _ _ ih; exact Keep.trans (Or.inr ⟨rfl, rfl, rfl⟩) ih

theorem Keep_readPart (cfg : Cfg Msg) (c : Conn Msg) (now : Nat) (r : List RecvRes) :
    Keep c (readPart cfg c now r) := by
  unfold readPart
  simp only
  have h1 : Keep c ({ recvLoop c r with lastRead := now } : Conn Msg) :=
    Keep.trans (Keep_recvLoop r c) (Or.inr ⟨rfl, rfl, rfl⟩)
  split
  · exact h1
  · exact Keep.trans h1 (Keep_parseLoop cfg _)

/-- the send loop never changes state or subscription, except by disconnecting -/
theorem sendLoop_keepMask (s : List SendRes) : ∀ c : Conn Msg,
    (sendLoop c s).state = .disconnected ∨
      ((sendLoop c s).state = c.state ∧ (sendLoop c s).pollMask = c.pollMask) := by
  induction s with
  | nil => intro c; exact Or.inr ⟨rfl, rfl⟩
  | cons r rest ih =>
    intro c
    unfold sendLoop
    split
    · exact Or.inr ⟨rfl, rfl⟩
    · cases r with
      | again => exact Or.inr ⟨rfl, rfl⟩
      | err => exact Or.inl rfl
      | ret k =>
        simp only
        split
        · exact Or.inl rfl
        · split
          · exact Or.inr ⟨rfl, rfl⟩
          · exact ih _

/-- `__trySendBuffer` re-arms: its result is `Armed` as soon as a connect in flight was subscribed -/
theorem Armed_trySend (cfg : Cfg Msg) (c : Conn Msg) (now : Nat) (s : List SendRes)
    (hc : c.state = .connecting → c.pollMask = some 7) : Armed (trySend cfg c now s) := by
  unfold trySend
  simp only
  split
  · rename_i hd
    exact Armed_of_disconnected hd
  · rename_i hnd
    have ht : (timeoutCheck cfg c now) = c := by
      unfold timeoutCheck at hnd ⊢
      split
      · rename_i hgt; simp [hgt, disconnect] at hnd
      · rfl
    rw [ht]
    split
    · rename_i hcond
      refine ⟨fun h => ?_, fun _ _ => rfl⟩
      have h' : (sendLoop c s).state = .connecting := h
      rw [hcond.2] at h'
    · rename_i hcond
      rcases sendLoop_keepMask s c with hd | ⟨hs, hp⟩
      · exact Armed_of_disconnected hd
      · refine ⟨fun h => by rw [hp]; exact hc (hs ▸ h), fun h hw => ?_⟩
        exact absurd ⟨hw, h⟩ hcond

theorem trySend_state (cfg : Cfg Msg) (c : Conn Msg) (now : Nat) (s : List SendRes) :
    (trySend cfg c now s).state = .disconnected ∨ (trySend cfg c now s).state = c.state := by
  unfold trySend
  simp only
  split
  · rename_i hd; exact Or.inl hd
  · rename_i hnd
    have ht : (timeoutCheck cfg c now) = c := by
      unfold timeoutCheck at hnd ⊢
      split
      · rename_i hgt; simp [hgt, disconnect] at hnd
      · rfl
    rw [ht]
    rcases sendLoop_keepMask s c with hd | ⟨hs, _⟩
    · left; split <;> exact hd
    · right; split <;> exact hs

theorem Armed_writePart (cfg : Cfg Msg) (c : Conn Msg) (now : Nat) (s : List SendRes)
    (hc : c.state = .connected) : Armed (writePart cfg c now s) := by
  unfold writePart
  simp only
  split
  · rename_i hd
    exact Armed_of_disconnected hd
  · rename_i hnd
    have hs : (trySend cfg c now s).state = .connected := by
      rcases trySend_state cfg c now s with h | h
      · exact absurd h hnd
      · exact h.trans hc
    refine ⟨fun h => ?_, fun _ hw => ?_⟩
    · have : (trySend cfg c now s).state = .connecting := h
      rw [hs] at this; cases this
    · have hw' : (trySend cfg c now s).wbuf ≠ [] := hw
      show some (if (trySend cfg c now s).wbuf = [] then 5 else 7) = some 7
      rw [if_neg hw']

theorem Armed_send (cfg : Cfg Msg) (c : Conn Msg) (m : Msg) (now : Nat) (s : List SendRes) (h : Armed c) :
    Armed (send cfg c m now s) := by
  unfold send
  split
  · exact Armed_trySend cfg _ now s h.1
  · exact h

theorem Armed_poll (cfg : Cfg Msg) (c : Conn Msg) (e : PollEv) (h : Armed c) : Armed (poll cfg c e) := by
  unfold poll
  split
  · exact h
  · split
    · exact Armed_disconnect c
    · simp only
      have ht := (Keep_timeoutCheck cfg c e.now).armed h
      split
      · exact ht
      · rename_i hnd
        split
        · exact Armed_disconnect _
        · split
          · rename_i hcg
            have hcg' : (timeoutCheck cfg c e.now).state = .connecting := by
              simp only [Bool.and_eq_true, decide_eq_true_eq] at hcg; exact hcg.2
            split
            · exact Armed_disconnect _
            · exact ⟨(fun hx => by cases hx), fun _ _ => ht.1 hcg'⟩
          · rename_i hncg
            have key : ∀ c1 : Conn Msg, Armed c1 →
                Armed (if c1.state = .disconnected then c1
                       else if e.rd then readPart cfg c1 e.now e.recvs else c1) := by
              intro c1 h1
              split
              · exact h1
              · split
                · exact (Keep_readPart cfg c1 e.now e.recvs).armed h1
                · exact h1
            cases hwr : e.wr with
            | false => simpa [hwr] using key _ ht
            | true =>
              have hst : (timeoutCheck cfg c e.now).state = .connected := by
                simp only [hwr, Bool.or_true, Bool.true_and, decide_eq_true_eq] at hncg
                cases hs : (timeoutCheck cfg c e.now).state with
                | disconnected => exact absurd hs hnd
                | connecting => exact absurd hs hncg
                | connected => rfl
              simpa [hwr] using key _ (Armed_writePart cfg _ e.now e.sends hst)

theorem Armed_step (cfg : Cfg Msg) (c : Conn Msg) (ev : Ev Msg) (h : Armed c) : Armed (step cfg c ev) := by
  cases ev with
  | send m now s => exact Armed_send cfg c m now s h
  | poll e => exact Armed_poll cfg c e h
  | disconnect => exact Armed_disconnect c
  | connect ok now =>
    cases ok with
    | true => exact ⟨fun _ => rfl, fun hx => by cases hx⟩
    | false => exact Armed_of_disconnected rfl

theorem Armed_run (cfg : Cfg Msg) (evs : List (Ev Msg)) : ∀ c : Conn Msg, Armed c → Armed (run cfg c evs) := by
  induction evs with
  | nil => intro c h; exact h
  | cons ev evs ih => intro c h; exact ih _ (Armed_step cfg c ev h)

theorem Armed_init (sock : Bool) (now : Nat) : Armed (Conn.init sock now : Conn Msg) := by
  cases sock with
  | true => exact ⟨(fun hx => by cases hx), fun _ hw => absurd rfl hw⟩
  | false => exact Armed_of_disconnected rfl

/-! ### progress of one WRITE event -/

/-- the socket is writable: the first `send` takes at least one byte; nothing fails afterwards -/
def Writable (s : List SendRes) : Prop :=
  ∃ k rest, s = .ret k :: rest ∧ 1 ≤ k ∧ ∀ r ∈ rest, BenignSend r

/-- a WRITE-only poller event -/
def writeEv (now : Nat) (s : List SendRes) : Ev Msg :=
  .poll { descrOk := true, rd := false, wr := true, er := false, now := now, soErr := false,
          onConnDisc := false, sends := s, recvs := [] }

theorem sendLoop_benign_bytes (s : List SendRes) : ∀ (c : Conn Msg), (∀ r ∈ s, BenignSend r) →
    (sendLoop c s).state = c.state ∧ (sendLoop c s).lastRead = c.lastRead ∧
    (sendLoop c s).wire ++ (sendLoop c s).wbuf = c.wire ++ c.wbuf ∧
    (sendLoop c s).wbuf.length ≤ c.wbuf.length := by
  induction s with
  | nil => intro c _; exact ⟨rfl, rfl, rfl, Nat.le_refl _⟩
  | cons r rest ih =>
    intro c hb
    unfold sendLoop
    split
    · exact ⟨rfl, rfl, rfl, Nat.le_refl _⟩
    · have hr := hb r (by simp)
      cases r with
      | again => exact ⟨rfl, rfl, rfl, Nat.le_refl _⟩
      | err => exact absurd hr (by simp [BenignSend])
      | ret k =>
        simp only [BenignSend] at hr
        have : ¬ k < 0 := by omega
        simp only [this, if_false]
        split
        · exact ⟨rfl, rfl, rfl, Nat.le_refl _⟩
        · obtain ⟨h1, h2, h3, h4⟩ := ih { c with wbuf := c.wbuf.drop k.toNat, wire := c.wire ++ c.wbuf.take k.toNat }
            (fun r' hr' => hb r' (by simp [hr']))
          refine ⟨h1, h2, ?_, ?_⟩
          · rw [h3]; simp [List.append_assoc]
          · simp only [List.length_drop] at h4; omega

theorem sendLoop_writable (s : List SendRes) (c : Conn Msg) (hw : Writable s) :
    (sendLoop c s).state = c.state ∧ (sendLoop c s).lastRead = c.lastRead ∧
    (sendLoop c s).wire ++ (sendLoop c s).wbuf = c.wire ++ c.wbuf ∧
    (sendLoop c s).wbuf.length ≤ c.wbuf.length - 1 := by
  obtain ⟨k, rest, rfl, hk, hb⟩ := hw
  unfold sendLoop
  split
  · rename_i he
    exact ⟨rfl, rfl, rfl, by simp [he]⟩
  · have h1 : ¬ k < 0 := by omega
    have h2 : ¬ k = 0 := by omega
    simp only [h1, h2, if_false]
    obtain ⟨a1, a2, a3, a4⟩ := sendLoop_benign_bytes rest
      { c with wbuf := c.wbuf.drop k.toNat, wire := c.wire ++ c.wbuf.take k.toNat } hb
    refine ⟨a1, a2, ?_, ?_⟩
    · rw [a3]; simp [List.append_assoc]
    · simp only [List.length_drop] at a4
      have : 1 ≤ k.toNat := by omega
      omega

theorem step_writeEv (cfg : Cfg Msg) (c : Conn Msg) (now : Nat) (s : List SendRes)
    (hc : c.state = .connected) (ht : now ≤ c.lastRead + cfg.timeout) (hw : Writable s) :
    (step cfg c (writeEv now s)).state = .connected ∧
    (step cfg c (writeEv now s)).lastRead = c.lastRead ∧
    (step cfg c (writeEv now s)).wire ++ (step cfg c (writeEv now s)).wbuf = c.wire ++ c.wbuf ∧
    (step cfg c (writeEv now s)).wbuf.length ≤ c.wbuf.length - 1 ∧
    (step cfg c (writeEv now s)).pollMask = some (if (step cfg c (writeEv now s)).wbuf = [] then 5 else 7) ∧
    Sim (step cfg c (writeEv now s)) c := by
  have ht' : ¬ now > c.lastRead + cfg.timeout := by omega
  obtain ⟨a1, a2, a3, a4⟩ := sendLoop_writable s c hw
  have hs : (sendLoop c s).state = .connected := a1.trans hc
  have hb : ∀ r ∈ s, BenignSend r := by
    obtain ⟨k, rest, rfl, hk, hb⟩ := hw
    intro r hr
    rcases List.mem_cons.mp hr with rfl | hr
    · simp only [BenignSend]; omega
    · exact hb r hr
  have hsim := sendLoop_benign s c hb
  have htc : timeoutCheck cfg c now = c := by unfold timeoutCheck; rw [if_neg ht']
  have hts : trySend cfg c now s =
      if (sendLoop c s).wbuf ≠ [] ∧ (sendLoop c s).state = .connected then
        { sendLoop c s with pollMask := some 7 } else sendLoop c s := by
    unfold trySend; simp only [htc]; rw [if_neg (by rw [hc]; decide)]
  have htss : (trySend cfg c now s).state = .connected := by rw [hts]; split <;> exact hs
  have hwp : writePart cfg c now s =
      { sendLoop c s with pollMask := some (if (sendLoop c s).wbuf = [] then 5 else 7) } := by
    unfold writePart; simp only; rw [if_neg (by rw [htss]; decide), hts]; split <;> rfl
  have e : step cfg c (writeEv now s) =
      { sendLoop c s with pollMask := some (if (sendLoop c s).wbuf = [] then 5 else 7) } := by
    have hwps : (writePart cfg c now s).state = .connected := by rw [hwp]; exact hs
    rw [← hwp]
    simp [step, writeEv, poll, hc, htc, hwps]
  rw [e]
  exact ⟨hs, a2, a3, a4, rfl, ⟨hsim.state, hsim.delivered, hsim.nDisc, hsim.lastRead, hsim.rbuf⟩⟩

/-- **the write buffer drains**: WRITE events on a writable socket, at least as many as there are pending
bytes, no time-out, no further `send` -/
theorem run_writeEvs (cfg : Cfg Msg) (evs : List (Nat × List SendRes)) : ∀ (c : Conn Msg),
    c.state = .connected → (∀ e ∈ evs, Writable e.2) → (∀ e ∈ evs, e.1 ≤ c.lastRead + cfg.timeout) →
    c.wbuf.length ≤ evs.length →
    (run cfg c (evs.map fun e => writeEv e.1 e.2)).wbuf = [] ∧
    (run cfg c (evs.map fun e => writeEv e.1 e.2)).wire = c.wire ++ c.wbuf ∧
    (run cfg c (evs.map fun e => writeEv e.1 e.2)).state = .connected ∧
    Sim (run cfg c (evs.map fun e => writeEv e.1 e.2)) c := by
  induction evs with
  | nil =>
    intro c hc _ _ hl
    have : c.wbuf = [] := List.eq_nil_of_length_eq_zero (by simpa using hl)
    simp [run, this, hc, Sim.refl]
  | cons e evs ih =>
    intro c hc hw ht hl
    obtain ⟨b1, b2, b3, b4, _, b6⟩ := step_writeEv cfg c e.1 e.2 hc (ht e (by simp)) (hw e (by simp))
    have := ih (step cfg c (writeEv e.1 e.2)) b1 (fun e' he' => hw e' (by simp [he']))
      (fun e' he' => by rw [b2]; exact ht e' (by simp [he'])) (by simp at hl; omega)
    simp only [run, List.map_cons, List.foldl_cons] at this ⊢
    obtain ⟨c1, c2, c3, c4⟩ := this
    refine ⟨c1, ?_, c3, c4.trans b6⟩
    rw [c2, b3]

end PSO.Framing
